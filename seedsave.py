#!/usr/bin/env python3
"""Developer aid: store a confirmed sub-agent change under /verif/seeded/<prop>-<v>/ with meta.json.
usage: seedsave.py <ID> <a|b> "<what it needs to manifest>" """
import json, os, shutil, subprocess, sys
ID, V, needs = sys.argv[1], sys.argv[2], sys.argv[3]
src = f"/tmp/wt/{ID}/SEED/{V}"
dst = f"/verif/seeded/{ID}-{V}"
os.makedirs(dst, exist_ok=True)
for f in os.listdir(src):
    if os.path.isfile(os.path.join(src, f)):
        shutil.copy(os.path.join(src, f), os.path.join(dst, f))
# Go must not pick the demo up as a package of /verif tooling: keep the name but it lives outside any module
conf = subprocess.run(["/verif/seedconfirm.sh", ID, V], capture_output=True, text=True).stdout.strip().splitlines()
chk = subprocess.run(["/verif/seedcheck.sh", os.path.join(dst, "patch.diff")], capture_output=True, text=True).stdout
by = {}
for line in chk.splitlines():
    if line.startswith("== "):
        parts = line.split()
        prop = parts[1]
        rule = [x for x in parts if x.startswith("rule=")]
        by.setdefault(prop, [])
        if rule:
            by[prop].append(rule[0].replace("rule=", ""))
meta = {
 "property": ID, "variant": V, "origin": "independent sub-agent given only the property text and a scratch worktree",
 "needs_to_manifest": needs,
 "confirmed": conf[-1] if conf else "?", "confirmation_steps": conf[:-1],
 "what_i_ran": ["seedconfirm.sh: demo on unchanged worktree (pass), git apply patch, go build ./..., existing suite (pass), demo (fail), git checkout", "seedcheck.sh: every ./check quick rule set on a scratch copy of /repo + patch"],
 "reported_by": {k: sorted(set(v)) for k, v in by.items()},
 "own_check_reports_it": ID in by,
}
json.dump(meta, open(os.path.join(dst, "meta.json"), "w"), indent=1)
print(ID, V, meta["confirmed"], "own-check:", meta["own_check_reports_it"], {k: sorted(set(v)) for k, v in by.items()})
