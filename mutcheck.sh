#!/bin/sh
# Developer aid: run all checks (or the given properties) on /repo + one catalogue variant.   usage: ./mutcheck.sh <variant-id> [property ...]
cd "$(dirname "$0")" || exit 2
id=$1; shift
D=$(mktemp -d /tmp/mutchk.XXXXXX)
rsync -a --exclude .git /repo/ "$D"/ || exit 2
python3 - "$id" "$D" <<'PY' || { rm -rf "$D"; exit 2; }
import json,glob,sys,subprocess,os
vid,D=sys.argv[1],sys.argv[2]
for f in glob.glob('/verif/mutants/c[0-9][0-9].json'):
    for m in json.load(open(f)):
        if m['id']==vid:
            if m.get('patch'):
                subprocess.check_call(['patch','-p1','-s','-d',D,'-i',os.path.join('/verif',m['patch'])])
            else:
                edits=[m]+(m.get('edits') or [])
                for e in edits:
                    p=os.path.join(D,e['file']); s=open(p).read()
                    assert e['find'] in s, 'find text not present'
                    open(p,'w').write(s.replace(e['find'],e['replace'],1))
            sys.exit(0)
sys.exit('variant not found')
PY
export GOFLAGS=-mod=mod GOPROXY=off GOSUMDB=off GOWORK=off GOTOOLCHAIN=local IOCVET_NO_SELFTEST=1
if [ -z "$*" ]; then
  ./bin/iocvet -repo "$D" -verif "$PWD" all 2>&1 | sed "s#$D/##g" | cut -c1-600
else
  for p in "$@"; do ./bin/iocvet -repo "$D" -verif "$PWD" -no-evidence "$p" 2>&1 | grep -E '^(VIOLATED|UNDECIDED)' | sed "s#$D/##g" | cut -c1-900; done
fi
rm -rf "$D"
