package triage

import (
	"errors"
	"fmt"
	"testing"
	"time"

	"github.com/go-kid/ioc/app"
	"github.com/go-kid/ioc/configure/loader"
	"github.com/go-kid/ioc/syslog"
)

type I interface{ Act() }
type A struct{ N string }

func (a *A) Act() {}

type B struct{ N string }

func run(ops ...app.SettingOption) (a *app.App, err error, pan any) {
	defer func() { pan = recover() }()
	a = app.NewApp()
	err = a.Run(append(ops, app.LogLevel(syslog.LvFatal))...)
	return
}

func TestOptionalByNameAbsent(t *testing.T) {
	type T struct {
		X *A `wire:"nope,required=false"`
	}
	_, err, p := run(app.SetComponents(&T{}))
	fmt.Println("OptionalByNameAbsent err=", err, "panic=", p)
}

func TestByNameWrongType(t *testing.T) {
	type T struct {
		X *A `wire:"bee"`
	}
	_, err, p := run(app.SetComponents(&T{}, &named{N: "bee"}))
	fmt.Println("ByNameWrongType err=", err, "panic=", p)
}

type named struct{ N string }

func (n *named) Naming() string { return n.N }

type Q struct {
	N, G string
}

func (q *Q) Naming() string    { return q.N }
func (q *Q) Qualifier() string { return q.G }
func (q *Q) Act()              {}

type J interface{ Nope() }

func TestOptionalSwitchesOff(t *testing.T) {
	wrong := 0
	for i := 0; i < 50; i++ {
		type T struct {
			O J `wire:",required=false"`
			X I `wire:",qualifier=g1"`
		}
		tt := &T{}
		_, err, p := run(app.SetComponents(tt, &Q{"a", "g1"}, &Q{"b", "g2"}, &Q{"c", "g2"}, &Q{"d", "g2"}))
		if err != nil || p != nil {
			fmt.Println("err", err, p)
		}
		if tt.X.(*Q).G != "g1" {
			wrong++
		}
	}
	fmt.Println("OptionalSwitchesOff wrong=", wrong, "/50")
}

type S struct {
	Self I `wire:""`
}

func (s *S) Act() {}

func TestSelfCandidate(t *testing.T) {
	fails := 0
	for i := 0; i < 50; i++ {
		_, err, p := run(app.SetComponents(&S{}, &A{}))
		if err != nil || p != nil {
			fails++
		}
	}
	fmt.Println("SelfCandidate fails=", fails, "/50")
}

func TestAddLoader(t *testing.T) {
	a, err, p := run(app.AddConfigLoader(loader.NewRawLoader([]byte("a: 1"))), app.AddConfigLoader(loader.NewRawLoader([]byte("b: 2"))))
	fmt.Println("AddLoader", err, p, a.Get("a"), a.Get("b"))
}

func TestNumLike(t *testing.T) {
	type T struct {
		V string `value:"${version}"`
		W string `value:"${w}"`
		Z string `value:"${z}"`
		P struct {
			Version string `yaml:"version"`
		} `prefix:"p"`
	}
	tt := &T{}
	_, err, p := run(app.SetConfigLoader(loader.NewRawLoader([]byte("version: \"1.10\"\nw: \"007\"\nz: \"TRUE\"\np:\n  version: \"1.10\"\n"))), app.SetComponents(tt))
	fmt.Printf("NumLike %v %v V=%q W=%q Z=%q P=%q\n", err, p, tt.V, tt.W, tt.Z, tt.P.Version)
}

func TestHang(t *testing.T) {
	type T struct {
		V string `value:"${a}"`
	}
	done := make(chan struct{})
	go func() {
		run(app.SetConfigLoader(loader.NewRawLoader([]byte("a: \"${a}\"\n"))), app.SetComponents(&T{}))
		close(done)
	}()
	select {
	case <-done:
		fmt.Println("Hang: terminated")
	case <-time.After(3 * time.Second):
		fmt.Println("Hang: still spinning after 3s")
	}
}

type LazyBad struct {
	Dep *A `wire:""`
}

func (l *LazyBad) LazyInit()   {}
func (l *LazyBad) Init() error { return errors.New("boom") }

func TestFailedLazy(t *testing.T) {
	a, err, p := run(app.SetComponents(&LazyBad{}, &A{}))
	fmt.Println("FailedLazy run", err, p)
	c, err := a.GetComponentByName("triage/LazyBad")
	fmt.Println("first lookup:", c, err)
	c, err = a.GetComponentByName("triage/LazyBad")
	fmt.Println("second lookup:", c, err)
}
func TestOptionalQualifierMismatch(t *testing.T) {
	type T struct {
		X I `wire:",qualifier=zzz,required=false"`
	}
	tt := &T{}
	_, err, p := run(app.SetComponents(tt, &Q{"a", "g1"}, &Q{"b", "g2"}))
	fmt.Printf("OptionalQualifierMismatch err=%v panic=%v X=%v\n", err, p, tt.X)
}
