package triage

import (
	"errors"
	"fmt"
	"sync"
	"sync/atomic"
	"testing"
	"time"

	"github.com/go-kid/ioc/app"
	"github.com/go-kid/ioc/configure/loader"
	"github.com/go-kid/ioc/container"
	"github.com/go-kid/ioc/syslog"
	"github.com/go-kid/ioc/util/sync2"
)

type I interface{ Act() }
type A struct{ N string }

func (a *A) Act() {}

type B struct{ N string }

func run(ops ...app.SettingOption) (a *app.App, err error, pan any) {
	defer func() { pan = recover() }()
	a = app.NewApp()
	err = a.Run(append(ops, app.LogLevel(syslog.LvFatal))...)
	return
}

func TestOptionalByNameAbsent(t *testing.T) {
	type T struct {
		X *A `wire:"nope,required=false"`
	}
	_, err, p := run(app.SetComponents(&T{}))
	fmt.Println("OptionalByNameAbsent err=", err, "panic=", p)
}

func TestByNameWrongType(t *testing.T) {
	type T struct {
		X *A `wire:"bee"`
	}
	_, err, p := run(app.SetComponents(&T{}, &named{N: "bee"}))
	fmt.Println("ByNameWrongType err=", err, "panic=", p)
}

type named struct{ N string }

func (n *named) Naming() string { return n.N }

type Q struct {
	N, G string
}

func (q *Q) Naming() string    { return q.N }
func (q *Q) Qualifier() string { return q.G }
func (q *Q) Act()              {}

type J interface{ Nope() }

func TestOptionalSwitchesOff(t *testing.T) {
	wrong := 0
	for i := 0; i < 50; i++ {
		type T struct {
			O J `wire:",required=false"`
			X I `wire:",qualifier=g1"`
		}
		tt := &T{}
		_, err, p := run(app.SetComponents(tt, &Q{"a", "g1"}, &Q{"b", "g2"}, &Q{"c", "g2"}, &Q{"d", "g2"}))
		if err != nil || p != nil {
			fmt.Println("err", err, p)
		}
		if tt.X.(*Q).G != "g1" {
			wrong++
		}
	}
	fmt.Println("OptionalSwitchesOff wrong=", wrong, "/50")
}

type S struct {
	Self I `wire:""`
}

func (s *S) Act() {}

func TestSelfCandidate(t *testing.T) {
	fails := 0
	for i := 0; i < 50; i++ {
		_, err, p := run(app.SetComponents(&S{}, &A{}))
		if err != nil || p != nil {
			fails++
		}
	}
	fmt.Println("SelfCandidate fails=", fails, "/50")
}

func TestAddLoader(t *testing.T) {
	a, err, p := run(app.AddConfigLoader(loader.NewRawLoader([]byte("a: 1"))), app.AddConfigLoader(loader.NewRawLoader([]byte("b: 2"))))
	fmt.Println("AddLoader", err, p, a.Get("a"), a.Get("b"))
}

func TestNumLike(t *testing.T) {
	type T struct {
		V string `value:"${version}"`
		W string `value:"${w}"`
		Z string `value:"${z}"`
		P struct {
			Version string `yaml:"version"`
		} `prefix:"p"`
	}
	tt := &T{}
	_, err, p := run(app.SetConfigLoader(loader.NewRawLoader([]byte("version: \"1.10\"\nw: \"007\"\nz: \"TRUE\"\np:\n  version: \"1.10\"\n"))), app.SetComponents(tt))
	fmt.Printf("NumLike %v %v V=%q W=%q Z=%q P=%q\n", err, p, tt.V, tt.W, tt.Z, tt.P.Version)
}

// K1, literal and expression facets: a literal / an expression result that looks like a number is re-typed.
func TestNumLikeLiteralAndExpression(t *testing.T) {
	type T struct {
		L string `value:"1.10"`
		M string `value:"007"`
		E string `value:"#{'00' + '7'}"`
	}
	tt := &T{}
	_, err, p := run(app.SetComponents(tt))
	fmt.Printf("NumLikeLiteralAndExpression %v %v L=%q M=%q E=%q\n", err, p, tt.L, tt.M, tt.E)
}

func TestHang(t *testing.T) {
	type T struct {
		V string `value:"${a}"`
	}
	done := make(chan struct{})
	go func() {
		run(app.SetConfigLoader(loader.NewRawLoader([]byte("a: \"${a}\"\n"))), app.SetComponents(&T{}))
		close(done)
	}()
	select {
	case <-done:
		fmt.Println("Hang: terminated")
	case <-time.After(3 * time.Second):
		fmt.Println("Hang: still spinning after 3s")
	}
}

type LazyBad struct {
	Dep *A `wire:""`
}

func (l *LazyBad) LazyInit()   {}
func (l *LazyBad) Init() error { return errors.New("boom") }

func TestFailedLazy(t *testing.T) {
	a, err, p := run(app.SetComponents(&LazyBad{}, &A{}))
	fmt.Println("FailedLazy run", err, p)
	c, err := a.GetComponentByName("triage/LazyBad")
	fmt.Println("first lookup:", c, err)
	c, err = a.GetComponentByName("triage/LazyBad")
	fmt.Println("second lookup:", c, err)
}
func TestOptionalQualifierMismatch(t *testing.T) {
	type T struct {
		X I `wire:",qualifier=zzz,required=false"`
	}
	tt := &T{}
	_, err, p := run(app.SetComponents(tt, &Q{"a", "g1"}, &Q{"b", "g2"}))
	fmt.Printf("OptionalQualifierMismatch err=%v panic=%v X=%v\n", err, p, tt.X)
}

// --- D8 / D9 (run with -race) ---------------------------------------------------------

type failingScanner struct{}

func (f *failingScanner) PostProcessDefinitionRegistry(registry container.DefinitionRegistry, component any, componentName string) error {
	return errors.New("scan failed for " + componentName)
}

func TestScanErrorsRace(t *testing.T) {
	// every component fails in the scanning fan-out: N goroutines append to one slice
	_, err, p := run(app.SetComponents(&failingScanner{}, &A{}, &B{}, &S{}, &Q{"q", "g"}))
	fmt.Println("ScanErrorsRace err!=nil:", err != nil, "panic=", p, "(look for WARNING: DATA RACE above when run with -race)")
}

func TestLoadOrStoreFnBothWin(t *testing.T) {
	both := 0
	for i := 0; i < 2000; i++ {
		m := sync2.New[string, int]()
		var wg sync.WaitGroup
		var wins int32
		start := make(chan struct{})
		for g := 0; g < 4; g++ {
			wg.Add(1)
			go func(g int) {
				defer wg.Done()
				<-start
				if _, loaded := m.LoadOrStoreFn("k", func() int { return g }); !loaded {
					atomic.AddInt32(&wins, 1)
				}
			}(g)
		}
		close(start)
		wg.Wait()
		if wins > 1 {
			both++
		}
	}
	fmt.Println("LoadOrStoreFnBothWin rounds with >1 winner:", both, "/2000")
}
