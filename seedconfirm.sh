#!/bin/sh
# Developer aid: confirm a sub-agent's seeded change in its scratch worktree.
# usage: ./seedconfirm.sh <ID> <a|b>     -> prints CONFIRMED or the step that failed
ID=$1; V=$2; W=/tmp/wt/$ID; S=$W/SEED/$V
export GOFLAGS=-mod=mod GOPROXY=off GOSUMDB=off GOTOOLCHAIN=local GOWORK=off
cd $W || exit 2
git checkout -q -- . 
CMD=$(grep -h -o 'go test [^`]*' $S/demo_test.go | grep -v '\./\.\.\.' | head -1 | sed 's/ *(.*$//; s/[[:space:]]*$//')
[ -z "$CMD" ] && CMD=$(grep -h -o 'go test [^`]*' $S/README.md | grep -v '\./\.\.\.' | head -1)
echo "demo cmd: $CMD"
DD=$(echo "$CMD" | grep -o '\./[A-Za-z0-9_/.-]*' | tail -1 | sed 's#/\.\.\.$##')
if [ -n "$DD" ] && [ ! -f "$DD/demo_test.go" ]; then mkdir -p "$DD" && cp $S/demo_test.go "$DD/"; fi
sh -c "$CMD" > /tmp/seedconf.$ID.$V.base 2>&1; B=$?
git apply $S/patch.diff || { echo "APPLY-FAILED"; exit 1; }
go build ./... > /tmp/seedconf.$ID.$V.build 2>&1; C=$?
go test -vet=off -count=1 $(go list ./... | grep -v -E "/SEED|/seeddemo|/seed_") > /tmp/seedconf.$ID.$V.suite 2>&1; T=$?
sh -c "$CMD" > /tmp/seedconf.$ID.$V.mut 2>&1; M=$?
git checkout -q -- .
echo "demo-on-base=$B build=$C suite=$T demo-with-patch=$M"
if [ $B -eq 0 ] && [ $C -eq 0 ] && [ $T -eq 0 ] && [ $M -ne 0 ]; then echo CONFIRMED; else echo NOT-CONFIRMED; fi
