package rules

import (
	"fmt"
	"go/types"
	"sort"
	"strings"

	"golang.org/x/tools/go/ssa"

	"iocvet/internal/absint"
	"iocvet/internal/core"
)

// markerTypeRules: the embeddable marker helpers of package definition (field-less structs) carry exactly one method,
// the single method of a marker interface of that package.  Anything more would compete with what the embedding
// component declares (Go promotes neither of two same-depth candidates).
func markerTypeRules(c *core.Ctx, r *core.Report, rule string) {
	var pkg *types.Package
	for _, p := range c.Pkgs {
		if p.PkgPath == core.Mod+"/definition" {
			pkg = p.Types
		}
	}
	if pkg == nil {
		r.Undecided(rule, "pkg:definition", "", "package definition not found")
		return
	}
	markers := map[string]bool{} // method names of single-method, parameter-less, result-less interfaces
	sc := pkg.Scope()
	for _, name := range sc.Names() {
		if tn, ok := sc.Lookup(name).(*types.TypeName); ok {
			if it, ok := tn.Type().Underlying().(*types.Interface); ok && it.NumMethods() == 1 {
				sg := it.Method(0).Type().(*types.Signature)
				if sg.Params().Len() == 0 && sg.Results().Len() == 0 {
					markers[it.Method(0).Name()] = true
				}
			}
		}
	}
	n := 0
	for _, name := range sc.Names() {
		tn, ok := sc.Lookup(name).(*types.TypeName)
		if !ok {
			continue
		}
		st, ok := tn.Type().Underlying().(*types.Struct)
		if !ok || st.NumFields() != 0 {
			continue
		}
		n++
		ms := types.NewMethodSet(types.NewPointer(tn.Type()))
		var names []string
		for i := 0; i < ms.Len(); i++ {
			names = append(names, ms.At(i).Obj().Name())
		}
		sort.Strings(names)
		r.Check(len(names) == 1 && markers[names[0]], rule, "marker:"+tn.Name(), c.Pos(tn.Pos()),
			fmt.Sprintf("the embeddable marker declares exactly one marker method and nothing that could shadow or collide with a method of the embedding component (methods: %v)", names))
	}
	r.Floor(rule, "embeddable marker types of package definition", n, 3)
}

// processorOrderRules: the positions of the built-in property processors are part of the contract towards user
// post-processors (which are created with exactly the processors ordered before them active): frozen table.
func processorOrderRules(c *core.Ctx, r *core.Report, rule string) {
	want := map[string]string{
		"loggerAwarePostProcessors": "P 2", "configQuoteAwarePostProcessors": "P 4", "expressionTagAwarePostProcessors": "P 8",
		"valueAwarePostProcessors": "P 16", "propertiesAwarePostProcessors": "P 16",
		"dependencyAwarePostProcessors": "O 2", "dependencyFunctionAwarePostProcessors": "O 2",
		"dependencyFurtherMatchingPostProcessors": "O 4", "validateAwarePostProcessors": "O 8",
	}
	n := 0
	for _, p := range builtinProcessors(c) {
		if !p.Registered {
			continue
		}
		w, known := want[p.Name()]
		if !known {
			continue
		}
		n++
		got := fmt.Sprintf("%s %d", p.Class, p.Order)
		r.Check(p.OrderConst && got == w, rule, "processor-position:"+p.Name(), c.FnPos(p.Props),
			fmt.Sprintf("built-in processor keeps its documented position (class, Order) = %s (found %s)", w, got))
	}
	r.Floor(rule, "registered built-in processors with a frozen position", n, 8)
}

var lookupRows = map[string]string{
	"by-name": "GetComponentByName resolves the name through the cache accessor and returns the published object (.Raw of the accessor's result), an error if that fails",
	"all":     "GetComponents returns, for every definition the registry query yields, the published object of that name (never the definition's own raw object), in query order; the first failure ends it with an error",
	"fresh":   "every lookup asks the cache accessor again: a second lookup of a name returns what the accessor answers then (the version published in the meantime), not what an earlier lookup saw",
}

// lookupRules: the public lookups hand out the published version.
func lookupRules(c *core.Ctx, r *core.Report, rule string) {
	ro := c.Roles()
	meta := c.Named("component_definition", "Meta")
	var nameM *ssa.Function
	if meta != nil {
		nameM = c.DeclaredMethod(meta, "Name")
	}
	n := 0
	for _, T := range c.Implementors(c.Iface("container", "Factory")) {
		byName, all := c.DeclaredMethod(T, "GetComponentByName"), c.DeclaredMethod(T, "GetComponents")
		if byName == nil || all == nil || nameM == nil {
			continue
		}
		n++
		rs := rows{}
		for _, failAt := range []int{-1, 0, 1} {
			var asked []string
			mk := func() *tbl {
				asked = nil
				t := newTbl(c)
				reg := absint.NewTok("definitionRegistry", "registry")
				t.field = func(ip *absint.Interp, obj *absint.Tok, name string, typ types.Type) absint.Value {
					if obj.ID == "factory" && types.IsInterface(typ) {
						return reg
					}
					return nil
				}
				t.callee[nameM] = func(ip *absint.Interp, a []absint.Value) absint.Value {
					if m, ok := a[0].(*absint.Tok); ok && m.Attr["name"] != nil {
						return m.Attr["name"]
					}
					panic(&absint.Undecided{Msg: "Name() of an unmodelled definition"})
				}
				t.invoke[ro.DRGetMetas] = func(ip *absint.Interp, a []absint.Value) absint.Value {
					l := &absint.List{}
					for _, nm := range []string{"b", "a"} {
						m := absint.NewTok("def:"+nm, "meta")
						m.Attr["name"] = absint.Str(nm)
						m.Fields["Raw"] = absint.NewTok("definition-raw:"+nm, "component")
						l.Elems = append(l.Elems, m)
					}
					return l
				}
				k := 0
				for _, acc := range ro.CacheAccessors() {
					acc := acc
					t.callee[acc] = func(ip *absint.Interp, a []absint.Value) absint.Value {
						nm := strings.Trim(absint.Show(a[1]), `"`)
						asked = append(asked, nm)
						k++
						if failAt == k-1 {
							return absint.Tuple{absint.Nil{}, t.newErr("create")}
						}
						pub := absint.NewTok("published:"+nm, "meta")
						pub.Fields["Raw"] = absint.NewTok("published-raw:"+nm, "component")
						return absint.Tuple{pub, absint.Nil{}}
					}
				}
				return t
			}
			run := func(fn *ssa.Function, args ...absint.Value) absint.Outcome {
				ip := absint.New(mk())
				ip.IsLog, ip.InScope = core.IsLogCall, c.InScope
				return ip.Run(fn, args, nil)
			}
			f := absint.NewTok("factory", "factory")
			o1 := run(byName, f, absint.Str("x"))
			if o1.Undecided != nil {
				r.Undecided(rule, "lookup-table@"+core.FnName(byName), c.FnPos(byName), "abstract interpretation left the model: "+o1.Undecided.Msg)
				continue
			}
			rs.hit("by-name")
			w1 := fmt.Sprintf("fail-at=%d asked=%v => %s", failAt, asked, showOutcome(o1))
			isErr1 := len(o1.Ret) == 2 && isErrTok(o1.Ret[1])
			switch {
			case o1.Panic != nil || len(asked) != 1 || asked[0] != "x":
				rs.fail("by-name", w1)
			case failAt == 0 && !isErr1:
				rs.fail("by-name", w1)
			case failAt != 0 && (isErr1 || absint.Show(o1.Ret[0]) != "published-raw:x"):
				rs.fail("by-name", w1)
			}
			o2 := run(all, f, &absint.List{IsNil: true})
			if o2.Undecided != nil {
				r.Undecided(rule, "lookup-table@"+core.FnName(all), c.FnPos(all), "abstract interpretation left the model: "+o2.Undecided.Msg)
				continue
			}
			rs.hit("all")
			w2 := fmt.Sprintf("fail-at=%d asked=%v => %s", failAt, asked, showOutcome(o2))
			isErr2 := len(o2.Ret) == 2 && isErrTok(o2.Ret[1])
			var got []string
			if len(o2.Ret) >= 1 {
				if l, ok := o2.Ret[0].(*absint.List); ok {
					for _, e := range l.Elems {
						got = append(got, absint.Show(e))
					}
				}
			}
			switch {
			case o2.Panic != nil:
				rs.fail("all", w2)
			case failAt >= 0 && failAt <= 1:
				if !isErr2 || len(asked) != failAt+1 {
					rs.fail("all", w2)
				}
			default:
				if isErr2 || strings.Join(got, " ") != "published-raw:b published-raw:a" || strings.Join(asked, " ") != "b a" {
					rs.fail("all", w2)
				}
			}
		}
		// two lookups of one name on the same factory object; the accessor answers an early version first, the
		// published one afterwards
		{
			t := newTbl(c)
			reg := absint.NewTok("definitionRegistry", "registry")
			t.field = func(ip *absint.Interp, obj *absint.Tok, name string, typ types.Type) absint.Value {
				if obj.ID == "factory" && types.IsInterface(typ) {
					return reg
				}
				return nil
			}
			asks := 0
			for _, acc := range ro.CacheAccessors() {
				t.callee[acc] = func(ip *absint.Interp, a []absint.Value) absint.Value {
					asks++
					pub := absint.NewTok(fmt.Sprintf("version%d", asks), "meta")
					pub.Fields["Raw"] = absint.NewTok(fmt.Sprintf("raw-of-version%d", asks), "component")
					return absint.Tuple{pub, absint.Nil{}}
				}
			}
			f := absint.NewTok("factory", "factory")
			f.Attr["zeroed"] = absint.Bool(true)
			ip := absint.New(t)
			ip.IsLog, ip.InScope = core.IsLogCall, c.InScope
			var got []string
			und := ""
			for i := 0; i < 2 && und == ""; i++ {
				o := ip.Run(byName, []absint.Value{f, absint.Str("x")}, nil)
				if o.Undecided != nil {
					und = o.Undecided.Msg
				}
				got = append(got, showOutcome(o))
			}
			if und != "" {
				r.Undecided(rule, "lookup-table@"+core.FnName(byName)+":fresh", c.FnPos(byName), "abstract interpretation left the model: "+und)
			} else {
				rs.hit("fresh")
				if want := "[(raw-of-version1, nil) (raw-of-version2, nil)]"; fmt.Sprint(got) != want || asks != 2 {
					rs.fail("fresh", fmt.Sprintf("two lookups of \"x\": accessor asked %d time(s), results %v, want %s", asks, got, want))
				}
			}
		}
		rs.report(c, r, byName, func(string) string { return rule }, "lookup-table@"+T.Obj().Name(), lookupRows)
	}
	r.Floor(rule, "Factory implementations with GetComponentByName and GetComponents", n, 1)
}

// typeImplementRules: reflectx.IsTypeImplement answers from the two types alone: two types that print alike get
// their own answers, in either order of asking.
func typeImplementRules(c *core.Ctx, r *core.Report, rule string) {
	fn := c.Func("util/reflectx", "IsTypeImplement")
	if fn == nil {
		r.Undecided(rule, "role:IsTypeImplement", "", "reflectx.IsTypeImplement not found")
		return
	}
	bad := ""
	runs := 0
	for _, order := range [][]int{{0, 1, 0, 1}, {1, 0, 1, 0}} {
		t := newTbl(c)
		stringModels(t)
		impl := map[string]bool{"a/impl.Service": true, "b/impl.Service": false}
		attr := func(name string) func(ip *absint.Interp, a []absint.Value) absint.Value {
			return func(ip *absint.Interp, a []absint.Value) absint.Value {
				if tk, ok := a[0].(*absint.Tok); ok && tk.Attr[name] != nil {
					return tk.Attr[name]
				}
				panic(&absint.Undecided{Msg: name + " of an unmodelled type"})
			}
		}
		t.invokeN["Kind"], t.invokeN["Elem"], t.invokeN["String"], t.invokeN["Name"], t.invokeN["PkgPath"] = attr("kind"), attr("elem"), attr("str"), attr("name"), attr("pkg")
		t.invokeN["Implements"] = func(ip *absint.Interp, a []absint.Value) absint.Value {
			tk, _ := a[0].(*absint.Tok)
			if tk == nil {
				panic(&absint.Undecided{Msg: "Implements on an unmodelled type"})
			}
			return absint.Bool(impl[tk.ID])
		}
		ifaceT := absint.NewTok("iface:Primary", "type")
		ifaceT.Attr["kind"], ifaceT.Attr["str"], ifaceT.Attr["name"], ifaceT.Attr["pkg"] = absint.Int(20), absint.Str("definition.WirePrimary"), absint.Str("WirePrimary"), absint.Str("definition")
		ifacePtr := absint.NewTok("iface:*Primary", "type")
		ifacePtr.Attr["kind"], ifacePtr.Attr["elem"], ifacePtr.Attr["str"], ifacePtr.Attr["name"], ifacePtr.Attr["pkg"] = absint.Int(22), ifaceT, absint.Str("*definition.WirePrimary"), absint.Str(""), absint.Str("")
		t.ext["reflect.TypeOf"] = func(ip *absint.Interp, a []absint.Value) absint.Value { return ifacePtr }
		ip := absint.New(t)
		ip.IsLog, ip.InScope = core.IsLogCall, c.InScope
		var toks []*absint.Tok
		for _, id := range []string{"a/impl.Service", "b/impl.Service"} {
			tk := absint.NewTok(id, "type")
			tk.Attr["kind"], tk.Attr["str"], tk.Attr["name"], tk.Attr["pkg"] = absint.Int(22), absint.Str("*impl.Service"), absint.Str(""), absint.Str("")
			toks = append(toks, tk)
		}
		for _, i := range order {
			out := ip.Run(fn, []absint.Value{toks[i], absint.NewTok("ifaceValue", "ifacevalue")}, nil)
			runs++
			want := impl[toks[i].ID]
			switch {
			case out.Undecided != nil:
				bad = "left the model: " + out.Undecided.Msg
			case out.Panic != nil || len(out.Ret) != 1 || out.Ret[0] != absint.Value(absint.Bool(want)):
				bad = fmt.Sprintf("asking order %v: IsTypeImplement(%s) => %s, want %v", order, toks[i].ID, showOutcome(out), want)
			}
		}
	}
	r.Check(bad == "", rule, "type-implements@"+core.FnName(fn), c.FnPos(fn), fmt.Sprintf("the answer depends on the two types only, whatever was asked before (%d abstract runs) %s", runs, bad))
}

// globalAppendRules: a slice held in a package variable is extended only by `v = append(v, ...)`: an append whose
// result goes elsewhere would hand the variable's spare capacity to its caller (two callers then share one backing array).
func globalAppendRules(c *core.Ctx, r *core.Report, rule string) {
	n := 0
	appended := map[*ssa.Global]bool{}
	for _, fn := range c.Scope {
		for _, b := range fn.Blocks {
			for _, in := range b.Instrs {
				call, ok := in.(*ssa.Call)
				if !ok {
					continue
				}
				if bi, isB := call.Common().Value.(*ssa.Builtin); !isB || bi.Name() != "append" {
					continue
				}
				ld, isLoad := call.Common().Args[0].(*ssa.UnOp)
				if !isLoad {
					continue
				}
				g, isG := ld.X.(*ssa.Global)
				if !isG {
					continue
				}
				n++
				okStore := false
				for _, rf := range *call.Referrers() {
					if st, isSt := rf.(*ssa.Store); isSt && st.Addr == ssa.Value(g) && st.Val == ssa.Value(call) {
						okStore = true
						appended[g] = true
					}
				}
				others := 0
				for _, rf := range *call.Referrers() {
					if _, isDbg := rf.(*ssa.DebugRef); isDbg {
						continue
					}
					if st, isSt := rf.(*ssa.Store); isSt && st.Addr == ssa.Value(g) {
						continue
					}
					others++
				}
				r.Check(okStore && others == 0, rule, "append-to-global:"+g.Name()+"@"+core.FnName(fn), c.Pos(call.Pos()),
					"append on a package-level slice stores its result back into that variable and nowhere else (its spare capacity is never shared)")
			}
		}
	}
	if n == 0 {
		r.Hold(rule, "append-to-global", "", "no append on a package-level slice in scope")
	}
	// a package-level list that registrations are appended to is never emptied or replaced: what was registered is
	// there for every start of the process
	for g := range appended {
		for _, fn := range c.Scope {
			for _, b := range fn.Blocks {
				for _, in := range b.Instrs {
					st, ok := in.(*ssa.Store)
					if !ok || st.Addr != ssa.Value(g) {
						continue
					}
					isApp := false
					if call, isCall := st.Val.(*ssa.Call); isCall {
						if bi, isB := call.Common().Value.(*ssa.Builtin); isB && bi.Name() == "append" {
							if ld, isLoad := call.Common().Args[0].(*ssa.UnOp); isLoad && ld.X == ssa.Value(g) {
								isApp = true
							}
						}
					}
					if fn.Synthetic != "" && fn.Name() == "init" {
						isApp = true // the variable's own initialiser
					}
					r.Check(isApp, rule, "store-to-global:"+g.Name()+"@"+core.FnName(fn), c.Pos(st.Pos()), "a package-level registration list is only ever appended to (emptying or replacing it would lose registrations for the next start)")
				}
			}
		}
	}
}

var textStageRows = map[string]string{
	"substitute": "every property whose input text the helper matches is substituted exactly once on that text and the result is committed to TagVal; nothing else decides whether a property is substituted",
	"skip":       "a property whose input text does not match is left untouched and does not end the loop",
	"error":      "a substitution error makes the stage fail; otherwise the result is nil",
}

// textStageTable interprets a placeholder / expression stage on two properties with the substitution helper as an
// oracle; field is the property field the stage must read ("TagStr" for the placeholder stage, "TagVal" for the
// expression stage).
func textStageTable(c *core.Ctx, p *procInfo, field string) (rs rows, runs int, undecided string) {
	rs = rows{}
	match := c.IfaceMethod("util/el", "Helper", "MatchString")
	repl := c.IfaceMethod("util/el", "Helper", "ReplaceAllContent")
	find := c.IfaceMethod("util/el", "Helper", "FindAllContent")
	if match == nil || repl == nil {
		return rs, 0, "el.Helper.MatchString / ReplaceAllContent not found"
	}
	other := "TagVal"
	if field == "TagVal" {
		other = "TagStr"
	}
	for _, m1 := range []bool{true, false} {
		for _, m2 := range []bool{true, false} {
			var events []string
			var props []*absint.Tok
			var failed bool
			build := func() (absint.Oracle, []absint.Value, []absint.Value) {
				events, props, failed = nil, nil, false
				t := newTbl(c)
				stringModels(t)
				self := absint.NewTok("proc", "processor")
				helper := absint.NewTok("helper", "helper")
				t.field = func(ip *absint.Interp, obj *absint.Tok, name string, typ types.Type) absint.Value {
					if obj == self && types.IsInterface(typ) {
						return helper
					}
					return nil
				}
				matches := map[string]bool{}
				list := &absint.List{}
				for i, m := range []bool{m1, m2} {
					pr := absint.NewTok(fmt.Sprintf("P%d", i+1), "property")
					// the input text of this stage carries no marker of the other stage: only the helper decides
					pr.Fields[field] = absint.Str(fmt.Sprintf("in%d", i+1))
					pr.Fields[other] = absint.Str(fmt.Sprintf("other%d", i+1))
					pr.Fields["PropertyType"] = absint.Str([]string{"Configuration", "Component"}[i])
					pr.Fields["Tag"] = absint.Str("value")
					matches[fmt.Sprintf("in%d", i+1)] = m
					props = append(props, pr)
					list.Elems = append(list.Elems, pr)
				}
				t.invoke[match] = func(ip *absint.Interp, a []absint.Value) absint.Value {
					s, ok := a[1].(absint.Str)
					if !ok {
						panic(&absint.Undecided{Msg: "MatchString on a non-literal"})
					}
					events = append(events, "match("+string(s)+")")
					return absint.Bool(matches[string(s)])
				}
				if find != nil {
					t.invoke[find] = func(ip *absint.Interp, a []absint.Value) absint.Value { return &absint.List{IsNil: true} }
				}
				t.invoke[repl] = func(ip *absint.Interp, a []absint.Value) absint.Value {
					s, _ := a[1].(absint.Str)
					events = append(events, "replace("+string(s)+")")
					if ip.Choose(2, "substitution outcome") == 1 {
						failed = true
						return absint.Tuple{absint.Str(""), t.newErr("replace")}
					}
					return absint.Tuple{absint.Str("R(" + string(s) + ")"), absint.Nil{}}
				}
				return t, []absint.Value{self, list, absint.NewTok("component", "component"), absint.NewTok("name", "key")}, nil
			}
			check := func(ip *absint.Interp, out absint.Outcome) {
				w := fmt.Sprintf("matches=[%v %v] events=%v P1.TagVal=%s P2.TagVal=%s => %s", m1, m2, events, absint.Show(props[0].Fields["TagVal"]), absint.Show(props[1].Fields["TagVal"]), showOutcome(out))
				if out.Panic != nil {
					rs.fail("error", "PANIC "+w)
					return
				}
				isErr := len(out.Ret) == 2 && isErrTok(out.Ret[1])
				rs.hit("error")
				if isErr != failed {
					rs.fail("error", w)
				}
				stop := false
				for i, m := range []bool{m1, m2} {
					in := fmt.Sprintf("in%d", i+1)
					nRepl := 0
					for _, e := range events {
						if e == "replace("+in+")" {
							nRepl++
						}
					}
					if stop {
						continue
					}
					if m {
						rs.hit("substitute")
						committed := props[i].Fields["TagVal"] == absint.Value(absint.Str("R("+in+")"))
						if nRepl != 1 || (!failed && !committed) {
							rs.fail("substitute", w)
						}
						if failed && nRepl == 1 && !committed {
							stop = true // this one failed: the stage ends here
						}
					} else {
						rs.hit("skip")
						orig := fmt.Sprintf("in%d", i+1)
						if field != "TagVal" {
							orig = fmt.Sprintf("other%d", i+1)
						}
						if nRepl != 0 || props[i].Fields["TagVal"] != absint.Value(absint.Str(orig)) {
							rs.fail("skip", w)
						}
					}
				}
			}
			n, u := runTable(c, p.Props, build, check)
			runs += n
			if u != "" {
				return rs, runs, u
			}
		}
	}
	return
}

func textStageRules(c *core.Ctx, r *core.Report, rule string, roles ...string) {
	ps := builtinProcessors(c)
	for _, role := range roles {
		field := "TagStr"
		if role == "expr" {
			field = "TagVal"
		}
		stage := withRole(ps, role, true)
		r.Floor(rule, "registered processor with role "+role, len(stage), 1)
		for _, p := range stage {
			cons := "text-stage-table:" + p.Name()
			rs, n, und := textStageTable(c, p, field)
			r.Count("text_stage_table_runs", n)
			if und != "" {
				r.Undecided(rule, cons, c.FnPos(p.Props), "abstract interpretation left the model: "+und)
				continue
			}
			rs.report(c, r, p.Props, func(string) string { return rule }, cons, textStageRows)
		}
	}
}

// runEntryRules: ioc.Run starts one application with the caller's options first and the globally registered
// component handlers after them (a replaced registry or configuration must be in place before components are added).
func runEntryRules(c *core.Ctx, r *core.Report, rule string) {
	var run *ssa.Function
	for _, fn := range c.Scope {
		if fn.Parent() == nil && fn.Name() == "Run" && fn.Signature.Recv() == nil && core.PkgOf(fn) != nil && core.PkgOf(fn).Pkg.Path() == core.Mod {
			run = fn
		}
	}
	appRun := c.DeclaredMethod(c.Named("app", "App"), "Run")
	newApp := c.Func("app", "NewApp")
	if run == nil || appRun == nil || newApp == nil {
		r.Undecided(rule, "role:ioc.Run", "", "ioc.Run / app.NewApp / (*App).Run not found")
		return
	}
	bad := ""
	runs := 0
	for _, fail := range []bool{false, true} {
		var got []string
		t := newTbl(c)
		stringModels(t)
		app := absint.NewTok("app", "app")
		t.callee[newApp] = func(ip *absint.Interp, a []absint.Value) absint.Value { return app }
		t.callee[appRun] = func(ip *absint.Interp, a []absint.Value) absint.Value {
			if l, ok := a[1].(*absint.List); ok {
				for _, e := range l.Elems {
					got = append(got, absint.Show(e))
				}
			}
			got = append(got, "|")
			if fail {
				return t.newErr("run")
			}
			return absint.Nil{}
		}
		t.global = func(g *ssa.Global) absint.Value {
			if _, isSl := g.Type().Underlying().(*types.Pointer).Elem().Underlying().(*types.Slice); isSl {
				return &absint.List{Elems: []absint.Value{absint.NewTok("H1", "handler"), absint.NewTok("H2", "handler")}}
			}
			if b, isB := g.Type().Underlying().(*types.Pointer).Elem().Underlying().(*types.Basic); isB && b.Info()&types.IsString != 0 {
				return absint.Str("")
			}
			return nil
		}
		// ... or the same state kept in a package-level object
		t.field = func(ip *absint.Interp, obj *absint.Tok, name string, typ types.Type) absint.Value {
			if obj == app {
				return nil
			}
			if sl, isSl := typ.Underlying().(*types.Slice); isSl && len(run.Params) == 1 && types.Identical(sl, run.Params[0].Type().Underlying()) {
				return &absint.List{Elems: []absint.Value{absint.NewTok("H1", "handler"), absint.NewTok("H2", "handler")}}
			}
			if b, isB := typ.Underlying().(*types.Basic); isB && b.Info()&types.IsString != 0 {
				return absint.Str("")
			}
			return nil
		}
		ip := absint.New(t)
		ip.IsLog, ip.InScope = core.IsLogCall, c.InScope
		out := ip.Run(run, []absint.Value{&absint.List{Elems: []absint.Value{absint.NewTok("O1", "option"), absint.NewTok("O2", "option")}}}, nil)
		runs++
		w := fmt.Sprintf("options passed to App.Run=%v => %s", got, showOutcome(out))
		isErr := len(out.Ret) == 2 && isErrTok(out.Ret[1])
		switch {
		case out.Undecided != nil:
			bad = "left the model: " + out.Undecided.Msg
		case out.Panic != nil || strings.Join(got, " ") != "O1 O2 H1 H2 |" || isErr != fail:
			bad = w + ", want one start with [O1 O2 H1 H2]"
		case !fail && (len(out.Ret) != 2 || out.Ret[0] != absint.Value(app)):
			bad = w + ", want the started application"
		}
	}
	r.Check(bad == "", rule, "run-entry@"+core.FnName(run), c.FnPos(run), fmt.Sprintf("ioc.Run starts one application with the caller's options followed by the registered handlers and hands back its error (%d abstract runs) %s", runs, bad))
}

// optionRules: an option that adds a configuration source adds exactly that one source every time it is applied,
// whatever was applied before; the replacing options replace.
func optionRules(c *core.Ctx, r *core.Report, rule string) {
	addL := c.IfaceMethod("configure", "Configure", "AddLoaders")
	setL := c.IfaceMethod("configure", "Configure", "SetLoaders")
	setCfg, setLoader, setConfigure := c.Func("app", "SetConfig"), c.Func("app", "SetConfigLoader"), c.Func("app", "SetConfigure")
	addLoader := c.Func("app", "AddConfigLoader")
	newFile := c.Func("configure/loader", "NewFileLoader")
	if addL == nil || setL == nil || setCfg == nil || setLoader == nil || newFile == nil || addLoader == nil {
		r.Undecided(rule, "role:app options", "", "app.SetConfig / SetConfigLoader / AddConfigLoader / loader.NewFileLoader not found")
		return
	}
	var calls []string
	t := newTbl(c)
	stringModels(t)
	t.callee[newFile] = func(ip *absint.Interp, a []absint.Value) absint.Value {
		return absint.NewTok("file("+strings.Trim(absint.Show(a[0]), `"`)+")", "loader")
	}
	rec := func(kind string) func(ip *absint.Interp, a []absint.Value) absint.Value {
		return func(ip *absint.Interp, a []absint.Value) absint.Value {
			calls = append(calls, kind+absint.Show(a[1])+"@"+absint.Show(a[0]))
			return nil
		}
	}
	t.invoke[addL], t.invoke[setL] = rec("add"), rec("set")
	ip := absint.New(t)
	ip.IsLog, ip.InScope = core.IsLogCall, c.InScope
	app := absint.NewTok("app", "app")
	app.Attr["zeroed"] = absint.Bool(true)
	app.Fields["Configure"] = absint.NewTok("cfg1", "configure")
	bad := ""
	steps := 0
	mkOpt := func(ctor *ssa.Function, args ...absint.Value) absint.Value {
		o := ip.Run(ctor, args, nil)
		if o.Undecided != nil || o.Panic != nil || len(o.Ret) != 1 {
			bad = core.FnName(ctor) + " left the model: " + showOutcome(o)
			if o.Undecided != nil {
				bad += " " + o.Undecided.Msg
			}
			return nil
		}
		return o.Ret[0]
	}
	apply := func(opt absint.Value, want string) {
		if opt == nil || bad != "" {
			return
		}
		calls = nil
		var out absint.Outcome
		switch f := opt.(type) {
		case *absint.Closure:
			out = ip.Run(f.Fn, []absint.Value{app}, f.Bind)
		case *ssa.Function:
			out = ip.Run(f, []absint.Value{app}, nil)
		default:
			bad = "an option constructor did not return a function"
			return
		}
		steps++
		switch {
		case out.Undecided != nil:
			bad = "left the model: " + out.Undecided.Msg
		case out.Panic != nil || strings.Join(calls, " ") != want:
			bad = fmt.Sprintf("step %d: configure calls %v => %s, want [%s]", steps, calls, showOutcome(out), want)
		}
	}
	raw := &absint.List{Elems: []absint.Value{absint.NewTok("raw", "loader")}}
	fileA, fileB := mkOpt(setCfg, absint.Str("a.yaml")), mkOpt(setCfg, absint.Str("b.yaml"))
	apply(fileA, "add[file(a.yaml)]@cfg1")
	apply(fileB, "add[file(b.yaml)]@cfg1")
	apply(fileA, "add[file(a.yaml)]@cfg1")
	apply(mkOpt(setLoader, raw), "set[raw]@cfg1")
	apply(fileA, "add[file(a.yaml)]@cfg1")
	apply(mkOpt(addLoader, raw), "add[raw]@cfg1")
	apply(mkOpt(addLoader, raw), "add[raw]@cfg1")
	if setConfigure != nil && bad == "" {
		cfg2 := absint.NewTok("cfg2", "configure")
		apply(mkOpt(setConfigure, cfg2), "")
		if app.Fields["Configure"] != absint.Value(cfg2) {
			bad = "SetConfigure does not install the given Configure"
		}
		apply(fileA, "add[file(a.yaml)]@cfg2")
	}
	r.Check(bad == "", rule, "option-table@app", c.FnPos(setCfg), fmt.Sprintf("every application of an adding option adds exactly its own source to the current Configure, independent of earlier options; replacing options replace (%d abstract steps) %s", steps, bad))
}

// loggerRules: the logger tag gives a field the logger named by the tag value, by the embed path when the tag asks for
// it (embed argument), and by the component's name otherwise - the same for a field of the component itself and for
// a field reached through embedding.
func loggerRules(c *core.Ctx, r *core.Report, rule string) {
	ps := withRole(builtinProcessors(c), "logger", true)
	r.Floor(rule, "registered logger processor", len(ps), 1)
	prop := c.Named("component_definition", "Property")
	tagArg := c.Named("component_definition", "TagArg")
	meta, holder := c.Named("component_definition", "Meta"), c.Named("component_definition", "Holder")
	pref := c.Func("syslog", "Pref")
	isImpl := c.Func("util/reflectx", "IsTypeImplement")
	if prop == nil || tagArg == nil || meta == nil || holder == nil || pref == nil {
		r.Undecided(rule, "role:logger stage", "", "Property / TagArg / Meta / Holder / syslog.Pref not found")
		return
	}
	argsM, has := c.DeclaredMethod(prop, "Args"), c.DeclaredMethod(tagArg, "Has")
	metaStr, holderStr := c.DeclaredMethod(meta, "String"), c.DeclaredMethod(holder, "String")
	for _, p := range ps {
		bad := ""
		runs := 0
		for _, tagStr := range []string{"", "named"} {
			for _, embedArg := range []bool{false, true} {
				for _, embedded := range []bool{false, true} {
					var prefs, sets []string
					t := newTbl(c)
					stringModels(t)
					pr := absint.NewTok("prop", "property")
					fld, base := absint.NewTok("prop.Field", "field"), absint.NewTok("prop.Field.Base", "base")
					h := absint.NewTok("holder", "holder")
					hm := absint.NewTok("holder.Meta", "meta")
					h.Fields["Meta"], h.Fields["IsEmbed"] = hm, absint.Bool(embedded)
					pr.Fields["Field"], fld.Fields["Base"], fld.Fields["Holder"] = fld, base, h
					base.Fields["Type"], base.Fields["Value"] = absint.NewTok("T:field", "type"), absint.NewTok("prop.Value", "reflected")
					pr.Fields["Tag"], pr.Fields["TagStr"], pr.Fields["TagVal"] = absint.Str(stringConst(c, "definition", "LoggerTag")), absint.Str(tagStr), absint.Str(tagStr)
					pr.Fields["PropertyType"] = absint.Str("Logger")
					if argsM != nil {
						t.callee[argsM] = func(ip *absint.Interp, a []absint.Value) absint.Value { return absint.NewTok("args", "tagargs") }
					}
					if has != nil {
						t.callee[has] = func(ip *absint.Interp, a []absint.Value) absint.Value {
							k, _ := a[1].(absint.Str)
							return absint.Bool(embedArg && strings.EqualFold(string(k), "embed"))
						}
					}
					if metaStr != nil {
						t.callee[metaStr] = func(ip *absint.Interp, a []absint.Value) absint.Value { return absint.Str("component-name") }
					}
					if holderStr != nil {
						t.callee[holderStr] = func(ip *absint.Interp, a []absint.Value) absint.Value {
							if embedded {
								return absint.Str("component-name.Embed(X)")
							}
							return absint.Str("component-name")
						}
					}
					if isImpl != nil {
						t.callee[isImpl] = func(ip *absint.Interp, a []absint.Value) absint.Value { return absint.Bool(true) }
					}
					t.callee[pref] = func(ip *absint.Interp, a []absint.Value) absint.Value {
						prefs = append(prefs, strings.Trim(absint.Show(a[0]), `"`))
						return absint.NewTok("logger("+strings.Trim(absint.Show(a[0]), `"`)+")", "logger")
					}
					t.ext["reflect.ValueOf"] = func(ip *absint.Interp, a []absint.Value) absint.Value { return a[0] }
					t.ext["reflect.TypeOf"] = func(ip *absint.Interp, a []absint.Value) absint.Value { return absint.NewTok("T:arg", "type") }
					t.ext["(reflect.Value).Set"] = func(ip *absint.Interp, a []absint.Value) absint.Value {
						sets = append(sets, absint.Show(a[0])+"<-"+absint.Show(a[1]))
						return nil
					}
					ip := absint.New(t)
					ip.IsLog, ip.InScope = core.IsLogCall, c.InScope
					out := ip.Run(p.Props, []absint.Value{absint.NewTok("proc", "processor"), &absint.List{Elems: []absint.Value{pr}}, absint.NewTok("component", "component"), absint.NewTok("name", "key")}, nil)
					runs++
					want := "component-name"
					switch {
					case tagStr != "":
						want = tagStr
					case embedArg && embedded:
						want = "component-name.Embed(X)"
					}
					w := fmt.Sprintf("tag value=%q embed-argument=%v field-is-embedded=%v: loggers asked=%v writes=%v => %s", tagStr, embedArg, embedded, prefs, sets, showOutcome(out))
					switch {
					case out.Undecided != nil:
						bad = "left the model: " + out.Undecided.Msg
					case out.Panic != nil || len(prefs) != 1 || prefs[0] != want || len(sets) != 1 || sets[0] != "prop.Value<-logger("+want+")":
						bad = w + ", want logger " + want
					}
				}
			}
		}
		r.Check(bad == "", rule, "logger-table:"+p.Name(), c.FnPos(p.Props), fmt.Sprintf("a logger field gets the logger named by the tag value, else (embed argument) by the embed path, else by the component name - embedded or not (%d abstract runs) %s", runs, bad))
	}
}

// runPhaseRules: the phases row of the start routine's table (configuration, factory preparation, refresh, runners).
func runPhaseRules(c *core.Ctx, r *core.Report, rule string) {
	subs := startRoutines(c)
	ar, appT := c.Named("definition", "ApplicationRunner"), c.Named("app", "App")
	if !r.Exactly(rule, "start routines", len(subs), 1) || ar == nil || appT == nil {
		return
	}
	runFn := subs[0]
	cons := "run-table@" + core.FnName(runFn)
	field := sliceFieldOf(appT, ar)
	if field == "" || len(runFn.Params) != 1 {
		r.Undecided(rule, cons, c.FnPos(runFn), "App has no []ApplicationRunner field, or the start routine takes parameters")
		return
	}
	rrs, _, und := appRunTable(c, runFn, field, 1)
	if und != "" {
		r.Undecided(rule, cons, c.FnPos(runFn), "abstract interpretation left the model: "+und)
		return
	}
	rrs.report(c, r, runFn, func(row string) string {
		if row == "phases" {
			return rule
		}
		return ""
	}, cons, map[string]string{"phases": runRows["phases"]})
}

// copyLockRules: a type that holds a sync primitive by value is never copied through a value receiver (a copy has its
// own lock but shares the guarded state).
func copyLockRules(c *core.Ctx, r *core.Report, rule string) {
	holdsLock := func(t types.Type) bool {
		st, ok := t.Underlying().(*types.Struct)
		if !ok {
			return false
		}
		for i := 0; i < st.NumFields(); i++ {
			if n := core.NamedOf(st.Field(i).Type()); n != nil && n.Obj().Pkg() != nil && n.Obj().Pkg().Path() == "sync" {
				if _, isPtr := st.Field(i).Type().Underlying().(*types.Pointer); !isPtr {
					switch n.Obj().Name() {
					case "Mutex", "RWMutex", "Map", "WaitGroup", "Once", "Cond", "Pool":
						return true
					}
				}
			}
		}
		return false
	}
	nTypes := 0
	seenT := map[string]bool{}
	for _, fn := range c.Scope {
		recv := fn.Signature.Recv()
		if recv == nil || fn.Parent() != nil || fn.Synthetic != "" {
			continue
		}
		rt := recv.Type()
		_, isPtr := rt.Underlying().(*types.Pointer)
		bt := rt
		if isPtr {
			bt = rt.Underlying().(*types.Pointer).Elem()
		}
		if !holdsLock(bt) {
			continue
		}
		if n := core.NamedOf(bt); n != nil && !seenT[n.String()] {
			seenT[n.String()] = true
			nTypes++
		}
		if !isPtr {
			r.Fail(rule, "value-receiver@"+core.FnName(fn), c.FnPos(fn), "method with a value receiver on a type that holds a sync primitive: every call works on a copy with its own lock")
		}
	}
	if nTypes > 0 {
		r.Hold(rule, "lock-holding-types", "", fmt.Sprintf("%d in-scope types hold a sync primitive by value; value-receiver methods on them are reported individually", nTypes))
	}
	r.Floor(rule, "in-scope types holding a sync primitive by value", nTypes, 2)
}
