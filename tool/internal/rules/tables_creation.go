package rules

import (
	"fmt"
	"go/constant"
	"go/types"
	"sort"
	"strings"

	"golang.org/x/tools/go/ssa"

	"iocvet/internal/absint"
	"iocvet/internal/core"
)

// rowResult collects, per specification row, how many abstract runs fell under it and the first violations.
type rowResult struct {
	runs int
	bad  []string
}

type rows map[string]*rowResult

func (rs rows) hit(row string) {
	if rs[row] == nil {
		rs[row] = &rowResult{}
	}
	rs[row].runs++
}

func (rs rows) fail(row, witness string) {
	if rs[row] == nil {
		rs[row] = &rowResult{}
	}
	if len(rs[row].bad) < 4 {
		rs[row].bad = append(rs[row].bad, witness)
	}
}

// report turns rows into obligations under rule ids given by ruleOf(row).
func (rs rows) report(c *core.Ctx, r *core.Report, subject *ssa.Function, ruleOf func(row string) string, cons string, need map[string]string, optional ...string) {
	var names []string
	for k := range rs {
		names = append(names, k)
	}
	opt := map[string]bool{}
	for _, o := range optional {
		opt[o] = true
	}
	for k := range need {
		if rs[k] == nil && !opt[k] {
			names = append(names, k)
		}
	}
	sort.Strings(names)
	for _, row := range names {
		rule := ruleOf(row)
		if rule == "" {
			continue
		}
		rr := rs[row]
		id := cons + ":" + row
		switch {
		case rr == nil || rr.runs == 0 && len(rr.bad) == 0:
			r.Undecided(rule, id, c.FnPos(subject), "no abstract run fell under this row: the subject's shape changed and the row could not be exercised")
		case len(rr.bad) > 0:
			r.Fail(rule, id, c.FnPos(subject), fmt.Sprintf("row '%s' violated (%d runs under it): %s", row, rr.runs, need[row]), rr.bad...)
		default:
			r.Hold(rule, id, c.FnPos(subject), fmt.Sprintf("row '%s' holds on all %d abstract runs under it: %s", row, rr.runs, need[row]))
		}
	}
}

// ---- EarlyExposer decision table -------------------------------------------------------------------------

var exposerRows = map[string]string{
	"expose-iff-condition":   "the early factory is registered exactly when the component is a singleton in creation and circular references are allowed, and before population",
	"failure-propagates":     "a failing population / initialization / proxy creation / cache lookup makes the creation fail",
	"plain":                  "nothing wrapped and no early reference handed out: the original definition is published",
	"early-reuse":            "an early reference was handed out and initialization did not wrap: the early reference itself is published",
	"wrapped-never-raw":      "initialization wrapped the instance: a proxy (or the early reference) is published, never the raw definition",
	"stale-detected":         "an early reference was handed out to a holder that already finished, and initialization produced a different version: creation fails",
	"in-creation-holders-ok": "holders still in creation do not trigger the stale-version error",
	"lookup-after-init":      "the early-reference lookup happens after initialization and does not allow creating a new early reference",
	"stage-order":            "population runs exactly once, initialization exactly once after it and only if it succeeded; a component is handed back as created only after both",
}

func exposerTable(c *core.Ctx, l *lifecycleRoles) (rs rows, runs int, undecided string) {
	ro := c.Roles()
	rs = rows{}
	metaT := c.Named("component_definition", "Meta")
	getDeps := c.DeclaredMethod(metaT, "GetDependents")
	ex := l.exposer
	type runState struct {
		allow, creating    bool
		popErr             bool
		init               int // 0 same 1 wrapped 2 error
		proxyErr           bool
		lookup             int // 0 nil 1 raw 2 early proxy 3 error
		lookedUp           bool
		lookupAllow        absint.Value
		earlyDeps, metaDep []string
		events             []string
		proxies            []*absint.Tok
		early              *absint.Tok
		wrappedTok         *absint.Tok
	}
	var st *runState
	fTok := func() *absint.Tok { return absint.NewTok("f", "factory") }
	build := func() (absint.Oracle, []absint.Value, []absint.Value) {
		st = &runState{}
		t := newTbl(c)
		f, name, meta := fTok(), absint.NewTok("name", "key"), absint.NewTok("meta", "meta")
		raw := absint.NewTok("meta.Raw", "raw")
		meta.Fields["Raw"] = raw
		t.field = func(ip *absint.Interp, obj *absint.Tok, fname string, typ types.Type) absint.Value {
			if b, ok := typ.Underlying().(*types.Basic); ok && b.Kind() == types.Bool && obj == f {
				st.allow = ip.Choose(2, "allowCircularReferences") == 0
				return absint.Bool(st.allow)
			}
			if b, ok := typ.Underlying().(*types.Basic); ok && b.Info()&types.IsInteger != 0 && obj == f {
				// a policy field of a small named type: the factory only ever holds the one constant it is constructed with
				if named := ownerOf(ex); named != nil {
					if stores, _ := c.FieldAccesses(named, fname); len(stores) > 0 {
						var only *ssa.Const
						for _, s2 := range stores {
							k, isK := s2.Store.Val.(*ssa.Const)
							if !isK || k.Value == nil || (only != nil && only.Value.ExactString() != k.Value.ExactString()) {
								return nil
							}
							only = k
						}
						if v, isInt := constant.Int64Val(only.Value); isInt {
							st.allow = true
							return absint.Int(v)
						}
					}
				}
			}
			if _, isIface := typ.Underlying().(*types.Interface); isIface && obj == f {
				// a policy object behind an internal interface: the factory only ever holds the one it is constructed with
				if n := core.NamedOf(typ); n != nil && !n.Obj().Exported() && n.Obj().Pkg() != nil && core.InScopePath(n.Obj().Pkg().Path()) {
					if named := ownerOf(ex); named != nil {
						if stores, _ := c.FieldAccesses(named, fname); len(stores) > 0 {
							var only types.Type
							for _, s2 := range stores {
								mi, isMI := s2.Store.Val.(*ssa.MakeInterface)
								if !isMI {
									return nil
								}
								k, isK := mi.X.(*ssa.Const)
								if _, isStruct := mi.X.Type().Underlying().(*types.Struct); !isK || k.Value != nil || !isStruct || (only != nil && !types.Identical(only, mi.X.Type())) {
									return nil
								}
								only = mi.X.Type()
							}
							st.allow = true
							z := absint.NewTok("zero:"+only.String(), "zero")
							z.Attr["zeroed"] = absint.Bool(true)
							z.Attr["gotype"] = types.NewPointer(only)
							z.Attr["boxed"] = only
							return z
						}
					}
				}
			}
			return nil
		}
		depList := func(names []string) *absint.List {
			l := &absint.List{IsNil: len(names) == 0}
			for _, n := range names {
				l.Elems = append(l.Elems, absint.NewTok("dep:"+n, n))
			}
			return l
		}
		t.invoke[ro.SCRIsCreating] = func(ip *absint.Interp, args []absint.Value) absint.Value {
			if args[1] == absint.Value(name) {
				st.creating = ip.Choose(2, "in creation") == 0
				return absint.Bool(st.creating)
			}
			if d, ok := args[1].(*absint.Tok); ok {
				return absint.Bool(d.Class == "creating")
			}
			panic(&absint.Undecided{Msg: "IsSingletonCurrentlyInCreation on " + absint.Show(args[1])})
		}
		t.invoke[ro.SCRAddFactory] = func(ip *absint.Interp, args []absint.Value) absint.Value {
			ok := args[1] == absint.Value(name)
			st.events = append(st.events, fmt.Sprintf("ADD_FACTORY(sameName=%v)", ok))
			return nil
		}
		t.callee[l.populator] = func(ip *absint.Interp, args []absint.Value) absint.Value {
			st.events = append(st.events, "POPULATE")
			if st.popErr = ip.Choose(2, "populate") == 1; st.popErr {
				return t.newErr("populate")
			}
			return absint.Nil{}
		}
		t.callee[l.initFn] = func(ip *absint.Interp, args []absint.Value) absint.Value {
			st.events = append(st.events, "INIT")
			inst := args[len(args)-1]
			if inst != absint.Value(raw) {
				st.events = append(st.events, "INIT-ON-OTHER-INSTANCE")
			}
			st.init = ip.Choose(3, "initialize")
			switch st.init {
			case 1:
				st.wrappedTok = absint.NewTok("W", "wrapped")
				return absint.Tuple{st.wrappedTok, absint.Nil{}}
			case 2:
				return absint.Tuple{absint.Nil{}, t.newErr("init")}
			}
			return absint.Tuple{inst, absint.Nil{}}
		}
		t.callee[ro.CreateProxy] = func(ip *absint.Interp, args []absint.Value) absint.Value {
			if st.proxyErr = ip.Choose(2, "create proxy") == 1; st.proxyErr {
				return absint.Tuple{absint.Nil{}, t.newErr("proxy")}
			}
			p := absint.NewTok(fmt.Sprintf("proxy%d", len(st.proxies)), "proxy")
			p.Attr["origin"], p.Attr["new"] = args[0], args[2]
			st.proxies = append(st.proxies, p)
			return absint.Tuple{p, absint.Nil{}}
		}
		t.invoke[ro.SCRGetSingleton] = func(ip *absint.Interp, args []absint.Value) absint.Value {
			st.events = append(st.events, "LOOKUP")
			st.lookedUp = true
			st.lookupAllow = args[2]
			st.lookup = ip.Choose(4, "early lookup")
			// who already holds the versions is a fact of the environment, decided here whether or not the code asks
			chooseDeps := func() {
				opts := [][]string{{}, {"creating"}, {"finished"}, {"creating", "finished"}, {"finished", "creating"}}
				st.earlyDeps = opts[ip.Choose(len(opts), "dependents of the early reference")]
				if st.lookup == 1 {
					st.metaDep = st.earlyDeps
				} else {
					mopts := [][]string{{}, {"creating"}}
					st.metaDep = mopts[ip.Choose(len(mopts), "dependents of the raw definition")]
				}
			}
			switch st.lookup {
			case 1:
				st.early = meta
				chooseDeps()
				return absint.Tuple{meta, absint.Nil{}}
			case 2:
				st.early = absint.NewTok("E", "proxy")
				chooseDeps()
				return absint.Tuple{st.early, absint.Nil{}}
			case 3:
				return absint.Tuple{absint.Nil{}, t.newErr("lookup")}
			}
			return absint.Tuple{absint.Nil{}, absint.Nil{}}
		}
		if getDeps != nil {
			t.callee[getDeps] = func(ip *absint.Interp, args []absint.Value) absint.Value {
				if args[0] == absint.Value(st.early) && st.early != nil {
					return depList(st.earlyDeps)
				}
				if st.metaDep == nil {
					st.metaDep = []string{}
				}
				return depList(st.metaDep)
			}
		}
		metaN := c.Named("component_definition", "Meta")
		return t, layoutArgs(l.exposer, func(ty types.Type) absint.Value {
			switch {
			case core.NamedOf(ty) == metaN:
				return meta
			case isString(ty):
				return name
			case l.exposer.Signature.Recv() != nil && types.Identical(ty, l.exposer.Signature.Recv().Type()):
				return f
			}
			return nil
		}), nil
	}
	contains := func(s []string, x string) bool {
		for _, y := range s {
			if y == x {
				return true
			}
		}
		return false
	}
	idx := func(s []string, pre string) int {
		for i, y := range s {
			if strings.HasPrefix(y, pre) {
				return i
			}
		}
		return -1
	}
	check := func(ip *absint.Interp, out absint.Outcome) {
		w := fmt.Sprintf("allowCircular=%v inCreation=%v populateErr=%v init=%d proxyErr=%v lookup=%d earlyDeps=%v metaDeps=%v events=%v => %s",
			st.allow, st.creating, st.popErr, st.init, st.proxyErr, st.lookup, st.earlyDeps, st.metaDep, st.events, showOutcome(out))
		if out.Panic != nil {
			rs.fail("failure-propagates", w)
			return
		}
		isErr := len(out.Ret) == 2 && isErrTok(out.Ret[1])
		var ret0 absint.Value
		if len(out.Ret) > 0 {
			ret0 = out.Ret[0]
		}
		exposed := st.allow && st.creating
		// exposure
		rs.hit("expose-iff-condition")
		ai, pi := idx(st.events, "ADD_FACTORY"), idx(st.events, "POPULATE")
		if (ai >= 0) != exposed || (ai >= 0 && (pi < ai || !contains(st.events, "ADD_FACTORY(sameName=true)"))) || pi < 0 {
			rs.fail("expose-iff-condition", w)
		}
		// population exactly once, then initialization exactly once (unless population failed)
		rs.hit("stage-order")
		nPop, nInit := 0, 0
		for _, e := range st.events {
			switch e {
			case "POPULATE":
				nPop++
			case "INIT":
				nInit++
			}
		}
		ii0 := idx(st.events, "INIT")
		wantInit := 1
		if st.popErr {
			wantInit = 0
		}
		if nPop != 1 || nInit != wantInit || (ii0 >= 0 && ii0 < pi) || (!isErr && (nPop != 1 || nInit != 1)) {
			rs.fail("stage-order", w)
		}
		failed := st.popErr || st.init == 2 || (st.init == 1 && st.proxyErr) || (st.lookedUp && st.lookup == 3)
		if failed {
			rs.hit("failure-propagates")
			if !isErr {
				rs.fail("failure-propagates", w)
			}
			if st.popErr && contains(st.events, "INIT") {
				rs.fail("failure-propagates", "initialization ran after a failed population: "+w)
			}
			return
		}
		if contains(st.events, "INIT-ON-OTHER-INSTANCE") {
			rs.fail("failure-propagates", "initialization was not given the component's own instance: "+w)
		}
		wrapped := st.init == 1
		if exposed {
			rs.hit("lookup-after-init")
			li, ii := idx(st.events, "LOOKUP"), idx(st.events, "INIT")
			if li < 0 || ii < 0 || li < ii || st.lookupAllow != absint.Value(absint.Bool(false)) {
				rs.fail("lookup-after-init", w)
			}
		}
		early := exposed && st.lookedUp && (st.lookup == 1 || st.lookup == 2)
		finishedHolder := contains(st.earlyDeps, "finished")
		switch {
		case !wrapped && !early:
			rs.hit("plain")
			if isErr || ret0 == nil || !isTokID(ret0, "meta") {
				rs.fail("plain", w)
			}
		case !wrapped && early:
			rs.hit("early-reuse")
			if isErr || ret0 != absint.Value(st.early) {
				rs.fail("early-reuse", w)
			}
		case wrapped:
			if early && finishedHolder {
				rs.hit("stale-detected")
				if !isErr {
					rs.fail("stale-detected", w)
				}
				return
			}
			if early && len(st.earlyDeps) > 0 && !finishedHolder {
				rs.hit("in-creation-holders-ok")
				if isErr {
					rs.fail("in-creation-holders-ok", w)
				}
			}
			if !isErr {
				rs.hit("wrapped-never-raw")
				okRet := false
				if t, isT := ret0.(*absint.Tok); isT {
					if t.Class == "proxy" && t != st.early {
						okRet = t.Attr["new"] == absint.Value(st.wrappedTok) && isTokID(t.Attr["origin"], "meta")
					}
					if st.early != nil && t == st.early && st.lookup == 2 {
						okRet = true
					}
				}
				if !okRet {
					rs.fail("wrapped-never-raw", w)
				}
			}
		}
	}
	runs, undecided = runTable(c, ex, build, check)
	return
}

func isTokID(v absint.Value, id string) bool {
	t, ok := v.(*absint.Tok)
	return ok && t.ID == id
}

func showOutcome(out absint.Outcome) string {
	if out.Panic != nil {
		return "PANIC " + out.Panic.Msg
	}
	var s []string
	for _, v := range out.Ret {
		s = append(s, absint.Show(v))
	}
	return "(" + strings.Join(s, ", ") + ")"
}

// ---- Inject decision table --------------------------------------------------------------------------------

var injectRows = map[string]string{
	"wrong-property-type": "a non-component property is rejected and nothing is written",
	"nothing-to-inject":   "no candidate (or only the holder itself): error iff required, nothing written either way",
	"single":              "a single-valued point is set exactly once, to the Value of a candidate that is not the holder itself, and the holder is recorded on that candidate",
	"slice":               "a slice point is set to a fresh slice of exactly the non-self candidates, element i from candidate i, each once, and the holder is recorded on each",
	"injects-recorded":    "Property.Injects ends up holding exactly the injected candidates",
}

func injectTable(c *core.Ctx, maxLen int) (rs rows, runs int, undecided string) {
	ro := c.Roles()
	rs = rows{}
	inj := ro.PropertyInject
	if inj == nil {
		return rs, 0, "(*Property).Inject not found"
	}
	prop := c.Named("component_definition", "Property")
	meta := c.Named("component_definition", "Meta")
	holder := c.Named("component_definition", "Holder")
	isReq := c.DeclaredMethod(prop, "IsRequired")
	isSelf := c.DeclaredMethod(meta, "IsSelf")
	dependOn := dependentsRecorder(c)
	stack := c.DeclaredMethod(holder, "Stack")
	if isReq == nil || isSelf == nil {
		return rs, 0, "IsRequired / IsSelf not found"
	}
	kinds := []int64{23, 17, 22, 20} // Slice, Array, Pointer, Interface
	var lists [][]string
	var gen func(prefix []string)
	gen = func(prefix []string) {
		lists = append(lists, append([]string(nil), prefix...))
		if len(prefix) < maxLen {
			for _, k := range []string{"other", "self"} {
				gen(append(append([]string(nil), prefix...), k))
			}
		}
	}
	gen(nil)
	for _, ptype := range []string{"Component", "Configuration"} {
		for _, kind := range kinds {
			for _, required := range []bool{true, false} {
				for _, lst0 := range lists {
					for _, prefilled := range []bool{false, true} {
						lst := lst0
						if ptype != "Component" && (kind != 22 || len(lst) > 1) {
							continue
						}
						if prefilled && kind != 23 {
							continue // a slice field the application filled before start-up
						}
						var events []string
						var n, H *absint.Tok
						var metas []*absint.Tok
						var content absint.Value
						var nFieldSets int
						build := func() (absint.Oracle, []absint.Value, []absint.Value) {
							events = nil
							t := newTbl(c)
							n = absint.NewTok("prop", "property")
							H = absint.NewTok("H", "holdermeta")
							n.Fields["PropertyType"] = absint.Str(ptype)
							fld := absint.NewTok("prop.Field", "field")
							base := absint.NewTok("prop.Field.Base", "base")
							typ := absint.NewTok("fieldType", "type")
							fv := absint.NewTok("fieldValue", "rvalue")
							hold := absint.NewTok("holder", "holder")
							n.Fields["Field"], fld.Fields["Base"], fld.Fields["Holder"] = fld, base, hold
							base.Fields["Type"], base.Fields["Value"], hold.Fields["Meta"] = typ, fv, H
							in := &absint.List{IsNil: len(lst) == 0}
							metas = nil
							for i, k := range lst {
								m := absint.NewTok(fmt.Sprintf("M%d", i), k)
								// every candidate other than the holder lives at one and the same address (zero-size
								// components do), and is a wrapper whose own type does not fit the field while the
								// definition it replaced would: identity and version are decided by IsSelf and Value only
								mb := absint.NewTok(m.ID+".Base", "field")
								mb.Fields["Value"] = absint.NewTok(m.ID+".Base.Value", "field")
								mb.Fields["Type"] = absint.NewTok(m.ID+".Base.Type", "type")
								addr := int64(100)
								if k == "self" {
									addr = 7
								}
								mb.Fields["originAddress"] = absint.Int(addr)
								m.Fields["Base"] = mb
								metas = append(metas, m)
								in.Elems = append(in.Elems, m)
							}
							t.invokeN["Kind"] = func(ip *absint.Interp, args []absint.Value) absint.Value { return absint.Int(kind) }
							t.invokeN["Elem"] = func(ip *absint.Interp, args []absint.Value) absint.Value {
								return absint.NewTok("elem(fieldType)", "type")
							}
							t.invokeN["AssignableTo"] = func(ip *absint.Interp, args []absint.Value) absint.Value {
								ty, _ := args[0].(*absint.Tok)
								return absint.Bool(ty != nil && strings.Contains(ty.ID, "ProxyMeta"))
							}
							for _, nm := range []string{"Pointer", "UnsafeAddr"} {
								t.ext["(reflect.Value)."+nm] = func(ip *absint.Interp, args []absint.Value) absint.Value {
									v, _ := args[0].(*absint.Tok)
									if v != nil && strings.HasPrefix(v.ID, "H.") {
										return absint.Int(7)
									}
									return absint.Int(100)
								}
							}
							t.callee[isReq] = func(ip *absint.Interp, args []absint.Value) absint.Value { return absint.Bool(required) }
							t.callee[isSelf] = func(ip *absint.Interp, args []absint.Value) absint.Value {
								m, ok := args[1].(*absint.Tok)
								if !ok || args[0] != absint.Value(H) {
									panic(&absint.Undecided{Msg: "IsSelf is not asked of the holder's definition about a candidate"})
								}
								return absint.Bool(m.Class == "self")
							}
							if dependOn != nil {
								t.callee[dependOn] = func(ip *absint.Interp, args []absint.Value) absint.Value {
									events = append(events, "DEPON "+absint.Show(args[0])+" "+absint.Show(args[1]))
									return nil
								}
							}
							if stack != nil {
								t.callee[stack] = func(ip *absint.Interp, args []absint.Value) absint.Value { return &absint.Opaque{Why: "text"} }
							}
							// a small model of reflect values: the field is a location, slices are objects with element slots
							content = nil
							if prefilled {
								old := absint.NewTok("rslice", "rslice")
								old.Attr["elems"] = &absint.List{Elems: []absint.Value{absint.NewTok("OLD", "rvalue")}}
								old.Attr["type"] = typ
								content = old
							}
							nFieldSets = 0
							elemsOf := func(v absint.Value) (*absint.List, bool) {
								if v == absint.Value(fv) {
									v = content
								}
								if v == nil {
									return &absint.List{}, true
								}
								if s, ok := v.(*absint.Tok); ok && s.Class == "rslice" {
									return s.Attr["elems"].(*absint.List), true
								}
								return nil, false
							}
							newSlice := func(elems []absint.Value, typ absint.Value) *absint.Tok {
								s := absint.NewTok("rslice", "rslice")
								s.Attr["elems"] = &absint.List{Elems: elems}
								s.Attr["type"] = typ
								return s
							}
							t.ext["reflect.MakeSlice"] = func(ip *absint.Interp, args []absint.Value) absint.Value {
								n, ok := args[1].(absint.Int)
								if !ok {
									panic(&absint.Undecided{Msg: "MakeSlice with an unknown length"})
								}
								var el []absint.Value
								for i := 0; i < int(n); i++ {
									el = append(el, absint.Nil{})
								}
								return newSlice(el, args[0])
							}
							t.ext["(reflect.Value).Set"] = func(ip *absint.Interp, args []absint.Value) absint.Value {
								dst, _ := args[0].(*absint.Tok)
								switch {
								case dst == fv:
									content = args[1]
									nFieldSets++
								case dst != nil && dst.Class == "rindex":
									l := dst.Attr["parent"].(*absint.Tok).Attr["elems"].(*absint.List)
									l.Elems[int(dst.Attr["i"].(absint.Int))] = args[1]
								default:
									events = append(events, "SET-ELSEWHERE "+absint.Show(args[0]))
								}
								return nil
							}
							t.ext["(reflect.Value).Index"] = func(ip *absint.Interp, args []absint.Value) absint.Value {
								parent := args[0]
								if parent == absint.Value(fv) {
									parent = content
								}
								ps, ok := parent.(*absint.Tok)
								i, okI := args[1].(absint.Int)
								if !ok || ps.Class != "rslice" || !okI {
									panic(&absint.GoPanic{Msg: "reflect: Index of a non-slice value"})
								}
								if int(i) < 0 || int(i) >= len(ps.Attr["elems"].(*absint.List).Elems) {
									panic(&absint.GoPanic{Msg: "reflect: slice index out of range"})
								}
								r := absint.NewTok(fmt.Sprintf("slot[%d]", i), "rindex")
								r.Attr["parent"], r.Attr["i"] = ps, i
								return r
							}
							t.ext["reflect.Append"] = func(ip *absint.Interp, args []absint.Value) absint.Value {
								base, ok := elemsOf(args[0])
								if !ok {
									panic(&absint.Undecided{Msg: "reflect.Append to something that is not a modelled slice"})
								}
								el := append([]absint.Value(nil), base.Elems...)
								if more, isL := args[1].(*absint.List); isL {
									el = append(el, more.Elems...)
								}
								return newSlice(el, typ)
							}
							t.ext["reflect.AppendSlice"] = func(ip *absint.Interp, args []absint.Value) absint.Value {
								a, ok1 := elemsOf(args[0])
								b, ok2 := elemsOf(args[1])
								if !ok1 || !ok2 {
									panic(&absint.Undecided{Msg: "reflect.AppendSlice of unmodelled values"})
								}
								return newSlice(append(append([]absint.Value(nil), a.Elems...), b.Elems...), typ)
							}
							t.ext["(reflect.Value).Len"] = func(ip *absint.Interp, args []absint.Value) absint.Value {
								l, ok := elemsOf(args[0])
								if !ok {
									panic(&absint.Undecided{Msg: "reflect Len of an unmodelled value"})
								}
								return absint.Int(len(l.Elems))
							}
							return t, []absint.Value{n, in}, nil
						}
						check := func(ip *absint.Interp, out absint.Outcome) {
							w := fmt.Sprintf("type=%s kind=%d required=%v prefilled=%v candidates=%v effects=%v => %s", ptype, kind, required, prefilled, lst, events, showOutcome(out))
							if out.Panic != nil {
								rs.fail("nothing-to-inject", "PANIC: "+w)
								return
							}
							isErr := len(out.Ret) == 1 && isErrTok(out.Ret[0])
							var nonself []*absint.Tok
							for _, m := range metas {
								if m.Class != "self" {
									nonself = append(nonself, m)
								}
							}
							if ptype != "Component" {
								rs.hit("wrong-property-type")
								if !isErr || len(events) != 0 || nFieldSets != 0 {
									rs.fail("wrong-property-type", w)
								}
								return
							}
							if len(nonself) == 0 {
								rs.hit("nothing-to-inject")
								if isErr != required || len(events) != 0 || nFieldSets != 0 {
									rs.fail("nothing-to-inject", w)
								}
								return
							}
							row := "single"
							depon := map[string]int{}
							other := 0
							for _, e := range events {
								if strings.HasPrefix(e, "DEPON ") {
									depon[e]++
								} else {
									other++
								}
							}
							if kind == 23 || kind == 17 {
								row = "slice"
								rs.hit(row)
								okAll := !isErr && other == 0
								sl, isS := content.(*absint.Tok)
								if !isS || sl.Class != "rslice" || sl.Attr["type"] != absint.Value(nil) && absint.Show(sl.Attr["type"]) != "fieldType" {
									okAll = false
								} else {
									got := map[string]int{}
									for _, e := range sl.Attr["elems"].(*absint.List).Elems {
										got[absint.Show(e)]++
									}
									if len(got) != len(nonself) {
										okAll = false
									}
									for _, m := range nonself {
										if got[m.ID+".Base.Value"] != 1 {
											okAll = false
										}
									}
								}
								if len(depon) != len(nonself) {
									okAll = false
								}
								for _, m := range nonself {
									if depon["DEPON "+m.ID+" H"] != 1 {
										okAll = false
									}
								}
								if !okAll {
									rs.fail(row, w+" field="+showContent(content))
								}
							} else {
								rs.hit(row)
								okOne := false
								if !isErr && other == 0 && nFieldSets == 1 && len(depon) == 1 {
									for _, m := range nonself {
										if absint.Show(content) == m.ID+".Base.Value" && depon["DEPON "+m.ID+" H"] == 1 {
											okOne = true
										}
									}
								}
								if !okOne {
									rs.fail(row, w+" field="+showContent(content))
								}
							}
							rs.hit("injects-recorded")
							rec, _ := n.Fields["Injects"].(*absint.List)
							okRec := rec != nil
							if okRec {
								if row == "slice" {
									okRec = len(rec.Elems) == len(nonself)
									for i := range nonself {
										if okRec && rec.Elems[i] != absint.Value(nonself[i]) {
											okRec = false
										}
									}
								} else {
									// the injected one must be recorded (possibly with the other non-self candidates)
									for _, e := range rec.Elems {
										if t, isT := e.(*absint.Tok); !isT || t.Class == "self" {
											okRec = false
										}
									}
									okRec = okRec && len(rec.Elems) >= 1
								}
							}
							if !okRec {
								rs.fail("injects-recorded", w+" Injects="+absint.Show(n.Fields["Injects"]))
							}
						}
						n2, u := runTable(c, inj, build, check)
						runs += n2
						if u != "" {
							return rs, runs, u
						}
					}
				}
			}
		}
	}
	return
}

// ---- early-reference factory table -----------------------------------------------------------------------

var earlyFactoryRows = map[string]string{
	"chain":       "every SmartInstantiationAware processor is asked exactly once, in list order, each with the previous one's result",
	"error":       "a failing processor makes the early reference fail",
	"identity":    "when no processor substitutes, the original definition is the early reference",
	"substituted": "when a processor substitutes, the early reference is a proxy of the final object made from the original definition",
}

func earlyFactoryTable(c *core.Ctx, l *lifecycleRoles, maxLen int) (rs rows, runs int, undecided string) {
	ro := c.Roles()
	rs = rows{}
	// the literal registered as early factory
	var lit *ssa.Function
	for _, ci := range addFactorySites(c, l) {
		lit = core.ClosureOf(ci.Common().Args[1])
	}
	if lit == nil {
		return rs, 0, "the early factory handed to AddSingletonFactory is not a function literal"
	}
	smart := c.Named("container", "SmartInstantiationAwareBeanPostProcessor")
	ia := c.Named("container", "InstantiationAwareComponentPostProcessor")
	metaT := c.Named("component_definition", "Meta")
	classes := []string{"smartWrap", "smartSame", "plain", "smartErr", "iaOnly"}
	var lists [][]string
	var gen func(prefix []string)
	gen = func(prefix []string) {
		lists = append(lists, append([]string(nil), prefix...))
		if len(prefix) < maxLen {
			for _, k := range classes {
				gen(append(append([]string(nil), prefix...), k))
			}
		}
	}
	gen(nil)
	for _, lst := range lists {
		var events []string
		var proxies []*absint.Tok
		var f, name, meta, raw *absint.Tok
		nW := 0
		build := func() (absint.Oracle, []absint.Value, []absint.Value) {
			events, proxies, nW = nil, nil, 0
			t := newTbl(c)
			f, name, meta = absint.NewTok("f", "factory"), absint.NewTok("name", "key"), absint.NewTok("meta", "meta")
			raw = absint.NewTok("meta.Raw", "raw")
			meta.Fields["Raw"] = raw
			procs := &absint.List{IsNil: len(lst) == 0}
			hasIA := false
			for i, k := range lst {
				procs.Elems = append(procs.Elems, absint.NewTok(fmt.Sprintf("p%d:%s", i, k), k))
				if k != "plain" {
					hasIA = true
				}
			}
			var regState *absint.Tok
			regTried := false
			t.field = func(ip *absint.Interp, obj *absint.Tok, fname string, typ types.Type) absint.Value {
				if b, ok := typ.Underlying().(*types.Basic); ok && b.Kind() == types.Bool {
					return absint.Bool(hasIA) // registration sets the flag when such a processor exists (checked structurally)
				}
				if obj != f {
					if v := policyField(c, t, procs, fname, typ, &regState, &regTried); v != nil {
						return v
					}
				}
				if sl, ok := typ.Underlying().(*types.Slice); ok && types.IsInterface(sl.Elem()) {
					return dispatchList(c, t, fname, procs)
				}
				return nil
			}
			t.typeTest = func(v absint.Value, T types.Type) (bool, bool) {
				p, ok := v.(*absint.Tok)
				if !ok {
					return false, false
				}
				switch {
				case types.Identical(T, smart):
					return strings.HasPrefix(p.Class, "smart"), true
				case types.Identical(T, ia):
					return p.Class != "plain", true
				}
				return false, false
			}
			t.invoke[ro.SmartEarlyRef] = func(ip *absint.Interp, args []absint.Value) absint.Value {
				p := args[0].(*absint.Tok)
				events = append(events, p.ID+"("+absint.Show(args[1])+")")
				switch p.Class {
				case "smartWrap":
					nW++
					return absint.Tuple{absint.NewTok(fmt.Sprintf("W%d", nW), "wrapped"), absint.Nil{}}
				case "smartErr":
					return absint.Tuple{absint.Nil{}, t.newErr("early")}
				}
				return absint.Tuple{args[1], absint.Nil{}}
			}
			t.callee[ro.CreateProxy] = func(ip *absint.Interp, args []absint.Value) absint.Value {
				p := absint.NewTok(fmt.Sprintf("proxy%d", len(proxies)), "proxy")
				p.Attr["origin"], p.Attr["new"] = args[0], args[2]
				proxies = append(proxies, p)
				return absint.Tuple{p, absint.Nil{}}
			}
			pick0 := func(et types.Type) absint.Value {
				switch {
				case core.NamedOf(et) == metaT:
					return meta
				case isString(et):
					return name
				case l.exposer.Signature.Recv() != nil && core.NamedOf(et) != nil && core.NamedOf(et) == core.NamedOf(l.exposer.Signature.Recv().Type()):
					return f
				}
				return nil
			}
			pick := func(et types.Type) absint.Value {
				if v := valueOfType(et, pick0, 0); v != nil {
					return v
				}
				return f
			}
			var bind []absint.Value
			for _, fv := range lit.FreeVars {
				et := fv.Type().Underlying().(*types.Pointer).Elem()
				bind = append(bind, &absint.Cell{V: pick(et)})
			}
			if lit.Signature.Recv() != nil {
				// a factory object: its fields hold what a literal would have captured
				recv := absint.NewTok("earlyFactory", "factory-object")
				rt := lit.Signature.Recv().Type()
				if pt, ok := rt.Underlying().(*types.Pointer); ok {
					rt = pt.Elem()
				}
				if st, ok := rt.Underlying().(*types.Struct); ok {
					for i := 0; i < st.NumFields(); i++ {
						ft := st.Field(i).Type()
						if pt, ok := ft.Underlying().(*types.Pointer); ok && core.NamedOf(pt.Elem()) != nil {
							ft = pt.Elem()
						}
						recv.Fields[st.Field(i).Name()] = pick(ft)
					}
				}
				return t, []absint.Value{recv}, nil
			}
			return t, nil, bind
		}
		check := func(ip *absint.Interp, out absint.Outcome) {
			w := fmt.Sprintf("processors=%v calls=%v => %s", lst, events, showOutcome(out))
			// expected chain
			var want []string
			cur := "meta.Raw"
			failed := false
			k := 0
			for i, cl := range lst {
				if !strings.HasPrefix(cl, "smart") {
					continue
				}
				want = append(want, fmt.Sprintf("p%d:%s(%s)", i, cl, cur))
				if cl == "smartErr" {
					failed = true
					break
				}
				if cl == "smartWrap" {
					k++
					cur = fmt.Sprintf("W%d", k)
				}
			}
			rs.hit("chain")
			if strings.Join(want, " ") != strings.Join(events, " ") {
				rs.fail("chain", w+" expected calls "+strings.Join(want, " "))
			}
			isErr := len(out.Ret) == 2 && isErrTok(out.Ret[1])
			if out.Panic != nil {
				rs.fail("chain", "PANIC "+w)
				return
			}
			switch {
			case failed:
				rs.hit("error")
				if !isErr {
					rs.fail("error", w)
				}
			case cur == "meta.Raw":
				rs.hit("identity")
				if isErr || len(out.Ret) == 0 || out.Ret[0] != absint.Value(meta) {
					rs.fail("identity", w)
				}
			default:
				rs.hit("substituted")
				okP := false
				if !isErr && len(out.Ret) > 0 {
					if p, isT := out.Ret[0].(*absint.Tok); isT && p.Class == "proxy" {
						okP = isTokID(p.Attr["new"], cur) && p.Attr["origin"] == absint.Value(meta)
					}
				}
				if !okP {
					rs.fail("substituted", w)
				}
			}
		}
		n2, u := runTable(c, lit, build, check)
		runs += n2
		if u != "" {
			return rs, runs, u
		}
	}
	return
}

func isString(t types.Type) bool {
	b, ok := t.Underlying().(*types.Basic)
	return ok && b.Info()&types.IsString != 0
}

func showContent(v absint.Value) string {
	if s, ok := v.(*absint.Tok); ok && s.Class == "rslice" {
		return "slice" + absint.Show(s.Attr["elems"])
	}
	return absint.Show(v)
}
