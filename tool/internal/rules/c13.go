package rules

import (
	"fmt"
	"go/types"
	"reflect"
	"strings"

	"golang.org/x/tools/go/ssa"

	"iocvet/internal/core"
)

func init() { register("C13", c13) }

// wrapperChain finds, inside fn, calls whose (in-package static) callee transitively invokes m, returning
// the call site in fn and verifying every wrapper on the way returns nil only if the wrapped call did.
func callsReachingInvoke(c *core.Ctx, fn *ssa.Function, m *types.Func, depth int) (site *ssa.Call, nilOnlyIf bool, why string) {
	for _, ci := range core.Calls(fn) {
		call, ok := ci.(*ssa.Call)
		if !ok {
			continue
		}
		if core.IsInvoke(call.Common(), m) {
			return call, true, ""
		}
		cal := call.Common().StaticCallee()
		if cal == nil || !c.InScope(cal) || depth <= 0 || core.PkgOf(cal) != core.PkgOf(fn) {
			continue
		}
		inner, ok2, w := callsReachingInvoke(c, cal, m, depth-1)
		if inner == nil {
			continue
		}
		if !ok2 {
			return call, false, w
		}
		if ok3, ret := core.NilOnlyIf(cal, inner); !ok3 {
			return call, false, fmt.Sprintf("wrapper %s can return a nil error at %s although the wrapped call failed", core.FnName(cal), c.Pos(ret.Pos()))
		}
		return call, true, ""
	}
	return nil, false, ""
}

// wireByTypeField checks that an in-scope struct has a field of type []iface tagged wire with an empty name.
func wireByTypeField(c *core.Ctx, r *core.Report, rule string, iface *types.Named) {
	found := 0
	for _, p := range c.Pkgs {
		if !core.InScopePath(p.PkgPath) {
			continue
		}
		sc := p.Types.Scope()
		for _, name := range sc.Names() {
			tn, ok := sc.Lookup(name).(*types.TypeName)
			if !ok {
				continue
			}
			st, ok := tn.Type().Underlying().(*types.Struct)
			if !ok {
				continue
			}
			for i := 0; i < st.NumFields(); i++ {
				sl, ok := st.Field(i).Type().(*types.Slice)
				if !ok || !types.Identical(sl.Elem(), iface) {
					continue
				}
				found++
				cons := "field:" + tn.Name() + "." + st.Field(i).Name()
				tag, ok := reflect.StructTag(st.Tag(i)).Lookup("wire")
				if !ok {
					r.Fail(rule, cons, c.Pos(st.Field(i).Pos()), "collection field carries no wire tag")
					continue
				}
				nm := tag
				if k := strings.Index(tag, ","); k >= 0 {
					nm = tag[:k]
				}
				r.Check(nm == "" && st.Field(i).Exported(), rule, cons, c.Pos(st.Field(i).Pos()),
					"collection field is exported and wired by type (wire tag with empty name: collect every implementer)")
			}
		}
	}
	r.Floor(rule, "collection field of []"+iface.Obj().Name(), found, 1)
}

func c13(c *core.Ctx, r *core.Report) {
	ro := c.Roles()
	r.Explanation = "C13 runners: (R1) the call that reaches the runner loop is dominated by the nil-error edge of the (wrapped) Factory.Refresh call, wrappers return nil only if the wrapped call did; (R2) exactly one synchronous invoke site of ApplicationRunner.Run, in a forward range over the sorter's result, whose non-nil error edge leaves the loop with a non-nil error; the runner loop has a single call site outside any loop; (R3) Refresh's creation loop turns every creation error into a non-nil return; (R4) the runner collection field is wired by type. Decides order of phases, single invocation site and stop-at-first-error on all paths; does not decide what a runner does."
	r.Assumptions = []string{"runner bodies are user code", "App.Run is called once per start by the user"}

	// R2: the invoke site
	sites := c.CallSites(func(com *ssa.CallCommon) bool { return core.IsInvoke(com, ro.RunnerRun) })
	r.Count("runner_invoke_sites", len(sites))
	if !r.Exactly("C13.R2", "invoke sites of ApplicationRunner.Run", len(sites), 1) {
		return
	}
	site := sites[0]
	invoker := site.Parent()
	cons := "Run@" + core.FnName(invoker)
	call, isCall := site.(*ssa.Call)
	if !isCall {
		r.Fail("C13.R2", cons, c.Pos(site.Pos()), "runner is started by go/defer: Run() would not wait for it and its error is lost")
		return
	}
	rl := core.RangeLoopOf(invoker, site.Block())
	switch {
	case rl == nil:
		r.Fail("C13.R2", cons+":loop", c.Pos(site.Pos()), "runner invoke is not inside a forward range")
	case core.InnermostLoop(invoker, site.Block()) != nil && len(core.InnermostLoop(invoker, site.Block()).Blocks) < len(rl.Loop.Blocks):
		r.Fail("C13.R2", cons+":loop", c.Pos(site.Pos()), "runner invoke sits in a nested loop (could run more than once)")
	case !rl.ElemOf(core.Norm(call.Common().Value)):
		r.Fail("C13.R2", cons+":loop", c.Pos(site.Pos()), "invoked runner is not the current element of the ranged slice")
	case !sortedProvenance(c, rl.Slice, ro.Sorter):
		r.Fail("C13.R2", cons+":loop", c.Pos(site.Pos()), "ranged slice is not the sorter's result")
	default:
		// the loop itself must not be nested in another loop
		nested := false
		for _, l := range core.Loops(invoker) {
			if l != rl.Loop && l.Blocks[rl.Header] && l.Header != rl.Header {
				nested = true
			}
		}
		r.Check(!nested, "C13.R2", cons+":loop", c.Pos(site.Pos()), "each runner is invoked once: single site, current element of a forward range over the sorter's result, loop not nested")
	}
	// stop at first error
	use := core.ClassifyErr(call)
	switch use.Class {
	case core.ErrTested:
		// additionally: the non-nil edge must not re-enter the loop
		reenters := false
		for _, t := range use.Tests {
			if rl != nil && core.ReachableFrom(t.NonNil, nil)[rl.Header] {
				reenters = true
			}
		}
		r.Check(!reenters, "C13.R2", cons+":stop-at-error", c.Pos(site.Pos()), "a runner error leaves the loop with a non-nil error (no later runner is invoked)")
	case core.ErrReturned:
		r.Hold("C13.R2", cons+":stop-at-error", c.Pos(site.Pos()), "runner error is returned directly")
	default:
		pos := c.Pos(site.Pos())
		if use.Escape != nil {
			pos = c.Pos(use.Escape.Pos())
		}
		r.Fail("C13.R2", cons+":stop-at-error", pos, "runner error is "+string(use.Class)+": "+use.Detail)
	}
	// the slice ranged is the collection field (sorter argument loaded from a []ApplicationRunner field)
	// single caller of the invoker, outside loops
	var callerSites []ssa.CallInstruction
	for _, fn := range c.Scope {
		callerSites = append(callerSites, core.CallsMatching(fn, func(com *ssa.CallCommon) bool { return core.IsCallTo(com, invoker) })...)
	}
	uses := c.FuncValueUses(invoker)
	if !r.Exactly("C13.R1", "call sites of the runner loop "+core.FnName(invoker), len(callerSites)+len(uses), 1) || len(callerSites) != 1 {
		return
	}
	cs := callerSites[0]
	runFn := cs.Parent()
	if _, ok := cs.(*ssa.Call); !ok || core.InLoop(cs.Block()) {
		r.Fail("C13.R1", "runner-phase@"+core.FnName(runFn), c.Pos(cs.Pos()), "runner phase is started by go/defer or inside a loop")
		return
	}
	// R1 gating
	refreshSite, okWrap, why := callsReachingInvoke(c, runFn, ro.FRefresh, 2)
	switch {
	case refreshSite == nil:
		r.Undecided("C13.R1", "gating@"+core.FnName(runFn), c.FnPos(runFn), "no call reaching Factory.Refresh found in the function that starts the runners")
	case !okWrap:
		r.Fail("C13.R1", "gating@"+core.FnName(runFn), c.Pos(refreshSite.Pos()), why)
	case !core.OnNilErrEdge(refreshSite, cs):
		r.Fail("C13.R1", "gating@"+core.FnName(runFn), c.Pos(cs.Pos()), "runner phase is not dominated by the nil-error edge of the refresh phase: runners can start although refresh failed or before it ran")
	default:
		r.Hold("C13.R1", "gating@"+core.FnName(runFn), c.Pos(cs.Pos()), "runner phase is dominated by the nil-error edge of the call reaching Factory.Refresh; wrappers return nil only if Refresh did")
	}
	// also the factory preparation phase precedes and gates
	if prepSite, okW, w := callsReachingInvoke(c, runFn, ro.FPrepare, 2); prepSite != nil {
		r.Check(okW && core.OnNilErrEdge(prepSite, cs) && core.OnNilErrEdge(prepSite, refreshSite), "C13.R1", "prepare-gates@"+core.FnName(runFn), c.Pos(prepSite.Pos()),
			"refresh and runner phases are dominated by the nil-error edge of the call reaching Factory.PrepareComponents "+w)
	}

	// R3: Refresh implementations
	fimpls := c.Implementors(c.Iface("container", "Factory"))
	n := 0
	for _, T := range fimpls {
		ref := c.DeclaredMethod(T, "Refresh")
		if ref == nil {
			continue
		}
		n++
		accs := ro.CacheAccessors()
		var creates []*ssa.Call
		for _, ci := range core.Calls(ref) {
			if cl, ok := ci.(*ssa.Call); ok {
				for _, a := range accs {
					if core.IsCallTo(cl.Common(), a) {
						creates = append(creates, cl)
					}
				}
				if core.IsInvoke(cl.Common(), ro.FGetComponentByName) {
					creates = append(creates, cl)
				}
			}
		}
		cons := "refresh-loop@" + core.FnName(ref)
		if len(creates) == 0 {
			r.Undecided("C13.R3", cons, c.FnPos(ref), "no creation call found in Refresh")
			continue
		}
		for _, cl := range creates {
			c05RefreshLazy(c, r, ref, cl, "C13.R3")
			u := core.ClassifyErr(cl)
			r.Check(u.Class == core.ErrTested || u.Class == core.ErrReturned, "C13.R3", cons, c.Pos(cl.Pos()),
				"a creation error in Refresh becomes a non-nil return ("+string(u.Class)+" "+u.Detail+")")
		}
	}
	r.Floor("C13.R3", "Factory implementations with a Refresh method", n, 1)

	// R5: the ordering contract itself, for the runner instance of the sorter (C12.R1-R3)
	if rl != nil {
		if call, ok := core.Norm(rl.Slice).(*ssa.Call); ok && core.IsCallTo(call.Common(), ro.Sorter) {
			n := sorterTableFor(c, r, call.Common().StaticCallee(), 2, func(row string) string { return "C13.R5" })
			r.Count("sorter_abstract_runs", n)
			if sf := c.Func("util/sort2", "Slice"); sf != nil {
				c12R4On(c, r, sf, "C13.R5")
			}
		}
	}
	// R4
	if ar := c.Named("definition", "ApplicationRunner"); ar != nil {
		wireByTypeField(c, r, "C13.R4", ar)
	} else {
		r.Undecided("C13.R4", "role:ApplicationRunner", "", "definition.ApplicationRunner not found")
	}
}
