package rules

import (
	"fmt"
	"go/types"
	"reflect"
	"strings"

	"golang.org/x/tools/go/ssa"

	"iocvet/internal/core"
)

func init() { register("C13", c13) }

// wrapperChain finds, inside fn, calls whose (in-package static) callee transitively invokes m, returning
// the call site in fn and verifying every wrapper on the way returns nil only if the wrapped call did.
func callsReachingInvoke(c *core.Ctx, fn *ssa.Function, m *types.Func, depth int) (site *ssa.Call, nilOnlyIf bool, why string) {
	for _, ci := range core.Calls(fn) {
		call, ok := ci.(*ssa.Call)
		if !ok {
			continue
		}
		if core.IsInvoke(call.Common(), m) {
			return call, true, ""
		}
		cal := call.Common().StaticCallee()
		if cal == nil || !c.InScope(cal) || depth <= 0 || core.PkgOf(cal) != core.PkgOf(fn) {
			continue
		}
		inner, ok2, w := callsReachingInvoke(c, cal, m, depth-1)
		if inner == nil {
			continue
		}
		if !ok2 {
			return call, false, w
		}
		if ok3, ret := core.NilOnlyIf(cal, inner); !ok3 {
			return call, false, fmt.Sprintf("wrapper %s can return a nil error at %s although the wrapped call failed", core.FnName(cal), c.Pos(ret.Pos()))
		}
		return call, true, ""
	}
	return nil, false, ""
}

// wireByTypeField checks that an in-scope struct has a field of type []iface tagged wire with an empty name.
func wireByTypeField(c *core.Ctx, r *core.Report, rule string, iface *types.Named) {
	found := 0
	for _, p := range c.Pkgs {
		if !core.InScopePath(p.PkgPath) {
			continue
		}
		sc := p.Types.Scope()
		for _, name := range sc.Names() {
			tn, ok := sc.Lookup(name).(*types.TypeName)
			if !ok {
				continue
			}
			st, ok := tn.Type().Underlying().(*types.Struct)
			if !ok {
				continue
			}
			if n, isNamed := tn.Type().(*types.Named); isNamed && transientType(c, n, 0) {
				continue // a run context / policy object made per call: nothing is wired into it
			}
			for i := 0; i < st.NumFields(); i++ {
				sl, ok := st.Field(i).Type().(*types.Slice)
				if !ok || !types.Identical(sl.Elem(), iface) {
					continue
				}
				found++
				cons := "field:" + tn.Name() + "." + st.Field(i).Name()
				tag, ok := reflect.StructTag(st.Tag(i)).Lookup("wire")
				if !ok {
					r.Fail(rule, cons, c.Pos(st.Field(i).Pos()), "collection field carries no wire tag")
					continue
				}
				nm := tag
				if k := strings.Index(tag, ","); k >= 0 {
					nm = tag[:k]
				}
				r.Check(nm == "" && st.Field(i).Exported(), rule, cons, c.Pos(st.Field(i).Pos()),
					"collection field is exported and wired by type (wire tag with empty name: collect every implementer)")
			}
		}
	}
	r.Floor(rule, "collection field of []"+iface.Obj().Name(), found, 1)
}

func c13(c *core.Ctx, r *core.Report) {
	ro := c.Roles()
	r.Explanation = "C13 runners: (R1) the call that reaches the runner loop is dominated by the nil-error edge of the (wrapped) Factory.Refresh call, wrappers return nil only if the wrapped call did; (R2) exactly one synchronous invoke site of ApplicationRunner.Run, in a forward range over the sorter's result, whose non-nil error edge leaves the loop with a non-nil error; the runner loop has a single call site outside any loop; (R3) Refresh's creation loop turns every creation error into a non-nil return; (R4) the runner collection field is wired by type. Decides order of phases, single invocation site and stop-at-first-error on all paths; does not decide what a runner does."
	r.Assumptions = []string{"runner bodies are user code", "App.Run is called once per start by the user"}

	// R2: the invoke site: exactly one, synchronous
	sites := notForwarders(c, c.CallSites(func(com *ssa.CallCommon) bool { return core.IsInvoke(com, ro.RunnerRun) }), c.Iface("definition", "ApplicationRunner"), "Run")
	r.Count("runner_invoke_sites", len(sites))
	if !r.Exactly("C13.R2", "invoke sites of ApplicationRunner.Run", len(sites), 1) {
		return
	}
	site := sites[0]
	if _, isCall := site.(*ssa.Call); !isCall {
		r.Fail("C13.R2", "Run@"+core.FnName(site.Parent()), c.Pos(site.Pos()), "runner is started by go/defer: Run() would not wait for it and its error is lost")
		return
	}
	// R1/R2: decision table of the start routine
	var runnerInst *ssa.Function
	subjects := startRoutines(c)
	ar := c.Named("definition", "ApplicationRunner")
	appT := c.Named("app", "App")
	if r.Exactly("C13.R1", "start routines (smallest function of package app reaching both Factory.Refresh and ApplicationRunner.Run)", len(subjects), 1) && ar != nil && appT != nil {
		runFn := subjects[0]
		field := sliceFieldOf(appT, ar)
		cons := "run-table@" + core.FnName(runFn)
		if field == "" || len(runFn.Params) != 1 {
			r.Undecided("C13.R1", cons, c.FnPos(runFn), "App has no []ApplicationRunner field, or the start routine takes parameters")
		} else {
			maxLen := 2
			if r.Tier == "thorough" {
				maxLen = 3
			}
			rrs, rruns, rund := appRunTable(c, runFn, field, maxLen)
			r.Count("run_table_runs", rruns)
			if rund != "" {
				r.Undecided("C13.R1", cons, c.FnPos(runFn), "abstract interpretation left the model: "+rund)
			} else {
				smallModelCheck(c, r, "C13.R2", cons, runFn, int64(maxLen))
				rrs.report(c, r, runFn, func(row string) string {
					if row == "phases" {
						return "C13.R1"
					}
					return "C13.R2"
				}, cons, runRows)
			}
		}
		// the sorter instance used for the runners
		seen := map[*ssa.Function]bool{}
		reachesCall(runFn, func(com *ssa.CallCommon) bool {
			if cal := com.StaticCallee(); cal != nil && core.IsCallTo(com, ro.Sorter) {
				runnerInst = cal
			}
			return false
		}, seen)
	}
	// the start routine is itself called once, outside loops, synchronously
	if len(subjects) == 1 {
		runFn := subjects[0]
		var callerSites []ssa.CallInstruction
		for _, fn := range c.Scope {
			callerSites = append(callerSites, core.CallsMatching(fn, func(com *ssa.CallCommon) bool { return core.IsCallTo(com, runFn) })...)
		}
		uses := c.FuncValueUses(runFn)
		if r.Exactly("C13.R1", "call sites of the start routine "+core.FnName(runFn), len(callerSites)+len(uses), 1) && len(callerSites) == 1 {
			cs := callerSites[0]
			_, isCall := cs.(*ssa.Call)
			r.Check(isCall && !core.InLoop(cs.Block()), "C13.R1", "start-once@"+core.FnName(cs.Parent()), c.Pos(cs.Pos()), "the start routine is called synchronously, outside any loop")
			if isCall {
				u := core.ClassifyErr(cs.(*ssa.Call))
				r.Check(u.Class == core.ErrTested || u.Class == core.ErrReturned, "C13.R1", "start-error@"+core.FnName(cs.Parent()), c.Pos(cs.Pos()), "an error of the start routine becomes Run's error ("+string(u.Class)+" "+u.Detail+")")
			}
		}
	}

	// R3: Refresh: decision table (creation errors end refresh with an error; completeness of the eager list)
	refreshRules(c, r, func(row string) string {
		if row == "error" || row == "eager-only" {
			return "C13.R3"
		}
		return ""
	})

	// R5: the ordering contract itself, for the runner instance of the sorter (C12.R1-R3)
	if runnerInst != nil {
		n := sorterTableFor(c, r, runnerInst, 2, func(row string) string { return "C13.R5" })
		r.Count("sorter_abstract_runs", n)
		if sf := c.Func("util/sort2", "Slice"); sf != nil {
			c12R4On(c, r, sf, "C13.R5")
		}
	} else {
		r.Undecided("C13.R5", "sorter-instance", "", "the start routine does not call the ordering helper")
	}
	// R4
	if ar != nil {
		wireByTypeField(c, r, "C13.R4", ar)
	} else {
		r.Undecided("C13.R4", "role:ApplicationRunner", "", "definition.ApplicationRunner not found")
	}
}

// startRoutines: the smallest functions of package app that reach both Factory.Refresh and ApplicationRunner.Run -
// lifted, when the protocol sits in a helper that is handed its steps, to the helper's only caller that takes
// nothing but the App.
func startRoutines(c *core.Ctx) []*ssa.Function {
	ro := c.Roles()
	subs := lowestReaching(c, "app",
		func(com *ssa.CallCommon) bool { return core.IsInvoke(com, ro.FRefresh) },
		func(com *ssa.CallCommon) bool { return core.IsInvoke(com, ro.RunnerRun) })
	var out []*ssa.Function
	for _, f := range subs {
		g := liftToShape(c, f, func(sig *types.Signature) bool { return sig.Params().Len() == 0 })
		if !containsFn(out, g) {
			out = append(out, g)
		}
	}
	return out
}
