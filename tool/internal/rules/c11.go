package rules

import (
	"fmt"
	"go/token"
	"go/types"
	"sort"
	"strings"

	"golang.org/x/tools/go/ssa"

	"iocvet/internal/absint"
	"iocvet/internal/core"
)

func init() { register("C11", c11) }

var scanRows = map[string]string{
	"embedded-struct":  "an anonymous, untagged, by-value struct field is descended into with an embed holder built from the same sub-value and is not itself recorded",
	"settable-field":   "any other settable field is recorded exactly once with its type, value, declaring holder and struct field",
	"unsettable-field": "an unexported (unsettable) field is neither recorded nor descended into",
	"whole-scan":       "scanning a struct with fields before, inside and after an embedded struct records every settable one exactly once, in declaration order, the embedded struct's fields in its place and under an embed holder",
}

// scanTable interprets the per-field callback of Meta.scanFields.
func scanTable(c *core.Ctx) (rs rows, runs int, lit *ssa.Function, undecided string) {
	rs = rows{}
	meta := c.Named("component_definition", "Meta")
	scan := fieldScanner(c)
	if scan == nil || meta == nil {
		return rs, 0, nil, "the routine that fills Meta.Fields was not found (or there are several)"
	}
	// the per-field callback: the function value scanFields (or a helper it is split into) hands to a struct-field
	// iterator of util/reflectx - a literal, or a method value of a parameter object
	var cbs []*ssa.Function
	for _, fn := range c.StaticCalleesInPkg(scan, nil) {
		for _, g := range core.WithAnon(fn) {
			for _, ci := range core.Calls(g) {
				cal := ci.Common().StaticCallee()
				if cal == nil || cal.Pkg == nil || !strings.HasSuffix(cal.Pkg.Pkg.Path(), "util/reflectx") {
					continue
				}
				for _, a := range ci.Common().Args {
					if _, isSig := a.Type().Underlying().(*types.Signature); isSig {
						if cb := resolveWrapper(core.ClosureOf(a)); cb != nil && cb.Blocks != nil {
							cbs = append(cbs, cb)
						}
					}
				}
			}
		}
	}
	if len(cbs) == 1 {
		// the callback must be the one that records: a callback that only lists the struct's members for a walk done
		// elsewhere is part of a scan that is decided as a whole
		records := false
		stores, _ := c.FieldAccesses(meta, "Fields")
		for _, f := range c.StaticCalleesInPkg(cbs[0], nil) {
			for _, g := range core.WithAnon(f) {
				for _, st := range stores {
					if st.Fn == g {
						records = true
					}
				}
			}
		}
		if !records {
			cbs = nil
		}
	}
	if len(cbs) != 1 {
		// no per-field callback (the scan ranges over a list of fields it built itself): decide the same rows on the
		// scanning routine as a whole, one struct per field shape
		lit = scan
		for _, anonymous := range []bool{true, false} {
			for _, tag := range []string{"", `wire:""`} {
				for _, kind := range []int64{25, 22, 20, 24} {
					for _, canSet := range []bool{true, false} {
						layout := map[string][]scanField{
							"T:top": {{"F", anonymous, kind, canSet, tag}},
							"T:F":   {{"x", false, 24, true, ""}},
						}
						got, und := scanWholeRun(c, scan, layout)
						runs++
						if und != "" {
							return rs, runs, lit, und
						}
						w := fmt.Sprintf("struct {F (anonymous=%v tag=%q kind=%d settable=%v) {x}}: recorded %v", anonymous, tag, kind, canSet, got)
						switch {
						case anonymous && tag == "" && kind == 25:
							rs.hit("embedded-struct")
							if fmt.Sprint(got) != `["x":T:x/V:x@embed(T:F,V:F)]` {
								rs.fail("embedded-struct", w)
							}
						case canSet:
							rs.hit("settable-field")
							if fmt.Sprint(got) != `["F":T:F/V:F@top]` {
								rs.fail("settable-field", w)
							}
						default:
							rs.hit("unsettable-field")
							if len(got) != 0 {
								rs.fail("unsettable-field", w)
							}
						}
					}
				}
			}
		}
		wr, wund := scanWhole(c, scan)
		runs++
		if wund != "" {
			return rs, runs, lit, wund
		}
		rs.hit("whole-scan")
		if wr != "" {
			rs.fail("whole-scan", wr)
		}
		return rs, runs, lit, ""
	}
	lit = cbs[0]
	newEmbed := c.Func("component_definition", "NewEmbedHolder")
	holderT := c.Named("component_definition", "Holder")
	for _, anonymous := range []bool{true, false} {
		for _, tag := range []string{"", `wire:""`} {
			for _, kind := range []int64{25, 22, 20, 24} { // struct, pointer, interface, string
				for _, canSet := range []bool{true, false} {
					var events []string
					var lastBind []absint.Value
					var m, holder, value, sf, ftype *absint.Tok
					build := func() (absint.Oracle, []absint.Value, []absint.Value) {
						events = nil
						t := newTbl(c)
						m = absint.NewTok("meta", "meta")
						m.Fields["Fields"] = &absint.List{IsNil: true}
						holder = absint.NewTok("holder", "holder")
						holder.Fields["Meta"] = m
						holder.Fields["IsEmbed"], holder.Fields["Holder"] = absint.Bool(false), absint.Nil{} // the component's own holder
						value = absint.NewTok("fieldValue", "rvalue")
						sf = absint.NewTok("structField", "structfield")
						ftype = absint.NewTok("T:field", "type")
						sf.Fields["Anonymous"], sf.Fields["Tag"], sf.Fields["Type"] = absint.Bool(anonymous), absint.Str(tag), ftype
						t.invokeN["Kind"] = func(ip *absint.Interp, a []absint.Value) absint.Value { return absint.Int(kind) }
						t.ext["(reflect.Value).CanSet"] = func(ip *absint.Interp, a []absint.Value) absint.Value {
							if a[0] != absint.Value(value) {
								panic(&absint.Undecided{Msg: "CanSet asked of something else than the field's value"})
							}
							return absint.Bool(canSet)
						}
						t.callee[scan] = func(ip *absint.Interp, a []absint.Value) absint.Value {
							h, _ := a[1].(*absint.Tok)
							desc := "?"
							if h != nil {
								b, _ := h.Fields["Base"].(*absint.Tok)
								bt, bv := absint.Value(nil), absint.Value(nil)
								if b != nil {
									bt, bv = b.Fields["Type"], b.Fields["Value"]
								}
								desc = fmt.Sprintf("embed=%s parent=%s meta=%s type=%s value=%s", absint.Show(h.Fields["IsEmbed"]), absint.Show(h.Fields["Holder"]), absint.Show(h.Fields["Meta"]), absint.Show(bt), absint.Show(bv))
							}
							events = append(events, "RECURSE "+desc)
							return nil
						}
						_ = newEmbed
						pick := func(ty types.Type) absint.Value {
							switch ty.String() {
							case "reflect.StructField":
								return sf
							case "reflect.Value":
								return value
							}
							if pt, ok := ty.Underlying().(*types.Pointer); ok {
								switch core.NamedOf(pt.Elem()) {
								case holderT:
									return holder
								case meta:
									return m
								}
							}
							return nil
						}
						var bind []absint.Value
						for _, fv := range lit.FreeVars {
							// a captured variable is a cell holding the value
							et := fv.Type().Underlying().(*types.Pointer).Elem()
							v := valueOfType(et, pick, 0)
							if v == nil {
								v = absint.New(nil).ZeroOf(et) // a local accumulator of the scanning function
							}
							bind = append(bind, &absint.Cell{V: v})
						}
						lastBind = bind
						return t, layoutArgs(lit, pick), bind
					}
					check := func(ip *absint.Interp, out absint.Outcome) {
						fl, _ := m.Fields["Fields"].(*absint.List)
						if fl == nil || len(fl.Elems) == 0 {
							// the scanning routine may accumulate in a local list that it hands back
							for _, b := range lastBind {
								if cell, ok := b.(*absint.Cell); ok {
									if l, ok := cell.V.(*absint.List); ok && len(l.Elems) > 0 {
										fl = l
									}
								}
							}
						}
						nrec := 0
						recDesc := ""
						if fl != nil {
							nrec = len(fl.Elems)
							if nrec == 1 {
								if f, ok := fl.Elems[0].(*absint.Tok); ok {
									b, _ := f.Fields["Base"].(*absint.Tok)
									bt, bv := absint.Value(nil), absint.Value(nil)
									if b != nil {
										bt, bv = b.Fields["Type"], b.Fields["Value"]
									}
									sfd := "?"
									if s2, isT := f.Fields["StructField"].(*absint.Tok); isT {
										sfd = absint.Show(s2.Fields["Type"]) + "/" + absint.Show(s2.Fields["Tag"])
									}
									recDesc = fmt.Sprintf("type=%s value=%s holder=%s sf=%s", absint.Show(bt), absint.Show(bv), absint.Show(f.Fields["Holder"]), sfd)
								}
							}
						}
						w := fmt.Sprintf("anonymous=%v tag=%q kind=%d canSet=%v events=%v recorded=%d %s => %s", anonymous, tag, kind, canSet, events, nrec, recDesc, showOutcome(out))
						if out.Panic != nil {
							rs.fail("settable-field", "PANIC "+w)
							return
						}
						switch {
						case anonymous && tag == "" && kind == 25:
							rs.hit("embedded-struct")
							want := "RECURSE embed=true parent=holder meta=meta type=T:field value=fieldValue"
							if len(events) != 1 || events[0] != want || nrec != 0 {
								rs.fail("embedded-struct", w)
							}
						case canSet:
							rs.hit("settable-field")
							if len(events) != 0 || nrec != 1 || recDesc != fmt.Sprintf("type=T:field value=fieldValue holder=holder sf=T:field/%q", tag) {
								rs.fail("settable-field", w)
							}
						default:
							rs.hit("unsettable-field")
							if len(events) != 0 || nrec != 0 {
								rs.fail("unsettable-field", w)
							}
						}
					}
					n, u := runTable(c, lit, build, check)
					runs += n
					if u != "" {
						return rs, runs, lit, u
					}
				}
			}
		}
	}
	// the scan as a whole: the scanning routine itself on a struct {a; Embedded{x; y(unexported)}; b} - whatever way it
	// accumulates (appending to the definition, or returning the list)
	wr, wund := scanWhole(c, scan)
	runs++
	if wund != "" {
		return rs, runs, lit, wund
	}
	rs.hit("whole-scan")
	if wr != "" {
		rs.fail("whole-scan", wr)
	}
	return
}

type scanField struct {
	name      string
	anonymous bool
	kind      int64
	canSet    bool
	tag       string
}

// scanWhole: the scanning routine on struct {a `wire`; Embedded{x; y unexported}; b}.
func scanWhole(c *core.Ctx, scan *ssa.Function) (bad, undecided string) {
	layout := map[string][]scanField{
		"T:top":      {{"a", false, 24, true, `wire:""`}, {"Embedded", true, 25, true, ""}, {"b", false, 22, true, ""}},
		"T:Embedded": {{"x", false, 24, true, ""}, {"y", false, 24, false, ""}},
	}
	got, und := scanWholeRun(c, scan, layout)
	if und != "" {
		return "", und
	}
	want := []string{`"a":T:a/V:a@top`, `"x":T:x/V:x@embed(T:Embedded,V:Embedded)`, `"b":T:b/V:b@top`}
	if fmt.Sprint(got) != fmt.Sprint(want) {
		return fmt.Sprintf("struct {a; Embedded{x; y unexported}; b}: recorded %v, expected %v", got, want), ""
	}
	// an unexported field is passed over whatever it carries (a tag of another library, say): the fields after it
	// are recorded all the same
	layout2 := map[string][]scanField{
		"T:top":      {{"a", false, 24, true, `wire:""`}, {"u", false, 21, false, `json:"-"`}, {"Embedded", true, 25, true, ""}, {"b", false, 22, true, ""}},
		"T:Embedded": {{"y", false, 24, false, `yaml:"y"`}, {"x", false, 24, true, ""}},
	}
	got, und = scanWholeRun(c, scan, layout2)
	if und != "" {
		return "", und
	}
	if fmt.Sprint(got) != fmt.Sprint(want) {
		return fmt.Sprintf("struct {a; u unexported, tagged; Embedded{y unexported, tagged; x}; b}: recorded %v, expected %v", got, want), ""
	}
	return "", ""
}

// scanWholeRun interprets Meta.scanFields on a struct described by layout (type token id -> fields), with the
// struct-field iterator of util/reflectx - or reflect's own NumField / Field, if the routine walks the struct itself -
// as oracles, and renders what ends up recorded (in the definition, or in the list the routine hands back).
func scanWholeRun(c *core.Ctx, scan *ssa.Function, layout map[string][]scanField) (got []string, undecided string) {
	metaT := c.Named("component_definition", "Meta")
	holderT := c.Named("component_definition", "Holder")
	t := newTbl(c)
	m := absint.NewTok("meta", "meta")
	m.Fields["Fields"] = &absint.List{IsNil: true}
	top := absint.NewTok("holder", "holder")
	topBase := absint.NewTok("holder.Base", "base")
	topType, topVal := absint.NewTok("T:top", "type"), absint.NewTok("V:top", "rvalue")
	topBase.Fields["Type"], topBase.Fields["Value"] = topType, topVal
	top.Fields["Base"], top.Fields["Meta"], top.Fields["IsEmbed"], top.Fields["Holder"] = topBase, m, absint.Bool(false), absint.Nil{}
	canSet := map[absint.Value]bool{}
	kindOf := map[absint.Value]int64{topType: 25}
	typeOfValue := map[absint.Value]*absint.Tok{topVal: topType}
	type made struct{ sf, ft, fv *absint.Tok }
	cache := map[string]made{}
	mk := func(owner string, f scanField) made {
		if x, ok := cache[owner+"/"+f.name]; ok {
			return x
		}
		sf := absint.NewTok("sf:"+f.name, "structfield")
		ft := absint.NewTok("T:"+f.name, "type")
		fv := absint.NewTok("V:"+f.name, "rvalue")
		kindOf[ft], canSet[fv], typeOfValue[fv] = f.kind, f.canSet, ft
		sf.Fields["Anonymous"], sf.Fields["Tag"], sf.Fields["Type"], sf.Fields["Name"] = absint.Bool(f.anonymous), absint.Str(f.tag), ft, absint.Str(f.name)
		x := made{sf, ft, fv}
		cache[owner+"/"+f.name] = x
		return x
	}
	fieldsOf := func(ty absint.Value, what string) (string, []scanField) {
		tk, ok := ty.(*absint.Tok)
		if !ok || layout[tk.ID] == nil {
			panic(&absint.Undecided{Msg: what + " of " + absint.Show(ty)})
		}
		return tk.ID, layout[tk.ID]
	}
	t.invokeN["Kind"] = func(ip *absint.Interp, a []absint.Value) absint.Value {
		if k, ok := kindOf[a[0]]; ok {
			return absint.Int(k)
		}
		panic(&absint.Undecided{Msg: "Kind() of an unknown type token"})
	}
	t.invokeN["NumField"] = func(ip *absint.Interp, a []absint.Value) absint.Value {
		_, fs := fieldsOf(a[0], "NumField")
		return absint.Int(len(fs))
	}
	t.invokeN["Field"] = func(ip *absint.Interp, a []absint.Value) absint.Value {
		owner, fs := fieldsOf(a[0], "Field")
		i, ok := a[1].(absint.Int)
		if !ok || int(i) < 0 || int(i) >= len(fs) {
			panic(&absint.GoPanic{Msg: "reflect: Field index out of bounds"})
		}
		return mk(owner, fs[i]).sf
	}
	t.ext["(reflect.Value).Field"] = func(ip *absint.Interp, a []absint.Value) absint.Value {
		ty := typeOfValue[a[0]]
		if ty == nil {
			panic(&absint.Undecided{Msg: "Field of an unknown reflect.Value"})
		}
		owner, fs := fieldsOf(ty, "Field")
		i, ok := a[1].(absint.Int)
		if !ok || int(i) < 0 || int(i) >= len(fs) {
			panic(&absint.GoPanic{Msg: "reflect: Field index out of range"})
		}
		return mk(owner, fs[i]).fv
	}
	t.ext["(reflect.Value).NumField"] = func(ip *absint.Interp, a []absint.Value) absint.Value {
		_, fs := fieldsOf(typeOfValue[a[0]], "NumField")
		return absint.Int(len(fs))
	}
	t.ext["(reflect.Value).CanSet"] = func(ip *absint.Interp, a []absint.Value) absint.Value {
		v, ok := canSet[a[0]]
		if !ok {
			panic(&absint.Undecided{Msg: "CanSet asked of something else than a field's value"})
		}
		return absint.Bool(v)
	}
	iterate := func(ip *absint.Interp, a []absint.Value) absint.Value {
		var cb absint.Value
		for _, x := range a[1:] {
			switch x.(type) {
			case *absint.Closure, *ssa.Function:
				cb = x
			}
		}
		if cb == nil {
			panic(&absint.Undecided{Msg: "the struct-field iterator is called without a callback"})
		}
		owner, fs := fieldsOf(a[0], "the struct-field iterator is asked to walk the fields")
		for _, f := range fs {
			x := mk(owner, f)
			if e := ip.CallValue(cb, x.sf, x.fv); e != nil {
				if _, isNil := e.(absint.Nil); !isNil {
					return e
				}
			}
		}
		return absint.Nil{}
	}
	// the struct-field iterator of util/reflectx is interpreted like the rest (it is part of the scan: what it visits,
	// how often and in which order decides what is recorded); only an iterator without a body would be modelled
	for _, fn := range c.Scope {
		if p := core.PkgOf(fn); p == nil || !strings.HasSuffix(p.Pkg.Path(), "util/reflectx") || fn.Parent() != nil || fn.Blocks != nil {
			continue
		}
		for _, pa := range fn.Params {
			if sig, ok := pa.Type().Underlying().(*types.Signature); ok && sig.Params().Len() == 2 && sig.Params().At(0).Type().String() == "reflect.StructField" {
				t.callee[fn] = iterate
			}
		}
	}
	ip := absint.New(t)
	ip.IsLog, ip.InScope = core.IsLogCall, c.InScope
	ip.MaxDepth = 16 // one level of embedding nests scan -> helpers -> iterator -> callback twice
	out := ip.Run(scan, layoutArgs(scan, func(ty types.Type) absint.Value {
		if pt, ok := ty.Underlying().(*types.Pointer); ok {
			switch core.NamedOf(pt.Elem()) {
			case metaT:
				return m
			case holderT:
				return top
			}
		}
		return nil
	}), nil)
	if out.Undecided != nil {
		return nil, out.Undecided.Msg
	}
	if out.Panic != nil {
		return []string{"PANIC " + out.Panic.Msg}, ""
	}
	collected, _ := m.Fields["Fields"].(*absint.List)
	if (collected == nil || len(collected.Elems) == 0) && len(out.Ret) == 1 {
		if l, ok := out.Ret[0].(*absint.List); ok {
			collected = l // the routine hands the list back instead of appending it to the definition
		}
	}
	if collected != nil {
		for _, e := range collected.Elems {
			f, ok := e.(*absint.Tok)
			if !ok {
				got = append(got, absint.Show(e))
				continue
			}
			b, _ := f.Fields["Base"].(*absint.Tok)
			ty, val := "?", "?"
			if b != nil {
				ty, val = absint.Show(b.Fields["Type"]), absint.Show(b.Fields["Value"])
			}
			hd := "?"
			if h, ok := f.Fields["Holder"].(*absint.Tok); ok {
				switch {
				case h == top:
					hd = "top"
				case h.Fields["IsEmbed"] == absint.Value(absint.Bool(true)) && h.Fields["Holder"] == absint.Value(top) && h.Fields["Meta"] == absint.Value(m):
					hb, _ := h.Fields["Base"].(*absint.Tok)
					if hb != nil {
						hd = "embed(" + absint.Show(hb.Fields["Type"]) + "," + absint.Show(hb.Fields["Value"]) + ")"
					}
				}
			}
			sfn := "?"
			if sf, ok := f.Fields["StructField"].(*absint.Tok); ok {
				sfn = absint.Show(sf.Fields["Name"])
			}
			got = append(got, fmt.Sprintf("%s:%s/%s@%s", sfn, ty, val, hd))
		}
	}
	return got, ""
}

var tagScanRows = map[string]string{
	"own-tag":       "a field carrying the processor's tag yields exactly one property with that tag and the looked-up value; the extract handler is not consulted",
	"handler":       "otherwise, if an extract handler is configured and accepts the field, exactly one property with the handler's tag (or the processor's) and value",
	"nothing":       "otherwise no property",
	"registered":    "all properties of the component are handed to SetProperties once, in field order, on the definition registered under the given name",
	"required":      "the required default is added exactly when the processor demands it and the tag did not say anything",
	"per-component": "every component is scanned on its own, also a second one of the same type on the same scanner: its properties are built from its own fields and its own handler answers",
}

// tagScanTable interprets DefaultTagScanDefinitionRegistryPostProcessor.PostProcessDefinitionRegistry.
func tagScanTable(c *core.Ctx) (rs rows, runs int, fn *ssa.Function, undecided string) {
	ro := c.Roles()
	rs = rows{}
	T := c.Named("container/processors", "DefaultTagScanDefinitionRegistryPostProcessor")
	if T == nil {
		return rs, 0, nil, "DefaultTagScanDefinitionRegistryPostProcessor not found"
	}
	fn = c.DeclaredMethod(T, "PostProcessDefinitionRegistry")
	prop := c.Named("component_definition", "Property")
	metaT := c.Named("component_definition", "Meta")
	tagArg := c.Named("component_definition", "TagArg")
	argsM, setArg := c.DeclaredMethod(prop, "Args"), c.DeclaredMethod(prop, "SetArg")
	has := c.DeclaredMethod(tagArg, "Has")
	setProps := c.DeclaredMethod(metaT, "SetProperties")
	newProp := c.Func("component_definition", "NewProperty")
	if fn == nil || newProp == nil || setProps == nil || argsM == nil || has == nil || setArg == nil {
		return rs, 0, fn, "PostProcessDefinitionRegistry / NewProperty / SetProperties / Args / Has / SetArg not found"
	}
	// per-field situation: 0 = own tag present, 1 = only handler accepts, 2 = handler accepts with its own tag, 3 = nothing, 4 = both
	sits := []int{0, 1, 2, 3, 4}
	// (the kind of property a scanner produces is the one it was configured with, whatever that is - also none)
	for _, nodeType := range []string{"Component", "Configuration", ""} {
		for _, ownTag := range []string{"wire", ""} {
			for _, hasHandler := range []bool{true, false} {
				for _, required := range []bool{true, false} {
					for _, tagSaysRequired := range []bool{true, false} {
						for _, s1 := range sits {
							for _, s2 := range sits {
								var created, setArgs, handlerAsked []string
								var registered []string
								var regKey absint.Value
								build := func() (absint.Oracle, []absint.Value, []absint.Value) {
									created, setArgs, handlerAsked, registered, regKey = nil, nil, nil, nil, nil
									t := newTbl(c)
									stringModels(t)
									d := absint.NewTok("scanner", "scanner")
									d.Fields["Tag"], d.Fields["Required"], d.Fields["NodeType"] = absint.Str(ownTag), absint.Bool(required), absint.Str(nodeType)
									handler := absint.NewTok("handler", "func")
									if hasHandler {
										d.Fields["ExtractHandler"] = handler
									} else {
										d.Fields["ExtractHandler"] = absint.Nil{}
									}
									meta := absint.NewTok("meta", "meta")
									fl := &absint.List{}
									for i, s := range []int{s1, s2} {
										f := absint.NewTok(fmt.Sprintf("F%d", i), "field")
										f.Attr["sit"] = absint.Int(s)
										sf := absint.NewTok(fmt.Sprintf("F%d.StructField", i), "structfield")
										tg := absint.NewTok(fmt.Sprintf("F%d.Tag", i), "structtag")
										tg.Attr["sit"] = absint.Int(s)
										sf.Fields["Tag"] = tg
										f.Fields["StructField"] = sf
										fl.Elems = append(fl.Elems, f)
									}
									meta.Fields["Fields"] = fl
									t.invoke[ro.DRGetMetaOrRegister] = func(ip *absint.Interp, a []absint.Value) absint.Value {
										regKey = a[1]
										return meta
									}
									t.ext["(reflect.StructTag).Lookup"] = func(ip *absint.Interp, a []absint.Value) absint.Value {
										tg := a[0].(*absint.Tok)
										s := int(tg.Attr["sit"].(absint.Int))
										if k, ok := a[1].(absint.Str); !ok || string(k) != ownTag {
											panic(&absint.Undecided{Msg: "tag lookup with a key other than the processor's tag"})
										}
										if s == 0 || s == 4 {
											return absint.Tuple{absint.Str(" val:" + tg.ID + " ,a=1 "), absint.Bool(true)}
										}
										return absint.Tuple{absint.Str(""), absint.Bool(false)}
									}
									t.dynamic = func(ip *absint.Interp, fv absint.Value, a []absint.Value) (absint.Value, bool) {
										if fv != absint.Value(handler) {
											return nil, false
										}
										f := a[1].(*absint.Tok)
										handlerAsked = append(handlerAsked, f.ID)
										switch int(f.Attr["sit"].(absint.Int)) {
										case 1, 4:
											return absint.Tuple{absint.Str(""), absint.Str(" hval:" + f.ID + " ,b= "), absint.Bool(true)}, true
										case 2:
											return absint.Tuple{absint.Str("htag"), absint.Str(" hval:" + f.ID + " ,b= "), absint.Bool(true)}, true
										}
										return absint.Tuple{absint.Str(""), absint.Str(""), absint.Bool(false)}, true
									}
									t.callee[newProp] = func(ip *absint.Interp, a []absint.Value) absint.Value {
										p := absint.NewTok(fmt.Sprintf("P(%s,%s,%s,%s)", absint.Show(a[0]), absint.Show(a[1]), absint.Show(a[2]), absint.Show(a[3])), "property")
										created = append(created, p.ID)
										return p
									}
									t.callee[argsM] = func(ip *absint.Interp, a []absint.Value) absint.Value { return a[0] }
									t.callee[has] = func(ip *absint.Interp, a []absint.Value) absint.Value {
										if k, ok := a[1].(absint.Str); !ok || !strings.EqualFold(string(k), "required") {
											panic(&absint.Undecided{Msg: "Has asked about another argument"})
										}
										return absint.Bool(tagSaysRequired)
									}
									t.callee[setArg] = func(ip *absint.Interp, a []absint.Value) absint.Value {
										setArgs = append(setArgs, absint.Show(a[0])+":"+absint.Show(a[1]))
										return nil
									}
									t.callee[setProps] = func(ip *absint.Interp, a []absint.Value) absint.Value {
										if a[0] != absint.Value(meta) {
											registered = append(registered, "WRONG-META")
										}
										if l, ok := a[1].(*absint.List); ok {
											for _, e := range l.Elems {
												registered = append(registered, absint.Show(e))
											}
										}
										return nil
									}
									return t, []absint.Value{d, absint.NewTok("registry", "registry"), absint.NewTok("component", "component"), absint.NewTok("NAME", "key")}, nil
								}
								check := func(ip *absint.Interp, out absint.Outcome) {
									w := fmt.Sprintf("nodeType=%q ownTag=%q handler=%v required=%v tagSaysRequired=%v fields=[%d %d] created=%v handlerAsked=%v setArgs=%v registered=%v => %s", nodeType, ownTag, hasHandler, required, tagSaysRequired, s1, s2, created, handlerAsked, setArgs, registered, showOutcome(out))
									if out.Panic != nil || (len(out.Ret) == 1 && isErrTok(out.Ret[0])) {
										rs.fail("nothing", "PANIC/ERROR "+w)
										return
									}
									var want []string
									var wantAsked []string
									for i, s := range []int{s1, s2} {
										f := fmt.Sprintf("F%d", i)
										own := ownTag != "" && (s == 0 || s == 4)
										switch {
										case own:
											rs.hit("own-tag")
											want = append(want, fmt.Sprintf("P(%s,%q,%q,\" val:%s.Tag ,a=1 \")", f, nodeType, ownTag, f))
										case hasHandler && (s == 1 || s == 4 || s == 2):
											rs.hit("handler")
											wantAsked = append(wantAsked, f)
											tg := ownTag
											if s == 2 {
												tg = "htag"
											}
											want = append(want, fmt.Sprintf("P(%s,%q,%q,\" hval:%s ,b= \")", f, nodeType, tg, f))
										default:
											rs.hit("nothing")
											if hasHandler {
												wantAsked = append(wantAsked, f)
											}
										}
									}
									row := "nothing"
									if len(want) > 0 {
										row = "own-tag"
									}
									if strings.Join(created, "|") != strings.Join(want, "|") || strings.Join(handlerAsked, "|") != strings.Join(wantAsked, "|") {
										rs.fail(row, w+" expected "+strings.Join(want, "|"))
									}
									rs.hit("registered")
									if strings.Join(registered, "|") != strings.Join(want, "|") || regKey == nil || absint.Show(regKey) != "NAME" {
										rs.fail("registered", w)
									}
									rs.hit("required")
									var wantSet []string
									if required && !tagSaysRequired {
										for _, p := range want {
											wantSet = append(wantSet, p+":\"Required\"")
										}
									}
									if !strings.EqualFold(strings.Join(setArgs, "|"), strings.Join(wantSet, "|")) {
										rs.fail("required", w)
									}
								}
								n, u := runTable(c, fn, build, check)
								runs += n
								if u != "" {
									return rs, runs, fn, u
								}
							}
						}
					}
				}
			}
		}
	}
	// two components of one type through the same scanner object
	for _, hasHandler := range []bool{true, false} {
		var created, registered []string
		t := newTbl(c)
		stringModels(t)
		d := absint.NewTok("scanner", "scanner")
		d.Attr["zeroed"] = absint.Bool(true)
		d.Fields["Tag"], d.Fields["Required"], d.Fields["NodeType"] = absint.Str("wire"), absint.Bool(false), absint.Str("Component")
		handler := absint.NewTok("handler", "func")
		if hasHandler {
			d.Fields["ExtractHandler"] = handler
		} else {
			d.Fields["ExtractHandler"] = absint.Nil{}
		}
		shared := absint.NewTok("T:shared", "type")
		mkMeta := func(id string) *absint.Tok {
			meta := absint.NewTok("meta"+id, "meta")
			b := absint.NewTok("meta"+id+".Base", "base")
			b.Fields["Type"] = shared
			meta.Fields["Base"] = b
			fl := &absint.List{}
			for i := 0; i < 2; i++ {
				f := absint.NewTok(fmt.Sprintf("%s%d", id, i), "field")
				sf := absint.NewTok(f.ID+".StructField", "structfield")
				tg := absint.NewTok(f.ID+".Tag", "structtag")
				tg.Attr["own"] = absint.Bool(i == 0) // first field carries the scanner's tag, the second is the handler's business
				sf.Fields["Tag"] = tg
				f.Fields["StructField"] = sf
				fl.Elems = append(fl.Elems, f)
			}
			meta.Fields["Fields"] = fl
			return meta
		}
		metas := map[string]*absint.Tok{"A": mkMeta("A"), "B": mkMeta("B")}
		var cur *absint.Tok
		t.invoke[ro.DRGetMetaOrRegister] = func(ip *absint.Interp, a []absint.Value) absint.Value { return cur }
		t.ext["(reflect.StructTag).Lookup"] = func(ip *absint.Interp, a []absint.Value) absint.Value {
			tg := a[0].(*absint.Tok)
			if tg.Attr["own"] == absint.Value(absint.Bool(true)) {
				return absint.Tuple{absint.Str("val"), absint.Bool(true)} // struct tags belong to the type: the same text for both
			}
			return absint.Tuple{absint.Str(""), absint.Bool(false)}
		}
		t.dynamic = func(ip *absint.Interp, fv absint.Value, a []absint.Value) (absint.Value, bool) {
			if fv != absint.Value(handler) {
				return nil, false
			}
			f := a[1].(*absint.Tok)
			return absint.Tuple{absint.Str(""), absint.Str("prefix-of:" + f.ID), absint.Bool(true)}, true // the handler asks the instance
		}
		t.callee[newProp] = func(ip *absint.Interp, a []absint.Value) absint.Value {
			p := absint.NewTok(fmt.Sprintf("P(%s,%s,%s)", absint.Show(a[0]), absint.Show(a[2]), absint.Show(a[3])), "property")
			created = append(created, p.ID)
			return p
		}
		t.callee[argsM] = func(ip *absint.Interp, a []absint.Value) absint.Value { return a[0] }
		t.callee[has] = func(ip *absint.Interp, a []absint.Value) absint.Value { return absint.Bool(true) }
		t.callee[setArg] = func(ip *absint.Interp, a []absint.Value) absint.Value { return nil }
		t.callee[setProps] = func(ip *absint.Interp, a []absint.Value) absint.Value {
			if l, ok := a[1].(*absint.List); ok {
				for _, e := range l.Elems {
					registered = append(registered, absint.Show(a[0])+"<-"+absint.Show(e))
				}
			}
			return nil
		}
		ip := absint.New(t)
		ip.IsLog, ip.InScope = core.IsLogCall, c.InScope
		und := ""
		for _, id := range []string{"A", "B"} {
			cur = metas[id]
			out := ip.Run(fn, []absint.Value{d, absint.NewTok("registry", "registry"), absint.NewTok("component"+id, "component"), absint.NewTok("NAME"+id, "key")}, nil)
			runs++
			if out.Undecided != nil {
				und = out.Undecided.Msg
				break
			}
			if out.Panic != nil {
				registered = append(registered, "PANIC "+out.Panic.Msg)
			}
		}
		if und != "" {
			return rs, runs, fn, "two components of one type: " + und
		}
		var want []string
		for _, id := range []string{"A", "B"} {
			want = append(want, fmt.Sprintf("meta%s<-P(%s0,\"wire\",\"val\")", id, id))
			if hasHandler {
				want = append(want, fmt.Sprintf("meta%s<-P(%s1,\"wire\",\"prefix-of:%s1\")", id, id, id))
			}
		}
		rs.hit("per-component")
		if strings.Join(registered, "|") != strings.Join(want, "|") {
			rs.fail("per-component", fmt.Sprintf("handler=%v: two components A, B of one type scanned by the same scanner: registered %v, expected %v (properties created: %v)", hasHandler, registered, want, created))
		}
	}
	return
}

func c11(c *core.Ctx, r *core.Report) {
	r.Explanation = "C11 tag scanning: decision tables by abstract interpretation: (R1/R2) the per-field callback of Meta.scanFields on every combination of {anonymous, tagged, kind, settable}: descends exactly into anonymous untagged by-value structs with an embed holder built from the same sub-value, records exactly the other settable fields; (R3) the tag scanner on every pair of fields x {own tag present, handler accepts, handler with own tag, nothing, both} x {handler configured} x {required default}: exactly one property per matching field with the looked-up tag and value, registered once on the definition obtained under the given component name; (R4) the reflect.Value.Set* call sites reachable from App.Run on the CHA graph are exactly the frozen writers (Inject, logger processor, reflectx.SetValue) and each writes through a property's own Value; (R5) Holder.IsEmbed / Holder.Holder are read only by diagnostic methods, so embedded and direct fields are indistinguishable downstream; (R6, sibling rule) in every built-in PostProcessProperties each field-writing action is dominated by a comparison of the property's Tag / PropertyType with a constant. Decides the frame condition as who-may-write and under which guards; the resulting values are not decided."
	r.Assumptions = []string{"reflect semantics (CanSet is false for unexported fields)", "CHA over-approximates dispatch"}
	// R1/R2
	rs, runs, lit, und := scanTable(c)
	r.Count("scan_table_runs", runs)
	if und != "" {
		r.Undecided("C11.R1", "scan-table", "", "abstract interpretation left the model: "+und)
	} else {
		rs.report(c, r, lit, func(row string) string {
			if row == "embedded-struct" {
				return "C11.R2"
			}
			return "C11.R1"
		}, "scan-table@"+core.FnName(lit), scanRows)
		smallModelCheck(c, r, "C11.R1", "scan-table", lit, 2)
	}
	// the iterator visits every field
	if fe := c.Func("util/reflectx", "ForEachFieldV2"); fe != nil {
		okLoop := false
		for _, l := range loopsIn(c, []string{"util/reflectx"}) {
			if l.Func == "ForEachFieldV2" {
				form, _ := loopForm(l.Info, l.Node)
				okLoop = form == "counted"
			}
		}
		// with excludePrivateField=false the callback is invoked unconditionally for every index
		r.Check(okLoop, "C11.R1", "field-iterator@"+core.FnName(fe), c.FnPos(fe), "the struct-field iterator is a counted loop over NumField()")
	} else {
		r.Undecided("C11.R1", "role:ForEachFieldV2", "", "reflectx.ForEachFieldV2 not found")
	}
	// R3
	trs, truns, tfn, tund := tagScanTable(c)
	r.Count("tag_scan_table_runs", truns)
	if tund != "" {
		r.Undecided("C11.R3", "tag-scan-table", "", "abstract interpretation left the model: "+tund)
	} else {
		trs.report(c, r, tfn, func(row string) string { return "C11.R3" }, "tag-scan-table@"+core.FnName(tfn), tagScanRows)
		smallModelCheck(c, r, "C11.R3", "tag-scan-table", tfn, 2)
	}
	r.Exhaustive = und == "" && tund == ""
	// R4 reflect writers
	c11Writers(c, r)
	// R5
	c11HolderReaders(c, r)
	// R6
	for _, p := range builtinProcessors(c) {
		c11TagGate(c, r, p)
	}
}

func c11Writers(c *core.Ctx, r *core.Report) { writerRules(c, r, "C11.R4") }

// writerRules: the frozen table of reflect writers reachable from App.Run, reported under rule.
func writerRules(c *core.Ctx, r *core.Report, rule string) {
	ro := c.Roles()
	appT := c.Named("app", "App")
	run := c.DeclaredMethod(appT, "Run")
	if run == nil {
		r.Undecided(rule, "role:App.Run", "", "App.Run not found")
		return
	}
	ps := builtinProcessors(c)
	allowed := map[*ssa.Function]string{}
	if ro.PropertyInject != nil {
		allowed[ro.PropertyInject] = "Inject (targets decided by the Inject table: the property's own Value / its fresh slice)"
	}
	for _, p := range withRole(ps, "logger", false) {
		allowed[p.Props] = "logger processor"
	}
	if sv := c.Func("util/reflectx", "SetValue"); sv != nil {
		allowed[sv] = "reflectx.SetValue (target = its value parameter; decided by the SetValue table, C17.R5)"
	}
	n := 0
	var names []string
	for _, fn := range reachableInScope(c, run) {
		for _, ci := range core.Calls(fn) {
			cal := core.Callee(ci.Common())
			if cal == nil || !strings.HasPrefix(cal.String(), "(reflect.Value).Set") {
				continue
			}
			n++
			cons := cal.Name() + "@" + core.FnName(fn)
			names = append(names, cons)
			why, ok := allowed[fn]
			if !ok {
				for a, w := range allowed {
					a := a
					if withinRole(c, fn, func(g *ssa.Function) bool { return g == a }, 2) {
						why, ok = w+" (helper)", true
					}
				}
			}
			if !ok {
				// a setter helper that writes through its own reflect.Value parameter, called (within reach) only by
				// table writers that hand it their own target
				if p, isP := core.Norm(ci.Common().Args[0]).(*ssa.Parameter); isP && p.Type().String() == "reflect.Value" && len(c.FuncValueUses(fn)) == 0 {
					idx := -1
					for i, q := range fn.Params {
						if q == p {
							idx = i
						}
					}
					sites := c.CallSites(func(com *ssa.CallCommon) bool { return core.IsCallTo(com, fn) })
					okAll := idx >= 0 && len(sites) > 0
					for _, s := range sites {
						caller := s.Parent()
						if !inReach(c, run, caller) {
							continue
						}
						w, okC := allowed[caller]
						for a, w2 := range allowed {
							a := a
							if !okC && withinRole(c, caller, func(g *ssa.Function) bool { return g == a }, 2) {
								w, okC = w2, true
							}
						}
						arg := core.Norm(s.Common().Args[idx])
						_, argIsParam := arg.(*ssa.Parameter)
						if !okC || !(argIsParam || baseFieldLoad(c, arg, "Value") || propFieldLoad(c, arg, "Value")) {
							okAll = false
						}
						why = w + " (through the setter helper " + core.FnName(fn) + ")"
					}
					ok = okAll && why != ""
				}
			}
			if !ok {
				r.Fail(rule, cons, c.Pos(ci.Pos()), "a reflect write reachable from App.Run outside the frozen writer table: the container could modify something it was not asked to")
				continue
			}
			// target: a load of Base.Value / the function's reflect.Value parameter / an Index of it
			tgt := core.Norm(ci.Common().Args[0])
			okT := false
			if call, isCall := tgt.(*ssa.Call); isCall && core.IsExtCall(call.Common(), "(reflect.Value).Index") {
				tgt = core.Norm(call.Common().Args[0])
			}
			if baseFieldLoad(c, tgt, "Value") || propFieldLoad(c, tgt, "Value") {
				okT = true
			}
			if p, isP := tgt.(*ssa.Parameter); isP && p.Type().String() == "reflect.Value" {
				okT = true
			}
			r.Check(okT, rule, cons, c.Pos(ci.Pos()), "frozen writer ("+why+") writes through the property's own Value")
		}
	}
	sort.Strings(names)
	r.Count("reflect_writers_reachable_from_Run", n)
	r.Floor(rule, "reflect writers reachable from App.Run", n, 3) // (the sites may be merged into a shared setter: each one found is judged on its own above)
	// SetValue's callers hand it the property's Value
	if sv := c.Func("util/reflectx", "SetValue"); sv != nil {
		for _, cs := range c.CallSites(func(com *ssa.CallCommon) bool { return core.IsCallTo(com, sv) }) {
			if !inReach(c, run, cs.Parent()) {
				continue
			}
			a0 := core.Norm(cs.Common().Args[0])
			_, isParam := a0.(*ssa.Parameter)
			r.Check(baseFieldLoad(c, a0, "Value") || propFieldLoad(c, a0, "Value") || isParam, rule, "SetValue-target@"+core.FnName(cs.Parent()), c.Pos(cs.Pos()), "SetValue is handed the property's own Value")
		}
	}
}

func inReach(c *core.Ctx, root, fn *ssa.Function) bool {
	for _, f := range reachableInScope(c, root) {
		if f == fn {
			return true
		}
	}
	return false
}

func c11HolderReaders(c *core.Ctx, r *core.Report) {
	holder := c.Named("component_definition", "Holder")
	if holder == nil {
		r.Undecided("C11.R5", "role:Holder", "", "component_definition.Holder not found")
		return
	}
	diag := map[string]bool{"ID": true, "String": true, "Stack": true, "Walk": true}
	for _, f := range []string{"IsEmbed", "Holder"} {
		stores, others := c.FieldAccesses(holder, f)
		for _, st := range stores {
			_, fresh := core.Norm(st.Addr.X).(*ssa.Alloc)
			if !fresh {
				// an unexported initialiser that is only ever called on a freshly allocated holder
				if p, isP := core.Norm(st.Addr.X).(*ssa.Parameter); isP {
					fn := p.Parent()
					if fn.Object() != nil && !fn.Object().Exported() && len(fn.Params) > 0 && fn.Params[0] == p && len(c.FuncValueUses(fn)) == 0 {
						sites := c.CallSites(func(com *ssa.CallCommon) bool { return core.IsCallTo(com, fn) })
						fresh = len(sites) > 0
						for _, s := range sites {
							a0 := core.Norm(s.Common().Args[0])
							_, isAlloc := a0.(*ssa.Alloc)
							if call, isCall := a0.(*ssa.Call); isCall {
								if bi, isB := call.Common().Value.(*ssa.Builtin); isB && bi.Name() == "new" {
									isAlloc = true
								}
							}
							if !isAlloc {
								fresh = false
							}
						}
					}
				}
			}
			r.Check(fresh, "C11.R5", "Holder."+f+"-writer@"+core.FnName(st.Fn), c.Pos(st.Instr.Pos()), "the embedding marker is set only while constructing a holder")
		}
		seen := map[string]bool{}
		for _, o := range others {
			top := core.TopLevel(o.Fn)
			name := top.Name()
			isDiag := func(g *ssa.Function) bool {
				return diag[g.Name()] && g.Signature.Recv() != nil && core.NamedOf(g.Signature.Recv().Type()) == holder
			}
			// a diagnostic method, or an unexported helper that only they call (e.g. the holder chain as a slice)
			okR := isDiag(top) || (top.Signature.Recv() != nil && core.NamedOf(top.Signature.Recv().Type()) == holder && withinRole(c, top, isDiag, 2))
			if !okR && top.Signature.Recv() != nil && core.NamedOf(top.Signature.Recv().Type()) == holder && len(c.Callers(top)) == 0 && len(c.FuncValueUses(top)) == 0 {
				okR = true // an accessor of the holder that nothing in scope calls: processing cannot depend on it
			}
			_ = name
			if !okR && pureTextFn(c, top, 0) {
				okR = true // a function that only reads and formats: the marker ends up in a text, nothing else
			}
			if !okR && assertionOnly(c, top) {
				// a check that does nothing when it passes and never returns when it fails, called by the field scan
				// only: whether it can fail for an embedded struct is what the scan's table shows (row whole-scan runs
				// the scan, checks included, over direct and embedded fields)
				scan := fieldScanner(c)
				callers := c.Callers(top)
				okR = scan != nil && len(callers) > 0 && len(c.FuncValueUses(top)) == 0
				for _, cl := range callers {
					if core.TopLevel(cl) != scan {
						okR = false
					}
				}
			}
			key := "Holder." + f + "-reader@" + core.FnName(top)
			if seen[key] {
				continue
			}
			seen[key] = true
			r.Check(okR, "C11.R5", key, c.Pos(o.Instr.Pos()), "the embedding marker is read only by the holder's diagnostic methods (ID/String/Stack/Walk): processing cannot tell embedded from direct fields")
		}
	}
}

// tagGateOf: block b runs only when a property's Tag / PropertyType equals a constant - tested in place or by a
// predicate helper that can answer true only under such a test.
func tagGateOf(c *core.Ctx, b *ssa.BasicBlock, depth int) string {
	for _, g := range core.Guards(b) {
		if gate := condImpliesTag(c, g.If.Cond, g.Branch, depth); gate != "" {
			return gate
		}
	}
	return ""
}

// condImpliesTag: cond having truth value `branch` implies Tag/PropertyType == constant.
func condImpliesTag(c *core.Ctx, cond ssa.Value, branch bool, depth int) string {
	switch x := cond.(type) {
	case *ssa.Phi:
		// a flag variable: every way it can have this truth value implies the test
		if depth > 3 {
			return ""
		}
		gate := ""
		for _, e := range x.Edges {
			if k, ok := e.(*ssa.Const); ok && k.Value != nil && (k.Value.String() == "true") != branch {
				continue // this incoming value is the other truth value
			}
			g := condImpliesTag(c, e, branch, depth+1)
			if g == "" {
				return ""
			}
			gate = g
		}
		return gate
	case *ssa.UnOp:
		if x.Op == token.NOT {
			return condImpliesTag(c, x.X, !branch, depth)
		}
	case *ssa.BinOp:
		if x.Op != token.EQL && x.Op != token.NEQ {
			return ""
		}
		for _, fld := range []string{"Tag", "PropertyType"} {
			var k string
			var isK bool
			if propFieldLoad(c, x.X, fld) {
				k, isK = core.ConstString(x.Y)
			} else if propFieldLoad(c, x.Y, fld) {
				k, isK = core.ConstString(x.X)
			}
			if isK && k != "" && ((x.Op == token.EQL && branch) || (x.Op == token.NEQ && !branch)) {
				return fld + "==" + k
			}
		}
	case *ssa.Call:
		cal := x.Common().StaticCallee()
		if !branch || depth > 2 || cal == nil || cal.Blocks == nil || !c.InScope(cal) || cal.Signature.Results().Len() != 1 {
			return ""
		}
		// a predicate helper: every way it answers true lies under such a test
		var trueImplies func(v ssa.Value, at *ssa.BasicBlock, d int) string
		trueImplies = func(v ssa.Value, at *ssa.BasicBlock, d int) string {
			if k, ok := v.(*ssa.Const); ok && k.Value != nil && k.Value.String() == "false" {
				return "never"
			}
			if gate := tagGateOf(c, at, depth+1); gate != "" {
				return gate
			}
			if gate := condImpliesTag(c, v, true, depth+1); gate != "" {
				return gate
			}
			if phi, ok := v.(*ssa.Phi); ok && d < 4 {
				gate := "never"
				for i, e := range phi.Edges {
					g := trueImplies(e, phi.Block().Preds[i], d+1)
					if g == "" {
						return ""
					}
					if g != "never" {
						gate = g
					}
				}
				return gate
			}
			return ""
		}
		gate := "never"
		for _, ret := range core.Returns(cal) {
			g := trueImplies(ret.Results[0], ret.Block(), 0)
			if g == "" {
				return ""
			}
			if g != "never" {
				gate = g
			}
		}
		if gate != "never" {
			return gate + " (via " + cal.Name() + ")"
		}
	}
	return ""
}

func c11TagGate(c *core.Ctx, r *core.Report, p *procInfo) {
	prop := c.Named("component_definition", "Property")
	unm := c.DeclaredMethod(prop, "Unmarshall")
	inj := c.DeclaredMethod(prop, "Inject")
	n := 0
	for _, fn := range core.WithAnon(p.Props) {
		for _, b := range fn.Blocks {
			for _, in := range b.Instrs {
				what := ""
				switch x := in.(type) {
				case ssa.CallInstruction:
					cal := core.Callee(x.Common())
					switch {
					case cal != nil && strings.HasPrefix(cal.String(), "(reflect.Value).Set"):
						what = cal.Name()
					case core.IsCallTo(x.Common(), unm):
						what = "Unmarshall"
					case core.IsCallTo(x.Common(), inj):
						what = "Inject"
					}
				case *ssa.Store:
					if fa, ok := x.Addr.(*ssa.FieldAddr); ok {
						if fr, ok := core.FieldOfAddr(fa); ok && fr.Owner == prop && fr.Name == "Injects" {
							what = "Injects="
						}
					}
				}
				if what == "" {
					continue
				}
				n++
				gated := tagGateOf(c, b, 0)
				if gated == "" {
					// the selection is not a test written on the way to the action (a predicate made by a factory,
					// a selecting iterator): what the processor passes over is found by interpretation
					if sel := selectionProbe(c, p); sel != "" {
						gated = sel + ", by interpretation: a property of any other tag / kind is passed over without another of its fields being read"
					}
				}
				r.Check(gated != "", "C11.R6", fmt.Sprintf("tag-gate:%s:%s#%d", p.Name(), what, n), c.Pos(in.Pos()), "the field-writing action is dominated by a test of the property's own tag / kind ("+gated+"): fields carrying other tags are never written")
			}
		}
	}
}

// assertionOnly: fn returns nothing and does nothing but read, compare, format and call functions that never return
// (no store outside its own temporaries, no map update, no send, no goroutine, no defer, no call of a function value).
func assertionOnly(c *core.Ctx, fn *ssa.Function) bool {
	if fn == nil || fn.Blocks == nil || fn.Signature.Results().Len() != 0 || len(fn.AnonFuncs) != 0 {
		return false
	}
	for _, b := range fn.Blocks {
		for _, in := range b.Instrs {
			switch x := in.(type) {
			case *ssa.Store:
				addr := x.Addr
				if ia, ok := addr.(*ssa.IndexAddr); ok {
					addr = ia.X
				}
				if _, ok := addr.(*ssa.Alloc); !ok {
					return false
				}
			case *ssa.MapUpdate, *ssa.Send, *ssa.Go, *ssa.Defer, *ssa.MakeClosure:
				return false
			case *ssa.Call:
				com := x.Common()
				if _, isB := com.Value.(*ssa.Builtin); isB {
					continue
				}
				if com.IsInvoke() {
					return false
				}
				cal := com.StaticCallee()
				if cal == nil {
					return false
				}
				if c.InScope(cal) {
					if neverReturns(cal, 0) || pureTextFn(c, cal, 0) {
						continue
					}
					return false
				}
				full := cal.String()
				switch {
				case strings.HasPrefix(full, "fmt.Sprint"), strings.HasPrefix(full, "strings."), strings.HasPrefix(full, "strconv."):
				case strings.HasPrefix(full, "(reflect.Value).") && !strings.Contains(full, "Set") && !strings.Contains(full, "Call"):
				case full == "reflect.TypeOf" || full == "reflect.ValueOf" || full == "reflect.Indirect":
				default:
					return false
				}
			}
		}
	}
	return true
}
