package rules

import (
	"fmt"
	"go/token"
	"go/types"
	"golang.org/x/tools/go/ssa"
	"sort"
	"strings"

	"iocvet/internal/absint"
	"iocvet/internal/core"
)

// The container's mechanisms are shared by several properties: the same decision table is a necessary condition of
// each of them.  These reporters run a table and file the selected rows under the asking property's rule id.

func pickRows(all map[string]string, want []string) (map[string]string, map[string]bool) {
	need, set := map[string]string{}, map[string]bool{}
	for _, k := range want {
		need[k], set[k] = all[k], true
	}
	return need, set
}

// depTableRules: candidate collection of every dependency processor (C06.R1 rows).
func depTableRules(c *core.Ctx, r *core.Report, rule string, want ...string) {
	ps := builtinProcessors(c)
	deps := withRole(ps, "dep", true)
	r.Floor(rule, "registered dependency processors", len(deps), 1)
	need, set := pickRows(depRows, want)
	for _, p := range deps {
		rs, _, _, und := depProcessorTable(c, p)
		cons := "query-table:" + p.Name()
		if und != "" {
			r.Undecided(rule, cons, c.FnPos(p.Props), "abstract interpretation left the model: "+und)
			continue
		}
		rs.report(c, r, p.Props, func(row string) string {
			if set[row] {
				return rule
			}
			return ""
		}, cons, need, "func-predicate", "by-name", "by-name-guard", "by-name-slice", "by-type-pointer", "by-type-interface", "unsupported-kind", "foreign-tag")
	}
}

// narrowRules: the narrowing function's table rows.
func narrowRules(c *core.Ctx, r *core.Report, rule string, want ...string) {
	fn, _, _ := narrowingFn(c, builtinProcessors(c))
	if fn == nil {
		r.Undecided(rule, "role:narrowing", "", "the further-matching processor's narrowing function was not found")
		return
	}
	rs, _, und := narrowTable(c, fn, 2)
	cons := "narrowing-table@" + core.FnName(fn)
	if und != "" {
		r.Undecided(rule, cons, c.FnPos(fn), "abstract interpretation left the model: "+und)
		return
	}
	need, set := pickRows(narrowRows, want)
	rs.report(c, r, fn, func(row string) string {
		if set[row] {
			return rule
		}
		return ""
	}, cons, need)
}

// furtherRules: the further-matching processor's PostProcessProperties on pairs of properties.
func furtherRules(c *core.Ctx, r *core.Report, rule string, want ...string) {
	fn, _, proc := narrowingFn(c, builtinProcessors(c))
	if fn == nil || proc == nil {
		r.Undecided(rule, "role:narrowing", "", "the further-matching processor was not found")
		return
	}
	rs, _, und := furtherPropsTable(c, proc, fn)
	cons := "further-matching-table:" + proc.Name()
	if und != "" {
		r.Undecided(rule, cons, c.FnPos(proc.Props), "abstract interpretation left the model: "+und)
		return
	}
	need, set := pickRows(furtherRows, want)
	rs.report(c, r, proc.Props, func(row string) string {
		if set[row] {
			return rule
		}
		return ""
	}, cons, need)
}

// initErrorRules: the error row of the initialization table (a failing before/after-initialization callback, init
// method or AfterPropertiesSet ends initialization with an error whatever else it returns).
func initErrorRules(c *core.Ctx, r *core.Report, rule string, more ...string) {
	sub := core.NewReport("C05", c.Tier, 0)
	l := findLifecycle(c, sub, rule)
	if l == nil {
		r.Undecided(rule, "role:initialization", "", "initialization routine not found")
		return
	}
	rs, _, und := initTable(c, l.initFn, 2)
	cons := "init-table@" + core.FnName(l.initFn)
	if und != "" {
		r.Undecided(rule, cons, c.FnPos(l.initFn), "abstract interpretation left the model: "+und)
		return
	}
	need, set := pickRows(initRows, append([]string{"error"}, more...))
	rs.report(c, r, l.initFn, func(row string) string {
		if set[row] {
			return rule
		}
		return ""
	}, cons, need)
}

// injectRules: Property.Inject's table rows.
func injectRules(c *core.Ctx, r *core.Report, rule string, want ...string) {
	rs, _, und := injectTable(c, listLen(c))
	inj := c.Roles().PropertyInject
	cons := "inject-table@(*component_definition.Property).Inject"
	if und != "" {
		r.Undecided(rule, cons, "", "abstract interpretation left the model: "+und)
		return
	}
	need, set := pickRows(injectRows, want)
	rs.report(c, r, inj, func(row string) string {
		if set[row] {
			return rule
		}
		return ""
	}, cons, need)
}

// sorterRules: the ordering helper's contract table for every instance that is called in scope.
func sorterRules(c *core.Ctx, r *core.Report, rule string) {
	ro := c.Roles()
	seen := map[*ssa.Function]bool{}
	for _, s := range c.CallSites(func(com *ssa.CallCommon) bool { return core.IsCallTo(com, ro.Sorter) }) {
		inst := s.Common().StaticCallee()
		if inst == nil || seen[inst] {
			continue
		}
		seen[inst] = true
		sorterTableFor(c, r, inst, 2, func(string) string { return rule })
	}
	r.Floor(rule, "sorter instances called in scope", len(seen), 1)
	if sf := c.Func("util/sort2", "Slice"); sf != nil {
		c12R4On(c, r, sf, rule)
	}
}

// collectionRules: everything between "a component implements the collected interface" and "it is an element of the
// collection field": by-type query, narrowing of slices, the further-matching stage, the slice fill of Inject and the
// populator (re-entrancy included).
func collectionRules(c *core.Ctx, r *core.Report, rule string, l *lifecycleRoles) {
	depTableRules(c, r, rule, "by-type-pointer", "by-type-interface", "no-error")
	narrowRules(c, r, rule, "slice-exact", "no-panic")
	furtherRules(c, r, rule, "narrowed-once")
	injectRules(c, r, rule, "slice", "injects-recorded")
	if l != nil {
		populateRules(c, r, l, func(row string) string {
			if row == "from-accessor" || row == "re-entrant" {
				return rule
			}
			return ""
		})
	}
}

// tagRules: rows of the tag grammar table under rule.
func tagRules(c *core.Ctx, r *core.Report, rule string, want ...string) {
	trs, _, und := tagTable(c)
	cons := "tag-table@component_definition.NewProperty"
	if und != "" {
		r.Undecided(rule, cons, "", "abstract interpretation left the model: "+und)
		return
	}
	need, set := pickRows(tagRows, want)
	trs.report(c, r, c.Func("component_definition", "NewProperty"), func(row string) string {
		if set[row] {
			return rule
		}
		return ""
	}, cons, need)
}

// fieldScanRules: the per-field callback of the definition's field scan (which fields become injection points).
func fieldScanRules(c *core.Ctx, r *core.Report, rule string) {
	rs, _, lit, und := scanTable(c)
	if und != "" {
		r.Undecided(rule, "scan-table", "", "abstract interpretation left the model: "+und)
		return
	}
	rs.report(c, r, lit, func(string) string { return rule }, "scan-table@"+core.FnName(lit), scanRows)
}

// tagScanRules: the tag scanner (one property per matching field, registered on the component's definition).
func tagScanRules(c *core.Ctx, r *core.Report, rule string) {
	trs, _, tfn, tund := tagScanTable(c)
	if tund != "" {
		r.Undecided(rule, "tag-scan-table", "", "abstract interpretation left the model: "+tund)
		return
	}
	trs.report(c, r, tfn, func(string) string { return rule }, "tag-scan-table@"+core.FnName(tfn), tagScanRows)
}

// tagScanPerComponentRules: the per-component row of the tag scanner table.
func tagScanPerComponentRules(c *core.Ctx, r *core.Report, rule string) {
	trs, _, tfn, tund := tagScanTable(c)
	if tund != "" {
		r.Undecided(rule, "tag-scan-table", "", "abstract interpretation left the model: "+tund)
		return
	}
	trs.report(c, r, tfn, func(row string) string {
		if row == "per-component" {
			return rule
		}
		return ""
	}, "tag-scan-table@"+core.FnName(tfn), map[string]string{"per-component": tagScanRows["per-component"]})
}

// presenceRules: the placeholder callback's presence rule (configured value vs default).
func presenceRules(c *core.Ctx, r *core.Report, rule string) {
	n := 0
	for _, p := range withRole(builtinProcessors(c), "quote", true) {
		lit := quoteCallback(c, p)
		if lit == nil {
			r.Undecided(rule, p.Name()+":callback", c.FnPos(p.Props), "placeholder callback not found")
			continue
		}
		n++
		rs, _, und := presenceTable(c, p, lit)
		cons := "presence-table:" + p.Name()
		if und != "" {
			r.Undecided(rule, cons, c.FnPos(lit), "abstract interpretation left the model: "+und)
			continue
		}
		rs.report(c, r, lit, func(string) string { return rule }, cons, presenceRows)
	}
	r.Floor(rule, "registered placeholder processor", n, 1)
}

// chainActiveRules: post-processors created during the bootstrap are processed by the processors ordered before them.
func chainActiveRules(c *core.Ctx, r *core.Report, rule string) {
	if bs, why := findBootstrap(c); bs != nil {
		bsTable(c, r, bs, rule, map[string]bool{"chain-active": true})
	} else {
		r.Undecided(rule, "bootstrap", "", why)
	}
}

// ownListRules: the property list a processor's PostProcessProperties receives is that call's own list - built anew
// for the call (never a slice kept in a field or shared between the processors of one component), so a processor
// that rearranges the list it was handed cannot change what the next processor receives.
func ownListRules(c *core.Ctx, r *core.Report, rule string) {
	ro := c.Roles()
	sites := c.CallSites(func(com *ssa.CallCommon) bool { return core.IsInvoke(com, ro.IAProps) })
	n := 0
	for _, s := range sites {
		fn := s.Parent()
		if !c.InScope(fn) || len(s.Common().Args) == 0 {
			continue
		}
		// (processors that delegate to another processor hand on what they were given)
		if p, isParam := core.Norm(s.Common().Args[0]).(*ssa.Parameter); isParam && p.Parent() == fn {
			continue
		}
		n++
		cons := "own-list@" + core.FnName(fn)
		why := freshBacking(c, s.Common().Args[0], s, 0, map[ssa.Value]bool{})
		r.Check(why == "", rule, cons, c.Pos(s.Pos()), "the property list handed to PostProcessProperties is built anew for that call: no processor shares its backing array with another one or with the definition "+why)
	}
	r.Floor(rule, "sites handing a property list to PostProcessProperties", n, 1)
}

// freshBacking: the backing array of slice v is made for this use - it comes from make / append to nil / a function
// all of whose results are such, inside the innermost loop of the use site, and the slice is not stored anywhere but
// in locals.  Returns "" or what stands against it.
func freshBacking(c *core.Ctx, v ssa.Value, use ssa.Instruction, depth int, seen map[ssa.Value]bool) string {
	if seen[v] {
		return ""
	}
	seen[v] = true
	if depth > 6 {
		return "(provenance too deep)"
	}
	escapes := func(x ssa.Value) string {
		if x.Referrers() == nil {
			return ""
		}
		for _, rf := range *x.Referrers() {
			if st, ok := rf.(*ssa.Store); ok && st.Val == x {
				if _, local := st.Addr.(*ssa.Alloc); !local {
					return "(the list is also stored at " + c.Pos(st.Pos()) + ")"
				}
			}
			if _, ok := rf.(*ssa.MapUpdate); ok {
				return "(the list is also kept in a map at " + c.Pos(rf.Pos()) + ")"
			}
		}
		return ""
	}
	inLoopOfUse := func(in ssa.Instruction) bool {
		if use == nil || in.Parent() != use.Parent() {
			return true
		}
		l := core.InnermostLoop(use.Parent(), use.Block())
		return l == nil || l.Blocks[in.Block()]
	}
	switch x := v.(type) {
	case *ssa.Const:
		if x.IsNil() {
			return ""
		}
	case *ssa.MakeSlice:
		if !inLoopOfUse(x) {
			return "(made once at " + c.Pos(x.Pos()) + " for every call of the loop)"
		}
		return escapes(x)
	case *ssa.ChangeType:
		return freshBacking(c, x.X, use, depth, seen)
	case *ssa.Slice:
		if al, ok := x.X.(*ssa.Alloc); ok {
			if !inLoopOfUse(al) {
				return "(one array at " + c.Pos(al.Pos()) + " for every call of the loop)"
			}
			return escapes(x)
		}
		return freshBacking(c, x.X, use, depth, seen)
	case *ssa.Phi:
		for _, e := range x.Edges {
			if w := freshBacking(c, e, use, depth, seen); w != "" {
				return w
			}
		}
		return escapes(x)
	case *ssa.UnOp:
		if x.Op == token.MUL {
			if al, ok := x.X.(*ssa.Alloc); ok {
				for _, rf := range *al.Referrers() {
					if st, ok := rf.(*ssa.Store); ok && st.Addr == ssa.Value(al) {
						if w := freshBacking(c, st.Val, use, depth, seen); w != "" {
							return w
						}
					}
				}
				return ""
			}
			if fa, ok := x.X.(*ssa.FieldAddr); ok {
				fr, _ := core.FieldOfAddr(fa)
				return "(it is the list kept in field " + fr.Name + ")"
			}
		}
	case *ssa.Call:
		if bi, ok := x.Common().Value.(*ssa.Builtin); ok && bi.Name() == "append" {
			if w := freshBacking(c, x.Common().Args[0], use, depth, seen); w != "" {
				return w
			}
			return escapes(x)
		}
		if !inLoopOfUse(x) {
			return "(obtained once at " + c.Pos(x.Pos()) + " for every call of the loop)"
		}
		if w := escapes(x); w != "" {
			return w
		}
		cal := c.ResolvedCallee(x.Common())
		if cal == nil || cal.Blocks == nil || !c.InScope(cal) {
			return "(it comes from a call the check cannot follow at " + c.Pos(x.Pos()) + ")"
		}
		for _, ret := range core.Returns(cal) {
			if len(ret.Results) == 0 {
				continue
			}
			if w := freshBacking(c, ret.Results[0], nil, depth+1, seen); w != "" {
				return w
			}
		}
		return ""
	}
	return "(it is " + v.Name() + " at " + c.Pos(v.Pos()) + ", not a list made for the call)"
}

// lazyBaseRules: which exported struct types make a component that embeds them exempt from eager creation (they
// carry definition.LazyInit's method) is part of the contract towards user components: a frozen census.  A user
// post-processor built on one of the no-op bases is created - and its required points and initialisation errors
// are reported - at start-up exactly when the base it embeds is not in this table.
func lazyBaseRules(c *core.Ctx, r *core.Report, rule string) {
	lazy := c.Iface("definition", "LazyInit")
	if lazy == nil {
		r.Undecided(rule, "role:LazyInit", "", "definition.LazyInit not found")
		return
	}
	want := map[string]string{
		"definition.LazyInitComponent":                                       "the marker itself",
		"container/processors.DefaultTagScanDefinitionRegistryPostProcessor": "tag scanners are taken from the registry as they are",
	}
	n := 0
	for _, p := range c.Pkgs {
		if !core.InScopePath(p.PkgPath) || p.Types == nil {
			continue
		}
		sc := p.Types.Scope()
		for _, name := range sc.Names() {
			tn, ok := sc.Lookup(name).(*types.TypeName)
			if !ok || !tn.Exported() || tn.IsAlias() {
				continue
			}
			if _, isStruct := tn.Type().Underlying().(*types.Struct); !isStruct {
				continue
			}
			if nt, isNamed := tn.Type().(*types.Named); isNamed && nt.TypeParams().Len() > 0 {
				continue
			}
			n++
			if !types.Implements(types.NewPointer(tn.Type()), lazy) {
				continue
			}
			key := core.Short(p.PkgPath) + "." + name
			_, known := want[key]
			r.Check(known, rule, "lazy-base:"+key, c.Pos(tn.Pos()), "an exported type that makes its embedders lazily created is one of the documented ones (the LazyInit marker, the tag-scanner base): components built on any other exported base are created, checked and initialised at start-up")
		}
	}
	r.Floor(rule, "exported struct types examined", n, 10)
}

// immutableLoggerRules: logger objects are handed to every component and used from the goroutines of both
// concurrent phases without a lock, which is race-free only because a logger is never written after it was built:
// every store into a field of a Logger implementation goes to an object the storing function has just made.
func immutableLoggerRules(c *core.Ctx, r *core.Report, rule string) {
	iface := c.Iface("syslog", "Logger")
	if iface == nil {
		r.Undecided(rule, "role:Logger", "", "syslog.Logger not found")
		return
	}
	impls := c.Implementors(iface)
	r.Floor(rule, "Logger implementations in scope", len(impls), 1)
	for _, T := range impls {
		st := core.StructOf(T)
		if st == nil {
			continue
		}
		n := 0
		for i := 0; i < st.NumFields(); i++ {
			stores, _ := c.FieldAccesses(T, st.Field(i).Name())
			for _, a := range stores {
				n++
				ok := freshObject(c, a.Addr.X, 0)
				if !ok {
					r.Fail(rule, "logger-write:"+T.Obj().Name()+"."+st.Field(i).Name()+"@"+core.FnName(a.Fn), c.Pos(a.Instr.Pos()),
						"a logger that may already be in use by other goroutines is written in place (loggers are shared without a lock: only an object the function has just made may be filled in)")
				}
			}
		}
		r.Hold(rule, "logger-immutable:"+T.Obj().Name(), c.Pos(T.Obj().Pos()), fmt.Sprintf("every field store (%d) of the shared logger type goes to a freshly made object", n))
	}
}

// freshObject: v points to an object made by the function itself - an allocation, or the result of an in-scope
// function all of whose results are such.
func freshObject(c *core.Ctx, v ssa.Value, depth int) bool {
	if depth > 3 {
		return false
	}
	switch x := core.Norm(v).(type) {
	case *ssa.Alloc:
		return true
	case *ssa.Phi:
		for _, e := range x.Edges {
			if !freshObject(c, e, depth) {
				return false
			}
		}
		return true
	case *ssa.Parameter:
		// the parameter of a function literal (an option applied to an object under construction): every call that
		// can reach the literal on the call graph hands it a freshly made object
		fn := x.Parent()
		if fn == nil || fn.Parent() == nil {
			return false
		}
		idx := -1
		for i, p := range fn.Params {
			if p == x {
				idx = i
			}
		}
		node := c.CG().Nodes[fn]
		if node == nil || idx < 0 || len(node.In) == 0 {
			return false
		}
		for _, e := range node.In {
			if e.Site == nil {
				return false
			}
			args := e.Site.Common().Args
			if idx >= len(args) || !freshObject(c, args[idx], depth+1) {
				return false
			}
		}
		return true
	case *ssa.Call:
		cal := x.Common().StaticCallee()
		if cal == nil || cal.Blocks == nil || !c.InScope(cal) {
			return false
		}
		rets := core.Returns(cal)
		for _, ret := range rets {
			if len(ret.Results) == 0 || !freshObject(c, ret.Results[0], depth+1) {
				return false
			}
		}
		return len(rets) > 0
	}
	return false
}

// perContainerProcessorRules: the built-in processors keep what their container handed them (its definition registry,
// its configuration) in their own fields, so every container has to register instances of its own: no processor is
// made by a package initialiser or parked in a package-level variable, from where every container of the process
// would register the same object - and look names up in whichever container was prepared last.
func perContainerProcessorRules(c *core.Ctx, r *core.Report, rule string) {
	ps := builtinProcessors(c)
	n := 0
	for _, p := range ps {
		if !p.Registered {
			continue
		}
		n++
		cons := "per-container:" + p.Name()
		bad := ""
		// only a processor that is written after it was made keeps state of its container
		stateful := ""
		if st := core.StructOf(p.T); st != nil {
			for i := 0; i < st.NumFields(); i++ {
				stores, _ := c.FieldAccesses(p.T, st.Field(i).Name())
				for _, a := range stores {
					if !freshObject(c, a.Addr.X, 0) {
						stateful = st.Field(i).Name()
					}
				}
			}
		}
		if stateful == "" {
			r.Hold(rule, cons, c.Pos(p.T.Obj().Pos()), "the processor is never written after it was made: it keeps nothing of its container")
			continue
		}
		// the functions that make a processor of this type, and those that just hand one on
		var makers []*ssa.Function
		for _, fn := range c.Scope {
			for _, b := range fn.Blocks {
				for _, in := range b.Instrs {
					if al, ok := in.(*ssa.Alloc); ok && al.Heap && core.NamedOf(al.Type()) == p.T {
						makers = append(makers, fn)
					}
				}
			}
		}
		seen := map[*ssa.Function]bool{}
		for len(makers) > 0 {
			fn := makers[0]
			makers = makers[1:]
			if seen[fn] {
				continue
			}
			seen[fn] = true
			if fn.Synthetic != "" && fn.Name() == "init" {
				bad = "made by the package initialiser of " + core.Short(fn.Pkg.Pkg.Path())
				break
			}
			for _, site := range staticCallsOf(fn) {
				caller := site.Parent()
				if caller.Synthetic != "" && caller.Name() == "init" {
					bad = "made once per process, by the package initialiser of " + core.Short(caller.Pkg.Pkg.Path()) + " (" + c.Pos(site.Pos()) + ")"
				}
				for _, o := range flowsTo(site) {
					switch x := o.(type) {
					case *ssa.Store:
						if g, isG := x.Addr.(*ssa.Global); isG {
							bad = "kept in the package-level variable " + g.Name() + " (" + c.Pos(x.Pos()) + ")"
						}
					case *ssa.Return:
						makers = append(makers, caller) // a constructor that delegates
					}
				}
			}
		}
		r.Check(bad == "", rule, cons, c.Pos(p.T.Obj().Pos()), "every container registers a processor instance of its own (the processor keeps what its container handed it in field "+stateful+") "+bad)
	}
	r.Floor(rule, "registered built-in processors", n, 5)
}

// flowsTo: the stores and returns a call's result reaches through conversions, phis and variadic temporaries.
func flowsTo(v ssa.Value) []ssa.Instruction {
	var out []ssa.Instruction
	seen := map[ssa.Value]bool{}
	var walk func(v ssa.Value, d int)
	walk = func(v ssa.Value, d int) {
		if seen[v] || d > 6 || v.Referrers() == nil {
			return
		}
		seen[v] = true
		for _, rf := range *v.Referrers() {
			switch x := rf.(type) {
			case *ssa.Store:
				if x.Val == v {
					out = append(out, x)
				}
			case *ssa.Return:
				out = append(out, x)
			case *ssa.MakeInterface:
				walk(x, d+1)
			case *ssa.ChangeInterface:
				walk(x, d+1)
			case *ssa.ChangeType:
				walk(x, d+1)
			case *ssa.Phi:
				walk(x, d+1)
			}
		}
	}
	walk(v, 0)
	return out
}

// noCarriedStateRules: the per-property loop of a property processor hands nothing from one property to the next: no
// variable that lives across iterations is written in one iteration (by the loop body or by a function literal made
// in it) and read in a later one before being written again.  The property list arrives in map order, so carried
// state would make the outcome depend on that order.
func noCarriedStateRules(c *core.Ctx, r *core.Report, rule string) {
	n := 0
	for _, p := range builtinProcessors(c) {
		if !p.Registered {
			continue
		}
		it := propertiesIteration(c, p)
		if it == nil {
			continue // decided by the loop-shape rule of the processor
		}
		rl := it.rl
		n++
		cons := "no-carried-state:" + p.Name()
		bad := ""
		// registers carried round the loop
		for _, in := range rl.Header.Instrs {
			if it.visit != nil {
				break // the loop of an iterator helper: it hands the visitor nothing but the element
			}
			if phi, ok := in.(*ssa.Phi); ok && phi != rl.Index {
				if isErrorType(phi.Type()) {
					continue // an error remembered for the end of the loop is decided by the error-flow rules
				}
				bad = "value " + phi.Comment + " is carried from one property to the next (" + c.Pos(phi.Pos()) + ")"
			}
		}
		// cells that outlive an iteration
		loopFn := p.Props
		if it.visit == nil {
			loopFn = it.fn
		}
		for _, b := range loopFn.Blocks {
			if it.visit == nil && rl.Loop.Blocks[b] {
				continue
			}
			for _, in := range b.Instrs {
				al, ok := in.(*ssa.Alloc)
				if !ok || isErrorType(al.Type().Underlying().(*types.Pointer).Elem()) {
					continue
				}
				type acc struct {
					in    ssa.Instruction
					store bool
					via   ssa.Instruction // for an access inside a function literal: where the loop body makes the literal
				}
				var accs []acc
				var collect func(cell ssa.Value, inLoop func(ssa.Instruction) bool, via ssa.Instruction)
				collect = func(cell ssa.Value, inLoop func(ssa.Instruction) bool, via ssa.Instruction) {
					for _, rf := range *cell.Referrers() {
						switch x := rf.(type) {
						case *ssa.Store:
							if x.Addr == cell && inLoop(x) {
								accs = append(accs, acc{x, true, via})
							}
						case *ssa.UnOp:
							if x.Op == token.MUL && inLoop(x) {
								accs = append(accs, acc{x, false, via})
							}
						case *ssa.MakeClosure:
							if !inLoop(x) && !(it.visit != nil && x.Fn == ssa.Value(it.visit)) {
								continue
							}
							fn := x.Fn.(*ssa.Function)
							v := via
							if v == nil {
								v = x
							}
							for i, bnd := range x.Bindings {
								if bnd == cell && i < len(fn.FreeVars) {
									collect(fn.FreeVars[i], func(ssa.Instruction) bool { return true }, v)
								}
							}
						}
					}
				}
				if it.visit != nil {
					// the per-property body is the visitor literal: nothing of the method itself runs per property
					collect(al, func(i ssa.Instruction) bool { return false }, nil)
				} else {
					collect(al, func(i ssa.Instruction) bool { return rl.Loop.Blocks[i.Block()] }, nil)
				}
				var stores, loads []acc
				for _, a := range accs {
					if a.store {
						stores = append(stores, a)
					} else {
						loads = append(loads, a)
					}
				}
				if len(stores) == 0 {
					continue // only read inside the loop
				}
				for _, l := range loads {
					ld := l.in
					fresh := false
					for _, s := range stores {
						st := s.in
						if st.Parent() == ld.Parent() && core.Dominates(st, ld) {
							fresh = true
						}
						// set by the loop body before the literal that reads it is made
						if s.via == nil && l.via != nil && core.Dominates(st, l.via) {
							fresh = true
						}
					}
					if !fresh {
						bad = "variable " + al.Comment + " is written while one property is processed and read, without being set again first, while another is (" + c.Pos(ld.Pos()) + ")"
					}
				}
			}
		}
		r.Check(bad == "", rule, cons, c.FnPos(p.Props), "nothing is handed from one property to the next: the per-property loop is a function of each property alone "+bad)
	}
	r.Floor(rule, "registered processors with a per-property loop", n, 5)
}

func isErrorType(t types.Type) bool {
	return types.Identical(t, types.Universe.Lookup("error").Type())
}

// refiled runs a rule set written for another property on a scratch report and files its obligations under rule.
func refiled(c *core.Ctx, r *core.Report, rule string, run func(sub *core.Report)) {
	sub := core.NewReport(r.Property, c.Tier, 0)
	run(sub)
	for _, o := range sub.Obls {
		o2 := *o
		o2.Rule = rule
		r.Obls = append(r.Obls, &o2)
	}
}

// sorterSiteRules: every place that sequences participants through the ordering helper lies inside one of the three
// routines whose decision tables decide what happens with the result - the post-processor bootstrap, the start
// routine (runners) and a Configure implementation's Initialize (loaders).  A use anywhere else is a sequencing the
// tables know nothing about.
func sorterSiteRules(c *core.Ctx, r *core.Report, rule string) {
	ro := c.Roles()
	sites := c.CallSites(func(com *ssa.CallCommon) bool { return core.IsCallTo(com, ro.Sorter) })
	r.Count("sorter_call_sites", len(sites))
	r.Floor(rule, "sorter call sites", len(sites), 3)
	decided := map[*ssa.Function]string{}
	mark := func(root *ssa.Function, what string) {
		seen := map[*ssa.Function]bool{}
		reachesCall(root, func(*ssa.CallCommon) bool { return false }, seen)
		for f := range seen {
			if _, has := decided[f]; !has {
				decided[f] = what
			}
		}
	}
	if bs, _ := findBootstrap(c); bs != nil {
		mark(bs.fn, "bootstrap table")
	}
	for _, s := range startRoutines(c) {
		mark(s, "run table")
	}
	for _, T := range c.Implementors(c.Iface("configure", "Configure")) {
		if initFn := c.DeclaredMethod(T, "Initialize"); initFn != nil {
			mark(initFn, "load table")
		}
	}
	seen := map[string]int{}
	for _, s := range sites {
		fn := s.Parent()
		what, ok := decided[fn]
		if !ok {
			what, ok = decided[core.TopLevel(fn)]
		}
		cons := "sorter-site@" + core.FnName(fn)
		seen[cons]++
		if seen[cons] > 1 {
			cons = fmt.Sprintf("%s#%d", cons, seen[cons])
		}
		r.Check(ok, rule, cons, c.Pos(s.Pos()), "the ordering helper is used inside a routine whose decision table decides what is done with the sequence ("+what+")")
	}
}

// notForwarders drops the invoke sites that sit in the same-named method of a type implementing the interface itself:
// a participant that wraps another one and hands the call on is a participant, not the container's dispatch.
func notForwarders(c *core.Ctx, sites []ssa.CallInstruction, iface *types.Interface, method string) []ssa.CallInstruction {
	var out []ssa.CallInstruction
	for _, s := range sites {
		fn := core.TopLevel(s.Parent())
		if iface != nil && fn.Signature.Recv() != nil && fn.Name() == method {
			rt := fn.Signature.Recv().Type()
			if types.Implements(rt, iface) || types.Implements(types.NewPointer(rt), iface) {
				continue
			}
		}
		out = append(out, s)
	}
	return out
}

// ownerOf: the type a function belongs to - its receiver's, or, for a plain function of the same package whose first
// parameter is a pointer to a struct type of that package, that type (a method written as a function).
func ownerOf(f *ssa.Function) *types.Named {
	if f == nil {
		return nil
	}
	if recv := f.Signature.Recv(); recv != nil {
		return core.NamedOf(recv.Type())
	}
	if f.Signature.Params().Len() > 0 && f.Pkg != nil {
		if n := core.NamedOf(f.Signature.Params().At(0).Type()); n != nil && n.Obj().Pkg() == f.Pkg.Pkg {
			if _, isPtr := f.Signature.Params().At(0).Type().Underlying().(*types.Pointer); isPtr && core.StructOf(n) != nil {
				return n
			}
		}
	}
	return nil
}

// dependentsRecorder: the function - a method of the definition or a function taking it, whatever it is called - that
// appends one of its parameters to the dependents of another one (nil if there is none).
func dependentsRecorder(c *core.Ctx) *ssa.Function {
	if v, ok := c.Memo.Load("dependents-recorder"); ok {
		fn, _ := v.(*ssa.Function)
		return fn
	}
	meta := c.Named("component_definition", "Meta")
	var found *ssa.Function
	if meta != nil {
		stores, _ := c.FieldAccesses(meta, "Dependent")
		for _, st := range stores {
			if _, isParam := core.Norm(st.Addr.X).(*ssa.Parameter); isParam && ownerOf(st.Fn) == meta {
				if call, ok := st.Store.Val.(*ssa.Call); ok {
					if bi, isB := call.Common().Value.(*ssa.Builtin); isB && bi.Name() == "append" {
						found = st.Fn
					}
				}
			}
		}
	}
	c.Memo.Store("dependents-recorder", found)
	return found
}

// fieldScanner: the routine of the definition - whatever it is called, method or function - that appends to the
// definition's field list (with the literals it is made of); nil if there is not exactly one.
func fieldScanner(c *core.Ctx) *ssa.Function {
	if v, ok := c.Memo.Load("field-scanner"); ok {
		fn, _ := v.(*ssa.Function)
		return fn
	}
	meta := c.Named("component_definition", "Meta")
	var found *ssa.Function
	n := 0
	if meta != nil {
		stores, _ := c.FieldAccesses(meta, "Fields")
		seen := map[*ssa.Function]bool{}
		for _, st := range stores {
			call, ok := st.Store.Val.(*ssa.Call)
			if !ok {
				continue
			}
			if bi, isB := call.Common().Value.(*ssa.Builtin); !isB || bi.Name() != "append" {
				continue
			}
			top := core.TopLevel(st.Fn)
			if !seen[top] {
				seen[top] = true
				found = top
				n++
			}
		}
	}
	if n != 1 {
		found = nil
	}
	// the scan starts at the first function on the way from the definition's constructor to that append which takes
	// the holder to scan (the append itself may sit in a helper of the scan, the constructor may be split up)
	if found != nil {
		holder := c.Named("component_definition", "Holder")
		takesHolder := func(f *ssa.Function) bool {
			for _, p := range f.Params {
				if holder != nil && core.NamedOf(p.Type()) == holder {
					return true
				}
			}
			return false
		}
		if nm := c.Func("component_definition", "NewMeta"); nm != nil && holder != nil {
			level := []*ssa.Function{nm}
			seen := map[*ssa.Function]bool{nm: true}
			var entry *ssa.Function
			for depth := 0; depth < 5 && entry == nil && len(level) > 0; depth++ {
				var next, hits []*ssa.Function
				for _, f := range level {
					for _, g := range core.WithAnon(f) {
						for _, ci := range core.Calls(g) {
							cal := ci.Common().StaticCallee()
							if cal == nil || seen[cal] || !c.InScope(cal) || core.PkgOf(cal) != core.PkgOf(nm) {
								continue
							}
							seen[cal] = true
							reach := map[*ssa.Function]bool{}
							reachesCall(cal, func(*ssa.CallCommon) bool { return false }, reach)
							if cal != found && !reach[found] {
								continue
							}
							if takesHolder(cal) {
								hits = append(hits, cal)
							} else {
								next = append(next, cal)
							}
						}
					}
				}
				if len(hits) == 1 {
					entry = hits[0]
				}
				level = next
			}
			if entry != nil {
				found = entry
			}
		}
	}
	c.Memo.Store("field-scanner", found)
	return found
}

// forwardsToHeld: the method does nothing but hand its call on - same method name, its own parameters in order - to an
// object it holds in a field (an explicit version of what embedding that field would promote).
func forwardsToHeld(fn *ssa.Function) bool {
	if fn == nil || fn.Signature.Recv() == nil || len(fn.Blocks) != 1 || len(fn.Params) == 0 {
		return false
	}
	var fwd *ssa.Call
	for _, ci := range core.Calls(fn) {
		if core.IsLogCall(ci.Common()) {
			continue
		}
		call, ok := ci.(*ssa.Call)
		if !ok || fwd != nil {
			return false
		}
		fwd = call
	}
	if fwd == nil || !fwd.Common().IsInvoke() || fwd.Common().Method.Name() != fn.Name() {
		return false
	}
	// the receiver of the forwarded call is a field of the method's own receiver
	ld, ok := fwd.Common().Value.(*ssa.UnOp)
	if !ok || ld.Op != token.MUL {
		return false
	}
	fa, ok := ld.X.(*ssa.FieldAddr)
	if !ok || core.Norm(fa.X) != ssa.Value(fn.Params[0]) {
		return false
	}
	if len(fwd.Common().Args) != len(fn.Params)-1 {
		return false
	}
	for i, a := range fwd.Common().Args {
		if core.Norm(a) != ssa.Value(fn.Params[i+1]) {
			return false
		}
	}
	return true
}

// earlyReferenceImplRules: every in-scope implementation of the early-reference hook answers, when it reports no
// error, with the component it was given or with something else that is not the nil constant: the dispatch hands each
// answer to the next processor and finally wraps it, so a nil answer breaks every circular reference.
func earlyReferenceImplRules(c *core.Ctx, r *core.Report, rule string) {
	m := c.Roles().SmartEarlyRef
	if m == nil {
		r.Undecided(rule, "role:GetEarlyBeanReference", "", "the early-reference hook was not found")
		return
	}
	n := 0
	for _, fn := range c.Scope {
		if fn.Parent() != nil || fn.Signature.Recv() == nil || fn.Name() != m.Name() || fn.Synthetic != "" {
			continue
		}
		if !types.Identical(fn.Signature.Params(), m.Type().(*types.Signature).Params()) || !types.Identical(fn.Signature.Results(), m.Type().(*types.Signature).Results()) {
			continue
		}
		n++
		bad := ""
		for _, ret := range core.Returns(fn) {
			if len(ret.Results) != 2 {
				continue
			}
			if !core.IsNilConst(ret.Results[1]) {
				continue // an error is reported: the dispatch stops
			}
			if core.IsNilConst(core.Norm(ret.Results[0])) {
				bad = "returns (nil, nil) at " + c.Pos(ret.Pos())
			}
		}
		r.Check(bad == "", rule, "early-reference-impl@"+core.FnName(fn), c.FnPos(fn), "an early-reference hook that reports no error hands back a component, never the nil constant "+bad)
	}
	r.Count("early_reference_implementations", n)
	r.Hold(rule, "early-reference-implementations", "", fmt.Sprintf("%d in-scope implementation(s) of the early-reference hook examined", n))
}

// componentMapCompleteRules: every singleton the registration loop fetches is recorded in the factory's component map
// (the map the definition scan ranges over: what is missing there gets no definition and is invisible to every
// lookup by type): no path from a successful fetch to the next iteration skips the map update.
func componentMapCompleteRules(c *core.Ctx, r *core.Report, rule string) {
	prepareRules(c, r, func(row string) string {
		if row == "order-free" {
			return ""
		}
		return rule
	})
}

// globalSettingsRules: app.Settings keeps every option it is given, in order, however often and with whatever it is
// called (options registered for the process are applied to every start: dropping one drops what it adds).
func globalSettingsRules(c *core.Ctx, r *core.Report, rule string) {
	fn := c.Func("app", "Settings")
	if fn == nil || len(fn.Params) != 1 {
		r.Undecided(rule, "role:app.Settings", "", "app.Settings(ops ...SettingOption) not found")
		return
	}
	t := newTbl(c)
	ip := absint.New(t)
	ip.IsLog, ip.InScope = core.IsLogCall, c.InScope
	o := func(id string) absint.Value { return absint.NewTok(id, "option") }
	o1, o2, o3 := o("o1"), o("o2"), o("o3")
	bad := ""
	for _, batch := range [][]absint.Value{{o1, o2}, {o3}, {o1}, {}} {
		out := ip.Run(fn, []absint.Value{&absint.List{Elems: append([]absint.Value(nil), batch...), IsNil: len(batch) == 0}}, nil)
		if out.Undecided != nil {
			bad = "left the model: " + out.Undecided.Msg
			break
		}
		if out.Panic != nil {
			bad = "panics: " + out.Panic.Msg
			break
		}
	}
	got := ""
	if bad == "" {
		// the package-level list the function fills: the one global of its package it stores into
		var g *ssa.Global
		for _, b := range fn.Blocks {
			for _, in := range b.Instrs {
				if st, ok := in.(*ssa.Store); ok {
					if x, isG := st.Addr.(*ssa.Global); isG {
						g = x
					}
				}
			}
		}
		for _, cal := range c.StaticCalleesInPkg(fn, nil) {
			for _, b := range cal.Blocks {
				for _, in := range b.Instrs {
					if st, ok := in.(*ssa.Store); ok {
						if x, isG := st.Addr.(*ssa.Global); isG && g == nil {
							g = x
						}
					}
				}
			}
		}
		if g == nil {
			// the list is kept in a package-level object: some list reachable from the package's variables must hold
			// exactly what was given
			var lists []string
			found := false
			if fn.Pkg != nil {
				var names []string
				for n := range fn.Pkg.Members {
					names = append(names, n)
				}
				sort.Strings(names)
				for _, n := range names {
					gv, isG := fn.Pkg.Members[n].(*ssa.Global)
					if !isG {
						continue
					}
					var walk func(v absint.Value, depth int)
					walk = func(v absint.Value, depth int) {
						switch x := v.(type) {
						case *absint.List:
							if len(x.Elems) > 0 {
								lists = append(lists, absint.Show(x))
								found = found || absint.Show(x) == "[o1 o2 o3 o1]"
							}
						case *absint.Tok:
							if depth < 2 {
								for _, fv := range x.Fields {
									walk(fv, depth+1)
								}
							}
						}
					}
					walk(ip.GlobalValue(gv), 0)
				}
			}
			if !found {
				bad = fmt.Sprintf("no package-level list holds [o1 o2 o3 o1] after Settings(o1,o2); Settings(o3); Settings(o1); Settings() (lists found: %v)", lists)
			}
		} else {
			got = absint.Show(ip.GlobalValue(g))
			if got != "[o1 o2 o3 o1]" {
				bad = "after Settings(o1,o2); Settings(o3); Settings(o1); Settings() the list is " + got + ", expected [o1 o2 o3 o1]"
			}
		}
	}
	r.Check(bad == "", rule, "settings-keep-all@"+core.FnName(fn), c.FnPos(fn), "app.Settings keeps every option it is given, in the order given, also one it was given before "+bad)
}

// argumentNameRules: the names under which the library itself looks tag arguments up are the documented ones, up to the
// case of their first letter (the one freedom the argument table grants): a frozen table.  A lookup under a name that
// differs elsewhere never finds what users write.
func argumentNameRules(c *core.Ctx, r *core.Report, rule string) {
	tagArg := c.Named("component_definition", "TagArg")
	if tagArg == nil {
		r.Undecided(rule, "role:TagArg", "", "component_definition.TagArg not found")
		return
	}
	documented := map[string]bool{"required": true, "qualifier": true, "validate": true, "embed": true, "returns": true, "mapper": true, "timeLayout": true}
	lookups := map[*ssa.Function]bool{}
	for _, name := range []string{"Find", "Has"} {
		if m := c.DeclaredMethod(tagArg, name); m != nil {
			lookups[m] = true
		}
	}
	n := 0
	seen := map[string]bool{}
	for _, fn := range c.Scope {
		for _, ci := range core.Calls(fn) {
			cal := ci.Common().StaticCallee()
			if cal == nil || !lookups[cal] || len(ci.Common().Args) < 2 {
				continue
			}
			if ownerOf(core.TopLevel(fn)) == tagArg {
				continue // the table's own methods pass names on
			}
			key := ci.Common().Args[1]
			if cv, ok := key.(*ssa.Convert); ok {
				key = cv.X
			}
			if ct, ok := key.(*ssa.ChangeType); ok {
				key = ct.X
			}
			k, isConst := core.ConstString(key)
			if !isConst {
				continue // a name handed in by the caller
			}
			n++
			norm := k
			if norm != "" {
				norm = strings.ToLower(norm[:1]) + norm[1:]
			}
			cons := "argument-name:" + k + "@" + core.FnName(fn)
			if seen[cons] {
				continue
			}
			seen[cons] = true
			r.Check(documented[norm], rule, cons, c.Pos(ci.Pos()), "the library looks the argument up under a documented name (required, qualifier, validate, embed, returns, mapper, timeLayout), up to the case of its first letter")
		}
	}
	r.Floor(rule, "argument lookups under a constant name", n, 6)
}

// refiledWhere: like refiled, keeping only the obligations the filter accepts.
func refiledWhere(c *core.Ctx, r *core.Report, rule string, run func(sub *core.Report), keep func(o *core.Obligation) bool) {
	sub := core.NewReport(r.Property, c.Tier, 0)
	run(sub)
	for _, o := range sub.Obls {
		if keep != nil && !keep(o) {
			continue
		}
		o2 := *o
		o2.Rule = rule
		r.Obls = append(r.Obls, &o2)
	}
}

// exposerRowRules: rows of the creation routine's table.
func exposerRowRules(c *core.Ctx, r *core.Report, rule string, want ...string) {
	sub := core.NewReport("C03", c.Tier, 0)
	l := findLifecycle(c, sub, rule)
	if l == nil {
		r.Undecided(rule, "role:creation routine", "", "creation routine not found")
		return
	}
	rs, _, und := exposerTable(c, l)
	cons := "exposer-table@" + core.FnName(l.exposer)
	if und != "" {
		r.Undecided(rule, cons, c.FnPos(l.exposer), "abstract interpretation left the model: "+und)
		return
	}
	need, set := pickRows(exposerRows, want)
	rs.report(c, r, l.exposer, func(row string) string {
		if set[row] {
			return rule
		}
		return ""
	}, cons, need)
}
