package rules

import (
	"golang.org/x/tools/go/ssa"

	"iocvet/internal/core"
)

// The container's mechanisms are shared by several properties: the same decision table is a necessary condition of
// each of them.  These reporters run a table and file the selected rows under the asking property's rule id.

func pickRows(all map[string]string, want []string) (map[string]string, map[string]bool) {
	need, set := map[string]string{}, map[string]bool{}
	for _, k := range want {
		need[k], set[k] = all[k], true
	}
	return need, set
}

// depTableRules: candidate collection of every dependency processor (C06.R1 rows).
func depTableRules(c *core.Ctx, r *core.Report, rule string, want ...string) {
	ps := builtinProcessors(c)
	deps := withRole(ps, "dep", true)
	r.Floor(rule, "registered dependency processors", len(deps), 1)
	need, set := pickRows(depRows, want)
	for _, p := range deps {
		rs, _, _, und := depProcessorTable(c, p)
		cons := "query-table:" + p.Name()
		if und != "" {
			r.Undecided(rule, cons, c.FnPos(p.Props), "abstract interpretation left the model: "+und)
			continue
		}
		rs.report(c, r, p.Props, func(row string) string {
			if set[row] {
				return rule
			}
			return ""
		}, cons, need, "func-predicate", "by-name", "by-name-guard", "by-name-slice", "by-type-pointer", "by-type-interface", "unsupported-kind", "foreign-tag")
	}
}

// narrowRules: the narrowing function's table rows.
func narrowRules(c *core.Ctx, r *core.Report, rule string, want ...string) {
	fn, _, _ := narrowingFn(c, builtinProcessors(c))
	if fn == nil {
		r.Undecided(rule, "role:narrowing", "", "the further-matching processor's narrowing function was not found")
		return
	}
	rs, _, und := narrowTable(c, fn, 2)
	cons := "narrowing-table@" + core.FnName(fn)
	if und != "" {
		r.Undecided(rule, cons, c.FnPos(fn), "abstract interpretation left the model: "+und)
		return
	}
	need, set := pickRows(narrowRows, want)
	rs.report(c, r, fn, func(row string) string {
		if set[row] {
			return rule
		}
		return ""
	}, cons, need)
}

// furtherRules: the further-matching processor's PostProcessProperties on pairs of properties.
func furtherRules(c *core.Ctx, r *core.Report, rule string, want ...string) {
	fn, _, proc := narrowingFn(c, builtinProcessors(c))
	if fn == nil || proc == nil {
		r.Undecided(rule, "role:narrowing", "", "the further-matching processor was not found")
		return
	}
	rs, _, und := furtherPropsTable(c, proc, fn)
	cons := "further-matching-table:" + proc.Name()
	if und != "" {
		r.Undecided(rule, cons, c.FnPos(proc.Props), "abstract interpretation left the model: "+und)
		return
	}
	need, set := pickRows(furtherRows, want)
	rs.report(c, r, proc.Props, func(row string) string {
		if set[row] {
			return rule
		}
		return ""
	}, cons, need)
}

// initErrorRules: the error row of the initialization table (a failing before/after-initialization callback, init
// method or AfterPropertiesSet ends initialization with an error whatever else it returns).
func initErrorRules(c *core.Ctx, r *core.Report, rule string) {
	sub := core.NewReport("C05", c.Tier, 0)
	l := findLifecycle(c, sub, rule)
	if l == nil {
		r.Undecided(rule, "role:initialization", "", "initialization routine not found")
		return
	}
	rs, _, und := initTable(c, l.initFn, 2)
	cons := "init-table@" + core.FnName(l.initFn)
	if und != "" {
		r.Undecided(rule, cons, c.FnPos(l.initFn), "abstract interpretation left the model: "+und)
		return
	}
	rs.report(c, r, l.initFn, func(row string) string {
		if row == "error" {
			return rule
		}
		return ""
	}, cons, map[string]string{"error": initRows["error"]})
}

// injectRules: Property.Inject's table rows.
func injectRules(c *core.Ctx, r *core.Report, rule string, want ...string) {
	rs, _, und := injectTable(c, listLen(c))
	inj := c.Roles().PropertyInject
	cons := "inject-table@(*component_definition.Property).Inject"
	if und != "" {
		r.Undecided(rule, cons, "", "abstract interpretation left the model: "+und)
		return
	}
	need, set := pickRows(injectRows, want)
	rs.report(c, r, inj, func(row string) string {
		if set[row] {
			return rule
		}
		return ""
	}, cons, need)
}

// sorterRules: the ordering helper's contract table for every instance that is called in scope.
func sorterRules(c *core.Ctx, r *core.Report, rule string) {
	ro := c.Roles()
	seen := map[*ssa.Function]bool{}
	for _, s := range c.CallSites(func(com *ssa.CallCommon) bool { return core.IsCallTo(com, ro.Sorter) }) {
		inst := s.Common().StaticCallee()
		if inst == nil || seen[inst] {
			continue
		}
		seen[inst] = true
		sorterTableFor(c, r, inst, 2, func(string) string { return rule })
	}
	r.Floor(rule, "sorter instances called in scope", len(seen), 1)
	if sf := c.Func("util/sort2", "Slice"); sf != nil {
		c12R4On(c, r, sf, rule)
	}
}

// collectionRules: everything between "a component implements the collected interface" and "it is an element of the
// collection field": by-type query, narrowing of slices, the further-matching stage, the slice fill of Inject and the
// populator (re-entrancy included).
func collectionRules(c *core.Ctx, r *core.Report, rule string, l *lifecycleRoles) {
	depTableRules(c, r, rule, "by-type-pointer", "by-type-interface", "no-error")
	narrowRules(c, r, rule, "slice-exact", "no-panic")
	furtherRules(c, r, rule, "narrowed-once")
	injectRules(c, r, rule, "slice", "injects-recorded")
	if l != nil {
		populateRules(c, r, l, func(row string) string {
			if row == "from-accessor" || row == "re-entrant" {
				return rule
			}
			return ""
		})
	}
}

// tagRules: rows of the tag grammar table under rule.
func tagRules(c *core.Ctx, r *core.Report, rule string, want ...string) {
	trs, _, und := tagTable(c)
	cons := "tag-table@component_definition.NewProperty"
	if und != "" {
		r.Undecided(rule, cons, "", "abstract interpretation left the model: "+und)
		return
	}
	need, set := pickRows(tagRows, want)
	trs.report(c, r, c.Func("component_definition", "NewProperty"), func(row string) string {
		if set[row] {
			return rule
		}
		return ""
	}, cons, need)
}

// fieldScanRules: the per-field callback of the definition's field scan (which fields become injection points).
func fieldScanRules(c *core.Ctx, r *core.Report, rule string) {
	rs, _, lit, und := scanTable(c)
	if und != "" {
		r.Undecided(rule, "scan-table", "", "abstract interpretation left the model: "+und)
		return
	}
	rs.report(c, r, lit, func(string) string { return rule }, "scan-table@"+core.FnName(lit), scanRows)
}

// tagScanRules: the tag scanner (one property per matching field, registered on the component's definition).
func tagScanRules(c *core.Ctx, r *core.Report, rule string) {
	trs, _, tfn, tund := tagScanTable(c)
	if tund != "" {
		r.Undecided(rule, "tag-scan-table", "", "abstract interpretation left the model: "+tund)
		return
	}
	trs.report(c, r, tfn, func(string) string { return rule }, "tag-scan-table@"+core.FnName(tfn), tagScanRows)
}

// tagScanPerComponentRules: the per-component row of the tag scanner table.
func tagScanPerComponentRules(c *core.Ctx, r *core.Report, rule string) {
	trs, _, tfn, tund := tagScanTable(c)
	if tund != "" {
		r.Undecided(rule, "tag-scan-table", "", "abstract interpretation left the model: "+tund)
		return
	}
	trs.report(c, r, tfn, func(row string) string {
		if row == "per-component" {
			return rule
		}
		return ""
	}, "tag-scan-table@"+core.FnName(tfn), map[string]string{"per-component": tagScanRows["per-component"]})
}

// presenceRules: the placeholder callback's presence rule (configured value vs default).
func presenceRules(c *core.Ctx, r *core.Report, rule string) {
	n := 0
	for _, p := range withRole(builtinProcessors(c), "quote", true) {
		lit := quoteCallback(c, p)
		if lit == nil {
			r.Undecided(rule, p.Name()+":callback", c.FnPos(p.Props), "placeholder callback not found")
			continue
		}
		n++
		rs, _, und := presenceTable(c, p, lit)
		cons := "presence-table:" + p.Name()
		if und != "" {
			r.Undecided(rule, cons, c.FnPos(lit), "abstract interpretation left the model: "+und)
			continue
		}
		rs.report(c, r, lit, func(string) string { return rule }, cons, presenceRows)
	}
	r.Floor(rule, "registered placeholder processor", n, 1)
}

// chainActiveRules: post-processors created during the bootstrap are processed by the processors ordered before them.
func chainActiveRules(c *core.Ctx, r *core.Report, rule string) {
	if bs, why := findBootstrap(c); bs != nil {
		bsTable(c, r, bs, rule, map[string]bool{"chain-active": true})
	} else {
		r.Undecided(rule, "bootstrap", "", why)
	}
}
