package rules

import (
	"fmt"
	"go/types"
	"strings"

	"golang.org/x/tools/go/ssa"

	"iocvet/internal/absint"
	"iocvet/internal/core"
)

// tbl is a table-driven oracle for decision-table rules (P5): handlers keyed by resolved callee.
type tbl struct {
	absint.BaseOracle
	c         *core.Ctx
	callee    map[*ssa.Function]func(ip *absint.Interp, args []absint.Value) absint.Value // in-scope, origin-folded
	ext       map[string]func(ip *absint.Interp, args []absint.Value) absint.Value        // external callee full name
	invoke    map[*types.Func]func(ip *absint.Interp, args []absint.Value) absint.Value   // interface method
	invokeN   map[string]func(ip *absint.Interp, args []absint.Value) absint.Value        // interface method by name (external interfaces)
	typeTest  func(v absint.Value, T types.Type) (bool, bool)
	typeTestC func(ip *absint.Interp, v absint.Value, T types.Type) (bool, bool) // may consult the choice tape
	field     func(ip *absint.Interp, obj *absint.Tok, name string, typ types.Type) absint.Value
	global    func(g *ssa.Global) absint.Value
	dynamic   func(ip *absint.Interp, fn absint.Value, args []absint.Value) (absint.Value, bool)
	errN      int
	syncMaps  map[absint.Value]*syncMapModel // sync.Map objects by receiver identity
	fieldMaps map[string]*syncMapModel       // ... and those held by value in a field, by owner and field name
}

type syncMapModel struct {
	keys []string
	k    map[string]absint.Value
	v    map[string]absint.Value
}

func (t *tbl) syncMap(recv absint.Value) *syncMapModel {
	if t.syncMaps == nil {
		t.syncMaps = map[absint.Value]*syncMapModel{}
	}
	if fr, ok := recv.(*absint.FieldRef); ok {
		// a map held by value in a struct field: the address is computed anew at every use, the map is the same
		if t.fieldMaps == nil {
			t.fieldMaps = map[string]*syncMapModel{}
		}
		k := fmt.Sprintf("%p.%s", fr.Obj, fr.Name)
		m := t.fieldMaps[k]
		if m == nil {
			m = &syncMapModel{k: map[string]absint.Value{}, v: map[string]absint.Value{}}
			t.fieldMaps[k] = m
		}
		return m
	}
	m := t.syncMaps[recv]
	if m == nil {
		m = &syncMapModel{k: map[string]absint.Value{}, v: map[string]absint.Value{}}
		t.syncMaps[recv] = m
	}
	return m
}

func newTbl(c *core.Ctx) *tbl {
	t := &tbl{c: c, callee: map[*ssa.Function]func(*absint.Interp, []absint.Value) absint.Value{},
		ext:     map[string]func(*absint.Interp, []absint.Value) absint.Value{},
		invoke:  map[*types.Func]func(*absint.Interp, []absint.Value) absint.Value{},
		invokeN: map[string]func(*absint.Interp, []absint.Value) absint.Value{}}
	// reflectx.Id renders a value's type for log and error texts only
	if idFn := c.Func("util/reflectx", "Id"); idFn != nil {
		t.callee[idFn] = func(ip *absint.Interp, a []absint.Value) absint.Value { return &absint.Opaque{Why: "text"} }
	}
	return t
}

func (t *tbl) newErr(what string) *absint.Tok {
	t.errN++
	return absint.NewTok(fmt.Sprintf("err%d:%s", t.errN, what), "error")
}

func isErrTok(v absint.Value) bool {
	t, ok := v.(*absint.Tok)
	return ok && t.Class == "error"
}

func (t *tbl) Call(ip *absint.Interp, site ssa.CallInstruction, args []absint.Value) (absint.Value, bool) {
	com := site.Common()
	if com.IsInvoke() {
		if h, ok := t.invoke[com.Method]; ok {
			return h(ip, args), true
		}
		for m, h := range t.invoke {
			if core.NarrowedView(com.Method, m, com.Value.Type()) {
				return h(ip, args), true
			}
		}
		if h, ok := t.invokeN[com.Method.Name()]; ok {
			return h(ip, args), true
		}
		// an internal seam (unexported interface with one implementation): the call is the implementation's
		if impl := t.c.InternalImpl(com); impl != nil {
			if h, ok := t.callee[impl]; ok {
				return h(ip, args), true
			}
			if h, ok := t.ext[impl.String()]; ok && impl.Blocks == nil {
				return h(ip, args), true // a narrowed view of an external collaborator
			}
			if impl.Blocks != nil && (ip.InScope == nil || ip.InScope(impl)) {
				return ip.CallFunction(impl, args, nil), true
			}
		}
		switch com.Method.Name() {
		case "String", "Error", "Name":
			if com.Signature().Params().Len() == 0 && com.Signature().Results().Len() == 1 {
				if b, isB := com.Signature().Results().At(0).Type().Underlying().(*types.Basic); isB && b.Info()&types.IsString != 0 {
					return &absint.Opaque{Why: "text"}, true
				}
			}
		}
		return nil, false
	}
	cal := core.Callee(com)
	if cal == nil {
		// a named function called through a function value (a dispatch table entry, a callback parameter): the same
		// oracle answers as for a static call of it
		if fv, ok := ip.CurFn.(*ssa.Function); ok && fv.Parent() == nil {
			cal = fv
			if o := fv.Origin(); o != nil {
				cal = o
			}
		}
	}
	if cal == nil {
		if t.dynamic != nil && ip.CurFn != nil {
			return t.dynamic(ip, ip.CurFn, args)
		}
		return nil, false
	}
	if h, ok := t.callee[cal]; ok {
		return h(ip, args), true
	}
	full := cal.String()
	if h, ok := t.ext[full]; ok {
		return h(ip, args), true
	}
	switch {
	case strings.HasPrefix(full, "github.com/pkg/errors.") || full == "errors.New" || full == "fmt.Errorf":
		if in, isWrap := wrapArg(full, args); isWrap {
			if _, isNil := in.(absint.Nil); isNil {
				return absint.Nil{}, true
			}
		}
		return t.newErr(cal.Name()), true
	case strings.HasPrefix(full, "(*sync.WaitGroup).") || strings.HasPrefix(full, "(*sync.Mutex).") || strings.HasPrefix(full, "(*sync.RWMutex)."):
		return nil, true // synchronisation has no effect on a sequential schedule
	case full == "fmt.Sprintf" || full == "fmt.Sprint":
		return &absint.Opaque{Why: "text"}, true
	case strings.HasPrefix(full, "(*strings.Builder)."):
		// message building: the text is opaque, writing never fails
		switch cal.Name() {
		case "String":
			return &absint.Opaque{Why: "text"}, true
		case "Len":
			return &absint.Opaque{Why: "length"}, true
		case "WriteString", "Write", "WriteRune":
			return absint.Tuple{&absint.Opaque{Why: "n"}, absint.Nil{}}, true
		case "WriteByte":
			return absint.Nil{}, true
		}
		return nil, true
	case full == "fmt.Fprintf" || full == "fmt.Fprint" || full == "fmt.Fprintln":
		return absint.Tuple{&absint.Opaque{Why: "n"}, absint.Nil{}}, true
	case strings.HasPrefix(full, "(*sync.Map)."):
		// sync.Map as a sequential map (atomicity of the single operations is the library's; C20 decides their use)
		m := t.syncMap(args[0])
		key := func(v absint.Value) string { return absint.Show(v) }
		switch cal.Name() {
		case "Load":
			if v, ok := m.v[key(args[1])]; ok {
				return absint.Tuple{v, absint.Bool(true)}, true
			}
			return absint.Tuple{absint.Nil{}, absint.Bool(false)}, true
		case "Store":
			k := key(args[1])
			if _, ok := m.v[k]; !ok {
				m.keys = append(m.keys, k)
			}
			m.k[k], m.v[k] = args[1], args[2]
			return nil, true
		case "LoadOrStore":
			k := key(args[1])
			if v, ok := m.v[k]; ok {
				return absint.Tuple{v, absint.Bool(true)}, true
			}
			m.keys = append(m.keys, k)
			m.k[k], m.v[k] = args[1], args[2]
			return absint.Tuple{args[2], absint.Bool(false)}, true
		case "Delete":
			delete(m.v, key(args[1]))
			delete(m.k, key(args[1]))
			return nil, true
		case "Range":
			for _, k := range append([]string(nil), m.keys...) {
				v, ok := m.v[k]
				if !ok {
					continue
				}
				if r, _ := ip.CallValue(args[1], m.k[k], v).(absint.Bool); !bool(r) {
					break
				}
			}
			return nil, true
		}
		return nil, false
	case full == "sort.Slice" || full == "sort.SliceStable":
		// the standard sorts, modelled as a stable insertion sort under the interpreted index comparator
		l, ok := args[0].(*absint.List)
		if !ok {
			return nil, false
		}
		less := func(i, j int) bool {
			r, ok := ip.CallValue(args[1], absint.Int(i), absint.Int(j)).(absint.Bool)
			if !ok {
				panic(&absint.Undecided{Msg: "index comparator did not return a boolean"})
			}
			return bool(r)
		}
		for i := 1; i < len(l.Elems); i++ {
			for j := i; j > 0 && less(j, j-1); j-- {
				l.Elems[j], l.Elems[j-1] = l.Elems[j-1], l.Elems[j]
			}
		}
		return nil, true
	case full == "sort.Strings":
		l, ok := args[0].(*absint.List)
		if !ok {
			return nil, false
		}
		for i := 1; i < len(l.Elems); i++ {
			for j := i; j > 0; j-- {
				a, ok1 := l.Elems[j].(absint.Str)
				b, ok2 := l.Elems[j-1].(absint.Str)
				if !ok1 || !ok2 {
					panic(&absint.Undecided{Msg: "sort.Strings on non-literal elements"})
				}
				if !(a < b) {
					break
				}
				l.Elems[j], l.Elems[j-1] = l.Elems[j-1], l.Elems[j]
			}
		}
		return nil, true
	}
	return nil, false
}

func wrapArg(full string, args []absint.Value) (absint.Value, bool) {
	switch full {
	case "github.com/pkg/errors.Wrap", "github.com/pkg/errors.Wrapf", "github.com/pkg/errors.WithMessage",
		"github.com/pkg/errors.WithMessagef", "github.com/pkg/errors.WithStack":
		if len(args) > 0 {
			return args[0], true
		}
	}
	return nil, false
}

func (t *tbl) TypeTest(ip *absint.Interp, v absint.Value, T types.Type) (bool, bool) {
	if t.typeTestC != nil {
		return t.typeTestC(ip, v, T)
	}
	if t.typeTest != nil {
		if ok, known := t.typeTest(v, T); known {
			return ok, known
		}
	}
	// a slice remembers the type it was boxed with
	if l, isL := v.(*absint.List); isL && l.GoType != nil && !types.IsInterface(T) {
		return types.Identical(l.GoType, T), true
	}
	// literals carry their basic type
	if b, isB := T.Underlying().(*types.Basic); isB {
		switch v.(type) {
		case absint.Str:
			return b.Info()&types.IsString != 0, true
		case absint.Int:
			return b.Info()&types.IsInteger != 0, true
		case absint.Bool:
			return b.Info()&types.IsBoolean != 0, true
		}
	}
	return false, false
}

func (t *tbl) Field(ip *absint.Interp, obj *absint.Tok, name string, typ types.Type) absint.Value {
	if t.field != nil {
		return t.field(ip, obj, name, typ)
	}
	return nil
}

func (t *tbl) Global(ip *absint.Interp, g *ssa.Global) absint.Value {
	if t.global != nil {
		return t.global(g)
	}
	return nil
}

// runTable enumerates every choice tape of one configuration and calls check on each outcome.
// build() creates a fresh oracle + arguments for each run (heap objects must not be shared between runs).
func runTable(c *core.Ctx, fn *ssa.Function, build func() (absint.Oracle, []absint.Value, []absint.Value), check func(ip *absint.Interp, out absint.Outcome)) (runs int, undecided string) {
	var tape []int
	for {
		orc, args, bind := build()
		ip := absint.New(orc)
		ip.IsLog = core.IsLogCall
		ip.InScope = c.InScope
		ip.Tape = tape
		out := ip.Run(fn, args, bind)
		runs++
		if out.Undecided != nil {
			return runs, out.Undecided.Msg
		}
		check(ip, out)
		next, ok := absint.NextTape(padTape(tape, len(ip.Arity)), ip.Arity)
		if !ok || runs > 200000 {
			return runs, ""
		}
		tape = next
	}
}

func padTape(t []int, n int) []int {
	out := make([]int, n)
	copy(out, t)
	return out
}

// smallModelCheck makes the small-scope hypothesis of a decision table explicit: the subject (with its literals and
// in-scope static callees) must not compare a plain int quantity (a length, a counter) with a constant larger than
// the table's bound - otherwise behaviour could change beyond what the table enumerates.
func smallModelCheck(c *core.Ctx, r *core.Report, rule, cons string, fn *ssa.Function, bound int64) {
	seen := map[*ssa.Function]bool{}
	bad := ""
	var visit func(f *ssa.Function, depth int)
	visit = func(f *ssa.Function, depth int) {
		if f == nil || seen[f] || f.Blocks == nil || !c.InScope(f) || depth > 3 {
			return
		}
		seen[f] = true
		for _, b := range f.Blocks {
			for _, in := range b.Instrs {
				switch x := in.(type) {
				case *ssa.BinOp:
					switch x.Op.String() {
					case "<", "<=", ">", ">=", "==", "!=":
						for _, side := range []ssa.Value{x.X, x.Y} {
							k, ok := core.ConstInt(side)
							if !ok {
								continue
							}
							if bt, isB := side.Type().(*types.Basic); !isB || (bt.Kind() != types.Int && bt.Kind() != types.UntypedInt) {
								continue
							}
							if k > bound || k < -1 {
								bad = fmt.Sprintf("comparison with constant %d at %s", k, c.Pos(x.Pos()))
							}
						}
					}
				case ssa.CallInstruction:
					if cal := x.Common().StaticCallee(); cal != nil && !core.IsLogCall(x.Common()) {
						visit(cal, depth+1)
					}
				case *ssa.MakeClosure:
					visit(x.Fn.(*ssa.Function), depth+1)
				}
			}
		}
	}
	visit(fn, 0)
	if bad != "" {
		r.Undecided(rule, cons+":small-model", c.FnPos(fn), fmt.Sprintf("the subject compares a length/counter with a constant beyond the table bound %d (%s): the enumerated inputs no longer cover its behaviour", bound, bad))
	} else {
		r.Hold(rule, cons+":small-model", c.FnPos(fn), fmt.Sprintf("no length/counter threshold above the table bound %d in the subject and its in-scope callees (%d functions): behaviour beyond the bound is uniform", bound, len(seen)))
	}
}

// valueOfType finds the abstract value that plays Go type t: what pick knows, or - for an unexported struct type (or a
// pointer to one) that pick does not know, i.e. a parameter object introduced by the code under analysis - a fresh
// object whose fields are filled the same way.
func valueOfType(t types.Type, pick func(types.Type) absint.Value, depth int) absint.Value {
	if v := pick(t); v != nil {
		return v
	}
	et := t
	if pt, ok := t.Underlying().(*types.Pointer); ok {
		et = pt.Elem()
		if v := pick(et); v != nil {
			return v
		}
	}
	n := core.NamedOf(et)
	st, isStruct := et.Underlying().(*types.Struct)
	if isStruct && depth < 2 && (n == nil || !n.Obj().Exported()) {
		id := "paramobj"
		if n != nil {
			id = n.Obj().Name()
		}
		tok := absint.NewTok(id, "parameter-object")
		for i := 0; i < st.NumFields(); i++ {
			if fv := valueOfType(st.Field(i).Type(), pick, depth+1); fv != nil {
				tok.Fields[st.Field(i).Name()] = fv
			}
		}
		return tok
	}
	return nil
}

// callbackFrame prepares the interpretation of a callback handed to an iterator: a function literal is run with its
// captured variables bound to cells; a method value (bound method wrapper) stands for its method, run with the bound
// receiver - typically a parameter object, built field by field - as first argument.
func callbackFrame(cb *ssa.Function, pick func(types.Type) absint.Value) (fn *ssa.Function, recv, bind []absint.Value) {
	if m := resolveWrapper(cb); m != cb && m != nil {
		v := valueOfType(m.Params[0].Type(), pick, 0)
		if v == nil {
			v = absint.NewTok("recv", "receiver")
		}
		return m, []absint.Value{v}, nil
	}
	for _, fv := range cb.FreeVars {
		et := fv.Type()
		if pt, ok := et.Underlying().(*types.Pointer); ok {
			et = pt.Elem()
		}
		v := valueOfType(et, pick, 0)
		if v == nil {
			v = absint.NewTok("captured:"+fv.Name(), "captured")
		}
		bind = append(bind, &absint.Cell{V: v})
	}
	return cb, nil, bind
}

// layoutArgs lays abstract values out along fn's parameters (receiver included).
func layoutArgs(fn *ssa.Function, pick func(types.Type) absint.Value) []absint.Value {
	var args []absint.Value
	for _, p := range fn.Params {
		v := valueOfType(p.Type(), pick, 0)
		if v == nil {
			v = absint.NewTok("arg:"+p.Name(), "arg")
		}
		args = append(args, v)
	}
	return args
}
