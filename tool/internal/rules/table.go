package rules

import (
	"fmt"
	"go/token"
	"go/types"
	"strings"

	"golang.org/x/tools/go/ssa"

	"iocvet/internal/absint"
	"iocvet/internal/core"
)

// tbl is a table-driven oracle for decision-table rules (P5): handlers keyed by resolved callee.
type tbl struct {
	absint.BaseOracle
	c         *core.Ctx
	callee    map[*ssa.Function]func(ip *absint.Interp, args []absint.Value) absint.Value // in-scope, origin-folded
	ext       map[string]func(ip *absint.Interp, args []absint.Value) absint.Value        // external callee full name
	invoke    map[*types.Func]func(ip *absint.Interp, args []absint.Value) absint.Value   // interface method
	invokeN   map[string]func(ip *absint.Interp, args []absint.Value) absint.Value        // interface method by name (external interfaces)
	typeTest  func(v absint.Value, T types.Type) (bool, bool)
	typeTestC func(ip *absint.Interp, v absint.Value, T types.Type) (bool, bool) // may consult the choice tape
	field     func(ip *absint.Interp, obj *absint.Tok, name string, typ types.Type) absint.Value
	global    func(g *ssa.Global) absint.Value
	dynamic   func(ip *absint.Interp, fn absint.Value, args []absint.Value) (absint.Value, bool)
	errN      int
	syncMaps  map[absint.Value]*syncMapModel // sync.Map objects by receiver identity
	fieldMaps map[string]*syncMapModel       // ... and those held by value in a field, by owner and field name
	// sortStrictBad, when set, collects violations of strictness of a sort.Interface's Less (checked before sorting)
	sortStrictBad *[]string
	// setup, when set, runs in the run's own interpreter before the subject (registration through the subject's own
	// methods): the choices it makes are enumerated with those of the run
	setup func(ip *absint.Interp)
	// atomicCells: the values of sync/atomic variables, by receiver identity (see stdModels)
	atomicCells map[string]absint.Value
	// under the scheduler: WaitGroup counters and mutex states by the place they live in (see syncOp)
	wgs    map[string]*int64
	mus    map[string]*muState
	onSync func(ev, key string)
	// addrs: the addresses handed out by (reflect.Value).Pointer so far (see there)
	addrs  map[*absint.Tok]int64
	naddrs int
}

type syncMapModel struct {
	keys []string
	k    map[string]absint.Value
	v    map[string]absint.Value
}

func (t *tbl) syncMap(recv absint.Value) *syncMapModel {
	if t.syncMaps == nil {
		t.syncMaps = map[absint.Value]*syncMapModel{}
	}
	if fr, ok := recv.(*absint.FieldRef); ok {
		// a map held by value in a struct field: the address is computed anew at every use, the map is the same
		if t.fieldMaps == nil {
			t.fieldMaps = map[string]*syncMapModel{}
		}
		k := fmt.Sprintf("%p.%s", fr.Obj, fr.Name)
		m := t.fieldMaps[k]
		if m == nil {
			m = &syncMapModel{k: map[string]absint.Value{}, v: map[string]absint.Value{}}
			t.fieldMaps[k] = m
		}
		return m
	}
	m := t.syncMaps[recv]
	if m == nil {
		m = &syncMapModel{k: map[string]absint.Value{}, v: map[string]absint.Value{}}
		t.syncMaps[recv] = m
	}
	return m
}

func newTbl(c *core.Ctx) *tbl {
	t := &tbl{c: c, callee: map[*ssa.Function]func(*absint.Interp, []absint.Value) absint.Value{},
		ext:     map[string]func(*absint.Interp, []absint.Value) absint.Value{},
		invoke:  map[*types.Func]func(*absint.Interp, []absint.Value) absint.Value{},
		invokeN: map[string]func(*absint.Interp, []absint.Value) absint.Value{}}
	stringModels(t) // the standard string functions on literal texts (a table may override any of them)
	stdModels(t)    // number formatting, atomics, clocks, processor counts
	// reflectx.Id renders a value's type for log and error texts only
	if idFn := c.Func("util/reflectx", "Id"); idFn != nil {
		t.callee[idFn] = func(ip *absint.Interp, a []absint.Value) absint.Value { return &absint.Opaque{Why: "text"} }
	}
	return t
}

// goTypeTok: a reflect.Type value standing for a Go type that is written in the source.
func goTypeTok(T types.Type) *absint.Tok {
	tok := absint.NewTok("reflect.Type("+core.Short(T.String())+")", "gotype")
	tok.Attr["gotype"] = T
	return tok
}

func goTypeOf(v absint.Value) types.Type {
	if tok, ok := v.(*absint.Tok); ok && tok.Class == "gotype" {
		T, _ := tok.Attr["gotype"].(types.Type)
		return T
	}
	return nil
}

func (t *tbl) newErr(what string) *absint.Tok {
	t.errN++
	return absint.NewTok(fmt.Sprintf("err%d:%s", t.errN, what), "error")
}

func isErrTok(v absint.Value) bool {
	t, ok := v.(*absint.Tok)
	return ok && t.Class == "error"
}

func (t *tbl) Call(ip *absint.Interp, site ssa.CallInstruction, args []absint.Value) (absint.Value, bool) {
	com := site.Common()
	if com.IsInvoke() {
		// reflect.Type values that stand for a Go type known from the source (`reflect.TypeOf((*I)(nil)).Elem()`)
		if gt := goTypeOf(first(args)); gt != nil && com.Method.Name() == "Elem" && len(args) == 1 {
			if p, ok := gt.Underlying().(*types.Pointer); ok {
				return goTypeTok(p.Elem()), true
			}
		}
		if com.Method.Name() == "Implements" && len(args) == 2 && goTypeOf(args[1]) != nil && types.IsInterface(goTypeOf(args[1])) {
			// T.Implements(<interface I>) asks what reflectx.IsTypeImplement(T, new(I)) asks
			if _, own := t.invokeN["Implements"]; !own {
				if fn := t.c.Func("util/reflectx", "IsTypeImplement"); fn != nil && t.callee[fn] != nil {
					return t.callee[fn](ip, []absint.Value{args[0], goTypeTok(types.NewPointer(goTypeOf(args[1])))}), true
				}
			}
		}
		if h, ok := t.invoke[com.Method]; ok {
			return h(ip, args), true
		}
		for m, h := range t.invoke {
			if core.NarrowedView(com.Method, m, com.Value.Type()) {
				return h(ip, args), true
			}
		}
		if h, ok := t.invokeN[com.Method.Name()]; ok {
			return h(ip, args), true
		}
		// an internal seam (unexported interface with one implementation): the call is the implementation's
		if impl := t.c.InternalImpl(com); impl != nil {
			if h, ok := t.callee[impl]; ok {
				return h(ip, args), true
			}
			if h, ok := t.ext[impl.String()]; ok && impl.Blocks == nil {
				return h(ip, args), true // a narrowed view of an external collaborator
			}
			if impl.Blocks != nil && (ip.InScope == nil || ip.InScope(impl)) {
				return ip.CallFunction(impl, args, nil), true
			}
		}
		switch com.Method.Name() {
		case "String", "Error", "Name":
			if com.Signature().Params().Len() == 0 && com.Signature().Results().Len() == 1 {
				if b, isB := com.Signature().Results().At(0).Type().Underlying().(*types.Basic); isB && b.Info()&types.IsString != 0 {
					return &absint.Opaque{Why: "text"}, true
				}
			}
		}
		return nil, false
	}
	cal := core.Callee(com)
	if cal == nil {
		// a named function called through a function value (a dispatch table entry, a callback parameter): the same
		// oracle answers as for a static call of it
		if fv, ok := ip.CurFn.(*ssa.Function); ok && fv.Parent() == nil {
			cal = fv
			if o := fv.Origin(); o != nil {
				cal = o
			}
		}
	}
	if cal == nil {
		if o, isOnce := ip.CurFn.(*absint.Tok); isOnce && o.Class == "once" {
			return callOnce(ip, o), true
		}
		if h, isHook := ip.CurFn.(*absint.Tok); isHook && h.Class == "hook" {
			// an observation hook the table did not set: it is called and changes nothing
			res := com.Signature().Results()
			var outs absint.Tuple
			for i := 0; i < res.Len(); i++ {
				outs = append(outs, ip.ZeroOf(res.At(i).Type()))
			}
			switch len(outs) {
			case 0:
				return nil, true
			case 1:
				return outs[0], true
			}
			return outs, true
		}
		if t.dynamic != nil && ip.CurFn != nil {
			return t.dynamic(ip, ip.CurFn, args)
		}
		return nil, false
	}
	if h, ok := t.callee[cal]; ok {
		return h(ip, args), true
	}
	if cal.Blocks != nil && cal.Name() == "String" && len(args) == 1 && pureTextFn(t.c, cal, 0) {
		// a String() method that only reads and formats: when the model cannot follow it (a field nobody set up),
		// its result is a text the model does not know - it has no effect that could matter
		var ret absint.Value
		func() {
			defer func() {
				if r := recover(); r != nil {
					if _, ok := r.(*absint.Undecided); ok {
						ret = &absint.Opaque{Why: "text"}
						return
					}
					panic(r)
				}
			}()
			ret = ip.CallFunction(cal, args, nil)
		}()
		return ret, true
	}
	full := cal.String()
	if full == "reflect.TypeOf" && len(com.Args) == 1 {
		// reflect.TypeOf((*I)(nil)): the type is written in the source
		if mi, ok := com.Args[0].(*ssa.MakeInterface); ok {
			if k, ok := mi.X.(*ssa.Const); ok && k.IsNil() {
				if p, ok := k.Type().Underlying().(*types.Pointer); ok && types.IsInterface(p.Elem()) {
					return goTypeTok(k.Type()), true
				}
			}
			// reflect.TypeOf(new(I)): the operand's static type is a pointer to an interface - that is its type
			if p, ok := mi.X.Type().Underlying().(*types.Pointer); ok && types.IsInterface(p.Elem()) {
				return goTypeTok(mi.X.Type()), true
			}
		}
	}
	if h, ok := t.ext[full]; ok {
		return h(ip, args), true
	}
	if h, ok := stdGeneric[full]; ok {
		return h(t, ip, site, args), true // (calls are resolved to the generic function, not to the instance)
	}
	if base := genericBase(full); base != full || strings.HasPrefix(full, "(*sync/atomic.Pointer") {
		if h, ok := t.ext[base]; ok {
			return h(ip, args), true
		}
		if h, ok := stdGeneric[base]; ok {
			return h(t, ip, site, args), true
		}
		if strings.HasPrefix(base, "(*sync/atomic.Pointer).") {
			if t.atomicCells == nil {
				t.atomicCells = map[string]absint.Value{}
			}
			key := fmt.Sprintf("%p", args[0])
			if fr, isFR := args[0].(*absint.FieldRef); isFR {
				key = fmt.Sprintf("%p.%s", fr.Obj, fr.Name)
			}
			switch strings.TrimPrefix(base, "(*sync/atomic.Pointer).") {
			case "Load":
				if v, has := t.atomicCells[key]; has {
					return v, true
				}
				return absint.Nil{}, true
			case "Store":
				t.atomicCells[key] = args[1]
				return nil, true
			case "Swap":
				old, has := t.atomicCells[key]
				if !has {
					old = absint.Nil{}
				}
				t.atomicCells[key] = args[1]
				return old, true
			case "CompareAndSwap":
				cur, has := t.atomicCells[key]
				if !has {
					cur = absint.Nil{}
				}
				if eq, known := absint.Equal(cur, args[1]); known && eq {
					t.atomicCells[key] = args[2]
					return absint.Bool(true), true
				} else if !known {
					panic(&absint.Undecided{Msg: "CompareAndSwap on a pointer the model cannot compare"})
				}
				return absint.Bool(false), true
			}
		}
	}
	switch {
	case strings.HasPrefix(full, "github.com/pkg/errors.") || full == "errors.New" || full == "fmt.Errorf":
		if in, isWrap := wrapArg(full, args); isWrap {
			if _, isNil := in.(absint.Nil); isNil {
				return absint.Nil{}, true
			}
		}
		return t.newErr(cal.Name()), true
	case ip.Sched && (strings.HasPrefix(full, "(*sync.WaitGroup).") || strings.HasPrefix(full, "(*sync.Mutex).") || strings.HasPrefix(full, "(*sync.RWMutex).")):
		return t.syncOp(ip, full, args), true
	case strings.HasPrefix(full, "(*sync.WaitGroup).") || strings.HasPrefix(full, "(*sync.Mutex).") || strings.HasPrefix(full, "(*sync.RWMutex)."):
		return nil, true // synchronisation has no effect on a sequential schedule
	case full == "(reflect.Value).IsZero" && len(args) == 1:
		// whether a field already holds something when the container gets to it is up to the user: both are explored
		if tok, ok := args[0].(*absint.Tok); ok {
			if z, known := tok.Attr["zero"].(absint.Bool); known {
				return z, true
			}
			z := absint.Bool(ip.Choose(2, "the value is the zero value") == 0)
			tok.Attr["zero"] = z // one answer per value and run
			return z, true
		}
		return nil, false
	case full == "(reflect.Value).Pointer" && len(args) == 1:
		// an address: the same for one object every time; two different objects usually have different addresses,
		// but need not (all zero-size values may share one): each new object's address is explored as a fresh one
		// and as every address handed out before
		tok, ok := args[0].(*absint.Tok)
		if !ok {
			return nil, false
		}
		if t.addrs == nil {
			t.addrs = map[*absint.Tok]int64{}
		}
		if a, known := t.addrs[tok]; known {
			return absint.Int(a), true
		}
		pick := ip.Choose(t.naddrs+1, "address of "+tok.ID+" (fresh, or one handed out before)")
		a := int64(0x1000 + pick)
		if pick == t.naddrs {
			t.naddrs++
		}
		t.addrs[tok] = a
		return absint.Int(a), true
	case full == "reflect.DeepEqual" && len(args) == 2:
		// one object equals itself; two different objects may or may not have equal contents
		if a, ok := args[0].(*absint.Tok); ok && args[1] == absint.Value(a) {
			return absint.Bool(true), true
		}
		return absint.Bool(ip.Choose(2, "two different objects have equal contents") == 1), true
	case full == "fmt.Sprintf" || full == "fmt.Sprint":
		return &absint.Opaque{Why: "text"}, true
	case full == "sort.Sort" || full == "sort.Stable":
		// the standard sorts over a Len/Less/Swap value, modelled as a stable insertion sort under the value's own
		// interpreted methods (as for sort.Slice: the standard library's algorithm is trusted to sort)
		return t.sortInterface(ip, args[0]), true
	case strings.HasPrefix(full, "(*sync/atomic.") || strings.HasPrefix(full, "sync/atomic."):
		// counters nothing decides on: a value the model does not know
		if cal.Signature.Results().Len() == 0 {
			return nil, true
		}
		return &absint.Opaque{Why: "counter"}, true
	case full == "time.Now" || full == "time.Since" || strings.HasPrefix(full, "(time.Time).") || strings.HasPrefix(full, "(time.Duration)."):
		return &absint.Opaque{Why: "time"}, true
	case strings.HasPrefix(full, "(*strings.Builder)."):
		// message building: the text is opaque, writing never fails
		switch cal.Name() {
		case "String":
			return &absint.Opaque{Why: "text"}, true
		case "Len":
			return &absint.Opaque{Why: "length"}, true
		case "WriteString", "Write", "WriteRune":
			return absint.Tuple{&absint.Opaque{Why: "n"}, absint.Nil{}}, true
		case "WriteByte":
			return absint.Nil{}, true
		}
		return nil, true
	case full == "fmt.Fprintf" || full == "fmt.Fprint" || full == "fmt.Fprintln":
		return absint.Tuple{&absint.Opaque{Why: "n"}, absint.Nil{}}, true
	case strings.HasPrefix(full, "(*sync.Map)."):
		// sync.Map as a sequential map (atomicity of the single operations is the library's; C20 decides their use)
		m := t.syncMap(args[0])
		key := func(v absint.Value) string {
			if _, unknown := v.(*absint.Opaque); unknown {
				panic(&absint.Undecided{Msg: "a sync.Map keyed by a value the model does not know"})
			}
			if tk, isTok := v.(*absint.Tok); isTok && tk.Attr["zeroed"] != nil && strings.HasPrefix(tk.ID, "alloc") && len(tk.Fields) > 0 {
				return absint.KeyOf(v) // a struct value built by the interpreted code: equal field by field
			}
			return absint.Show(v)
		}
		switch cal.Name() {
		case "Load":
			if v, ok := m.v[key(args[1])]; ok {
				return absint.Tuple{v, absint.Bool(true)}, true
			}
			return absint.Tuple{absint.Nil{}, absint.Bool(false)}, true
		case "Store":
			k := key(args[1])
			if _, ok := m.v[k]; !ok {
				m.keys = append(m.keys, k)
			}
			m.k[k], m.v[k] = args[1], args[2]
			return nil, true
		case "LoadOrStore":
			k := key(args[1])
			if v, ok := m.v[k]; ok {
				return absint.Tuple{v, absint.Bool(true)}, true
			}
			m.keys = append(m.keys, k)
			m.k[k], m.v[k] = args[1], args[2]
			return absint.Tuple{args[2], absint.Bool(false)}, true
		case "Delete":
			delete(m.v, key(args[1]))
			delete(m.k, key(args[1]))
			return nil, true
		case "Range":
			for _, k := range append([]string(nil), m.keys...) {
				v, ok := m.v[k]
				if !ok {
					continue
				}
				if r, _ := ip.CallValue(args[1], m.k[k], v).(absint.Bool); !bool(r) {
					break
				}
			}
			return nil, true
		}
		return nil, false
	case full == "sort.Slice" || full == "sort.SliceStable":
		// the standard sorts, modelled as a stable insertion sort under the interpreted index comparator
		l, ok := args[0].(*absint.List)
		if !ok {
			return nil, false
		}
		less := func(i, j int) bool {
			r, ok := ip.CallValue(args[1], absint.Int(i), absint.Int(j)).(absint.Bool)
			if !ok {
				panic(&absint.Undecided{Msg: "index comparator did not return a boolean"})
			}
			return bool(r)
		}
		for i := 1; i < len(l.Elems); i++ {
			for j := i; j > 0 && less(j, j-1); j-- {
				l.Elems[j], l.Elems[j-1] = l.Elems[j-1], l.Elems[j]
			}
		}
		return nil, true
	case full == "sort.Strings":
		l, ok := args[0].(*absint.List)
		if !ok {
			return nil, false
		}
		for i := 1; i < len(l.Elems); i++ {
			for j := i; j > 0; j-- {
				a, ok1 := l.Elems[j].(absint.Str)
				b, ok2 := l.Elems[j-1].(absint.Str)
				if !ok1 || !ok2 {
					panic(&absint.Undecided{Msg: "sort.Strings on non-literal elements"})
				}
				if !(a < b) {
					break
				}
				l.Elems[j], l.Elems[j-1] = l.Elems[j-1], l.Elems[j]
			}
		}
		return nil, true
	}
	return nil, false
}

func wrapArg(full string, args []absint.Value) (absint.Value, bool) {
	switch full {
	case "github.com/pkg/errors.Wrap", "github.com/pkg/errors.Wrapf", "github.com/pkg/errors.WithMessage",
		"github.com/pkg/errors.WithMessagef", "github.com/pkg/errors.WithStack":
		if len(args) > 0 {
			return args[0], true
		}
	}
	return nil, false
}

// sortInterface sorts a value through its own Len / Less / Swap methods (interpreted).
func (t *tbl) sortInterface(ip *absint.Interp, v absint.Value) absint.Value {
	var gt types.Type
	switch x := v.(type) {
	case *absint.List:
		gt = x.GoType
	case *absint.Tok:
		gt, _ = x.Attr["gotype"].(types.Type)
	}
	if gt == nil {
		panic(&absint.Undecided{Msg: "sort.Sort of a value whose type the model does not know: " + absint.Show(v)})
	}
	method := func(name string) *ssa.Function {
		// (an object built by a struct literal is known by its address: a value-receiver method is looked up on the
		// struct type itself first)
		cands := []types.Type{gt}
		if p, ok := gt.Underlying().(*types.Pointer); ok {
			cands = []types.Type{p.Elem(), gt}
		}
		for _, T := range cands {
			var pkg *types.Package
			if n := core.NamedOf(T); n != nil {
				pkg = n.Obj().Pkg()
			}
			if sel := t.c.Prog.MethodSets.MethodSet(T).Lookup(pkg, name); sel != nil {
				if fn := t.c.Prog.MethodValue(sel); fn != nil && fn.Blocks != nil {
					return fn
				}
			}
		}
		panic(&absint.Undecided{Msg: "sort.Sort: " + gt.String() + " has no method " + name + " the model can follow"})
	}
	lenM, lessM, swapM := method("Len"), method("Less"), method("Swap")
	n, ok := ip.CallFunction(lenM, []absint.Value{v}, nil).(absint.Int)
	if !ok {
		panic(&absint.Undecided{Msg: "sort.Sort: Len() is not a known number"})
	}
	less := func(i, j int) bool {
		b, ok := ip.CallFunction(lessM, []absint.Value{v, absint.Int(i), absint.Int(j)}, nil).(absint.Bool)
		if !ok {
			panic(&absint.Undecided{Msg: "sort.Sort: Less() did not return a known boolean"})
		}
		return bool(b)
	}
	if t.sortStrictBad != nil {
		for i := 0; i < int(n); i++ {
			for j := 0; j <= i; j++ {
				if lij, lji := less(i, j), less(j, i); lij && lji {
					*t.sortStrictBad = append(*t.sortStrictBad, fmt.Sprintf("Less(%d,%d) and Less(%d,%d) both hold: not a strict order", i, j, j, i))
				}
			}
		}
	}
	for i := 1; i < int(n); i++ {
		for j := i; j > 0 && less(j, j-1); j-- {
			ip.CallFunction(swapM, []absint.Value{v, absint.Int(j), absint.Int(j - 1)}, nil)
		}
	}
	return nil
}

func (t *tbl) TypeTest(ip *absint.Interp, v absint.Value, T types.Type) (bool, bool) {
	if t.typeTestC != nil {
		if ok, known := t.typeTestC(ip, v, T); known {
			return ok, known
		}
	}
	if t.typeTest != nil {
		if ok, known := t.typeTest(v, T); known {
			return ok, known
		}
	}
	// a slice remembers the type it was boxed with
	if l, isL := v.(*absint.List); isL && l.GoType != nil && !types.IsInterface(T) {
		return types.Identical(l.GoType, T), true
	}
	// an object the interpreted code built itself has the Go type it was built with
	if tok, isT := v.(*absint.Tok); isT {
		dyn, _ := tok.Attr["boxed"].(types.Type)
		if dyn == nil {
			dyn, _ = tok.Attr["gotype"].(types.Type)
		}
		if dyn != nil {
			if it, isI := T.Underlying().(*types.Interface); isI {
				return types.Implements(dyn, it), true
			}
			return types.Identical(dyn, T), true
		}
	}
	// a capability no table knows about (an interface introduced after the tables were written), asked of one of the
	// table's own objects: both answers are possible, one per object and run
	if tok, isT := v.(*absint.Tok); isT && types.IsInterface(T) {
		if it, ok := T.Underlying().(*types.Interface); ok && it.NumMethods() > 0 {
			key := "cap:" + T.String()
			if tok.Attr[key] == nil {
				tok.Attr[key] = absint.Bool(ip.Choose(2, tok.ID+" implements "+T.String()) == 1)
			}
			return tok.Attr[key] == absint.Value(absint.Bool(true)), true
		}
	}
	// literals carry their basic type
	if b, isB := T.Underlying().(*types.Basic); isB {
		switch v.(type) {
		case absint.Str:
			return b.Info()&types.IsString != 0, true
		case absint.Int:
			return b.Info()&types.IsInteger != 0, true
		case absint.Bool:
			return b.Info()&types.IsBoolean != 0, true
		}
	}
	return false, false
}

func (t *tbl) Field(ip *absint.Interp, obj *absint.Tok, name string, typ types.Type) absint.Value {
	if t.field != nil {
		if v := t.field(ip, obj, name, typ); v != nil {
			return v
		}
	}
	// a function-typed field the table says nothing about: nil when nothing in scope ever stores a function there,
	// otherwise a hook that observes (calling it changes nothing)
	if _, isSig := typ.Underlying().(*types.Signature); isSig && ip.FieldOwner != nil {
		if n := core.NamedOf(ip.FieldOwner); n != nil && n.Obj().Pkg() != nil && core.InScopePath(n.Obj().Pkg().Path()) {
			stores, _ := t.c.FieldAccesses(n, name)
			nonNil := false
			for _, st := range stores {
				if !core.IsNilConst(st.Store.Val) {
					nonNil = true
				}
			}
			if !nonNil {
				return absint.Nil{}
			}
			if f := core.StructOf(n); f != nil {
				for i := 0; i < f.NumFields(); i++ {
					if f.Field(i).Name() == name && !f.Field(i).Exported() {
						return absint.NewTok(obj.ID+"."+name, "hook")
					}
				}
			}
		}
	}
	// a map field the table says nothing about, of a type whose every allocation site makes that map (or copies it
	// from another object of the type): the object is as freshly built - the map exists and is empty
	if _, isMap := typ.Underlying().(*types.Map); isMap && ip.FieldOwner != nil {
		if n := core.NamedOf(ip.FieldOwner); n != nil && alwaysMade(t.c, n, name) {
			return &absint.MapVal{M: map[string]absint.Value{}}
		}
	}
	return nil
}

// alwaysMade: every composite literal / allocation of T in scope gives the map field a made map (or the same field of
// another T), and nothing else stores into it.
func alwaysMade(c *core.Ctx, T *types.Named, field string) bool {
	key := "always-made:" + T.String() + "." + field
	if v, ok := c.Memo.Load(key); ok {
		return v.(bool)
	}
	res := func() bool {
		stores, _ := c.FieldAccesses(T, field)
		if len(stores) == 0 {
			return false
		}
		inited := map[ssa.Value]bool{}
		for _, st := range stores {
			base := core.Norm(st.Addr.X)
			if _, fresh := base.(*ssa.Alloc); !fresh {
				return false
			}
			switch v := st.Store.Val.(type) {
			case *ssa.MakeMap:
			case *ssa.UnOp:
				if _, isLoad := core.IsFieldLoad(v, T, field); !isLoad {
					return false
				}
			default:
				return false
			}
			inited[base] = true
		}
		// every allocation of T in scope is one of those
		for _, fn := range c.Scope {
			for _, b := range fn.Blocks {
				for _, in := range b.Instrs {
					al, ok := in.(*ssa.Alloc)
					if !ok {
						continue
					}
					if core.NamedOf(al.Type()) == T && core.StructOf(al.Type().Underlying().(*types.Pointer).Elem()) != nil && !inited[al] {
						if _, isPtrToT := al.Type().Underlying().(*types.Pointer).Elem().(*types.Named); isPtrToT {
							return false
						}
					}
				}
			}
		}
		return true
	}()
	c.Memo.Store(key, res)
	return res
}

func (t *tbl) Global(ip *absint.Interp, g *ssa.Global) absint.Value {
	if t.global != nil {
		return t.global(g)
	}
	return nil
}

// runTable enumerates every choice tape of one configuration and calls check on each outcome.
// build() creates a fresh oracle + arguments for each run (heap objects must not be shared between runs).
func runTable(c *core.Ctx, fn *ssa.Function, build func() (absint.Oracle, []absint.Value, []absint.Value), check func(ip *absint.Interp, out absint.Outcome)) (runs int, undecided string) {
	var tape []int
	// a table whose set-up (registering the participants through the subject's own registration methods) leaves the
	// model is undecided, like one whose run does
	defer func() {
		if r := recover(); r != nil {
			if u, ok := r.(*absint.Undecided); ok {
				undecided = "setting up the table: " + u.Msg
				return
			}
			panic(r)
		}
	}()
	for {
		orc, args, bind := build()
		ip := absint.New(orc)
		ip.IsLog = core.IsLogCall
		ip.InScope = c.InScope
		ip.Tape = tape
		if t, ok := orc.(*tbl); ok && t.setup != nil {
			t.setup(ip)
		}
		out := ip.Run(fn, args, bind)
		runs++
		if out.Undecided != nil {
			return runs, out.Undecided.Msg
		}
		check(ip, out)
		next, ok := absint.NextTape(padTape(tape, len(ip.Arity)), ip.Arity)
		if !ok || runs > 200000 {
			return runs, ""
		}
		tape = next
	}
}

func padTape(t []int, n int) []int {
	out := make([]int, n)
	copy(out, t)
	return out
}

// smallModelCheck makes the small-scope hypothesis of a decision table explicit: the subject (with its literals and
// in-scope static callees) must not compare a plain int quantity (a length, a counter) with a constant larger than
// the table's bound - otherwise behaviour could change beyond what the table enumerates.
func smallModelCheck(c *core.Ctx, r *core.Report, rule, cons string, fn *ssa.Function, bound int64) {
	seen := map[*ssa.Function]bool{}
	bad := ""
	var visit func(f *ssa.Function, depth int)
	visit = func(f *ssa.Function, depth int) {
		if f == nil || seen[f] || f.Blocks == nil || !c.InScope(f) || depth > 3 {
			return
		}
		seen[f] = true
		for _, b := range f.Blocks {
			for _, in := range b.Instrs {
				switch x := in.(type) {
				case *ssa.BinOp:
					switch x.Op.String() {
					case "<", "<=", ">", ">=", "==", "!=":
						for si, side := range []ssa.Value{x.X, x.Y} {
							k, ok := core.ConstInt(side)
							if !ok {
								continue
							}
							other := x.Y
							if si == 1 {
								other = x.X
							}
							if isConstCounter(other) {
								continue // a local counter that starts at a constant and moves in constant steps: independent of the input's size
							}
							if bt, isB := side.Type().(*types.Basic); !isB || (bt.Kind() != types.Int && bt.Kind() != types.UntypedInt) {
								continue
							}
							if k > bound || k < -1 {
								bad = fmt.Sprintf("comparison with constant %d at %s", k, c.Pos(x.Pos()))
							}
						}
					}
				case ssa.CallInstruction:
					if cal := x.Common().StaticCallee(); cal != nil && !core.IsLogCall(x.Common()) {
						visit(cal, depth+1)
					}
				case *ssa.MakeClosure:
					visit(x.Fn.(*ssa.Function), depth+1)
				}
			}
		}
	}
	visit(fn, 0)
	if bad != "" {
		r.Undecided(rule, cons+":small-model", c.FnPos(fn), fmt.Sprintf("the subject compares a length/counter with a constant beyond the table bound %d (%s): the enumerated inputs no longer cover its behaviour", bound, bad))
	} else {
		r.Hold(rule, cons+":small-model", c.FnPos(fn), fmt.Sprintf("no length/counter threshold above the table bound %d in the subject and its in-scope callees (%d functions): behaviour beyond the bound is uniform", bound, len(seen)))
	}
}

// isConstCounter: a loop variable whose every incoming value is a constant or itself plus a constant.
func isConstCounter(v ssa.Value) bool {
	phi, ok := v.(*ssa.Phi)
	if !ok {
		return false
	}
	for _, e := range phi.Edges {
		if _, isK := e.(*ssa.Const); isK {
			continue
		}
		bo, isBO := e.(*ssa.BinOp)
		if !isBO || (bo.Op != token.ADD && bo.Op != token.SUB) {
			return false
		}
		if _, isK := bo.Y.(*ssa.Const); !isK {
			return false
		}
		if bo.X != ssa.Value(phi) {
			if p2, isPhi := bo.X.(*ssa.Phi); !isPhi || !isConstCounterVia(p2, phi) {
				return false
			}
		}
	}
	return true
}

// isConstCounterVia: p is a phi that merges only the counter itself and counter±constant values (continue paths).
func isConstCounterVia(p, counter *ssa.Phi) bool {
	for _, e := range p.Edges {
		if e == ssa.Value(counter) {
			continue
		}
		return false
	}
	return true
}

// valueOfType finds the abstract value that plays Go type t: what pick knows, or - for an unexported struct type (or a
// pointer to one) that pick does not know, i.e. a parameter object introduced by the code under analysis - a fresh
// object whose fields are filled the same way.
func valueOfType(t types.Type, pick func(types.Type) absint.Value, depth int) absint.Value {
	if v := pick(t); v != nil {
		return v
	}
	et := t
	if pt, ok := t.Underlying().(*types.Pointer); ok {
		et = pt.Elem()
		if v := pick(et); v != nil {
			return v
		}
	}
	n := core.NamedOf(et)
	st, isStruct := et.Underlying().(*types.Struct)
	if isStruct && depth < 2 && (n == nil || !n.Obj().Exported()) {
		id := "paramobj"
		if n != nil {
			id = n.Obj().Name()
		}
		tok := absint.NewTok(id, "parameter-object")
		for i := 0; i < st.NumFields(); i++ {
			if fv := valueOfType(st.Field(i).Type(), pick, depth+1); fv != nil {
				tok.Fields[st.Field(i).Name()] = fv
			}
		}
		return tok
	}
	return nil
}

// callbackFrame prepares the interpretation of a callback handed to an iterator: a function literal is run with its
// captured variables bound to cells; a method value (bound method wrapper) stands for its method, run with the bound
// receiver - typically a parameter object, built field by field - as first argument.
func callbackFrame(cb *ssa.Function, pick func(types.Type) absint.Value) (fn *ssa.Function, recv, bind []absint.Value) {
	if m := resolveWrapper(cb); m != cb && m != nil {
		v := valueOfType(m.Params[0].Type(), pick, 0)
		if v == nil {
			v = absint.NewTok("recv", "receiver")
		}
		return m, []absint.Value{v}, nil
	}
	for _, fv := range cb.FreeVars {
		et := fv.Type()
		if pt, ok := et.Underlying().(*types.Pointer); ok {
			et = pt.Elem()
		}
		v := valueOfType(et, pick, 0)
		if v == nil {
			v = absint.NewTok("captured:"+fv.Name(), "captured")
		}
		bind = append(bind, &absint.Cell{V: v})
	}
	return cb, nil, bind
}

// layoutArgs lays abstract values out along fn's parameters (receiver included).
func layoutArgs(fn *ssa.Function, pick func(types.Type) absint.Value) []absint.Value {
	var args []absint.Value
	for _, p := range fn.Params {
		v := valueOfType(p.Type(), pick, 0)
		if v == nil {
			v = absint.NewTok("arg:"+p.Name(), "arg")
		}
		args = append(args, v)
	}
	return args
}

func first(vs []absint.Value) absint.Value {
	if len(vs) == 0 {
		return nil
	}
	return vs[0]
}

// pureTextFn: fn returns one string and, with the in-scope functions it calls, does nothing but read and format:
// no store outside its own locals, no map update, no send, no goroutine, no defer, no call of a function value, and
// only formatting / reflection read calls outside the module.
func pureTextFn(c *core.Ctx, fn *ssa.Function, depth int) bool {
	key := "pure-text:" + fn.String()
	if depth == 0 {
		if v, ok := c.Memo.Load(key); ok {
			return v.(bool)
		}
	}
	ok := pureTextBody(c, fn, depth, map[*ssa.Function]bool{})
	if depth == 0 {
		c.Memo.Store(key, ok)
	}
	return ok
}

func pureTextBody(c *core.Ctx, fn *ssa.Function, depth int, onStack map[*ssa.Function]bool) bool {
	if onStack[fn] {
		return true // a recursive call: judged where the function is first entered
	}
	if fn.Blocks == nil || depth > 6 {
		return false
	}
	onStack[fn] = true
	defer delete(onStack, fn)
	if depth == 0 {
		res := fn.Signature.Results()
		if res.Len() != 1 {
			return false
		}
		if b, ok := res.At(0).Type().Underlying().(*types.Basic); !ok || b.Info()&types.IsString == 0 {
			return false
		}
	}
	for _, b := range fn.Blocks {
		for _, in := range b.Instrs {
			switch x := in.(type) {
			case *ssa.Store:
				// stores into the function's own temporaries only (variadic argument arrays, local variables)
				addr := x.Addr
				if ia, ok := addr.(*ssa.IndexAddr); ok {
					addr = ia.X
				}
				if _, ok := addr.(*ssa.Alloc); !ok {
					return false
				}
			case *ssa.MapUpdate, *ssa.Send, *ssa.Go, *ssa.Defer, *ssa.MakeClosure:
				return false
			case *ssa.Call:
				com := x.Common()
				if _, isB := com.Value.(*ssa.Builtin); isB {
					continue
				}
				if com.IsInvoke() {
					switch com.Method.Name() {
					case "String", "Error", "Name", "Kind", "Elem", "PkgPath":
						continue
					}
					// a style / strategy object behind an internal interface: every implementation must be such a function
					impls := core.SeamAll(com)
					if g := core.Seam(com); g != nil {
						impls = []*ssa.Function{g}
					}
					if len(impls) == 0 {
						return false
					}
					for _, g := range impls {
						if !c.InScope(g) || !pureTextBody(c, g, depth+1, onStack) {
							return false
						}
					}
					continue
				}
				cal := com.StaticCallee()
				if cal == nil {
					return false
				}
				if c.InScope(cal) {
					if !pureTextBody(c, cal, depth+1, onStack) {
						return false
					}
					continue
				}
				full := cal.String()
				switch {
				case full == "fmt.Sprintf" || full == "fmt.Sprint" || strings.HasPrefix(full, "strings.") || strings.HasPrefix(full, "strconv."):
				case strings.HasPrefix(full, "(reflect.Value).") && !strings.Contains(full, "Set") && !strings.Contains(full, "Call"):
				case full == "reflect.TypeOf" || full == "reflect.ValueOf" || full == "reflect.Indirect":
				case strings.HasPrefix(full, "(*strings.Builder)."):
					// (writes into a builder: a local one, since no store outside the function's own variables passes)
					if al, isAl := core.Norm(com.Args[0]).(*ssa.Alloc); !isAl || al.Parent() != fn {
						return false
					}
				case strings.HasPrefix(full, "(*sync/atomic.") && cal.Name() == "Load":
				default:
					return false
				}
			}
		}
	}
	return true
}

// syncKey identifies a WaitGroup / mutex by the place it lives in.
func syncKey(v absint.Value) string {
	if fr, ok := v.(*absint.FieldRef); ok {
		return fmt.Sprintf("%p.%s", fr.Obj, fr.Name) // held by value in a struct field
	}
	return fmt.Sprintf("%p", v)
}

type muState struct {
	writer  bool
	readers int
}

// syncOp: WaitGroup and mutex operations under the scheduler (absint/sched.go) - a counter that Wait waits for, a
// lock that Lock waits for.
func (t *tbl) syncOp(ip *absint.Interp, full string, args []absint.Value) absint.Value {
	if t.wgs == nil {
		t.wgs, t.mus = map[string]*int64{}, map[string]*muState{}
	}
	key := syncKey(args[0])
	note := func(ev string) {
		if t.onSync != nil {
			t.onSync(ev, key)
		}
	}
	switch full {
	case "(*sync.WaitGroup).Add", "(*sync.WaitGroup).Done":
		k := absint.Int(-1)
		if strings.HasSuffix(full, ".Add") {
			var ok bool
			if k, ok = args[1].(absint.Int); !ok {
				panic(&absint.Undecided{Msg: "WaitGroup.Add of a number the model does not know"})
			}
		}
		n := t.wgs[key]
		if n == nil {
			n = new(int64)
			t.wgs[key] = n
		}
		*n += int64(k)
		if k < 0 {
			note("done")
		} else {
			note(fmt.Sprintf("add(%d)", int64(k)))
		}
		if *n < 0 {
			panic(&absint.GoPanic{Msg: "sync: negative WaitGroup counter"})
		}
		if *n == 0 {
			ip.Yield()
		}
		return nil
	case "(*sync.WaitGroup).Wait":
		ip.Block(func() bool { n := t.wgs[key]; return n == nil || *n == 0 }, "WaitGroup.Wait")
		note("wait")
		return nil
	}
	m := t.mus[key]
	if m == nil {
		m = &muState{}
		t.mus[key] = m
	}
	switch full[strings.LastIndex(full, ".")+1:] {
	case "Lock":
		ip.Block(func() bool { return !m.writer && m.readers == 0 }, "Lock of a held mutex")
		m.writer = true
		note("lock")
	case "Unlock":
		if !m.writer {
			panic(&absint.GoPanic{Msg: "sync: unlock of unlocked mutex"})
		}
		m.writer = false
		note("unlock")
		ip.Yield()
	case "RLock":
		ip.Block(func() bool { return !m.writer }, "RLock of a write-held mutex")
		m.readers++
	case "RUnlock":
		if m.readers == 0 {
			panic(&absint.GoPanic{Msg: "sync: RUnlock of unlocked RWMutex"})
		}
		m.readers--
		ip.Yield()
	case "TryLock":
		if !m.writer && m.readers == 0 {
			m.writer = true
			return absint.Bool(true)
		}
		return absint.Bool(false)
	default:
		panic(&absint.Undecided{Msg: "unmodelled synchronisation " + full})
	}
	return nil
}
