package rules

import (
	"go/types"
	"sort"
	"strings"

	"golang.org/x/tools/go/ssa"

	"iocvet/internal/core"
)

// procInfo describes one built-in property post-processor, found by role.
type procInfo struct {
	T          *types.Named
	Props      *ssa.Function // declared PostProcessProperties
	Class      string        // P / O / U under the ordering contract
	Order      int64
	OrderConst bool
	Roles      map[string]bool
	Registered bool            // constructed by a function that App's start-up path calls
	Body       []*ssa.Function // Props, its literals and the same-package helpers it consists of (breadth first)
}

func (p *procInfo) Name() string { return p.T.Obj().Name() }

func (p *procInfo) key() [2]int64 {
	return [2]int64{int64(rank(p.Class)), p.Order}
}

func lessKey(a, b [2]int64) bool {
	if a[0] != b[0] {
		return a[0] < b[0]
	}
	if a[0] == 2 {
		return false // unordered participants are not ranked among themselves
	}
	return a[1] < b[1]
}

func extCallIn(fns []*ssa.Function, names ...string) ssa.CallInstruction {
	for _, f := range fns {
		for _, ci := range core.Calls(f) {
			for _, n := range names {
				if core.IsExtCall(ci.Common(), n) {
					return ci
				}
			}
		}
	}
	return nil
}

func invokeIn(fns []*ssa.Function, m *types.Func) ssa.CallInstruction {
	for _, f := range fns {
		for _, ci := range core.Calls(f) {
			if core.IsInvoke(ci.Common(), m) {
				return ci
			}
		}
	}
	return nil
}

func callIn(fns []*ssa.Function, target *ssa.Function) ssa.CallInstruction {
	for _, f := range fns {
		for _, ci := range core.Calls(f) {
			if core.IsCallTo(ci.Common(), target) {
				return ci
			}
		}
	}
	return nil
}

// builtinProcessors lists the in-scope InstantiationAware processors that declare PostProcessProperties.
func builtinProcessors(c *core.Ctx) []*procInfo {
	ro := c.Roles()
	ia := c.Iface("container", "InstantiationAwareComponentPostProcessor")
	elReplace := c.IfaceMethod("util/el", "Helper", "ReplaceAllContent")
	prop := c.Named("component_definition", "Property")
	var unmarshall *ssa.Function
	if prop != nil {
		unmarshall = c.DeclaredMethod(prop, "Unmarshall")
	}
	// constructors called from package app
	registered := map[*types.Named]bool{}
	for _, fn := range c.Scope {
		p := core.PkgOf(fn)
		// (package app and the internal packages below it)
		if p == nil || (p.Pkg.Path() != core.Mod+"/app" && !strings.HasPrefix(p.Pkg.Path(), core.Mod+"/app/")) {
			continue
		}
		for _, ci := range core.Calls(fn) {
			cal := ci.Common().StaticCallee()
			if cal == nil || !c.InScope(cal) {
				continue
			}
			// the constructor, and the unexported constructor it may delegate to
			ctors := []*ssa.Function{cal}
			for _, c2 := range core.Calls(cal) {
				if g := c2.Common().StaticCallee(); g != nil && c.InScope(g) && core.PkgOf(g) == core.PkgOf(cal) && g.Object() != nil && !g.Object().Exported() {
					ctors = append(ctors, g)
				}
			}
			for _, ctor := range ctors {
				for _, b := range ctor.Blocks {
					for _, in := range b.Instrs {
						if al, ok := in.(*ssa.Alloc); ok {
							if n := core.NamedOf(al.Type()); n != nil {
								registered[n] = true
							}
						}
					}
				}
			}
		}
	}
	var out []*procInfo
	for _, T := range c.Implementors(ia) {
		props := c.DeclaredMethod(T, "PostProcessProperties")
		if props == nil {
			continue
		}
		if len(props.Blocks) == 1 && len(core.Calls(props)) == 0 {
			continue // the embeddable default: returns nil, nil
		}
		pi := &procInfo{T: T, Props: props, Roles: map[string]bool{}, Registered: registered[T]}
		pi.Class = orderClass(c, T)
		if pi.Class != "U" {
			pi.Order, pi.OrderConst = constOrder(c.Method(T, "Order"))
		}
		all := core.WithAnon(props)
		// helpers of the same package (functions and methods) that the method calls or passes as callbacks, transitively,
		// belong to its body; contract methods of other processors do not
		seen := map[*ssa.Function]bool{}
		for _, f := range all {
			seen[f] = true
		}
		for i := 0; i < len(all) && len(all) < 64; i++ {
			for _, b := range all[i].Blocks {
				for _, in := range b.Instrs {
					var ops []*ssa.Value
					var cands []*ssa.Function
					for _, op := range in.Operands(ops) {
						if *op == nil {
							continue
						}
						if g, ok := (*op).(*ssa.Function); ok {
							cands = append(cands, resolveWrapper(g))
						}
						// a package-level table of functions the method consults: its entries are part of the body
						if gl, ok := (*op).(*ssa.Global); ok && gl.Pkg != nil && core.PartOf(gl.Pkg, core.PkgOf(props)) {
							for _, g := range globalFuncs(gl) {
								cands = append(cands, resolveWrapper(g))
							}
						}
					}
					// a collaborator behind an unexported single-implementation interface of the package
					if ci, ok := in.(ssa.CallInstruction); ok && ci.Common().IsInvoke() {
						if g := core.Seam(ci.Common()); g != nil {
							cands = append(cands, g)
						} else {
							// ... or a strategy object: every implementation may be the one that runs
							cands = append(cands, core.SeamAll(ci.Common())...)
						}
					}
					for _, g := range cands {
						if g == nil || g.Blocks == nil || seen[g] || !core.PartOf(core.PkgOf(g), core.PkgOf(props)) {
							continue
						}
						if g.Signature.Recv() != nil && g.Object() != nil {
							if fo, ok := g.Object().(*types.Func); ok && isContractMethod(c, fo) {
								continue
							}
						}
						for _, x := range core.WithAnon(g) {
							if !seen[x] {
								seen[x] = true
								all = append(all, x)
							}
						}
					}
				}
			}
		}
		pi.Body = all
		anon := all[1:]
		// roles by what the method and the helpers it consists of do, wherever in them
		if invokeIn(all, elReplace) != nil && invokeIn(anon, ro.BinderGet) != nil {
			pi.Roles["quote"] = true
		}
		if extCallIn(all, "github.com/expr-lang/expr.Compile") != nil {
			pi.Roles["expr"] = true
		}
		if extCallIn(all, "github.com/go-kid/strconv2.ParseAny") != nil && callIn(all, unmarshall) != nil {
			pi.Roles["value"] = true
		}
		if invokeIn(all, ro.BinderGet) != nil && callIn(all, unmarshall) != nil && invokeIn(all, elReplace) == nil {
			pi.Roles["prefix"] = true
		}
		if extCallIn(all, "(*github.com/go-playground/validator/v10.Validate).Struct", "(*github.com/go-playground/validator/v10.Validate).Var") != nil {
			pi.Roles["validate"] = true
		}
		if invokeIn(all, ro.DRGetMetas) != nil || invokeIn(all, ro.DRGetMetaByName) != nil {
			pi.Roles["dep"] = true
		}
		storesInjects := false
		for _, f := range all {
			for _, b := range f.Blocks {
				for _, in := range b.Instrs {
					if st, ok := in.(*ssa.Store); ok {
						if fa, ok := st.Addr.(*ssa.FieldAddr); ok {
							if fr, ok := core.FieldOfAddr(fa); ok && fr.Owner == prop && fr.Name == "Injects" {
								storesInjects = true
							}
						}
					}
				}
			}
		}
		if storesInjects && !pi.Roles["dep"] {
			pi.Roles["further"] = true
		}
		if extCallIn(all, "(reflect.Value).Set") != nil && !storesInjects {
			pi.Roles["logger"] = true
		}
		out = append(out, pi)
	}
	sort.Slice(out, func(i, j int) bool { return out[i].Name() < out[j].Name() })
	return out
}

func withRole(ps []*procInfo, role string, registeredOnly bool) []*procInfo {
	var out []*procInfo
	for _, p := range ps {
		if p.Roles[role] && (!registeredOnly || p.Registered) {
			out = append(out, p)
		}
	}
	return out
}

// isContractMethod reports whether fo implements a method of one of the container's processor interfaces
// (such a method is an entry point of its own, never a helper of another processor's body).
func isContractMethod(c *core.Ctx, fo *types.Func) bool {
	switch fo.Name() {
	case "PostProcessProperties", "PostProcessBeforeInstantiation", "PostProcessAfterInstantiation", "PostProcessBeforeInitialization",
		"PostProcessAfterInitialization", "PostProcessComponentFactory", "PostProcessDefinitionRegistry", "GetEarlyBeanReference", "Order":
		return true
	}
	return false
}
