package rules

import (
	"fmt"
	"go/token"
	"sort"
	"strings"

	"golang.org/x/tools/go/ssa"

	"iocvet/internal/absint"
	"iocvet/internal/core"
)

var defScanRows = map[string]string{
	"pairs":       "every definition scanner call receives the name and the component of one and the same entry of the registered components, and the factory's definition registry",
	"all-entries": "every scanner is applied to every registered component exactly once, scanners in list order",
	"error":       "if a scanner reported an error for any component the scan ends after that scanner with a non-nil error (no later scanner runs); otherwise the result is nil",
	"joined":      "on every explored schedule the join adds up - no WaitGroup counter goes negative, nobody waits for ever - and no scanner runs after the scan has returned (also when the scan runs as far ahead of its goroutines as the program lets it)",
}

// scanGos: the go statements the scan table's runs went through, per scan routine.
type scanTableResult struct {
	rs   rows
	runs int
	und  string
	gos  map[token.Pos]bool
	// scanner calls made by the scan routine's own goroutine (not by one it started)
	syncCalls int
}

func defScanTableMemo(c *core.Ctx, scan *ssa.Function, nScanners int) *scanTableResult {
	key := fmt.Sprintf("scan-table:%s:%d", core.FnName(scan), nScanners)
	if v, ok := c.Memo.Load(key); ok {
		return v.(*scanTableResult)
	}
	res := &scanTableResult{gos: map[token.Pos]bool{}}
	res.rs, res.runs, res.und = defScanTable(c, scan, nScanners, res)
	c.Memo.Store(key, res)
	return res
}

// scanFansOut: fn is part of the definition scan, whose table holds in every row, and every scanner call of every run
// was made by a goroutine the scan started: the order in which the scan hands its entries out is not the order in which
// they are processed.
func scanFansOut(c *core.Ctx, fn *ssa.Function) bool {
	bs, _ := findBootstrap(c)
	if bs == nil || len(bs.parallel) != 1 {
		return false
	}
	scan := bs.parallel[0]
	reached := map[*ssa.Function]bool{}
	reachesCall(scan, func(*ssa.CallCommon) bool { return false }, reached)
	reached[scan] = true
	if !reached[fn] && !reached[core.TopLevel(fn)] {
		return false
	}
	res := defScanTableMemo(c, scan, 2)
	if res.und != "" || len(res.gos) == 0 || res.syncCalls > 0 {
		return false
	}
	for row := range defScanRows {
		if rr := res.rs[row]; rr == nil || len(rr.bad) > 0 {
			return false
		}
	}
	return true
}

// scanTableDecides: the go statement belongs to the definition scan, whose table went through it and holds in every row.
func scanTableDecides(c *core.Ctx, g *ssa.Go) bool {
	bs, _ := findBootstrap(c)
	if bs == nil || len(bs.parallel) != 1 {
		return false
	}
	res := defScanTableMemo(c, bs.parallel[0], 2)
	if res.und != "" || !res.gos[g.Pos()] {
		return false
	}
	// the table shows two components to two scanners: that stands for every number of them only if the scan compares
	// no length or index with a constant beyond that
	if ks, tooBig := sizeConstants(c, bs.parallel[0]); len(ks) > 0 || tooBig {
		return false
	}
	for row := range defScanRows {
		if rr := res.rs[row]; rr == nil || len(rr.bad) > 0 {
			return false
		}
	}
	return true
}

// defScanTable interprets the parallel definition scan on a sequential schedule (each goroutine runs to completion at
// its go statement): which calls are made with which arguments, and what becomes of their errors, does not depend on
// the interleaving.  Mutual exclusion and waiting are decided by C20 / C14.
func defScanTable(c *core.Ctx, scan *ssa.Function, nScanners int, res *scanTableResult) (rs rows, runs int, undecided string) {
	gos := res.gos
	ro := c.Roles()
	rs = rows{}
	getComps := c.IfaceMethod("container", "Factory", "GetRegisteredComponents")
	getScanners := c.IfaceMethod("container", "Factory", "GetDefinitionRegistryPostProcessors")
	getReg := c.IfaceMethod("container", "Factory", "GetDefinitionRegistry")
	if getComps == nil || getScanners == nil || getReg == nil || ro.DRPPPostProcess == nil {
		return rs, 0, "Factory.GetRegisteredComponents / GetDefinitionRegistryPostProcessors / GetDefinitionRegistry not found"
	}
	var calls []string
	var failedAt map[string]bool
	late := 0
	build := func() (absint.Oracle, []absint.Value, []absint.Value) {
		calls, failedAt, late = nil, map[string]bool{}, 0
		t := newTbl(c)
		factory := absint.NewTok("factory", "factory")
		reg := absint.NewTok("definitionRegistry", "registry")
		t.invoke[getComps] = func(ip *absint.Interp, a []absint.Value) absint.Value {
			return &absint.MapVal{M: map[string]absint.Value{"a": absint.NewTok("comp:a", "component"), "b": absint.NewTok("comp:b", "component")}}
		}
		t.invoke[getScanners] = func(ip *absint.Interp, a []absint.Value) absint.Value {
			l := &absint.List{}
			for i := 1; i <= nScanners; i++ {
				l.Elems = append(l.Elems, absint.NewTok(fmt.Sprintf("S%d", i), "scanner"))
			}
			return l
		}
		t.invoke[getReg] = func(ip *absint.Interp, a []absint.Value) absint.Value { return reg }
		t.invoke[ro.DRPPPostProcess] = func(ip *absint.Interp, a []absint.Value) absint.Value {
			var parts []string
			for _, x := range a {
				parts = append(parts, absint.Show(x))
			}
			if ip.Returned {
				late++
			}
			if ip.CurrentGoroutine() == 0 {
				res.syncCalls++
			}
			calls = append(calls, strings.Join(parts, ","))
			if ip.Choose(2, "scanner outcome") == 1 {
				failedAt[absint.Show(a[0])] = true
				return t.newErr("scan")
			}
			return absint.Nil{}
		}
		args := []absint.Value{}
		for _, p := range scan.Params {
			if p.Type().String() == "github.com/go-kid/ioc/container.Factory" {
				args = append(args, factory)
			} else {
				args = append(args, absint.NewTok("recv:"+p.Name(), "delegate"))
			}
		}
		return t, args, nil
	}
	check := func(ip *absint.Interp, out absint.Outcome) {
		w := fmt.Sprintf("%s: calls=%v failed=%v => %s", schedName(ip), calls, failedAt, showOutcome(out))
		rs.hit("joined")
		if out.Deadlock != nil || (out.Panic != nil && strings.Contains(out.Panic.Msg, "WaitGroup")) {
			rs.fail("joined", w)
			return
		}
		if late > 0 {
			rs.fail("joined", w+fmt.Sprintf(" (%d scanner call(s) after the return)", late))
		}
		if out.Panic != nil {
			rs.fail("error", "PANIC "+w)
			return
		}
		// expected: scanners in order until (and including) the first failing one, each over both entries
		var want []string
		anyFail := false
		for i := 1; i <= nScanners; i++ {
			s := fmt.Sprintf("S%d", i)
			want = append(want, s+`,definitionRegistry,comp:a,"a"`, s+`,definitionRegistry,comp:b,"b"`)
			if failedAt[s] {
				anyFail = true
				break
			}
		}
		rs.hit("pairs")
		for _, cl := range calls {
			p := strings.Split(cl, ",")
			if len(p) != 4 || p[1] != "definitionRegistry" || strings.TrimPrefix(p[2], "comp:") != strings.Trim(p[3], `"`) {
				rs.fail("pairs", w)
			}
		}
		rs.hit("all-entries")
		got := append([]string(nil), calls...)
		// within one scanner the entries may come in any order
		norm := func(xs []string) []string {
			out := append([]string(nil), xs...)
			for i := 0; i+1 < len(out); i += 2 {
				pair := out[i : i+2]
				sort.Strings(pair)
			}
			return out
		}
		if strings.Join(norm(got), " ") != strings.Join(norm(want), " ") {
			rs.fail("all-entries", w+fmt.Sprintf(" expected %v", want))
		}
		rs.hit("error")
		isErr := len(out.Ret) == 1 && isErrTok(out.Ret[0])
		if isErr != anyFail {
			rs.fail("error", w)
		}
	}
	for _, parentFirst := range []bool{true, false} {
		var tape []int
		for {
			orc, args, bind := build()
			ip := absint.New(orc)
			ip.IsLog = core.IsLogCall
			ip.InScope = c.InScope
			ip.Sched, ip.ParentFirst = true, parentFirst
			ip.OnGo = func(g *ssa.Go, enter bool) { gos[g.Pos()] = true }
			ip.Tape = tape
			out := ip.Run(scan, args, bind)
			runs++
			if out.Undecided != nil {
				return rs, runs, out.Undecided.Msg
			}
			check(ip, out)
			next, ok := absint.NextTape(padTape(tape, len(ip.Arity)), ip.Arity)
			if !ok || runs > 5000 {
				break
			}
			tape = next
		}
	}
	return rs, runs, ""
}

// defScanRules reports the scan table of the bootstrap's parallel part under the given rule ids.
func defScanRules(c *core.Ctx, r *core.Report, ruleOf func(row string) string) (goBodies map[*ssa.Function]bool, ok bool) {
	goBodies = map[*ssa.Function]bool{}
	ro := c.Roles()
	first := ""
	for _, k := range []string{"pairs", "all-entries", "error", "joined"} {
		if first == "" {
			first = ruleOf(k)
		}
	}
	bs, why := findBootstrap(c)
	if bs == nil {
		r.Undecided(first, "definition-scan", "", why)
		return goBodies, false
	}
	if !r.Exactly(first, "functions of the bootstrap that start goroutines (the parallel definition scan)", len(bs.parallel), 1) {
		return goBodies, false
	}
	scan := bs.parallel[0]
	// the functions the scan is made of: its own body and literals, and a helper it hands a literal to that owns the
	// fan-out (loop, goroutines, join)
	parts := core.WithAnon(scan)
	for _, f := range core.WithAnon(scan) {
		for _, ci := range core.Calls(f) {
			if cal := ci.Common().StaticCallee(); cal != nil && c.InScope(cal) && containsGo(cal) {
				parts = append(parts, core.WithAnon(cal)...)
			}
		}
	}
	// ... or run-context objects whose methods the scan is split into
	reached := map[*ssa.Function]bool{}
	reachesCall(scan, func(*ssa.CallCommon) bool { return false }, reached)
	var more []*ssa.Function
	for f := range reached {
		if c.InScope(f) && containsGo(f) && !containsFn(parts, f) {
			more = append(more, f)
		}
	}
	sort.Slice(more, func(i, j int) bool { return more[i].Pos() < more[j].Pos() })
	for _, f := range more {
		parts = append(parts, core.WithAnon(f)...)
	}
	for _, f := range parts {
		for _, b := range f.Blocks {
			for _, in := range b.Instrs {
				if g, isGo := in.(*ssa.Go); isGo {
					if cal := g.Common().StaticCallee(); cal != nil {
						goBodies[cal] = true
						// ... and what the goroutine calls on its way to the scanner (a worker's per-job routine)
						isScan := func(com *ssa.CallCommon) bool { return core.IsInvoke(com, ro.DRPPPostProcess) }
						seen := map[*ssa.Function]bool{}
						reachesCall(cal, isScan, seen)
						for h := range seen {
							if c.InScope(h) && reachesCall(h, isScan, map[*ssa.Function]bool{}) {
								goBodies[h] = true
							}
						}
					}
				}
			}
		}
	}
	cons := "scan-table@" + core.FnName(scan)
	sres := defScanTableMemo(c, scan, 2)
	srs, n, und := sres.rs, sres.runs, sres.und
	r.Count("scan_table_runs", n)
	if und != "" {
		r.Undecided(first, cons, c.FnPos(scan), "abstract interpretation left the model: "+und)
		return goBodies, false
	}
	need := map[string]string{}
	for k, v := range defScanRows {
		if ruleOf(k) != "" {
			need[k] = v
		}
	}
	srs.report(c, r, scan, ruleOf, cons, need)
	for k := range need {
		if rr := srs[k]; rr == nil || len(rr.bad) > 0 {
			return goBodies, false
		}
	}
	return goBodies, true
}
