package rules

import (
	"fmt"
	"sort"
	"strings"

	"golang.org/x/tools/go/ssa"

	"iocvet/internal/absint"
	"iocvet/internal/core"
)

var defScanRows = map[string]string{
	"pairs":       "every definition scanner call receives the name and the component of one and the same entry of the registered components, and the factory's definition registry",
	"all-entries": "every scanner is applied to every registered component exactly once, scanners in list order",
	"error":       "if a scanner reported an error for any component the scan ends after that scanner with a non-nil error (no later scanner runs); otherwise the result is nil",
}

// defScanTable interprets the parallel definition scan on a sequential schedule (each goroutine runs to completion at
// its go statement): which calls are made with which arguments, and what becomes of their errors, does not depend on
// the interleaving.  Mutual exclusion and waiting are decided by C20 / C14.
func defScanTable(c *core.Ctx, scan *ssa.Function, nScanners int) (rs rows, runs int, undecided string) {
	ro := c.Roles()
	rs = rows{}
	getComps := c.IfaceMethod("container", "Factory", "GetRegisteredComponents")
	getScanners := c.IfaceMethod("container", "Factory", "GetDefinitionRegistryPostProcessors")
	getReg := c.IfaceMethod("container", "Factory", "GetDefinitionRegistry")
	if getComps == nil || getScanners == nil || getReg == nil || ro.DRPPPostProcess == nil {
		return rs, 0, "Factory.GetRegisteredComponents / GetDefinitionRegistryPostProcessors / GetDefinitionRegistry not found"
	}
	var calls []string
	var failedAt map[string]bool
	build := func() (absint.Oracle, []absint.Value, []absint.Value) {
		calls, failedAt = nil, map[string]bool{}
		t := newTbl(c)
		factory := absint.NewTok("factory", "factory")
		reg := absint.NewTok("definitionRegistry", "registry")
		t.invoke[getComps] = func(ip *absint.Interp, a []absint.Value) absint.Value {
			return &absint.MapVal{M: map[string]absint.Value{"a": absint.NewTok("comp:a", "component"), "b": absint.NewTok("comp:b", "component")}}
		}
		t.invoke[getScanners] = func(ip *absint.Interp, a []absint.Value) absint.Value {
			l := &absint.List{}
			for i := 1; i <= nScanners; i++ {
				l.Elems = append(l.Elems, absint.NewTok(fmt.Sprintf("S%d", i), "scanner"))
			}
			return l
		}
		t.invoke[getReg] = func(ip *absint.Interp, a []absint.Value) absint.Value { return reg }
		t.invoke[ro.DRPPPostProcess] = func(ip *absint.Interp, a []absint.Value) absint.Value {
			var parts []string
			for _, x := range a {
				parts = append(parts, absint.Show(x))
			}
			calls = append(calls, strings.Join(parts, ","))
			if ip.Choose(2, "scanner outcome") == 1 {
				failedAt[absint.Show(a[0])] = true
				return t.newErr("scan")
			}
			return absint.Nil{}
		}
		args := []absint.Value{}
		for _, p := range scan.Params {
			if p.Type().String() == "github.com/go-kid/ioc/container.Factory" {
				args = append(args, factory)
			} else {
				args = append(args, absint.NewTok("recv:"+p.Name(), "delegate"))
			}
		}
		return t, args, nil
	}
	check := func(ip *absint.Interp, out absint.Outcome) {
		w := fmt.Sprintf("calls=%v failed=%v => %s", calls, failedAt, showOutcome(out))
		if out.Panic != nil {
			rs.fail("error", "PANIC "+w)
			return
		}
		// expected: scanners in order until (and including) the first failing one, each over both entries
		var want []string
		anyFail := false
		for i := 1; i <= nScanners; i++ {
			s := fmt.Sprintf("S%d", i)
			want = append(want, s+`,definitionRegistry,comp:a,"a"`, s+`,definitionRegistry,comp:b,"b"`)
			if failedAt[s] {
				anyFail = true
				break
			}
		}
		rs.hit("pairs")
		for _, cl := range calls {
			p := strings.Split(cl, ",")
			if len(p) != 4 || p[1] != "definitionRegistry" || strings.TrimPrefix(p[2], "comp:") != strings.Trim(p[3], `"`) {
				rs.fail("pairs", w)
			}
		}
		rs.hit("all-entries")
		got := append([]string(nil), calls...)
		// within one scanner the entries may come in any order
		norm := func(xs []string) []string {
			out := append([]string(nil), xs...)
			for i := 0; i+1 < len(out); i += 2 {
				pair := out[i : i+2]
				sort.Strings(pair)
			}
			return out
		}
		if strings.Join(norm(got), " ") != strings.Join(norm(want), " ") {
			rs.fail("all-entries", w+fmt.Sprintf(" expected %v", want))
		}
		rs.hit("error")
		isErr := len(out.Ret) == 1 && isErrTok(out.Ret[0])
		if isErr != anyFail {
			rs.fail("error", w)
		}
	}
	var tape []int
	for {
		orc, args, bind := build()
		ip := absint.New(orc)
		ip.IsLog = core.IsLogCall
		ip.InScope = c.InScope
		ip.GoInline = true
		ip.Tape = tape
		out := ip.Run(scan, args, bind)
		runs++
		if out.Undecided != nil {
			return rs, runs, out.Undecided.Msg
		}
		check(ip, out)
		next, ok := absint.NextTape(padTape(tape, len(ip.Arity)), ip.Arity)
		if !ok || runs > 5000 {
			return rs, runs, ""
		}
		tape = next
	}
}

// defScanRules reports the scan table of the bootstrap's parallel part under the given rule ids.
func defScanRules(c *core.Ctx, r *core.Report, ruleOf func(row string) string) (goBodies map[*ssa.Function]bool, ok bool) {
	goBodies = map[*ssa.Function]bool{}
	first := ""
	for _, k := range []string{"pairs", "all-entries", "error"} {
		if first == "" {
			first = ruleOf(k)
		}
	}
	bs, why := findBootstrap(c)
	if bs == nil {
		r.Undecided(first, "definition-scan", "", why)
		return goBodies, false
	}
	if !r.Exactly(first, "functions of the bootstrap that start goroutines (the parallel definition scan)", len(bs.parallel), 1) {
		return goBodies, false
	}
	scan := bs.parallel[0]
	// the functions the scan is made of: its own body and literals, and a helper it hands a literal to that owns the
	// fan-out (loop, goroutines, join)
	parts := core.WithAnon(scan)
	for _, f := range core.WithAnon(scan) {
		for _, ci := range core.Calls(f) {
			if cal := ci.Common().StaticCallee(); cal != nil && c.InScope(cal) && containsGo(cal) {
				parts = append(parts, core.WithAnon(cal)...)
			}
		}
	}
	// ... or run-context objects whose methods the scan is split into
	reached := map[*ssa.Function]bool{}
	reachesCall(scan, func(*ssa.CallCommon) bool { return false }, reached)
	var more []*ssa.Function
	for f := range reached {
		if c.InScope(f) && containsGo(f) && !containsFn(parts, f) {
			more = append(more, f)
		}
	}
	sort.Slice(more, func(i, j int) bool { return more[i].Pos() < more[j].Pos() })
	for _, f := range more {
		parts = append(parts, core.WithAnon(f)...)
	}
	for _, f := range parts {
		for _, b := range f.Blocks {
			for _, in := range b.Instrs {
				if g, isGo := in.(*ssa.Go); isGo {
					if cal := g.Common().StaticCallee(); cal != nil {
						goBodies[cal] = true
					}
				}
			}
		}
	}
	cons := "scan-table@" + core.FnName(scan)
	srs, n, und := defScanTable(c, scan, 2)
	r.Count("scan_table_runs", n)
	if und != "" {
		r.Undecided(first, cons, c.FnPos(scan), "abstract interpretation left the model: "+und)
		return goBodies, false
	}
	need := map[string]string{}
	for k, v := range defScanRows {
		if ruleOf(k) != "" {
			need[k] = v
		}
	}
	srs.report(c, r, scan, ruleOf, cons, need)
	for k := range need {
		if rr := srs[k]; rr == nil || len(rr.bad) > 0 {
			return goBodies, false
		}
	}
	return goBodies, true
}
