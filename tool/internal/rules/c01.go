package rules

import (
	"go/types"

	"golang.org/x/tools/go/ssa"

	"iocvet/internal/core"
)

func init() { register("C01", c01) }

// accessorRules: C01.R2 / C02.R3 — cache consulted (early references allowed) before creating, hit returned as is.
func accessorRules(c *core.Ctx, r *core.Report, rule string, l *lifecycleRoles) {
	ro := c.Roles()
	acc := l.accessor
	cons := "@" + core.FnName(acc)
	var create *ssa.Call
	var lookups []*ssa.Call
	for _, ci := range core.Calls(acc) {
		call, ok := ci.(*ssa.Call)
		if !ok {
			continue
		}
		if core.IsInvoke(call.Common(), ro.SCRGetOrCreate) {
			create = call
		}
		if core.IsInvoke(call.Common(), ro.SCRGetSingleton) {
			lookups = append(lookups, call)
		}
	}
	if create == nil {
		r.Undecided(rule, "create"+cons, c.FnPos(acc), "no synchronous GetSingletonOrCreateByFactory call in the accessor")
		return
	}
	// lookup before creation, hit returned, created returned: decided by interpretation, whatever the accessor's exits
	ars, aruns, aund := accessorTable(c, l)
	r.Count("accessor_table_runs", aruns)
	if aund != "" {
		r.Undecided(rule, "accessor-table"+cons, c.FnPos(acc), "abstract interpretation left the model: "+aund)
	} else {
		ars.report(c, r, acc, func(string) string { return rule }, "accessor-table"+cons, accessorRows)
		smallModelCheck(c, r, rule, "accessor-table"+cons, acc, 4) // the table's one name has four characters
	}
	// accessor results originate only from the registry
	okOrig := true
	for _, ret := range core.Returns(acc) {
		for _, o := range core.Origins(ret.Results[0], nil) {
			ex, isEx := o.(*ssa.Extract)
			if !isEx {
				okOrig = false
				continue
			}
			call, isCall := ex.Tuple.(*ssa.Call)
			if !isCall || ex.Index != 0 || !(core.IsInvoke(call.Common(), ro.SCRGetSingleton) || core.IsInvoke(call.Common(), ro.SCRGetOrCreate)) {
				okOrig = false
			}
		}
	}
	r.Check(okOrig, rule, "results-from-registry"+cons, c.FnPos(acc), "every non-nil result of the accessor is a value obtained from the singleton registry")
}

// creatorExclusive: C01.R3 — the creator chain is reachable only through the factory literal handed to the registry.
func creatorExclusive(c *core.Ctx, r *core.Report, rule string, l *lifecycleRoles) {
	chain := c.StaticCalleesInPkg(l.creator, map[*ssa.Function]bool{l.accessor: true})
	inChain := map[*ssa.Function]bool{}
	for _, f := range chain {
		inChain[f] = true
	}
	ev := l.ev
	for _, f := range chain {
		if f == l.creator {
			continue
		}
		// only functions that take part in creating (reach PROPS/INIT/ADD_FACTORY) matter
		if !(ev.Reach(f).has(evProps) || ev.Reach(f).has(evInit) || ev.Reach(f).has(evAddFactory)) {
			continue
		}
		bad := ""
		for _, fn := range c.Scope {
			if inChain[fn] {
				continue
			}
			for _, ci := range core.Calls(fn) {
				if core.IsCallTo(ci.Common(), f) {
					bad = core.FnName(fn) + " at " + c.Pos(ci.Pos())
				}
			}
		}
		if uses := c.FuncValueUses(f); len(uses) > 0 {
			bad = "used as a value at " + c.Pos(uses[0].Pos())
		}
		r.Check(bad == "", rule, "exclusive:"+core.FnName(f), c.FnPos(f), "the creation step is called only from the creator chain behind the registry's create-once protocol "+bad)
	}
	// the literal (or factory object) flows only into GetSingletonOrCreateByFactory
	ro := c.Roles()
	okFlow := false
	var follow func(v ssa.Value, d int)
	follow = func(v ssa.Value, d int) {
		if d > 4 || v.Referrers() == nil {
			return
		}
		for _, rf := range *v.Referrers() {
			switch x := rf.(type) {
			case *ssa.ChangeType:
				follow(x, d+1)
			case *ssa.MakeInterface:
				follow(x, d+1)
			case *ssa.Call:
				if core.IsInvoke(x.Common(), ro.SCRGetOrCreate) {
					break
				}
				// a converting helper hands back the very value it was given
				if fn := core.ClosureOf(x); fn != nil && fn == l.creator {
					follow(x, d+1)
					break
				}
				okFlow = false
			case *ssa.FieldAddr:
				// initialisation of the factory object's own fields
				for _, r2 := range *x.Referrers() {
					if st, isSt := r2.(*ssa.Store); !isSt || st.Addr != ssa.Value(x) {
						okFlow = false
					}
				}
			case *ssa.DebugRef:
			default:
				okFlow = false
			}
		}
	}
	if l.creator.Signature.Recv() == nil {
		// a function literal of the accessor, or a method value bound there: every place the value is made lies in
		// the accessor and the value flows only to the registry
		n := 0
		okFlow = true
		for _, fn := range c.Scope {
			for _, b := range fn.Blocks {
				for _, in := range b.Instrs {
					if mc, ok := in.(*ssa.MakeClosure); ok && mc.Fn == ssa.Value(l.creator) {
						n++
						if fn != l.accessor {
							okFlow = false
						}
						follow(mc, 0)
					}
				}
			}
		}
		okFlow = okFlow && n > 0
		if m := resolveWrapper(l.creator); m != l.creator {
			okFlow = okFlow && m != nil && len(c.Callers(m)) == 0
		}
	} else {
		// factory object: every allocation of its type lies in the accessor and flows only to the registry
		rt := l.creator.Signature.Recv().Type()
		if pt, ok := rt.Underlying().(*types.Pointer); ok {
			rt = pt.Elem()
		}
		n := 0
		okFlow = true
		for _, fn := range c.Scope {
			for _, b := range fn.Blocks {
				for _, in := range b.Instrs {
					al, ok := in.(*ssa.Alloc)
					if !ok || !types.Identical(al.Type().Underlying().(*types.Pointer).Elem(), rt) {
						continue
					}
					n++
					if fn != l.accessor {
						okFlow = false
					}
					follow(al, 0)
				}
			}
		}
		okFlow = okFlow && n > 0 && len(c.FuncValueUses(l.creator)) == 0 && len(c.Callers(l.creator)) == 0
	}
	r.Check(okFlow, rule, "literal-only-to-registry:"+core.FnName(l.creator), c.FnPos(l.creator), "the creator literal is handed only to GetSingletonOrCreateByFactory")
}

func c01(c *core.Ctx, r *core.Report) {
	ro := c.Roles()
	r.Explanation = "C01 one shared instance: identity can only be lost if an injected value does not come from the singleton cache, the cache hands out two things for one name, creation runs twice, or injection copies. Each is decided: (R1) every element passed to Property.Inject originates from a result of the cache accessor, whose results originate only from the registry; (R2) the accessor, interpreted against a registry answering miss / hit / error and created / error (accessor table), consults the cache first with early references allowed, returns hits unchanged, enters creation once for the same name with a factory that creates that name, and hands the result on unchanged; (R3) the creator chain is callable only through the factory literal handed to the registry; (R4) Inject writes exactly Meta.Value of the resolved candidates (decision table by abstract interpretation on all candidate lists up to the bound); (R5) Base.Value/Type/originAddress and Meta.Base/Raw are stored only into freshly allocated objects, UseProxy has no caller; (R6) registry typestate A1/A3 (C04 exploration re-run); (R7) early-reuse, stale-detected, in-creation-holders-ok and wrapped-never-raw rows of the creator table; (R8) the lookup API returns .Raw of an accessor result; (R9) NewMeta is called only from the store-if-absent closure and CreateProxy. Decides the protocol that makes aliasing inevitable; pointer identity of a concrete run follows by a paper argument, it is not computed."
	r.Assumptions = []string{"reflect.Value.Set of a pointer/interface aliases the object", "custom registries/factories are out of scope"}
	l := findLifecycle(c, r, "C01.R0")
	if l == nil {
		return
	}
	// R1 provenance of injected candidates: the populator's decision table; Inject has no other caller
	n := 0
	for _, fn := range c.Scope {
		for _, ci := range core.Calls(fn) {
			if core.IsCallTo(ci.Common(), ro.PropertyInject) {
				n++
			}
		}
	}
	r.Exactly("C01.R1", "Inject call sites", n, 1)
	populateRules(c, r, l, func(row string) string {
		if row == "from-accessor" || row == "re-entrant" {
			return "C01.R1"
		}
		return ""
	})
	// R2
	accessorRules(c, r, "C01.R2", l)
	// R3
	creatorExclusive(c, r, "C01.R3", l)
	// R4 inject table
	irs, runs, und := injectTable(c, listLen(c))
	r.Count("inject_table_runs", runs)
	if und != "" {
		r.Undecided("C01.R4", "inject-table", "", "abstract interpretation left the model: "+und)
	} else {
		irs.report(c, r, ro.PropertyInject, func(row string) string {
			switch row {
			case "single", "slice", "injects-recorded":
				return "C01.R4"
			}
			return ""
		}, "inject-table@(*component_definition.Property).Inject", injectRows)
	}
	smallModelCheck(c, r, "C01.R4", "inject-table", ro.PropertyInject, int64(listLen(c)))
	// R5 immutability
	c01Immutable(c, r)
	// R6 registry A1/A3
	for _, T := range implementorsBehindFacades(c, "container", "SingletonComponentRegistry") {
		sub := core.NewReport("C04", c.Tier, 0)
		c04Explore(c, sub, T)
		for _, o := range sub.Obls {
			// (A2 / A4: the in-creation mark is there during the creation and gone after it - the stale-version check
			// passes over holders that are still being created, so a mark that stays makes it pass over every holder)
			if o.Rule == "C04.A1" || o.Rule == "C04.A3" || o.Rule == "C04.A2" || o.Rule == "C04.A4" || o.Verdict == core.Undecided {
				o2 := *o
				o2.Rule = "C01.R6"
				o2.Construct = o.Rule + ":" + o.Construct
				r.Obls = append(r.Obls, &o2)
			}
		}
	}
	// R7 early reuse
	ers, eruns, eund := exposerTable(c, l)
	r.Count("exposer_table_runs", eruns)
	if eund != "" {
		r.Undecided("C01.R7", "exposer-table", c.FnPos(l.exposer), "abstract interpretation left the model: "+eund)
	} else {
		ers.report(c, r, l.exposer, func(row string) string {
			switch row {
			case "early-reuse", "plain":
				return "C01.R7"
			case "stale-detected", "in-creation-holders-ok", "wrapped-never-raw":
				// a holder that already received the early version while the registry publishes another one would
				// hold a different version of the singleton: the start must fail instead
				return "C01.R7"
			}
			return ""
		}, "exposer-table@"+core.FnName(l.exposer), exposerRows)
	}
	// R8 lookup API
	c01Lookup(c, r, l)
	// R9 NewMeta callers
	c01NewMeta(c, r)
}

func c01Immutable(c *core.Ctx, r *core.Report) {
	base := c.Named("component_definition", "Base")
	meta := c.Named("component_definition", "Meta")
	if base == nil || meta == nil {
		r.Undecided("C01.R5", "role:Base/Meta", "", "component_definition.Base / Meta not found")
		return
	}
	useProxy := c.DeclaredMethod(meta, "UseProxy")
	type fld struct {
		owner *types.Named
		name  string
	}
	total := 0
	for _, f := range []fld{{base, "Value"}, {base, "Type"}, {base, "originAddress"}, {meta, "Base"}, {meta, "Raw"}} {
		stores, _ := c.FieldAccesses(f.owner, f.name)
		for _, st := range stores {
			total++
			cons := "store:" + f.owner.Obj().Name() + "." + f.name + "@" + core.FnName(st.Fn)
			if st.Fn == useProxy {
				callers := c.Callers(useProxy)
				uses := c.FuncValueUses(useProxy)
				r.Check(len(callers) == 0 && len(uses) == 0, "C01.R5", cons, c.Pos(st.Instr.Pos()), "UseProxy (the one in-place mutator of a definition's identity) has no in-scope caller")
				continue
			}
			_, fresh := core.Norm(st.Addr.X).(*ssa.Alloc)
			r.Check(fresh, "C01.R5", cons, c.Pos(st.Instr.Pos()), "identity-carrying field is written only while constructing a fresh object")
		}
	}
	r.Floor("C01.R5", "stores to identity-carrying fields", total, 5)
}

func c01Lookup(c *core.Ctx, r *core.Report, l *lifecycleRoles) {
	meta := c.Named("component_definition", "Meta")
	for _, T := range c.Implementors(c.Iface("container", "Factory")) {
		byName := c.DeclaredMethod(T, "GetComponentByName")
		if byName == nil {
			continue
		}
		cons := "@" + core.FnName(byName)
		ok := true
		n := 0
		for _, ret := range core.Returns(byName) {
			if core.ClassifyReturn(ret) == core.RetError {
				continue
			}
			n++
			fa, isLoad := core.IsFieldLoad(core.Norm(ret.Results[0]), meta, "Raw")
			if !isLoad {
				ok = false
				continue
			}
			ex, isEx := core.Norm(fa.X).(*ssa.Extract)
			if !isEx {
				ok = false
				continue
			}
			call, isCall := ex.Tuple.(*ssa.Call)
			if !isCall || !core.IsCallTo(call.Common(), l.accessor) || core.Norm(call.Common().Args[len(call.Common().Args)-1]) != ssa.Value(byName.Params[len(byName.Params)-1]) {
				ok = false
			}
		}
		r.Check(ok && n > 0, "C01.R8", "lookup-by-name"+cons, c.FnPos(byName), "GetComponentByName returns .Raw of the cache accessor's result for the requested name")
		if all := c.DeclaredMethod(T, "GetComponents"); all != nil {
			viaByName := false
			for _, g := range core.WithAnon(all) { // also inside a callback handed to a collecting helper
				for _, ci := range core.Calls(g) {
					if core.IsCallTo(ci.Common(), byName) || core.IsCallTo(ci.Common(), l.accessor) {
						viaByName = true
					}
				}
			}
			r.Check(viaByName, "C01.R8", "lookup-all@"+core.FnName(all), c.FnPos(all), "GetComponents resolves every element through the by-name lookup")
		}
	}
}

func c01NewMeta(c *core.Ctx, r *core.Report) { newMetaRules(c, r, "C01.R9") }

// newMetaRules: a definition is built only inside the store-if-absent callback of the definition registry (two
// concurrent scanners asking for one name get the same definition), reported under rule.
func newMetaRules(c *core.Ctx, r *core.Report, rule string) {
	ro := c.Roles()
	if ro.NewMeta == nil {
		r.Undecided(rule, "role:NewMeta", "", "component_definition.NewMeta not found")
		return
	}
	sync2Map := c.Named("util/sync2", "Map")
	var lsf *ssa.Function
	if sync2Map != nil {
		lsf = c.DeclaredMethod(sync2Map, "LoadOrStoreFn")
	}
	n := 0
	for _, fn := range c.Scope {
		for _, ci := range core.Calls(fn) {
			if !core.IsCallTo(ci.Common(), ro.NewMeta) {
				continue
			}
			n++
			cons := "NewMeta@" + core.FnName(fn)
			if fn == ro.CreateProxy {
				r.Hold(rule, cons, c.Pos(ci.Pos()), "CreateProxy builds the definition of a substituted version")
				continue
			}
			// must be (a helper used only by) a literal passed to a store-if-absent primitive
			okLit := withinRole(c, fn, func(g *ssa.Function) bool {
				par := g.Parent()
				if par == nil {
					return false
				}
				for _, pc := range core.Calls(par) {
					for i, a := range pc.Common().Args {
						if core.ClosureOf(a) == g && handsToStoreIfAbsent(c, pc.Common(), i, lsf, 3) {
							return true
						}
					}
				}
				return false
			}, 2)
			r.Check(okLit, rule, cons, c.Pos(ci.Pos()), "a definition is built only inside the store-if-absent callback of the definition registry (one definition per name)")
		}
	}
	r.Floor(rule, "NewMeta call sites", n, 2)
}

// handsToStoreIfAbsent: argument i of the call is the callback of the store-if-absent primitive lsf - directly, or
// because the callee hands that parameter on to it unchanged (a store type wrapped around the concurrent map).
func handsToStoreIfAbsent(c *core.Ctx, com *ssa.CallCommon, i int, lsf *ssa.Function, depth int) bool {
	if lsf == nil {
		return false
	}
	if core.IsCallTo(com, lsf) {
		return true
	}
	cal := c.ResolvedCallee(com)
	if cal == nil || depth == 0 || !c.InScope(cal) && (cal.Origin() == nil || !c.InScope(cal.Origin())) {
		return false
	}
	if com.IsInvoke() {
		i-- // the receiver is not among the arguments of an invoke
	}
	if i < 0 || i >= len(cal.Params) {
		return false
	}
	p := cal.Params[i]
	ok := false
	for _, rf := range *p.Referrers() {
		switch x := rf.(type) {
		case *ssa.DebugRef:
		case ssa.CallInstruction:
			handed := false
			for j, a := range x.Common().Args {
				if a == ssa.Value(p) {
					if !handsToStoreIfAbsent(c, x.Common(), j, lsf, depth-1) {
						return false
					}
					handed = true
				}
			}
			if !handed {
				return false // the callee calls the callback itself
			}
			ok = true
		default:
			return false
		}
	}
	return ok
}
