package rules

import (
	"fmt"
	"go/types"
	"sort"
	"strings"

	"iocvet/internal/absint"
	"iocvet/internal/core"
)

var valueStageRows = map[string]string{
	"foreign":        "a property carrying another tag is neither parsed nor bound",
	"bound":          "a value property with a non-empty tag value is bound exactly once, to what the one text-to-value step (ParseAny) makes of the tag value as the earlier stages left it - whatever the field's kind, the raw tag text and the recorded configuration values are",
	"empty-required": "a required value property whose tag value is empty makes the stage fail and is not bound",
	"empty-optional": "an optional value property whose tag value is empty is skipped without error",
	"errors":         "a text that does not parse, or a value that cannot be decoded into the field, makes the stage fail; nothing else does",
	"continues":      "a property that is skipped or bound does not end the loop: the next property is still bound",
}

// valueStageTable interprets the value stage's PostProcessProperties - with whatever helpers it is split into - on a
// list of two properties: the first varies over tag x tag value x required x field kind x raw tag text, the second is
// a fixed value property that must be bound unless the first one failed.
func valueStageTable(c *core.Ctx, p *procInfo) (rs rows, runs int, undecided string) {
	rs = rows{}
	prop := c.Named("component_definition", "Property")
	unm := c.DeclaredMethod(prop, "Unmarshall")
	isReq := c.DeclaredMethod(prop, "IsRequired")
	str := c.DeclaredMethod(prop, "String")
	if unm == nil || isReq == nil {
		return rs, 0, "Property.Unmarshall / Property.IsRequired not found"
	}
	own := procOwnTag(c, p)
	if own == "" {
		return rs, 0, "the tag the value stage selects by could not be determined"
	}
	for _, tag := range []string{own, "other"} {
		for _, tagVal := range []string{"", "text"} {
			for _, required := range []bool{true, false} {
				for _, kind := range []int64{24, 2} { // string, int
					for _, tagStr := range []string{"${k}", "${k:d}", "pre-${k}"} {
						if tagVal == "" && (kind != 24 || tagStr != "${k}") {
							continue
						}
						if tag != own && (tagVal == "" || !required || kind != 24 || tagStr != "${k}") {
							continue
						}
						var events []string
						var failed bool
						var failedEvent string
						mk := func(id, tag, tagVal string, required bool, kind int64, tagStr string) *absint.Tok {
							pr := absint.NewTok(id, "property")
							fld, base := absint.NewTok(id+".Field", "field"), absint.NewTok(id+".Field.Base", "base")
							ft := absint.NewTok("T:"+id, "type")
							ft.Attr["kind"] = absint.Int(kind)
							pr.Fields["Field"], fld.Fields["Base"], base.Fields["Type"] = fld, base, ft
							base.Fields["Value"] = absint.NewTok("value("+id+")", "reflected")
							pr.Fields["Tag"], pr.Fields["TagVal"], pr.Fields["TagStr"] = absint.Str(tag), absint.Str(tagVal), absint.Str(tagStr)
							pr.Fields["PropertyType"] = absint.Str("Configuration")
							// what the placeholder stage recorded: the configured text as it was looked up (unresolved)
							pr.Fields["Configurations"] = &absint.MapVal{M: map[string]absint.Value{"k": absint.Str("raw-${inner}")}}
							pr.Attr["required"] = absint.Bool(required)
							return pr
						}
						build := func() (absint.Oracle, []absint.Value, []absint.Value) {
							events, failed, failedEvent = nil, false, ""
							t := newTbl(c)
							p1 := mk("p1", tag, tagVal, required, kind, tagStr)
							p2 := mk("p2", own, "second", true, 2, "${j}")
							t.callee[isReq] = func(ip *absint.Interp, a []absint.Value) absint.Value {
								if pt, ok := a[0].(*absint.Tok); ok && pt.Attr["required"] != nil {
									return pt.Attr["required"]
								}
								panic(&absint.Undecided{Msg: "IsRequired() of an unknown property"})
							}
							if str != nil {
								t.callee[str] = func(ip *absint.Interp, a []absint.Value) absint.Value { return &absint.Opaque{Why: "text"} }
							}
							t.invokeN["Kind"] = func(ip *absint.Interp, a []absint.Value) absint.Value {
								if ty, ok := a[0].(*absint.Tok); ok && ty.Attr["kind"] != nil {
									return ty.Attr["kind"]
								}
								panic(&absint.Undecided{Msg: "Kind() of an unmodelled type"})
							}
							t.ext["github.com/go-kid/strconv2.ParseAny"] = func(ip *absint.Interp, a []absint.Value) absint.Value {
								events = append(events, "parse("+absint.Show(a[0])+")")
								if ip.Choose(2, "parse outcome") == 1 {
									failed, failedEvent = true, events[len(events)-1]
									return absint.Tuple{absint.Nil{}, t.newErr("parse")}
								}
								return absint.Tuple{absint.NewTok("parsed("+absint.Show(a[0])+")", "value"), absint.Nil{}}
							}
							t.callee[unm] = func(ip *absint.Interp, a []absint.Value) absint.Value {
								events = append(events, "bind("+absint.Show(a[0])+","+absint.Show(a[1])+")")
								if ip.Choose(2, "decode outcome") == 1 {
									failed, failedEvent = true, events[len(events)-1]
									return t.newErr("decode")
								}
								return absint.Nil{}
							}
							args := layoutArgs(p.Props, func(ty types.Type) absint.Value {
								if sl, ok := ty.Underlying().(*types.Slice); ok && core.NamedOf(sl.Elem()) == prop {
									return &absint.List{Elems: []absint.Value{p1, p2}}
								}
								return nil
							})
							return t, args, nil
						}
						check := func(ip *absint.Interp, out absint.Outcome) {
							w := fmt.Sprintf("first property: tag=%s tagVal=%q required=%v kind=%d raw=%q; events=%v => %s", tag, tagVal, required, kind, tagStr, events, showOutcome(out))
							if out.Panic != nil {
								rs.fail("errors", "PANIC "+w)
								return
							}
							isErr := len(out.Ret) == 2 && isErrTok(out.Ret[1])
							var first, second []string
							for _, e := range events {
								if strings.Contains(e, `"second"`) || strings.Contains(e, "bind(p2,") {
									second = append(second, e)
								} else {
									first = append(first, e)
								}
							}
							row := "bound"
							wantFirst := []string{`parse("text")`, `bind(p1,parsed("text"))`}
							wantErr := failed
							switch {
							case tag != own:
								row, wantFirst = "foreign", nil
							case tagVal == "" && required:
								row, wantFirst, wantErr = "empty-required", nil, true
							case tagVal == "":
								row, wantFirst = "empty-optional", nil
							}
							rs.hit(row)
							// as far as the run got: a failed parse ends the first property after the parse
							okFirst := len(first) <= len(wantFirst)
							for i := 0; okFirst && i < len(first); i++ {
								okFirst = first[i] == wantFirst[i]
							}
							if okFirst && !failed && len(first) != len(wantFirst) {
								okFirst = false
							}
							if !okFirst {
								rs.fail(row, w+fmt.Sprintf(" expected for the first property %v", wantFirst))
								return
							}
							rs.hit("errors")
							if isErr != wantErr {
								rs.fail("errors", w)
							}
							inSecond := strings.Contains(failedEvent, `"second"`) || strings.Contains(failedEvent, "bind(p2,")
							firstEnded := wantErr && (row == "empty-required" || (failed && !inSecond))
							if !firstEnded {
								rs.hit("continues")
								okSecond := len(second) >= 1 && second[0] == `parse("second")`
								if okSecond && len(second) >= 2 {
									okSecond = second[1] == `bind(p2,parsed("second"))`
								}
								if !okSecond || (!failed && len(second) != 2) {
									rs.fail("continues", w+" expected the second property to be parsed and bound")
								}
							} else if len(second) != 0 {
								rs.fail("errors", w+" (the second property is processed after the failure)")
							}
						}
						n, u := runTable(c, p.Props, build, check)
						runs += n
						if u != "" {
							return rs, runs, u
						}
					}
				}
			}
		}
	}
	return
}

// valueStageRules files the rows of the value stage's table under rule.
func valueStageRules(c *core.Ctx, r *core.Report, rule string, want ...string) {
	n := 0
	for _, p := range withRole(builtinProcessors(c), "value", true) {
		n++
		key := "value-stage-table:" + p.Name()
		type res struct {
			rs   rows
			runs int
			und  string
		}
		var x res
		if v, ok := c.Memo.Load(key); ok {
			x = v.(res)
		} else {
			x.rs, x.runs, x.und = valueStageTable(c, p)
			c.Memo.Store(key, x)
		}
		cons := "value-stage-table:" + p.Name()
		if x.und != "" {
			r.Undecided(rule, cons, c.FnPos(p.Props), "abstract interpretation left the model: "+x.und)
			continue
		}
		r.Count("value_stage_table_runs", x.runs)
		if len(want) == 0 {
			for k := range valueStageRows {
				want = append(want, k)
			}
			sort.Strings(want)
		}
		need, set := pickRows(valueStageRows, want)
		x.rs.report(c, r, p.Props, func(row string) string {
			if set[row] {
				return rule
			}
			return ""
		}, cons, need)
	}
	r.Floor(rule, "registered value stage", n, 1)
}
