package rules

import (
	"fmt"
	"go/token"
	"go/types"
	"strings"

	"golang.org/x/tools/go/ssa"

	"iocvet/internal/absint"
	"iocvet/internal/core"
)

func init() { register("C19", c19) }

// isIndexFamily: calls that return the position of a separator in their first argument, or -1.
func isIndexFamily(call *ssa.Call) bool {
	cal := core.Callee(call.Common())
	if cal == nil {
		return false
	}
	switch cal.String() {
	case "strings.Index", "strings.IndexByte", "strings.IndexRune", "strings.LastIndex", "github.com/go-kid/strings2.IndexSkipBlocks":
		return true
	}
	return false
}

// isSplitFamily: calls documented to return at least one element for a non-empty separator.
func isSplitFamily(call *ssa.Call) bool {
	cal := core.Callee(call.Common())
	if cal == nil {
		return false
	}
	switch cal.String() {
	case "github.com/go-kid/strings2.Split", "strings.Split":
		if sep, ok := core.ConstString(call.Common().Args[1]); ok && sep != "" {
			return true
		}
	}
	return false
}

// nonNegGuard: site is dominated by the edge on which the index value idx is known to be >= 0 (idx != -1 / idx >= 0 / !(idx == -1) / !(idx < 0)).
func nonNegGuard(idx ssa.Value, site *ssa.BasicBlock) bool {
	for _, g := range core.Guards(site) {
		b, ok := g.If.Cond.(*ssa.BinOp)
		if !ok || b.X != idx {
			continue
		}
		k, isK := core.ConstInt(b.Y)
		if !isK {
			continue
		}
		switch {
		case b.Op == token.NEQ && k == -1 && g.Branch,
			b.Op == token.EQL && k == -1 && !g.Branch,
			b.Op == token.GEQ && k == 0 && g.Branch,
			b.Op == token.GTR && k == -1 && g.Branch,
			b.Op == token.LSS && k == 0 && !g.Branch:
			return true
		}
	}
	return false
}

// nonEmptyGuard: site is dominated by an edge on which string/slice v is non-empty (v != "" / len(v) != 0 / len(v) > 0 / len(v) == k>0).
func nonEmptyGuard(v ssa.Value, site *ssa.BasicBlock, atLeast int64) bool {
	v = core.Norm(v)
	for _, g := range core.Guards(site) {
		b, ok := g.If.Cond.(*ssa.BinOp)
		if !ok {
			continue
		}
		// string comparison with ""
		if core.Norm(b.X) == v {
			if s, isS := core.ConstString(b.Y); isS && s == "" && atLeast <= 1 {
				if (b.Op == token.NEQ && g.Branch) || (b.Op == token.EQL && !g.Branch) {
					return true
				}
			}
		}
		// len comparison
		ln, isCall := b.X.(*ssa.Call)
		if !isCall {
			continue
		}
		bi, isB := ln.Common().Value.(*ssa.Builtin)
		if !isB || bi.Name() != "len" || core.Norm(ln.Common().Args[0]) != v {
			continue
		}
		k, isK := core.ConstInt(b.Y)
		if !isK {
			continue
		}
		switch {
		case b.Op == token.NEQ && k == 0 && g.Branch && atLeast <= 1,
			b.Op == token.EQL && k == 0 && !g.Branch && atLeast <= 1,
			b.Op == token.GTR && g.Branch && k+1 >= atLeast,
			b.Op == token.GEQ && g.Branch && k >= atLeast,
			b.Op == token.EQL && g.Branch && k >= atLeast,
			b.Op == token.LSS && !g.Branch && k >= atLeast,
			b.Op == token.LEQ && !g.Branch && k+1 >= atLeast:
			return true
		}
	}
	return false
}

// boundOK decides one slice bound B on string/slice base at block site.
func boundOK(base, B ssa.Value, site *ssa.BasicBlock) (bool, string) {
	if B == nil {
		return true, ""
	}
	if k, ok := core.ConstInt(B); ok {
		if k == 0 {
			return true, ""
		}
		if nonEmptyGuard(base, site, k) {
			return true, fmt.Sprintf("constant bound %d under a length guard", k)
		}
		return false, fmt.Sprintf("constant bound %d without a dominating length guard", k)
	}
	idx := B
	if add, ok := B.(*ssa.BinOp); ok && add.Op == token.ADD {
		if k, isK := core.ConstInt(add.Y); isK && k >= 0 && k <= 1 {
			idx = add.X
		}
	}
	if call, ok := idx.(*ssa.Call); ok && isIndexFamily(call) {
		if core.Norm(call.Common().Args[0]) != core.Norm(base) {
			return false, "bound comes from a separator search in a different string"
		}
		if nonNegGuard(call, site) {
			return true, "separator position under its found-guard"
		}
		return false, "separator position used without the found-guard (-1 would panic)"
	}
	return false, "bound is neither a guarded constant nor a guarded separator position"
}

func c19(c *core.Ctx, r *core.Report) {
	r.Explanation = "C19 tag grammar: (R1) every index / slice expression in the tag-parsing functions (TagArg methods, formatArgType, isIntersect, NewProperty, the prop-shorthand handler) is decided against a guard table: a separator position is used only on the edge where it was found, a constant bound only under a dominating length guard, element 0 only of a Split result; (R2) every call of formatArgType (which slices its argument at 1) passes a proven non-empty argument: guarded in the caller, or a parameter that every in-scope caller fills with a non-empty constant; (R3) every map access on a TagArg receiver uses a key normalised by formatArgType (or a key just read from the same map); (R4) splitting at ',' and ' ' and the prop-shorthand search use the bracket-aware variants; (R5) IsRequired is exactly !Has(Required, \"false\") (decision table); (R6) no in-scope code sets Required to \"false\". Decides totality premises and argument lookup; how strings2 splits unbalanced brackets is not decided."
	r.Assumptions = []string{"strings2.Split with a non-empty separator returns at least one element (checked against its source: a[:i+1])", "strings.Index-family results are -1 or a valid position in their first argument"}
	tagArg := c.Named("component_definition", "TagArg")
	prop := c.Named("component_definition", "Property")
	if tagArg == nil || prop == nil {
		r.Undecided("C19.R1", "role:TagArg/Property", "", "component_definition.TagArg / Property not found")
		return
	}
	// the key normaliser: the package-level function ArgType -> ArgType of the tag package (whatever its name)
	var fmtArg *ssa.Function
	{
		argT := c.Named("component_definition", "ArgType")
		n := 0
		for _, fn := range c.Scope {
			if fn.Parent() != nil || fn.Signature.Recv() != nil || core.PkgOf(fn) == nil || core.PkgOf(fn).Pkg != tagArg.Obj().Pkg() {
				continue
			}
			sg := fn.Signature
			if argT != nil && sg.Params().Len() == 1 && sg.Results().Len() == 1 && types.Identical(sg.Params().At(0).Type(), argT) && types.Identical(sg.Results().At(0).Type(), argT) {
				fmtArg = fn
				n++
			}
		}
		if n != 1 {
			fmtArg = nil
		}
	}
	var subjects []*ssa.Function
	for i := 0; i < tagArg.NumMethods(); i++ {
		if f := c.Prog.FuncValue(tagArg.Method(i)); f != nil {
			subjects = append(subjects, core.WithAnon(f)...)
		}
	}
	for _, n := range []string{"formatArgType", "isIntersect", "NewProperty"} {
		if f := c.Func("component_definition", n); f != nil {
			subjects = append(subjects, core.WithAnon(f)...)
		}
	}
	// prop-shorthand handlers: the functions that look up the prop tag
	for _, fn := range shorthandHandlers(c) {
		subjects = append(subjects, core.WithAnon(fn)...)
	}
	// helpers of all of these in the same package
	{
		seen := map[*ssa.Function]bool{}
		for _, f := range subjects {
			seen[f] = true
		}
		for i := 0; i < len(subjects) && len(subjects) < 64; i++ {
			for _, ci := range core.Calls(subjects[i]) {
				if cal := ci.Common().StaticCallee(); cal != nil && c.InScope(cal) && !seen[cal] && core.PkgOf(cal) == core.PkgOf(subjects[i]) && cal.Signature.Recv() == nil {
					seen[cal] = true
					subjects = append(subjects, core.WithAnon(cal)...)
				}
			}
		}
	}
	r.Count("tag_parsing_functions", len(subjects))
	r.Floor("C19.R1", "tag-parsing functions", len(subjects), 10)

	// ---- R1
	nExpr := 0
	for _, fn := range subjects {
		ord := 0
		for _, b := range fn.Blocks {
			for _, in := range b.Instrs {
				switch x := in.(type) {
				case *ssa.Slice:
					if _, isArr := x.X.Type().Underlying().(*types.Pointer); isArr {
						continue // slicing a local array (varargs)
					}
					nExpr++
					ord++
					cons := fmt.Sprintf("slice#%d@%s", ord, core.FnName(fn))
					if fn == fmtArg {
						base := core.Norm(x.X)
						if cv, isCv := base.(*ssa.Convert); isCv {
							base = core.Norm(cv.X)
						}
						if p, isP := base.(*ssa.Parameter); isP && p == fn.Params[0] {
							r.Hold("C19.R1", cons, c.Pos(x.Pos()), "slices its parameter at 1: non-emptiness of the argument is the obligation C19.R2 at every call site")
							continue
						}
					}
					okL, whyL := boundOK(x.X, x.Low, b)
					okH, whyH := boundOK(x.X, x.High, b)
					// [1:] of a Split result is fine (len >= 1)
					if !okL {
						if call, isCall := core.Norm(x.X).(*ssa.Call); isCall && isSplitFamily(call) {
							if k, isK := core.ConstInt(x.Low); isK && k == 1 {
								okL, whyL = true, "[1:] of a Split result (at least one element)"
							}
						}
					}
					r.Check(okL && okH, "C19.R1", cons, c.Pos(x.Pos()), "slice bounds are guarded: "+strings.TrimSpace(whyL+" "+whyH))
				case *ssa.IndexAddr, *ssa.Index, *ssa.Lookup:
					var base, idx ssa.Value
					switch y := x.(type) {
					case *ssa.IndexAddr:
						base, idx = y.X, y.Index
					case *ssa.Index:
						base, idx = y.X, y.Index
					case *ssa.Lookup:
						if _, isMap := y.X.Type().Underlying().(*types.Map); isMap {
							continue
						}
						base, idx = y.X, y.Index // string indexing
					}
					if _, isArr := base.Type().Underlying().(*types.Pointer); isArr {
						continue // local array of a varargs call
					}
					if rl := core.RangeLoopOf(fn, b); rl != nil && idx == rl.Next && core.Norm(base) == core.Norm(rl.Slice) {
						continue // range element
					}
					if sortComparatorIndex(fn, base, idx) {
						continue // x[i] inside the index comparator handed to sort.Slice(x, ...): the sort keeps i in range
					}
					nExpr++
					ord++
					cons := fmt.Sprintf("index#%d@%s", ord, core.FnName(fn))
					k, isK := core.ConstInt(idx)
					ok, why := false, "index is not a constant under a length guard"
					if !isK && countedMapFill(base, idx) {
						ok, why = true, "counter of a range over map m indexing make([]T, len(m))"
					}
					if !isK && loopIndexInRange(base, idx, b) {
						ok, why = true, "counting index under a dominating i < len(base) guard"
					}
					if isK {
						if call, isCall := core.Norm(base).(*ssa.Call); isCall && isSplitFamily(call) && k == 0 {
							ok, why = true, "element 0 of a Split result"
						} else if nonEmptyGuard(base, b, k+1) {
							ok, why = true, fmt.Sprintf("element %d under a length guard", k)
						}
					}
					r.Check(ok, "C19.R1", cons, c.Pos(in.Pos()), "index expression is guarded: "+why)
				}
			}
		}
	}
	r.Count("index_and_slice_expressions", nExpr)
	r.Floor("C19.R1", "index/slice expressions in the tag-parsing functions", nExpr, 6)

	// ---- R2 formatArgType callers
	if fmtArg == nil {
		r.Hold("C19.R2", "role:key-normaliser", "", "no single ArgType -> ArgType normaliser function: nothing slices an argument name without a guard of its own (C19.R1 decides every slice in place)")
	} else {
		n := 0
		for _, fn := range c.Scope {
			for _, ci := range core.Calls(fn) {
				if !core.IsCallTo(ci.Common(), fmtArg) {
					continue
				}
				n++
				cons := "formatArgType@" + core.FnName(fn)
				arg := ci.Common().Args[0]
				if s, isK := core.ConstString(arg); isK {
					r.Check(s != "", "C19.R2", cons, c.Pos(ci.Pos()), "constant non-empty argument")
					continue
				}
				if nonEmptyGuard(arg, ci.Block(), 1) {
					r.Hold("C19.R2", cons, c.Pos(ci.Pos()), "argument is guarded non-empty in the caller")
					continue
				}
				// a parameter filled with non-empty constants (or guarded values) by every in-scope caller, through
				// however many forwarding helpers
				cnt := 0
				var argOK func(f *ssa.Function, at ssa.CallInstruction, v ssa.Value, depth int) bool
				argOK = func(f *ssa.Function, at ssa.CallInstruction, v ssa.Value, depth int) bool {
					if s, isK := core.ConstString(v); isK {
						return s != ""
					}
					if nonEmptyGuard(v, at.Block(), 1) {
						return true
					}
					p, isP := core.Norm(v).(*ssa.Parameter)
					if !isP || depth > 3 || len(c.FuncValueUses(f)) != 0 {
						return false
					}
					pi := -1
					for i, q := range f.Params {
						if q == p {
							pi = i
						}
					}
					sites := c.CallSites(func(com *ssa.CallCommon) bool { return core.IsCallTo(com, f) })
					if pi < 0 || len(sites) == 0 {
						return false
					}
					for _, cs := range sites {
						cnt++
						a := cs.Common().Args
						if pi >= len(a) || !argOK(cs.Parent(), cs, a[pi], depth+1) {
							return false
						}
					}
					return true
				}
				okAll := argOK(fn, ci, arg, 0)
				r.Check(okAll, "C19.R2", cons, c.Pos(ci.Pos()), fmt.Sprintf("argument is the caller's parameter and all %d in-scope call sites (through forwarding helpers) pass a non-empty constant or a guarded value (tag text never reaches it unguarded)", cnt))
			}
		}
		r.Floor("C19.R2", "formatArgType call sites", n, 1)
	}

	// ---- R3 / R4: the grammar itself, decided on concrete tag texts (parser, lookups, required test, prop shorthand)
	trs, n, und := tagTable(c)
	r.Count("tag_table_runs", n)
	if und != "" {
		r.Undecided("C19.R4", "tag-table@component_definition.NewProperty", "", "abstract interpretation left the model: "+und)
	} else {
		newProp := c.Func("component_definition", "NewProperty")
		trs.report(c, r, newProp, func(row string) string {
			switch row {
			case "total":
				return "C19.R1"
			case "lookup", "has-values", "own-arguments":
				return "C19.R3"
			case "required":
				return "C19.R5"
			}
			return "C19.R4"
		}, "tag-table@component_definition.NewProperty", tagRows)
	}
	hs := shorthandHandlers(c)
	r.Floor("C19.R4", "prop shorthand handlers (functions looking the prop tag up)", len(hs), 1)
	for _, h := range hs {
		cons := "shorthand-table@" + core.FnName(h)
		srs, n2, und2 := shorthandTable(c, h)
		r.Count("shorthand_table_runs", n2)
		if und2 != "" {
			r.Undecided("C19.R4", cons, c.FnPos(h), "abstract interpretation left the model: "+und2)
			continue
		}
		srs.report(c, r, h, func(row string) string {
			if row == "total" {
				return "C19.R1"
			}
			return "C19.R4"
		}, cons, shorthandRows)
	}

	// ---- R5 IsRequired table
	isRequiredRules(c, r, "C19.R5")

	// ---- R6 nobody sets Required to "false"
	nSet := 0
	for _, name := range []string{"SetArg", "AddArg"} {
		m := c.DeclaredMethod(prop, name)
		for _, cs := range c.CallSites(func(com *ssa.CallCommon) bool { return core.IsCallTo(com, m) }) {
			key, isK := core.ConstString(cs.Common().Args[1])
			if !isK || !strings.EqualFold(key, "required") {
				continue
			}
			nSet++
			okVals := true
			for _, o := range core.Origins(cs.Common().Args[2], nil) {
				if s, isS := core.ConstString(o); isS && strings.EqualFold(s, "false") {
					okVals = false
				}
			}
			r.Check(okVals, "C19.R6", "sets-required@"+core.FnName(cs.Parent()), c.Pos(cs.Pos()), "in-scope code never sets the required argument to \"false\"")
		}
	}
	r.Count("required_setters", nSet)
}

// keysFromSameMap: the key was loaded from a slice that was filled from a range over a map (ForEach idiom).
func keysFromSameMap(v ssa.Value) bool {
	u, ok := v.(*ssa.UnOp)
	if !ok {
		return false
	}
	ia, ok := u.X.(*ssa.IndexAddr)
	if !ok {
		return false
	}
	for _, o := range core.Origins(ia.X, nil) {
		if ex, isEx := o.(*ssa.Extract); isEx {
			if _, isNext := ex.Tuple.(*ssa.Next); isNext {
				return true
			}
		}
	}
	return false
}

// loopIndexInRange: idx is a counting variable (phi of a non-negative constant and idx+positive constant) used at a
// block dominated by the true edge of idx < len(base).
func loopIndexInRange(base, idx ssa.Value, site *ssa.BasicBlock) bool {
	phi, ok := idx.(*ssa.Phi)
	if !ok {
		return false
	}
	for _, e := range phi.Edges {
		if k, isK := core.ConstInt(e); isK {
			if k < 0 {
				return false
			}
			continue
		}
		add, isAdd := e.(*ssa.BinOp)
		if !isAdd || add.Op != token.ADD || add.X != ssa.Value(phi) {
			return false
		}
		if k, isK := core.ConstInt(add.Y); !isK || k <= 0 {
			return false
		}
	}
	for _, g := range core.Guards(site) {
		b, isB := g.If.Cond.(*ssa.BinOp)
		if !isB || !g.Branch || b.Op != token.LSS || b.X != idx {
			continue
		}
		ln, isCall := b.Y.(*ssa.Call)
		if !isCall {
			continue
		}
		if bi, isBi := ln.Common().Value.(*ssa.Builtin); isBi && bi.Name() == "len" && core.Norm(ln.Common().Args[0]) == core.Norm(base) {
			return true
		}
	}
	return false
}

// countedMapFill: base = make([]T, len(m)) and idx counts the iterations of a range over the same map m
// (phi of 0 and idx+1 in the loop header that holds the range's Next).
func countedMapFill(base, idx ssa.Value) bool {
	mk, ok := core.Norm(base).(*ssa.MakeSlice)
	if !ok {
		return false
	}
	ln, ok := mk.Len.(*ssa.Call)
	if !ok {
		return false
	}
	bi, ok := ln.Common().Value.(*ssa.Builtin)
	if !ok || bi.Name() != "len" {
		return false
	}
	m := core.Norm(ln.Common().Args[0])
	if _, isMap := m.Type().Underlying().(*types.Map); !isMap {
		return false
	}
	phi, ok := idx.(*ssa.Phi)
	if !ok {
		return false
	}
	for _, e := range phi.Edges {
		if k, isK := core.ConstInt(e); isK {
			if k != 0 {
				return false
			}
			continue
		}
		add, isAdd := e.(*ssa.BinOp)
		if !isAdd || add.Op != token.ADD || add.X != ssa.Value(phi) {
			return false
		}
		if k, isK := core.ConstInt(add.Y); !isK || k != 1 {
			return false
		}
	}
	// the header iterates exactly that map, and the increment happens once per iteration (it is in the loop, not nested)
	for _, in := range phi.Block().Instrs {
		if nx, isNext := in.(*ssa.Next); isNext {
			if rg, isRg := nx.Iter.(*ssa.Range); isRg && core.Norm(rg.X) == m {
				for _, e := range phi.Edges {
					if add, isAdd := e.(*ssa.BinOp); isAdd {
						if l := core.InnermostLoop(phi.Parent(), add.Block()); l == nil || l.Header != phi.Block() {
							return false
						}
					}
				}
				return true
			}
		}
	}
	return false
}

// sortComparatorIndex: fn is a function literal used only as the index comparator of sort.Slice / sort.SliceStable,
// idx is one of its two parameters and base is the very slice being sorted (captured by the literal).
func sortComparatorIndex(fn *ssa.Function, base, idx ssa.Value) bool {
	p, ok := idx.(*ssa.Parameter)
	if !ok || fn.Parent() == nil || len(fn.Params) != 2 || (p != fn.Params[0] && p != fn.Params[1]) {
		return false
	}
	// the captured variable the base is read from
	ld, ok := base.(*ssa.UnOp)
	var fv *ssa.FreeVar
	if ok && ld.Op == token.MUL {
		fv, _ = ld.X.(*ssa.FreeVar)
	} else {
		fv, _ = base.(*ssa.FreeVar)
	}
	if fv == nil {
		return false
	}
	fvIdx := -1
	for i, x := range fn.FreeVars {
		if x == fv {
			fvIdx = i
		}
	}
	used := false
	for _, b := range fn.Parent().Blocks {
		for _, in := range b.Instrs {
			mc, isMC := in.(*ssa.MakeClosure)
			if !isMC || mc.Fn != ssa.Value(fn) {
				continue
			}
			if fvIdx < 0 || fvIdx >= len(mc.Bindings) || mc.Referrers() == nil {
				return false
			}
			for _, rf := range *mc.Referrers() {
				call, isCall := rf.(*ssa.Call)
				if !isCall {
					if _, isDbg := rf.(*ssa.DebugRef); isDbg {
						continue
					}
					return false
				}
				if !core.IsExtCall(call.Common(), "sort.Slice") && !core.IsExtCall(call.Common(), "sort.SliceStable") {
					return false
				}
				// the slice handed to the sort is the captured one
				arg := core.Norm(call.Common().Args[0])
				bound := mc.Bindings[fvIdx]
				same := arg == core.Norm(bound)
				if al, isAl := bound.(*ssa.Alloc); isAl {
					if u, isU := call.Common().Args[0].(*ssa.MakeInterface); isU {
						if l2, isL := u.X.(*ssa.UnOp); isL && l2.Op == token.MUL && l2.X == ssa.Value(al) {
							same = true
						}
					}
				}
				if !same {
					return false
				}
				used = true
			}
		}
	}
	return used
}

// isRequiredRules: IsRequired() asks the arguments when it is asked (not a copy made earlier): it is exactly
// !Has(Required, "false") at that moment.
func isRequiredRules(c *core.Ctx, r *core.Report, rule string) {
	prop := c.Named("component_definition", "Property")
	tagArg := c.Named("component_definition", "TagArg")
	// ---- R5 IsRequired table
	isReq := c.DeclaredMethod(prop, "IsRequired")
	has := c.DeclaredMethod(tagArg, "Has")
	if isReq == nil || has == nil {
		r.Undecided(rule, "role:IsRequired/Has", "", "Property.IsRequired / TagArg.Has not found")
	} else {
		bad := ""
		for _, hv := range []bool{true, false} {
			var asked []string
			build := func() (absint.Oracle, []absint.Value, []absint.Value) {
				asked = nil
				t := newTbl(c)
				t.callee[has] = func(ip *absint.Interp, a []absint.Value) absint.Value {
					asked = append(asked, absint.Show(a[1])+" "+absint.Show(a[2]))
					return absint.Bool(hv)
				}
				return t, []absint.Value{absint.NewTok("prop", "property")}, nil
			}
			check := func(ip *absint.Interp, out absint.Outcome) {
				if out.Panic != nil || len(out.Ret) != 1 || out.Ret[0] != absint.Value(absint.Bool(!hv)) || len(asked) != 1 || !strings.EqualFold(asked[0], `"Required" ["false"]`) {
					bad = fmt.Sprintf("Has=%v asked=%v => %s", hv, asked, showOutcome(out))
				}
			}
			if _, u := runTable(c, isReq, build, check); u != "" {
				bad = "left the model: " + u
			}
		}
		r.Check(bad == "", rule, "IsRequired", c.FnPos(isReq), "IsRequired() is exactly !Has(Required, \"false\"): only an explicit required=false makes a point optional "+bad)
	}
}
