package rules

import (
	"fmt"
	"go/types"
	"sort"
	"strings"

	"golang.org/x/tools/go/ssa"

	"iocvet/internal/absint"
	"iocvet/internal/core"
)

var refreshRows = map[string]string{
	"eager-only":   "exactly the definitions whose component is not LazyInit are created by refresh, each once",
	"sorted":       "they are created in ascending name order, whatever order the registry enumerates them in",
	"error":        "a failing creation ends refresh at once with a non-nil error; otherwise the result is nil",
	"creates-only": "refresh asks nothing of the post-processor delegate itself: a definition's properties are resolved only while its component is being created",
}

// refreshTable interprets a Factory implementation's Refresh - with whatever helpers it is split into - on every
// enumeration order and LazyInit assignment of up to maxLen definitions.
func refreshTable(c *core.Ctx, refresh *ssa.Function, maxLen int) (rs rows, runs int, undecided string) {
	ro := c.Roles()
	rs = rows{}
	lazyT := c.Named("definition", "LazyInit")
	meta := c.Named("component_definition", "Meta")
	var nameM *ssa.Function
	if meta != nil {
		nameM = c.DeclaredMethod(meta, "Name")
	}
	accs := ro.CacheAccessors()
	names := []string{"b", "a", "c", "d"}
	for n := 0; n <= maxLen; n++ {
		perms := permutations(n)
		for _, perm := range perms {
			for mask := 0; mask < 1<<n; mask++ {
				var created []string
				var stopped, wantErr bool
				var after []string
				var delegated []string
				build := func() (absint.Oracle, []absint.Value, []absint.Value) {
					created, stopped, wantErr, after = nil, false, false, nil
					delegated = nil
					t := newTbl(c)
					factory := absint.NewTok("factory", "factory")
					reg := absint.NewTok("definitionRegistry", "registry")
					owner := ownerOf(refresh)
					t.field = func(ip *absint.Interp, obj *absint.Tok, name string, typ types.Type) absint.Value {
						if obj == factory && types.IsInterface(typ) {
							if n := core.NamedOf(typ); n != nil && !n.Obj().Exported() && n.Obj().Pkg() != nil && core.InScopePath(n.Obj().Pkg().Path()) && !ifaceHasMethod(typ, "GetMetas") && !ifaceHasMethod(typ, "GetMetaByName") && !ifaceHasMethod(typ, "GetSingleton") {
								return absint.NewTok("delegate:"+name, "delegate") // the delegate behind a narrowed view
							}
							return reg
						}
						if p, ok := typ.Underlying().(*types.Pointer); ok && obj == factory {
							if n := core.NamedOf(p.Elem()); n != nil && n != owner && core.StructOf(n) != nil {
								return absint.NewTok("delegate:"+name, "delegate")
							}
						}
						return nil
					}
					t.typeTestC = func(ip *absint.Interp, v absint.Value, T types.Type) (bool, bool) {
						tok, ok := v.(*absint.Tok)
						if !ok {
							return false, false
						}
						if lazyT != nil && types.Identical(T, lazyT) {
							return tok.Attr["lazy"] == absint.Bool(true), true
						}
						if types.IsInterface(T) {
							// any other capability of the component: both answers are possible
							key := "cap:" + T.String()
							if tok.Attr[key] == nil {
								tok.Attr[key] = absint.Bool(ip.Choose(2, tok.ID+" implements "+T.String()) == 1)
							}
							return tok.Attr[key] == absint.Bool(true), true
						}
						return false, false
					}
					t.invoke[ro.DRGetMetas] = func(ip *absint.Interp, a []absint.Value) absint.Value {
						if l, ok := a[1].(*absint.List); ok && len(l.Elems) > 0 {
							panic(&absint.Undecided{Msg: "refresh enumerates the registry with a filter"})
						}
						out := &absint.List{}
						for _, i := range perm {
							m := absint.NewTok("meta:"+names[i], "meta")
							raw := absint.NewTok("raw:"+names[i], "component")
							raw.Attr["lazy"] = absint.Bool(mask&(1<<i) != 0)
							m.Fields["Raw"] = raw
							m.Attr["name"] = absint.Str(names[i])
							out.Elems = append(out.Elems, m)
						}
						return out
					}
					if ro.DRGetMetaByName != nil {
						t.invoke[ro.DRGetMetaByName] = func(ip *absint.Interp, a []absint.Value) absint.Value {
							nm, _ := a[1].(absint.Str)
							for _, i := range perm {
								if names[i] == string(nm) {
									m := absint.NewTok("meta:"+names[i], "meta")
									raw := absint.NewTok("raw:"+names[i], "component")
									raw.Attr["lazy"] = absint.Bool(mask&(1<<i) != 0)
									m.Fields["Raw"] = raw
									m.Attr["name"] = absint.Str(names[i])
									return m
								}
							}
							return absint.Nil{}
						}
					}
					if nameM != nil {
						t.callee[nameM] = func(ip *absint.Interp, a []absint.Value) absint.Value {
							if m, ok := a[0].(*absint.Tok); ok && m.Attr["name"] != nil {
								return m.Attr["name"]
							}
							panic(&absint.Undecided{Msg: "Name() of an unmodelled definition"})
						}
					}
					create := func(ip *absint.Interp, nm absint.Value, tuple bool) absint.Value {
						e := absint.Show(nm)
						if stopped {
							after = append(after, e)
						}
						created = append(created, e)
						if ip.Choose(2, "creation outcome") == 1 {
							stopped, wantErr = true, true
							if tuple {
								return absint.Tuple{absint.Nil{}, t.newErr("create")}
							}
							return t.newErr("create")
						}
						if tuple {
							return absint.Tuple{absint.NewTok("created:"+e, "meta"), absint.Nil{}}
						}
						return absint.Nil{}
					}
					for _, acc := range accs {
						acc := acc
						t.callee[acc] = func(ip *absint.Interp, a []absint.Value) absint.Value {
							return create(ip, a[1], acc.Signature.Results().Len() == 2)
						}
					}
					t.invoke[ro.FGetComponentByName] = func(ip *absint.Interp, a []absint.Value) absint.Value { return create(ip, a[1], true) }
					return &delegateEvents{tbl: t, events: &delegated}, []absint.Value{factory}, nil
				}
				check := func(ip *absint.Interp, out absint.Outcome) {
					var cfg []string
					var want []string
					for _, i := range perm {
						k := "eager"
						if mask&(1<<i) != 0 {
							k = "lazy"
						} else {
							want = append(want, fmt.Sprintf("%q", names[i]))
						}
						cfg = append(cfg, names[i]+":"+k)
					}
					sort.Strings(want)
					w := fmt.Sprintf("registry enumerates [%s]; created=%v => %s", strings.Join(cfg, " "), created, showOutcome(out))
					if out.Panic != nil {
						rs.fail("error", "PANIC "+w)
						return
					}
					rs.hit("creates-only")
					if len(delegated) != 0 {
						rs.fail("creates-only", w+fmt.Sprintf(" asked of the delegate: %v", delegated))
					}
					isErr := len(out.Ret) == 1 && isErrTok(out.Ret[0])
					rs.hit("error")
					if isErr != wantErr || len(after) != 0 {
						rs.fail("error", w)
					}
					rs.hit("eager-only")
					set := map[string]int{}
					for _, x := range created {
						set[x]++
					}
					okSet := true
					for _, x := range created {
						found := false
						for _, y := range want {
							found = found || x == y
						}
						if !found || set[x] != 1 {
							okSet = false
						}
					}
					if !wantErr && len(created) != len(want) {
						okSet = false
					}
					if !okSet {
						rs.fail("eager-only", w+fmt.Sprintf(" expected %v", want))
						return
					}
					rs.hit("sorted")
					for i, x := range created {
						if i >= len(want) || x != want[i] {
							rs.fail("sorted", w+fmt.Sprintf(" expected %v", want))
							break
						}
					}
				}
				m, u := runTable(c, refresh, build, check)
				runs += m
				if u != "" {
					return rs, runs, u
				}
			}
		}
	}
	return
}

func permutations(n int) [][]int {
	if n == 0 {
		return [][]int{{}}
	}
	var out [][]int
	var rec func(cur []int, used int)
	rec = func(cur []int, used int) {
		if len(cur) == n {
			out = append(out, append([]int(nil), cur...))
			return
		}
		for i := 0; i < n; i++ {
			if used&(1<<i) == 0 {
				rec(append(cur, i), used|1<<i)
			}
		}
	}
	rec(nil, 0)
	return out
}

// refreshRules reports the refresh table of every Factory implementation under the given rule ids.
func refreshRules(c *core.Ctx, r *core.Report, ruleOf func(row string) string) {
	n := 0
	maxLen := 3
	for _, T := range c.Implementors(c.Iface("container", "Factory")) {
		ref := c.DeclaredMethod(T, "Refresh")
		if ref == nil {
			continue
		}
		n++
		cons := "refresh-table@" + core.FnName(ref)
		rrs, runs, und := refreshTable(c, ref, maxLen)
		r.Count("refresh_table_runs", runs)
		rule := ruleOf("error")
		if rule == "" {
			rule = ruleOf("eager-only")
		}
		if rule == "" {
			rule = ruleOf("sorted")
		}
		if und != "" {
			r.Undecided(rule, cons, c.FnPos(ref), "abstract interpretation left the model: "+und)
			continue
		}
		smallModelCheck(c, r, rule, cons, ref, int64(maxLen))
		need := map[string]string{}
		for k, v := range refreshRows {
			if ruleOf(k) != "" {
				need[k] = v
			}
		}
		rrs.report(c, r, ref, ruleOf, cons, need)
	}
	first := ""
	for _, k := range []string{"error", "eager-only", "sorted"} {
		if first == "" {
			first = ruleOf(k)
		}
	}
	r.Floor(first, "Factory implementations with a Refresh method", n, 1)
}

// delegateEvents: a table oracle that records, instead of interpreting, whatever is asked of the post-processor
// delegate the factory holds (a call whose receiver is the delegate token) and answers with zero values.
type delegateEvents struct {
	*tbl
	events *[]string
}

func (o *delegateEvents) Call(ip *absint.Interp, site ssa.CallInstruction, args []absint.Value) (absint.Value, bool) {
	com := site.Common()
	if (com.StaticCallee() != nil || com.IsInvoke()) && len(args) > 0 {
		if d, ok := args[0].(*absint.Tok); ok && d.Class == "delegate" {
			name := ""
			if com.IsInvoke() {
				name = com.Method.Name()
			} else {
				name = com.StaticCallee().Name()
			}
			var shown []string
			for _, a := range args[1:] {
				shown = append(shown, absint.Show(a))
			}
			*o.events = append(*o.events, name+"("+strings.Join(shown, ",")+")")
			res := com.Signature().Results()
			var outs absint.Tuple
			for i := 0; i < res.Len(); i++ {
				if isErrorType(res.At(i).Type()) {
					outs = append(outs, absint.Nil{})
				} else {
					outs = append(outs, ip.ZeroOf(res.At(i).Type()))
				}
			}
			switch len(outs) {
			case 0:
				return nil, true
			case 1:
				return outs[0], true
			}
			return outs, true
		}
	}
	return o.tbl.Call(ip, site, args)
}
