package rules

import (
	"fmt"
	"go/types"
	"strings"

	"golang.org/x/tools/go/ssa"

	"iocvet/internal/absint"
	"iocvet/internal/core"
)

var initRows = map[string]string{
	"sequence":    "before-initialization callbacks in list order (each on the previous result), then AfterPropertiesSet, then Init, then after-initialization callbacks in list order - each exactly once, each only if everything before it succeeded",
	"veto":        "a before-initialization callback returning nil ends initialization: no init methods, no after callbacks, the original instance is returned",
	"error":       "an error from any callback ends initialization with an error and nothing after it runs",
	"result":      "the result is the last non-nil object the chain produced",
	"init-target": "AfterPropertiesSet and Init are looked up on, and invoked on, the object the before-initialization chain produced",
}

// initTable interprets the initialization function (whatever helpers it is split into) on every short processor list
// x component class x callback outcome, and compares the observed callback sequence with the life-cycle contract.
func initTable(c *core.Ctx, initFn *ssa.Function, maxProcs int) (rs rows, runs int, undecided string) {
	ro := c.Roles()
	rs = rows{}
	aps, ini := c.Named("definition", "InitializingComponent"), c.Named("definition", "InitializeComponent")
	idFn := c.Func("util/reflectx", "Id")
	behaviours := []string{"same", "wrap", "nil", "err"}
	type pk struct{ before, after string }
	var kinds []pk
	for _, b := range behaviours {
		for _, a := range behaviours {
			kinds = append(kinds, pk{b, a})
		}
	}
	var lists [][]pk
	var gen func(prefix []pk)
	gen = func(prefix []pk) {
		lists = append(lists, append([]pk(nil), prefix...))
		if len(prefix) < maxProcs {
			for _, k := range kinds {
				gen(append(append([]pk(nil), prefix...), k))
			}
		}
	}
	gen(nil)
	for _, class := range []string{"both", "aps", "init", "none"} {
		for _, lst := range lists {
			var events []string
			var apsErr, initErr bool
			var comp *absint.Tok
			nW := 0
			build := func() (absint.Oracle, []absint.Value, []absint.Value) {
				events, apsErr, initErr, nW = nil, false, false, 0
				t := newTbl(c)
				self := absint.NewTok("delegate", "delegate")
				comp = absint.NewTok("comp", "component")
				procs := &absint.List{IsNil: len(lst) == 0}
				for i, k := range lst {
					p := absint.NewTok(fmt.Sprintf("p%d", i), "processor")
					p.Attr["before"], p.Attr["after"] = absint.Str(k.before), absint.Str(k.after)
					procs.Elems = append(procs.Elems, p)
				}
				var regState *absint.Tok
				regTried := false
				t.field = func(ip *absint.Interp, obj *absint.Tok, name string, typ types.Type) absint.Value {
					if sl, ok := typ.Underlying().(*types.Slice); ok && types.IsInterface(sl.Elem()) && partOfState(obj, self) {
						return dispatchList(c, t, name, procs)
					}
					if partOfState(obj, self) {
						if v := policyField(c, t, procs, name, typ, &regState, &regTried); v != nil {
							return v
						}
					}
					if b, ok := typ.Underlying().(*types.Basic); ok && b.Kind() == types.Bool {
						return absint.Bool(true)
					}
					return nil
				}
				hook := func(which string) func(ip *absint.Interp, a []absint.Value) absint.Value {
					return func(ip *absint.Interp, a []absint.Value) absint.Value {
						p := a[0].(*absint.Tok)
						events = append(events, fmt.Sprintf("%s:%s(%s)", which, p.ID, absint.Show(a[1])))
						beh, _ := p.Attr[map[string]string{"B": "before", "A": "after"}[which]].(absint.Str)
						switch string(beh) {
						case "wrap":
							nW++
							return absint.Tuple{absint.NewTok(fmt.Sprintf("W%d", nW), "component"), absint.Nil{}}
						case "nil":
							return absint.Tuple{absint.Nil{}, absint.Nil{}}
						case "err":
							return absint.Tuple{absint.Nil{}, t.newErr(which)}
						}
						return absint.Tuple{a[1], absint.Nil{}}
					}
				}
				t.invoke[ro.CPBeforeInit] = hook("B")
				t.invoke[ro.CPAfterInit] = hook("A")
				t.typeTest = func(v absint.Value, T types.Type) (bool, bool) {
					if x, ok := v.(*absint.Tok); !ok || x.Class != "component" {
						return false, false
					}
					switch {
					case types.Identical(T, aps):
						return class == "both" || class == "aps", true
					case types.Identical(T, ini):
						return class == "both" || class == "init", true
					}
					return false, false
				}
				t.invoke[ro.APS] = func(ip *absint.Interp, a []absint.Value) absint.Value {
					events = append(events, "APS("+absint.Show(a[0])+")")
					if apsErr = ip.Choose(2, "AfterPropertiesSet") == 1; apsErr {
						return t.newErr("aps")
					}
					return absint.Nil{}
				}
				t.invoke[ro.Init] = func(ip *absint.Interp, a []absint.Value) absint.Value {
					events = append(events, "INIT("+absint.Show(a[0])+")")
					if initErr = ip.Choose(2, "Init") == 1; initErr {
						return t.newErr("init")
					}
					return absint.Nil{}
				}
				if idFn != nil {
					t.callee[idFn] = func(ip *absint.Interp, a []absint.Value) absint.Value { return &absint.Opaque{Why: "text"} }
				}
				var args []absint.Value
				for _, p := range initFn.Params {
					switch {
					case p == initFn.Params[0] && initFn.Signature.Recv() != nil:
						args = append(args, self)
					case isString(p.Type()):
						args = append(args, absint.NewTok("name", "key"))
					default:
						args = append(args, comp)
					}
				}
				return t, args, nil
			}
			check := func(ip *absint.Interp, out absint.Outcome) {
				// expected sequence
				var want []string
				cur := "comp"
				k := 0
				outcome := ""
				for i, p := range lst {
					if outcome != "" {
						break
					}
					want = append(want, fmt.Sprintf("B:p%d(%s)", i, cur))
					switch p.before {
					case "wrap":
						k++
						cur = fmt.Sprintf("W%d", k)
					case "nil":
						outcome = "veto"
					case "err":
						outcome = "error"
					}
				}
				if outcome == "" && (class == "both" || class == "aps") {
					want = append(want, "APS("+cur+")")
					if apsErr {
						outcome = "error"
					}
				}
				if outcome == "" && (class == "both" || class == "init") {
					want = append(want, "INIT("+cur+")")
					if initErr {
						outcome = "error"
					}
				}
				res := cur
				if outcome == "" {
					for i, p := range lst {
						want = append(want, fmt.Sprintf("A:p%d(%s)", i, res))
						if p.after == "wrap" {
							k++
							res = fmt.Sprintf("W%d", k)
						}
						if p.after == "nil" {
							break
						}
						if p.after == "err" {
							outcome = "error"
							break
						}
					}
				}
				var ls []string
				for _, p := range lst {
					ls = append(ls, p.before+"/"+p.after)
				}
				w := fmt.Sprintf("component=%s processors(before/after)=%v apsErr=%v initErr=%v callbacks=%v => %s; expected %v", class, ls, apsErr, initErr, events, showOutcome(out), want)
				if out.Panic != nil {
					rs.fail("sequence", "PANIC "+w)
					return
				}
				isErr := len(out.Ret) == 2 && isErrTok(out.Ret[1])
				rs.hit("sequence")
				if strings.Join(events, " ") != strings.Join(want, " ") {
					rs.fail("sequence", w)
				}
				for _, e := range events {
					if strings.HasPrefix(e, "APS(") || strings.HasPrefix(e, "INIT(") {
						rs.hit("init-target")
						if e != "APS("+cur+")" && e != "INIT("+cur+")" {
							rs.fail("init-target", w)
						}
					}
				}
				switch outcome {
				case "error":
					rs.hit("error")
					if !isErr {
						rs.fail("error", w)
					}
				case "veto":
					rs.hit("veto")
					if isErr || len(out.Ret) == 0 || !isTokID(out.Ret[0], "comp") {
						rs.fail("veto", w)
					}
				default:
					rs.hit("result")
					if isErr || len(out.Ret) == 0 || !isTokID(out.Ret[0], res) {
						rs.fail("result", w)
					}
				}
			}
			n, u := runTable(c, initFn, build, check)
			runs += n
			if u != "" {
				return rs, runs, u
			}
		}
	}
	return
}
