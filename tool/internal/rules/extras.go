package rules

import (
	"iocvet/internal/core"
)

// extras: rules a property owes to mechanisms it shares with its siblings.  Every entry names the clause of the
// property's statement that depends on the mechanism.
var extras = map[string]ruleFn{
	// "succeeds with every required injection point populated by its target": by-name edges are looked up under the
	// resolved tag value; the processors that populate are already active when a later post-processor is created
	"C02": func(c *core.Ctx, r *core.Report) {
		if bs, why := findBootstrap(c); bs != nil {
			bsTable(c, r, bs, "C02.R9", map[string]bool{"chain-active": true})
		} else {
			r.Undecided("C02.R9", "bootstrap", "", why)
		}
		depTableRules(c, r, "C02.R10", "by-name", "by-name-guard", "by-type-pointer", "by-type-interface")
	},
	// "start-up fails with an error instead of succeeding with mixed versions": the creator's error reaches the holder
	"C03": func(c *core.Ctx, r *core.Report) {
		if l := findLifecycle(c, r, "C03.R8"); l != nil {
			populateRules(c, r, l, func(row string) string {
				if row == "error" {
					return "C03.R8"
				}
				return ""
			})
		}
	},
	// "every dependency ... has already completed its own initialization": candidates found by the processors reach
	// the populator; post-processors are populated by the processors ordered before them
	"C05": func(c *core.Ctx, r *core.Report) {
		furtherRules(c, r, "C05.R8", "narrowed-once", "foreign-untouched")
		if bs, _ := findBootstrap(c); bs != nil {
			bsTable(c, r, bs, "C05.R8", map[string]bool{"chain-active": true})
		}
	},
	// "leaves the field untouched when it is optional": nothing but Inject / SetValue / the logger processor writes fields
	"C07": func(c *core.Ctx, r *core.Report) { writerRules(c, r, "C07.R7") },
	// "required=false points that cannot be satisfied leave their field at its zero value"
	"C09": func(c *core.Ctx, r *core.Report) {
		furtherRules(c, r, "C09.E3", "optional-cleared", "required-error")
		writerRules(c, r, "C09.E3")
	},
	// "only components whose declared qualifier is in the requested set": qualifier texts are compared exactly
	// "a unique component without a custom name wins": which components count as custom-named
	"C08": func(c *core.Ctx, r *core.Report) {
		tagRules(c, r, "C08.R5", "has-values", "lookup")
		aliasTable(c, r, "C08.R6")
	},
	// the ordering helper is a function of the multiset of participants (not of their enumeration order)
	"C10": func(c *core.Ctx, r *core.Report) { sorterRules(c, r, "C10.R6") },
	// "receives ... the tag's value and arguments"; every processor sees every property
	"C11": func(c *core.Ctx, r *core.Report) {
		tagRules(c, r, "C11.R7", "value", "arguments")
		propsStageRules(c, r, "C11.R8")
		propertyStoreRules(c, r, "C11.R9")
	},
	// "every registered runner is invoked": the runner collection is complete
	"C13": func(c *core.Ctx, r *core.Report) {
		collectionRules(c, r, "C13.R6", findLifecycle(c, r, "C13.R6"))
	},
	// "every registered closer is closed exactly once": the closer collection is complete and duplicate-free
	"C14": func(c *core.Ctx, r *core.Report) {
		collectionRules(c, r, "C14.R7", findLifecycle(c, r, "C14.R7"))
	},
	// "the others in the order they were added": the ordering helper keeps unordered participants in place;
	// what was merged or set last is what lookups see
	"C15": func(c *core.Ctx, r *core.Report) {
		sorterRules(c, r, "C15.R9")
		binderRules(c, r, "C15.R10")
	},
	// "replaced by the configured value when one is present": lookups see the configuration as it is now
	"C16": func(c *core.Ctx, r *core.Report) { binderRules(c, r, "C16.R8") },
	// "the field receives the expression's result": binding writes a fresh value
	"C18": func(c *core.Ctx, r *core.Report) {
		setValueRules(c, r, "C18.R5")
		validatorConfigRules(c, r, "C18.R6")
	},
	// the scanner hands the tag text to the parser unchanged
	"C19": func(c *core.Ctx, r *core.Report) {
		trs, _, tfn, tund := tagScanTable(c)
		if tund != "" {
			r.Undecided("C19.R7", "tag-scan-table", "", "abstract interpretation left the model: "+tund)
			return
		}
		trs.report(c, r, tfn, func(string) string { return "C19.R7" }, "tag-scan-table@"+core.FnName(tfn), tagScanRows)
	},
}
