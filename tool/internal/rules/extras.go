package rules

import (
	"iocvet/internal/core"
	"strings"
)

// extras: rules a property owes to mechanisms it shares with its siblings.  Every entry names the clause of the
// property's statement that depends on the mechanism.
var extras = map[string]ruleFn{
	// "succeeds with every required injection point populated by its target": by-name edges are looked up under the
	// resolved tag value; the processors that populate are already active when a later post-processor is created
	"C02": func(c *core.Ctx, r *core.Report) {
		propsStageRules(c, r, "C02.R11")
		// "start-up terminates": every recursion start-up runs through has a bound the analysis can name
		recursionRules(c, r, "C02.R17")
		// ... and refresh does nothing but create the eager components, each once
		refreshRules(c, r, func(row string) string {
			if row == "eager-only" || row == "error" || row == "creates-only" {
				return "C02.R18"
			}
			return ""
		})
		// "distinct components": two components registered under different names have two definitions (with a shared one
		// the second is never created, and an edge to it comes back to the other - or to the holder itself)
		definitionRegistryTables(c, r, "", "C02.R13")
		// "every required injection point populated by its target": a point wired by type is offered every component
		// of the type (its target among them), whatever was processed before it
		depTableRules(c, r, "C02.R14", "by-type-pointer", "by-type-interface", "no-error", "independent", "unshared")
		// "cycles of any length ... succeed": what a processor of the library answers when asked for an early reference
		earlyReferenceImplRules(c, r, "C02.R15")
		// "every required injection point populated": a point is one only if the field scan records its field, wherever
		// in the struct (directly, or in an embedded struct of whatever type) it is declared
		fieldScanRules(c, r, "C02.R19")
		// "reported as an error (or left empty when optional)": what the narrowing stage does with a point nothing qualifies for
		furtherRules(c, r, "C02.R16", "optional-cleared", "required-error")
		if l := findLifecycle(c, r, "C02.R12"); l != nil {
			populateRules(c, r, l, func(row string) string {
				if row == "from-accessor" || row == "error" {
					return "C02.R12"
				}
				return ""
			})
		}
		if bs, why := findBootstrap(c); bs != nil {
			bsTable(c, r, bs, "C02.R9", map[string]bool{"chain-active": true})
		} else {
			r.Undecided("C02.R9", "bootstrap", "", why)
		}
		depTableRules(c, r, "C02.R10", "by-name", "by-name-guard", "by-type-pointer", "by-type-interface")
	},
	// "start-up fails with an error instead of succeeding with mixed versions": the creator's error reaches the holder
	"C03": func(c *core.Ctx, r *core.Report) {
		// "start-up fails instead of succeeding with mixed versions": the refusal ends the refresh - every eager component
		// is created once, and an error of one is the refresh's error
		refreshRules(c, r, func(row string) string {
			if row == "eager-only" || row == "error" || row == "creates-only" {
				return "C03.R14"
			}
			return ""
		})
		// every kind of injection point that receives components records its holder (the record is what the
		// stale-version check reads): the reflect writers of the module are the frozen ones
		writerRules(c, r, "C03.R15")
		// "every lookup by name refers to the one published version": the public lookups hand out what the registry publishes, and a name has one definition
		lookupRules(c, r, "C03.R9")
		definitionRegistryTables(c, r, "", "C03.R10")
		// "no stale version survives": a component never holds a reference to itself (its own early reference would be
		// the one dependent the stale-version check skips)
		narrowRules(c, r, "C03.R12", "never-self")
		// "start-up fails with an error instead of succeeding with mixed versions": the refusal raised while a
		// post-processor is being created during the bootstrap reaches the caller
		if bs, why := findBootstrap(c); bs != nil {
			bsTable(c, r, bs, "C03.R11", map[string]bool{"error": true})
		} else {
			r.Undecided("C03.R11", "bootstrap", "", why)
		}
		if l := findLifecycle(c, r, "C03.R8"); l != nil {
			populateRules(c, r, l, func(row string) string {
				if row == "error" {
					return "C03.R8"
				}
				// "every holder sees the one version the container finally publishes": what a holder is given is what
				// the accessor hands out for the name, for every point, whatever the field holds already
				if row == "from-accessor" {
					return "C03.R13"
				}
				return ""
			})
		}
	},
	// "every dependency ... has already completed its own initialization": candidates found by the processors reach
	// the populator; post-processors are populated by the processors ordered before them
	"C05": func(c *core.Ctx, r *core.Report) {
		// "exactly once": a second instance under a taken name is refused, so no processor is resolved to another's instance
		registerRules(c, r, "C05.R14")
		// created (and so initialised) are exactly the chosen candidates: a single-valued point keeps one
		narrowRules(c, r, "C05.R10", "single-member", "slice-exact")
		// which processors are active when a user post-processor is created depends on its position: the embeddable
		// markers decide nothing but what they are named after
		markerTypeRules(c, r, "C05.R11")
		// "all injection points set before initialization": a stage behind a presence flag is entered whenever a
		// processor it would call has been registered
		refiled(c, r, "C05.R12", func(sub *core.Report) { c03Flags(c, sub) })
		// every tagged field becomes an injection point that is populated before initialization; configuration is loaded before anything is created
		fieldScanRules(c, r, "C05.R9")
		propertyStoreRules(c, r, "C05.R9")
		runPhaseRules(c, r, "C05.R9")
		propsStageRules(c, r, "C05.R8")
		furtherRules(c, r, "C05.R8", "narrowed-once", "foreign-untouched")
		if bs, _ := findBootstrap(c); bs != nil {
			bsTable(c, r, bs, "C05.R8", map[string]bool{"chain-active": true})
		}
	},
	// "leaves the field untouched when it is optional": nothing but Inject / SetValue / the logger processor writes fields
	"C07": func(c *core.Ctx, r *core.Report) {
		// "fails when required, untouched when optional": whether a point is required is asked of its arguments when the decision is taken
		isRequiredRules(c, r, "C07.R20")
		// the stages that look the named component up and narrow take part for every holder
		stageOptInRules(c, r, "C07.R19", "dep", "further")
		// the tag value (the requested name) is the text up to the first top-level comma
		tagRules(c, r, "C07.R11", "value", "arguments", "required")
		// "specifies a component name": the name may be written with placeholders, which the placeholder stage
		// resolves in every tag (whatever the kind of property), nested ones and those in configured values included
		textStageRules(c, r, "C07.R18", "quote")
		replaceAllTable(c, r, "C07.R18")
		// every processor sees every property of the holder: the list handed to one is not the list of another
		ownListRules(c, r, "C07.R16")
		// the named candidate survives the narrowing (nothing but self, qualifier and the single-value preference removes one)
		narrowRules(c, r, "C07.R17", "single-member", "slice-exact", "nothing-qualifies", "no-panic")
		writerRules(c, r, "C07.R7")
		isSelfTable(c, r, "C07.R8")
		fieldScanRules(c, r, "C07.R9")
		propsStageRules(c, r, "C07.R9")
		// "receives exactly the component registered under that name": also when an earlier point of the holder missed
		depTableRules(c, r, "C07.R10", "independent", "unshared")
		// "exactly the component registered under that name": in the container of the holder, not in another one
		perContainerProcessorRules(c, r, "C07.R12")
		// "fails with an error when the point is required and leaves the field untouched when it is optional":
		// whatever the other points of the same holder do
		furtherRules(c, r, "C07.R13", "required-error", "optional-cleared")
		// ... also when the named component exists but cannot be created, and when the holder is a post-processor
		if l := findLifecycle(c, r, "C07.R14"); l != nil {
			populateRules(c, r, l, func(row string) string {
				if row == "error" {
					return "C07.R14"
				}
				return ""
			})
		}
		chainActiveRules(c, r, "C07.R14")
		injectRules(c, r, "C07.R15", "single", "nothing-to-inject")
	},
	// "required=false points that cannot be satisfied leave their field at its zero value"
	"C09": func(c *core.Ctx, r *core.Report) {
		isRequiredRules(c, r, "C09.E16")
		// a by-name point finds the component registered under exactly that name, or nothing
		definitionRegistryTables(c, r, "", "C09.E17")
		// "does not panic": building the narrowing error never panics; every eager component is created, so its failures surface
		narrowRules(c, r, "C09.E6", "no-panic")
		refreshRules(c, r, func(row string) string {
			if row == "eager-only" || row == "error" {
				return "C09.E7"
			}
			return ""
		})
		tagRules(c, r, "C09.E3", "required")
		fieldScanRules(c, r, "C09.E4")
		propsStageRules(c, r, "C09.E4")
		furtherRules(c, r, "C09.E3", "optional-cleared", "required-error")
		// the required check sees a point only if the stage that makes it is handed it: every processor receives the
		// definition's properties as they are when its turn comes, in a list of its own
		ownListRules(c, r, "C09.E15")
		writerRules(c, r, "C09.E3")
		// "an initialization callback reports an error -> Run returns an error": whatever the callback returns beside it
		// (and every initialization callback the component declares is invoked, so that it can report one)
		initErrorRules(c, r, "C09.E5", "sequence")
		// "of an eagerly created component": which user components are eager does not depend on the base they embed
		lazyBaseRules(c, r, "C09.E8")
		// a failing creation or factory post-processor during the bootstrap ends it with that error
		if bs, why := findBootstrap(c); bs != nil {
			bsTable(c, r, bs, "C09.E10", map[string]bool{"error": true})
		} else {
			r.Undecided("C09.E10", "bootstrap", "", why)
		}
		// "does not panic": what a point wired by type is offered are the registry's components of exactly that type
		// (anything else makes the reflect write of the injection panic)
		depTableRules(c, r, "C09.E9", "by-type-pointer", "by-type-interface", "no-error", "unsupported-kind")
		// ... and the injection itself writes exactly what the field can hold (no panic), errs exactly for a required point
		injectRules(c, r, "C09.E13", "single", "slice", "nothing-to-inject", "wrong-property-type")
		// a stage behind a presence flag is entered whenever a processor it would call has been registered: the
		// points of an eagerly created post-processor are looked at like everybody's
		refiled(c, r, "C09.E14", func(sub *core.Report) { c03Flags(c, sub) })
		// an optional value that is not configured never fails: the placeholder stage reports no error for it
		presenceRules(c, r, "C09.E11")
		// post-processors are eager components too: created with the processors before them active
		if bs, why := findBootstrap(c); bs != nil {
			bsTable(c, r, bs, "C09.E12", map[string]bool{"eager-create": true, "chain-active": true})
		} else {
			r.Undecided("C09.E12", "bootstrap", "", why)
		}
	},
	// "only components whose declared qualifier is in the requested set": qualifier texts are compared exactly
	// "a unique component without a custom name wins": which components count as custom-named
	"C08": func(c *core.Ctx, r *core.Report) {
		// the narrowing rules hold for the fields of every holder, a user's post-processor included: the chain that
		// creates it is the sorted one, active as far as it has been built
		if bs, why := findBootstrap(c); bs != nil {
			bsTable(c, r, bs, "C08.R11", map[string]bool{"chain-active": true, "chain-order": true, "eager-create": true})
		} else {
			r.Undecided("C08.R11", "bootstrap", "", why)
		}
		// the stages that collect and narrow candidates take part for every holder
		stageOptInRules(c, r, "C08.R10", "dep", "further")
		// narrowing runs for every holder on every creation: the property stage calls every processor each time
		propsStageRules(c, r, "C08.R9")
		// "a unique Primary always wins": the Primary test answers per type; user post-processors meet the built-in stages at their documented positions
		typeImplementRules(c, r, "C08.R7")
		processorOrderRules(c, r, "C08.R8")
		tagRules(c, r, "C08.R5", "has-values", "lookup", "arguments", "value")
		aliasTable(c, r, "C08.R6")
	},
	// the ordering helper is a function of the multiset of participants (not of their enumeration order)
	"C10": func(c *core.Ctx, r *core.Report) {
		// the same components are wired whatever the enumeration order: a version conflict is an error in every order, and
		// every candidate of a point is created through the accessor, lazy or not
		exposerRowRules(c, r, "C10.R13", "stale-detected")
		if l := findLifecycle(c, r, "C10.R14"); l != nil {
			populateRules(c, r, l, func(row string) string {
				if row == "from-accessor" {
					return "C10.R14"
				}
				return ""
			})
		}
		sorterRules(c, r, "C10.R6")
		registerRules(c, r, "C10.R7")
		// "under every goroutine schedule of the parallel scanning phase": scanners asking for one name share one definition
		newMetaRules(c, r, "C10.R8")
		// "which component it receives": every component-typed point is narrowed, whatever tag collected its candidates
		furtherRules(c, r, "C10.R9", "narrowed-once")
		// user post-processors are created with exactly the built-in processors ordered before them active: the
		// positions decide whether their own points are narrowed or take the first candidate in enumeration order
		processorOrderRules(c, r, "C10.R10")
		// the property list arrives in map order: no processor hands anything from one property to the next
		noCarriedStateRules(c, r, "C10.R11")
		// whether a processor is consulted does not depend on which processor was registered last; a failing
		// factory post-processor fails the start wherever it stands in the enumeration
		refiled(c, r, "C10.R12", func(sub *core.Report) { c03Flags(c, sub) })
		if bs, why := findBootstrap(c); bs != nil {
			bsTable(c, r, bs, "C10.R12", map[string]bool{"error": true})
		} else {
			r.Undecided("C10.R12", "bootstrap", "", why)
		}
	},
	// "receives ... the tag's value and arguments"; every processor sees every property
	"C11": func(c *core.Ctx, r *core.Report) {
		// a user-supplied tag scanner has its settings when the scan starts: the factory post-processors, where it gets them, have all run
		if bs, why := findBootstrap(c); bs != nil {
			bsTable(c, r, bs, "C11.R13", map[string]bool{"phases": true})
		} else {
			r.Undecided("C11.R13", "bootstrap", "", why)
		}
		loggerRules(c, r, "C11.R10")
		chainActiveRules(c, r, "C11.R8")
		tagRules(c, r, "C11.R7", "value", "arguments")
		propsStageRules(c, r, "C11.R8")
		propertyStoreRules(c, r, "C11.R9")
		// "receives exactly the fields carrying its tag": whatever an earlier processor did to the list it was handed
		ownListRules(c, r, "C11.R11")
		// every scanner is shown every registered component (so every tagged field of every component is recorded)
		defScanRules(c, r, func(row string) string {
			if row == "all-entries" {
				return "C11.R12"
			}
			return ""
		})
		injectRules(c, r, "C11.R12", "wrong-property-type")
	},
	// "every registered runner is invoked": the runner collection is complete
	"C13": func(c *core.Ctx, r *core.Report) {
		// "every registered runner exactly once": a second instance under a taken name is refused (not replaced, not renamed)
		registerRules(c, r, "C13.R12")
		// "only after every eagerly created component has finished initialization": an initialization that did not complete is an error
		initErrorRules(c, r, "C13.R9", "sequence") // (sequence: finished means every initialization callback the component has was run)
		markerTypeRules(c, r, "C13.R7")
		runEntryRules(c, r, "C13.R8")
		globalAppendRules(c, r, "C13.R8")
		propsStageRules(c, r, "C13.R6")
		tagScanRules(c, r, "C13.R6")
		collectionRules(c, r, "C13.R6", findLifecycle(c, r, "C13.R6"))
		// "every registered application runner": each registered name keeps a definition of its own, so it is created
		// ... and is enumerated exactly once by the lookup that fills the runner collection
		definitionRegistryTables(c, r, "C13.R10", "C13.R10")
		definitionNameRules(c, r, "C13.R10")
		componentMapCompleteRules(c, r, "C13.R11")
	},
	// "every registered closer is closed exactly once": the closer collection is complete and duplicate-free
	"C14": func(c *core.Ctx, r *core.Report) {
		runEntryRules(c, r, "C14.R8")
		globalAppendRules(c, r, "C14.R8")
		propsStageRules(c, r, "C14.R7")
		tagScanRules(c, r, "C14.R7")
		collectionRules(c, r, "C14.R7", findLifecycle(c, r, "C14.R7"))
		// "every registered closer": whatever else a closer is (a lazy post-processor, say), it gets a definition
		componentMapCompleteRules(c, r, "C14.R10")
		// the closer collection is a slice point: it receives every qualifying candidate
		narrowRules(c, r, "C14.R11", "slice-exact", "no-panic")
		// "every registered closer ... exactly once": each registered name keeps a definition of its own, and the lookup
		// that fills the closer collection lists each definition once, however often it was stored
		definitionRegistryTables(c, r, "C14.R12", "C14.R12")
		definitionNameRules(c, r, "C14.R12")
	},
	// "the others in the order they were added": the ordering helper keeps unordered participants in place;
	// what was merged or set last is what lookups see
	"C15": func(c *core.Ctx, r *core.Report) {
		// the merged configuration components are bound from is the one the application was given
		runWiringRules(c, r, "C15.R12")
		optionRules(c, r, "C15.R3")
		// options registered for the whole process (app.Settings) are all kept
		globalSettingsRules(c, r, "C15.R11")
		sorterRules(c, r, "C15.R9")
		binderRules(c, r, "C15.R10")
	},
	// "replaced by the configured value when one is present": lookups see the configuration as it is now
	"C16": func(c *core.Ctx, r *core.Report) {
		// placeholders are resolved against the configuration the application was given: the one the App holds after its options
		runWiringRules(c, r, "C16.R16")
		// the placeholder stage takes part for every component
		stageOptInRules(c, r, "C16.R15", "quote")
		textStageRules(c, r, "C16.R4", "quote", "expr")
		// prop:"K" is the documented alias of value:"${K}", nested placeholders in K included
		hs := shorthandHandlers(c)
		r.Floor("C16.R10", "prop shorthand handlers", len(hs), 1)
		for _, h := range hs {
			srs, _, und := shorthandTable(c, h)
			if und != "" {
				r.Undecided("C16.R10", "shorthand-table@"+core.FnName(h), c.FnPos(h), "abstract interpretation left the model: "+und)
				continue
			}
			srs.report(c, r, h, func(string) string { return "C16.R10" }, "shorthand-table@"+core.FnName(h), shorthandRows)
		}
		binderRules(c, r, "C16.R8")
		chainActiveRules(c, r, "C16.R9")
		propsStageRules(c, r, "C16.R9")
		// "replaced by the configured value": the configuration is loaded before anything is populated
		runPhaseRules(c, r, "C16.R11")
		// "processed as if it had been written with the replacement text": the consumers of a component tag read
		// the substituted text; the tag's text reaches the parser with its bracketed groups intact
		depTableRules(c, r, "C16.R12", "by-name", "by-type-pointer", "by-type-interface", "func-predicate")
		tagRules(c, r, "C16.R12", "value", "arguments")
		// ... and the value stage binds what becomes of the substituted text, not the raw tag or a recorded lookup
		valueStageRules(c, r, "C16.R13", "bound", "foreign")
		// every stage is handed the component's full property list: what one stage does to its list is not seen by the next
		ownListRules(c, r, "C16.R14")
	},
	// "the field receives the expression's result": binding writes a fresh value
	"C18": func(c *core.Ctx, r *core.Report) {
		// the stages an expression passes through take part for every component, wherever its tags are declared
		stageOptInRules(c, r, "C18.R15", "quote", "expr", "value", "validate")
		// "start-up fails exactly when the bound value violates": a failing dependency creation fails its holder (also an optional one), so the verdict is not lost on the way
		if l := findLifecycle(c, r, "C18.R10"); l != nil {
			populateRules(c, r, l, func(row string) string {
				if row == "error" {
					return "C18.R10"
				}
				return ""
			})
		}
		textStageRules(c, r, "C18.R2", "expr")
		processorOrderRules(c, r, "C18.R1")
		propsStageRules(c, r, "C18.R7")
		chainActiveRules(c, r, "C18.R7")
		tagRules(c, r, "C18.R8", "arguments")
		presenceRules(c, r, "C18.R9")
		setValueRules(c, r, "C18.R5")
		validatorConfigRules(c, r, "C18.R6")
		// a field (also an embedded block carrying a tag) is recorded so that it is bound and validated at all
		fieldScanRules(c, r, "C18.R11")
		// "validation after binding": the value stage binds every value property or fails the start
		valueStageRules(c, r, "C18.R13", "bound", "empty-required", "errors", "continues")
		// every stage is handed the component's full property list: what one stage does to its list is not seen by the next
		ownListRules(c, r, "C18.R14")
		// "the field receives the expression's result": a result the field cannot hold is an error, not a silent zero
		refiledWhere(c, r, "C18.R12", func(sub *core.Report) {
			if prop := c.Named("component_definition", "Property"); prop != nil {
				if unm := c.DeclaredMethod(prop, "Unmarshall"); unm != nil {
					c17Decoder(c, sub, unm)
				}
			}
		}, func(o *core.Obligation) bool {
			return strings.HasSuffix(o.Construct, ":error") || o.Verdict != core.Held
		})
	},
	// the scanner hands the tag text to the parser unchanged
	"C19": func(c *core.Ctx, r *core.Report) {
		// "values are the space-separated items": what was parsed stays what readers see
		storedValuesRules(c, r, "C19.R9")
		// "only an explicit required=false makes a point optional": what the stages do with the answer
		if run := c.DeclaredMethod(c.Named("app", "App"), "Run"); run != nil {
			requiredDecisionRules(c, r, "C19.R8", reachableInScope(c, run))
		}
		furtherRules(c, r, "C19.R8", "required-error", "optional-cleared")
		trs, _, tfn, tund := tagScanTable(c)
		if tund != "" {
			r.Undecided("C19.R7", "tag-scan-table", "", "abstract interpretation left the model: "+tund)
			return
		}
		trs.report(c, r, tfn, func(string) string { return "C19.R7" }, "tag-scan-table@"+core.FnName(tfn), tagScanRows)
		// "whose name is matched regardless of the case of its first letter": and only of that letter
		argumentNameRules(c, r, "C19.R10")
	},
	"C01": func(c *core.Ctx, r *core.Report) {
		// "no holder ends up with a different version": a component never holds itself (its own early reference is the one
		// dependent the stale-version check passes over)
		narrowRules(c, r, "C01.R14", "never-self")
		// "no holder ever ends up with a second copy": nothing evicts a published singleton (a re-creation would hand later holders another instance)
		alphabetRules(c, r, "C01.R11")
		lookupRules(c, r, "C01.R8")
		// "every lookup of that component by name": one definition per name, found under that name only
		definitionRegistryTables(c, r, "", "C01.R10")
		// what is copied into the holders (the definition's Value) is the reflect value of the very object lookups
		// return (its Raw): a definition describes one object
		isSelfTable(c, r, "C01.R12")
		// "no holder ever ends up with a ... different version": the creation routine asks for the early reference
		// only after initialization, when no new one can be handed out any more
		exposerRowRules(c, r, "C01.R13", "lookup-after-init", "stale-detected")
	},
	"C06": func(c *core.Ctx, r *core.Report) {
		// a component created before the dependency stages exist is never wired: nothing is created while the factory post-processors run, because there are no definitions yet
		if bs, why := findBootstrap(c); bs != nil {
			bsTable(c, r, bs, "C06.R16", map[string]bool{"phases": true})
		} else {
			r.Undecided("C06.R16", "bootstrap", "", why)
		}
		// the stages that collect and narrow candidates take part for every holder
		stageOptInRules(c, r, "C06.R15", "dep", "further")
		// completeness: every processor that collects candidates runs for every holder, and every component has a definition
		chainActiveRules(c, r, "C06.R8")
		propsStageRules(c, r, "C06.R8")
		tagScanRules(c, r, "C06.R9")
		// "for the func tag those that expose the requested method": the method name and the requested results are
		// what the tag says - an argument written with an empty value has the one value ""
		tagRules(c, r, "C06.R14", "value", "arguments")
		fieldScanRules(c, r, "C06.R9")
		// "receives every such component": every registered name has a definition of its own to be enumerated
		definitionRegistryTables(c, r, "", "C06.R10")
		componentMapCompleteRules(c, r, "C06.R11")
		// "receives every such component": candidate lists may be shared between points of one type; narrowing one
		// point's list leaves the list itself as it was, and every processor gets the holder's full property list
		narrowRules(c, r, "C06.R13", "input-untouched")
		ownListRules(c, r, "C06.R13")
		// "receives every such component": a candidate that cannot be created fails its holder, it is not left out
		if l := findLifecycle(c, r, "C06.R12"); l != nil {
			populateRules(c, r, l, func(row string) string {
				if row == "error" {
					return "C06.R12"
				}
				return ""
			})
		}
	},
	"C12": func(c *core.Ctx, r *core.Report) {
		markerTypeRules(c, r, "C12.R7")
		// "appears exactly once": one registration per component, no candidate lost or doubled on the way to the list
		registerRules(c, r, "C12.R6")
		narrowRules(c, r, "C12.R6", "slice-exact", "no-panic")
		// "the participants' callbacks are actually invoked": a dispatch loop behind a presence flag is entered
		// whenever a processor it would call has been registered
		refiled(c, r, "C12.R8", func(sub *core.Report) { c03Flags(c, sub) })
	},
	"C17": func(c *core.Ctx, r *core.Report) {
		// the configuration values reach fields from the configuration the application was given
		runWiringRules(c, r, "C17.R17")
		// the placeholder and prop paths give what the prefix path gives: presence (an empty list or map is a value), the
		// default as written, and the text stage working on the tag value as the scan split it
		presenceRules(c, r, "C17.R16")
		textStageRules(c, r, "C17.R16", "quote")
		// the configuration stages take part for every component
		stageOptInRules(c, r, "C17.R15", "quote", "value", "prefix")
		// "string values arrive unchanged": the file and raw loaders hand back exactly the bytes they were given
		loaderIdentityRules(c, r, "C17.R11")
		// the three binding paths read one configuration and see every tagged field
		binderRules(c, r, "C17.R8")
		// a placeholder (and the prop shorthand, which becomes one) resolves nested keys completely; one property per field
		replaceAllTable(c, r, "C17.R10")
		tagScanRules(c, r, "C17.R9")
		fieldScanRules(c, r, "C17.R9")
		chainActiveRules(c, r, "C17.R9")
		propsStageRules(c, r, "C17.R9")
		// the properties two scanners record on one definition are all kept
		propertyStoreRules(c, r, "C17.R12")
		// the value path has exactly one text-to-value step between the substituted tag value and the decoder
		valueStageRules(c, r, "C17.R13")
		// every stage is handed the component's full property list: what one stage does to its list is not seen by the next
		ownListRules(c, r, "C17.R14")
	},
	// "never returns the half-built instance as if it had been created": an initialization that failed is a failed creation, every time
	"C04": func(c *core.Ctx, r *core.Report) {
		// "once creation completes, the published instance is the only thing ever returned for that name": the public
		// lookups hand out what the accessor hands out, and nothing else when it fails
		lookupRules(c, r, "C04.R7")
		initErrorRules(c, r, "C04.R4")
		// "the published instance is the only thing ever returned for that name": publication refuses a version other
		// than the early reference already handed out by looking at who received it - every holder is on that record
		injectRules(c, r, "C04.R5", "slice", "single")
		// "all lookups of its name observe one and the same early reference": the lookups the container itself makes
		// while it wires a holder go through the accessor (and with it the caches), also for a name in creation
		if l := findLifecycle(c, r, "C04.R6"); l != nil {
			populateRules(c, r, l, func(row string) string {
				if row == "from-accessor" {
					return "C04.R6"
				}
				return ""
			})
		}
	},
	"C20": func(c *core.Ctx, r *core.Report) {
		// a definition is complete before another goroutine can obtain it: it is built inside the store-if-absent callback
		newMetaRules(c, r, "C20.R13")
		definitionNameRules(c, r, "C20.R13")
		// components of one type scanned concurrently share nothing: every component gets properties of its own
		tagScanPerComponentRules(c, r, "C20.R10")
		copyLockRules(c, r, "C20.R9")
		globalAppendRules(c, r, "C20.R8")
		// the loggers both phases write through concurrently are never modified in place
		immutableLoggerRules(c, r, "C20.R11")
		// the scanner goroutines of two components write two definitions: no two registered names share one
		definitionRegistryTables(c, r, "", "C20.R12")
		// the join of the definition scan, by its meaning: interpreted under the scheduler on two schedules
		defScanRules(c, r, func(row string) string {
			if row == "joined" {
				return "C20.R3"
			}
			return ""
		})
	},
}
