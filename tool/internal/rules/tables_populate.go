package rules

import (
	"fmt"
	"go/types"
	"strings"

	"golang.org/x/tools/go/ssa"

	"iocvet/internal/absint"
	"iocvet/internal/core"
)

var populateRows = map[string]string{
	"props-first":   "property post-processing (configuration values, candidate selection) runs first and must succeed before any dependency is resolved or injected",
	"from-accessor": "every injection point with candidates receives exactly the cache accessor's results for its candidates, in order, after all of them were resolved; points without candidates are not injected",
	"re-entrant":    "a population that is re-entered while a dependency is being created does not disturb the candidates the outer population has already resolved",
	"error":         "the first failing step ends the population with a non-nil error and nothing happens after it; otherwise the result is nil",
}

// populateTable interprets the populator - with whatever helpers it is split into - on a definition with three
// injection points (two candidates / none / one).  While the first candidate is being resolved the accessor oracle
// re-enters the populator once for another definition (the situation of a dependency that has dependencies).
func populateTable(c *core.Ctx, l *lifecycleRoles) (rs rows, runs int, undecided string) {
	ro := c.Roles()
	rs = rows{}
	pop := l.populator
	meta := c.Named("component_definition", "Meta")
	var nameM, propsM *ssa.Function
	if meta != nil {
		nameM = c.DeclaredMethod(meta, "Name")
		propsM = c.DeclaredMethod(meta, "GetComponentProperties")
	}
	if nameM == nil || propsM == nil || ro.PropertyInject == nil {
		return rs, 0, "Meta.Name / Meta.GetComponentProperties / Property.Inject not found"
	}
	// in-scope callees of the populator chain that reach PostProcessProperties: the property stage
	var propsStage []*ssa.Function
	seen := map[*ssa.Function]bool{}
	reachesCall(pop, func(*ssa.CallCommon) bool { return false }, seen)
	// (a method, or a function that takes the object as its first parameter)
	recvOf := func(f *ssa.Function) *types.Named { return ownerOf(core.TopLevel(f)) }
	popRecv := recvOf(pop)
	if popRecv == nil {
		return rs, 0, "the populating routine belongs to no type"
	}
	for f := range seen {
		if recvOf(f) != popRecv {
			continue // only the factory's own functions: the populator and its helpers
		}
		for _, ci := range core.Calls(f) {
			cal := c.ResolvedCallee(ci.Common())
			if cal == nil || !c.InScope(cal) || recvOf(cal) == popRecv {
				continue
			}
			if l.ev.SiteReach(ci).has(evProps) {
				dup := false
				for _, x := range propsStage {
					dup = dup || x == cal
				}
				if !dup {
					propsStage = append(propsStage, cal)
				}
			}
		}
	}
	if len(propsStage) == 0 {
		return rs, 0, "no callee of the populator reaches PostProcessProperties"
	}
	for _, nested := range []bool{false, true} {
		var trace []string
		var stopped, wantErr bool
		var after []string
		depth := 0
		build := func() (absint.Oracle, []absint.Value, []absint.Value) {
			trace, stopped, wantErr, after, depth = nil, false, false, nil, 0
			t := newTbl(c)
			factory := absint.NewTok("factory", "factory")
			mkMeta := func(id string, points map[string][]string, order []string) *absint.Tok {
				m := absint.NewTok("meta:"+id, "meta")
				m.Attr["name"] = absint.Str(id)
				l := &absint.List{}
				for _, pn := range order {
					n := absint.NewTok(pn, "property")
					inj := &absint.List{IsNil: len(points[pn]) == 0}
					for _, d := range points[pn] {
						dm := absint.NewTok("cand:"+d, "meta")
						dm.Attr["name"] = absint.Str(d)
						inj.Elems = append(inj.Elems, dm)
					}
					n.Fields["Injects"] = inj
					// N1 is an optional slice point, every other point a required pointer point
					fld, base, ft := absint.NewTok(pn+".Field", "field"), absint.NewTok(pn+".Field.Base", "base"), absint.NewTok("T:"+pn, "type")
					ft.Attr["kind"] = absint.Int(22)
					n.Attr["required"] = absint.Bool(pn != "N1")
					if pn == "N1" {
						ft.Attr["kind"] = absint.Int(23)
						et := absint.NewTok("T:elem("+pn+")", "type")
						et.Attr["kind"] = absint.Int(22)
						ft.Attr["elem"] = et
					}
					n.Fields["Field"], fld.Fields["Base"], base.Fields["Type"] = fld, base, ft
					l.Elems = append(l.Elems, n)
				}
				m.Attr["props"] = l
				return m
			}
			outer := mkMeta("holder", map[string][]string{"N1": {"d1", "d2"}, "N2": nil, "N3": {"d3"}}, []string{"N1", "N2", "N3"})
			inner := mkMeta("d1", map[string][]string{"M1": {"x1", "x2", "x3"}}, []string{"M1"})
			ev := func(ip *absint.Interp, e string) bool {
				if depth > 0 {
					e = "nested:" + e
				}
				if stopped {
					after = append(after, e)
				}
				trace = append(trace, e)
				if depth == 0 && ip.Choose(2, e+" outcome") == 1 {
					stopped, wantErr = true, true
					trace = append(trace, "!")
					return false
				}
				return true
			}
			popArgs := func(m *absint.Tok, nm string) []absint.Value {
				return layoutArgs(pop, func(ty types.Type) absint.Value {
					switch {
					case core.NamedOf(ty) == meta:
						return m
					case isString(ty):
						return absint.Str(nm)
					case core.NamedOf(ty) == popRecv:
						return factory
					}
					return nil
				})
			}
			t.callee[nameM] = func(ip *absint.Interp, a []absint.Value) absint.Value {
				if m, ok := a[0].(*absint.Tok); ok && m.Attr["name"] != nil {
					return m.Attr["name"]
				}
				panic(&absint.Undecided{Msg: "Name() of an unmodelled definition"})
			}
			t.callee[propsM] = func(ip *absint.Interp, a []absint.Value) absint.Value {
				if m, ok := a[0].(*absint.Tok); ok && m.Attr["props"] != nil {
					src := m.Attr["props"].(*absint.List)
					return &absint.List{Elems: append([]absint.Value(nil), src.Elems...)}
				}
				panic(&absint.Undecided{Msg: "GetComponentProperties() of an unmodelled definition"})
			}
			for _, ps := range propsStage {
				t.callee[ps] = func(ip *absint.Interp, a []absint.Value) absint.Value {
					if !ev(ip, "props") {
						return t.newErr("props")
					}
					return absint.Nil{}
				}
			}
			for _, acc := range ro.CacheAccessors() {
				acc := acc
				t.callee[acc] = func(ip *absint.Interp, a []absint.Value) absint.Value {
					nm := absint.Show(a[1])
					two := acc.Signature.Results().Len() == 2
					if !ev(ip, "get("+nm+")") {
						if two {
							return absint.Tuple{absint.Nil{}, t.newErr("get")}
						}
						return t.newErr("get")
					}
					if nested && depth == 0 && nm == `"d1"` {
						depth++
						args := popArgs(inner, "d1")
						ip.CallFunction(pop, args, nil)
						depth--
					}
					res := absint.NewTok("created:"+strings.Trim(nm, `"`), "meta")
					if two {
						return absint.Tuple{res, absint.Nil{}}
					}
					return res
				}
			}
			if prop := c.Named("component_definition", "Property"); prop != nil {
				if isReq := c.DeclaredMethod(prop, "IsRequired"); isReq != nil {
					t.callee[isReq] = func(ip *absint.Interp, a []absint.Value) absint.Value {
						if n, ok := a[0].(*absint.Tok); ok && n.Attr["required"] != nil {
							return n.Attr["required"]
						}
						panic(&absint.Undecided{Msg: "IsRequired() of an unmodelled property"})
					}
				}
			}
			typeAttr := func(v absint.Value, attr string) absint.Value {
				if ty, ok := v.(*absint.Tok); ok && ty.Attr[attr] != nil {
					return ty.Attr[attr]
				}
				panic(&absint.Undecided{Msg: attr + " of an unmodelled type"})
			}
			t.invokeN["Kind"] = func(ip *absint.Interp, a []absint.Value) absint.Value { return typeAttr(a[0], "kind") }
			t.invokeN["Elem"] = func(ip *absint.Interp, a []absint.Value) absint.Value { return typeAttr(a[0], "elem") }
			t.invokeN["IsSingletonCurrentlyInCreation"] = func(ip *absint.Interp, a []absint.Value) absint.Value {
				return absint.Bool(ip.Choose(2, "in creation") == 1)
			}
			t.callee[ro.PropertyInject] = func(ip *absint.Interp, a []absint.Value) absint.Value {
				if !ev(ip, "inject("+absint.Show(a[0])+","+absint.Show(a[1])+")") {
					return t.newErr("inject")
				}
				return absint.Nil{}
			}
			args := popArgs(outer, "holder")
			return t, args, nil
		}
		check := func(ip *absint.Interp, out absint.Outcome) {
			w := fmt.Sprintf("nested=%v trace=%v => %s", nested, trace, showOutcome(out))
			if out.Panic != nil {
				rs.fail("error", "PANIC "+w)
				return
			}
			var ev []string
			for _, e := range trace {
				if e != "!" && !strings.HasPrefix(e, "nested:") {
					ev = append(ev, e)
				}
			}
			want := []string{"props", `get("d1")`, `get("d2")`, "inject(N1,[created:d1 created:d2])", `get("d3")`, "inject(N3,[created:d3])"}
			isErr := len(out.Ret) == 1 && isErrTok(out.Ret[0])
			rs.hit("error")
			if isErr != wantErr || len(after) != 0 {
				rs.fail("error", w)
			}
			rs.hit("props-first")
			if len(ev) == 0 || ev[0] != "props" {
				rs.fail("props-first", w)
				return
			}
			row := "from-accessor"
			if nested {
				row = "re-entrant"
			}
			rs.hit(row)
			ok := len(ev) <= len(want) && (wantErr || len(ev) == len(want))
			for i := 0; ok && i < len(ev); i++ {
				ok = ev[i] == want[i]
			}
			if !ok {
				rs.fail(row, w+fmt.Sprintf(" expected %v", want))
			}
			if nested {
				// the nested population itself behaves like a population
				var nev []string
				for _, e := range trace {
					if strings.HasPrefix(e, "nested:") {
						nev = append(nev, strings.TrimPrefix(e, "nested:"))
					}
				}
				wantN := []string{"props", `get("x1")`, `get("x2")`, `get("x3")`, "inject(M1,[created:x1 created:x2 created:x3])"}
				if len(nev) > 0 && strings.Join(nev, " ") != strings.Join(wantN, " ") {
					rs.fail(row, w+fmt.Sprintf(" expected nested %v", wantN))
				}
			}
		}
		m, u := runTable(c, pop, build, check)
		runs += m
		if u != "" {
			return rs, runs, u
		}
	}
	return
}
