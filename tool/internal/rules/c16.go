package rules

import (
	"fmt"
	"go/types"
	"strings"

	"golang.org/x/tools/go/ssa"

	"iocvet/internal/absint"
	"iocvet/internal/core"
)

func init() { register("C16", c16) }

var presenceRows = map[string]string{
	"present":        "a configured value (non-nil, not an empty map or list) is used: the placeholder becomes its formatted text",
	"absent-default": "no value (nil, empty map, empty list) and a non-empty default: the placeholder becomes the formatted parsed default",
	"absent-nothing": "no value and no (or an empty) default: the placeholder becomes the empty text (or the text of the empty map/list itself), never anything else",
	"key-split":      "the configuration key is the text before the first ':' and the default everything after it",
	"recorded":       "the value actually used is recorded on the property under the key",
	"errors":         "a parse or format error makes the substitution fail",
}

// quoteCallback: the literal the placeholder processor hands to ReplaceAllContent.
func quoteCallback(c *core.Ctx, p *procInfo) *ssa.Function {
	elReplace := c.IfaceMethod("util/el", "Helper", "ReplaceAllContent")
	for _, ci := range core.Calls(p.Props) {
		if core.IsInvoke(ci.Common(), elReplace) {
			return core.ClosureOf(ci.Common().Args[1])
		}
	}
	return nil
}

func presenceTable(c *core.Ctx, p *procInfo, lit *ssa.Function) (rs rows, runs int, undecided string) {
	ro := c.Roles()
	rs = rows{}
	prop := c.Named("component_definition", "Property")
	setCfg := c.DeclaredMethod(prop, "SetConfiguration")
	mapAny := types.NewMap(types.Typ[types.String], types.NewInterfaceType(nil, nil))
	sliceAny := types.NewSlice(types.NewInterfaceType(nil, nil))
	type cfgVal struct {
		name   string
		val    func() absint.Value
		absent bool
	}
	vals := []cfgVal{
		{"nil", func() absint.Value { return absint.Nil{} }, true},
		{"emptyMap", func() absint.Value { return &absint.MapVal{M: map[string]absint.Value{}} }, true},
		{"map", func() absint.Value { return &absint.MapVal{M: map[string]absint.Value{"k": absint.Str("v")}} }, false},
		{"emptyList", func() absint.Value { return &absint.List{} }, true},
		{"list", func() absint.Value { return &absint.List{Elems: []absint.Value{absint.Str("x")}} }, false},
		{"scalar", func() absint.Value { return absint.NewTok("scalar", "cfg") }, false},
		{"emptyString", func() absint.Value { return absint.Str("") }, false},
		{"false", func() absint.Value { return absint.Bool(false) }, false},
		{"zero", func() absint.Value { return absint.Int(0) }, false},
	}
	exps := []struct{ text, key, def string }{{"a.b", "a.b", ""}, {"a.b:dflt", "a.b", "dflt"}, {"a.b:", "a.b", ""}, {"a.b:x:y", "a.b", "x:y"}}
	for _, v := range vals {
		for _, e := range exps {
			var asked, recorded []string
			var parseErr, fmtErr bool
			var used absint.Value
			build := func() (absint.Oracle, []absint.Value, []absint.Value) {
				asked, recorded, parseErr, fmtErr, used = nil, nil, false, false, nil
				t := newTbl(c)
				pr := absint.NewTok("prop", "property")
				pr.Fields["Configurations"] = &absint.MapVal{M: map[string]absint.Value{}}
				proc := absint.NewTok("proc", "processor")
				t.ext["strings.SplitN"] = func(ip *absint.Interp, a []absint.Value) absint.Value {
					s, ok1 := a[0].(absint.Str)
					sep, ok2 := a[1].(absint.Str)
					n, ok3 := a[2].(absint.Int)
					if !ok1 || !ok2 || !ok3 {
						panic(&absint.Undecided{Msg: "SplitN on non-literal arguments"})
					}
					l := &absint.List{}
					for _, part := range strings.SplitN(string(s), string(sep), int(n)) {
						l.Elems = append(l.Elems, absint.Str(part))
					}
					return l
				}
				t.ext["strings.Cut"] = func(ip *absint.Interp, a []absint.Value) absint.Value {
					s, _ := a[0].(absint.Str)
					sep, _ := a[1].(absint.Str)
					b, af, f := strings.Cut(string(s), string(sep))
					return absint.Tuple{absint.Str(b), absint.Str(af), absint.Bool(f)}
				}
				t.invoke[ro.BinderGet] = func(ip *absint.Interp, a []absint.Value) absint.Value {
					asked = append(asked, absint.Show(a[1]))
					return v.val()
				}
				t.typeTest = func(x absint.Value, T types.Type) (bool, bool) {
					switch x.(type) {
					case *absint.MapVal:
						return types.Identical(T, mapAny), true
					case *absint.List:
						return types.Identical(T, sliceAny), true
					case *absint.Tok, absint.Str, absint.Bool, absint.Int:
						return false, true
					}
					return false, false
				}
				t.ext["github.com/go-kid/strconv2.ParseAny"] = func(ip *absint.Interp, a []absint.Value) absint.Value {
					if parseErr = ip.Choose(2, "parse default") == 1; parseErr {
						return absint.Tuple{absint.Nil{}, t.newErr("parse")}
					}
					return absint.Tuple{absint.NewTok("parsed("+absint.Show(a[0])+")", "cfg"), absint.Nil{}}
				}
				t.ext["github.com/go-kid/strconv2.FormatAny"] = func(ip *absint.Interp, a []absint.Value) absint.Value {
					used = a[0]
					if fmtErr = ip.Choose(2, "format") == 1; fmtErr {
						return absint.Tuple{absint.Str(""), t.newErr("format")}
					}
					return absint.Tuple{absint.NewTok("formatted("+absint.Show(a[0])+")", "text"), absint.Nil{}}
				}
				if setCfg != nil {
					t.callee[setCfg] = func(ip *absint.Interp, a []absint.Value) absint.Value {
						recorded = append(recorded, absint.Show(a[1])+"="+absint.Show(a[2]))
						return nil
					}
				}
				var bind []absint.Value
				for _, fv := range lit.FreeVars {
					et := fv.Type()
					if pt, ok := et.Underlying().(*types.Pointer); ok {
						et = pt.Elem()
					}
					switch {
					case core.NamedOf(et) == prop:
						bind = append(bind, &absint.Cell{V: pr})
					case types.IsInterface(et):
						bind = append(bind, &absint.Cell{V: &absint.Opaque{Why: "logger"}})
					default:
						bind = append(bind, &absint.Cell{V: proc})
					}
				}
				return t, []absint.Value{absint.Str(e.text)}, bind
			}
			check := func(ip *absint.Interp, out absint.Outcome) {
				w := fmt.Sprintf("placeholder=%q value=%s asked=%v recorded=%v formatted=%s => %s", e.text, v.name, asked, recorded, absint.Show(used), showOutcome(out))
				if out.Panic != nil {
					rs.fail("errors", "PANIC "+w)
					return
				}
				rs.hit("key-split")
				if len(asked) != 1 || asked[0] != fmt.Sprintf("%q", e.key) {
					rs.fail("key-split", w)
				}
				isErr := len(out.Ret) == 2 && isErrTok(out.Ret[1])
				if parseErr || fmtErr {
					rs.hit("errors")
					if !isErr {
						rs.fail("errors", w)
					}
					return
				}
				if isErr {
					rs.fail("errors", "unexpected error: "+w)
					return
				}
				ret := absint.Show(out.Ret[0])
				switch {
				case !v.absent:
					rs.hit("present")
					if !strings.HasPrefix(ret, "formatted(") || strings.Contains(ret, "parsed(") {
						rs.fail("present", w)
					}
				case e.def != "":
					rs.hit("absent-default")
					if ret != fmt.Sprintf("formatted(parsed(%q))", e.def) {
						rs.fail("absent-default", w)
					}
				default:
					rs.hit("absent-nothing")
					// the empty text, or the text of the empty container itself (an empty value either way)
					if ret != `""` && !(ret == "formatted("+absint.Show(v.val())+")" && v.name != "nil") {
						rs.fail("absent-nothing", w)
					}
				}
				rs.hit("recorded")
				okRec := len(recorded) == 1 && strings.HasPrefix(recorded[0], fmt.Sprintf("%q=", e.key))
				if okRec && v.absent && e.def != "" {
					okRec = strings.Contains(recorded[0], "parsed(")
				}
				if !okRec {
					rs.fail("recorded", w)
				}
			}
			n, u := runTable(c, lit, build, check)
			runs += n
			if u != "" {
				return rs, runs, u
			}
		}
	}
	return
}

func c16(c *core.Ctx, r *core.Report) {
	r.Explanation = "C16 placeholders: (R1) every loop of the expression helper package has a bounded form (range over a value, counted loop, or a loop with an exit guarded by an induction variable compared against a loop-invariant bound): resolution of one text performs a bounded number of substitutions and ends in an error otherwise; (R2/R3/R5) the placeholder callback is interpreted abstractly on every combination of {nil, empty map, map, empty list, list, scalar, empty string, false, 0} x {key, key:default, key:, key:a:b} x parse/format outcomes and compared with the presence rule, the key/default split at the first ':' and error propagation; (R4) the stage substitutes in TagStr, handles the helper's error and commits the result to TagVal, which later stages read. Decides the termination premise and the presence rule; the produced text itself, regexp and viper are trusted."
	r.Assumptions = []string{"regexp.FindString and strings.Replace terminate", "Binder.Get returns nil for an unset key"}
	// R1
	c02Loops16(c, r)
	ps := builtinProcessors(c)
	quotes := withRole(ps, "quote", true)
	if !r.Floor("C16.R2", "registered placeholder processor", len(quotes), 1) {
		return
	}
	for _, p := range quotes {
		checkReplaceStage(c, r, "C16.R4", p, "TagStr")
		lit := quoteCallback(c, p)
		if lit == nil {
			r.Undecided("C16.R2", p.Name()+":callback", c.FnPos(p.Props), "placeholder callback is not a function literal")
			continue
		}
		rs, runs, und := presenceTable(c, p, lit)
		r.Count("presence_table_runs", runs)
		cons := "presence-table:" + p.Name()
		if und != "" {
			r.Undecided("C16.R2", cons, c.FnPos(lit), "abstract interpretation left the model: "+und)
			continue
		}
		smallModelCheck(c, r, "C16.R2", cons, lit, 2)
		rs.report(c, r, lit, func(row string) string {
			switch row {
			case "key-split":
				return "C16.R3"
			case "errors":
				return "C16.R5"
			}
			return "C16.R2"
		}, cons, presenceRows)
	}
	r.Exhaustive = true
}

// c02Loops16: loop forms in util/el (and nothing is exempt there).
func c02Loops16(c *core.Ctx, r *core.Report) {
	loops := loopsIn(c, []string{"util/el"})
	r.Count("loops_classified", len(loops))
	if !r.Floor("C16.R1", "loops in the expression helper", len(loops), 2) {
		return
	}
	forms := map[string]int{}
	for _, l := range loops {
		form, why := loopForm(l.Info, l.Node)
		forms[form]++
		cons := fmt.Sprintf("loop:%s.%s#%d", l.Pkg, l.Func, l.Ord)
		if form == "unbounded" {
			r.Fail("C16.R1", cons, c.Pos(l.Node.Pos()), "substitution loop has no bounded form: "+why+" (a configuration value that refers to itself would make start-up spin forever)")
		} else {
			r.Hold("C16.R1", cons, c.Pos(l.Node.Pos()), "bounded form: "+form)
		}
	}
	// the helper's implementation must be reached: ReplaceAllContent implementors
	n := 0
	for _, T := range c.Implementors(c.Iface("util/el", "Helper")) {
		if m := c.DeclaredMethod(T, "ReplaceAllContent"); m != nil {
			n++
			// an error of the callback propagates
			for _, ci := range core.Calls(m) {
				call, ok := ci.(*ssa.Call)
				if !ok || call.Common().StaticCallee() != nil || call.Common().IsInvoke() {
					continue
				}
				if _, isB := call.Common().Value.(*ssa.Builtin); isB {
					continue
				}
				if core.ReturnsError(call.Common().Signature()) {
					u := core.ClassifyErr(call)
					r.Check(u.Class == core.ErrTested || u.Class == core.ErrReturned, "C16.R5", "callback-error@"+core.FnName(m), c.Pos(call.Pos()), "an error of the substitution callback ends the substitution with that error ("+string(u.Class)+")")
				}
			}
		}
	}
	r.Floor("C16.R1", "el.Helper implementations", n, 1)
}
