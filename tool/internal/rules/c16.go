package rules

import (
	"fmt"
	"go/types"
	"regexp"
	"strings"
	"sync"

	"golang.org/x/tools/go/ssa"

	"iocvet/internal/absint"
	"iocvet/internal/core"
)

func init() { register("C16", c16) }

var presenceRows = map[string]string{
	"present":        "a configured value (non-nil, not an empty map or list) is used: the placeholder becomes its formatted text",
	"absent-default": "no value (nil, empty map, empty list) and a non-empty default: the placeholder becomes the formatted parsed default",
	"absent-nothing": "no value and no (or an empty) default: the placeholder becomes the empty text (or the text of the empty map/list itself), never anything else",
	"key-split":      "the configuration key is the text before the first ':' and the default everything after it",
	"recorded":       "the value actually used is recorded on the property under the key",
	"errors":         "a parse or format error makes the substitution fail",
}

// typedTok: a configuration value of a basic Go type (answers type switches on that type).
func typedTok(basic string) *absint.Tok {
	t := absint.NewTok("value:"+basic, "cfg")
	t.Attr["basic"] = absint.Str(basic)
	return t
}

// quoteCallback: the literal the placeholder processor hands to ReplaceAllContent.
func quoteCallback(c *core.Ctx, p *procInfo) *ssa.Function {
	elReplace := c.IfaceMethod("util/el", "Helper", "ReplaceAllContent")
	for _, f := range p.Body { // the method first, then the helpers it is split into
		for _, ci := range core.Calls(f) {
			if core.IsInvoke(ci.Common(), elReplace) {
				return core.ClosureOf(ci.Common().Args[1])
			}
		}
	}
	return nil
}

func presenceTable(c *core.Ctx, p *procInfo, lit *ssa.Function) (rs rows, runs int, undecided string) {
	ro := c.Roles()
	rs = rows{}
	prop := c.Named("component_definition", "Property")
	setCfg := c.DeclaredMethod(prop, "SetConfiguration")
	mapAny := types.NewMap(types.Typ[types.String], types.NewInterfaceType(nil, nil))
	sliceAny := types.NewSlice(types.NewInterfaceType(nil, nil))
	type cfgVal struct {
		name   string
		val    func() absint.Value
		absent bool
	}
	vals := []cfgVal{
		{"nil", func() absint.Value { return absint.Nil{} }, true},
		{"emptyMap", func() absint.Value { return &absint.MapVal{M: map[string]absint.Value{}} }, true},
		{"map", func() absint.Value { return &absint.MapVal{M: map[string]absint.Value{"k": absint.Str("v")}} }, false},
		{"emptyList", func() absint.Value { return &absint.List{} }, true},
		{"list", func() absint.Value { return &absint.List{Elems: []absint.Value{absint.Str("x")}} }, false},
		{"scalar", func() absint.Value { return absint.NewTok("scalar", "cfg") }, false},
		{"emptyString", func() absint.Value { return absint.Str("") }, false},
		{"false", func() absint.Value { return absint.Bool(false) }, false},
		{"zero", func() absint.Value { return absint.Int(0) }, false},
		// typed scalars: a value of any Go type a configuration source can yield goes through the one formatter
		{"float64", func() absint.Value { return typedTok("float64") }, false},
		{"float32", func() absint.Value { return typedTok("float32") }, false},
		{"int64", func() absint.Value { return typedTok("int64") }, false},
		{"uint", func() absint.Value { return typedTok("uint") }, false},
		{"time.Duration", func() absint.Value { return typedTok("int64") }, false},
	}
	exps := []struct{ text, key, def string }{{"a.b", "a.b", ""}, {"a.b:dflt", "a.b", "dflt"}, {"a.b:", "a.b", ""}, {"a.b:x:y", "a.b", "x:y"}, {"a.b: d ", "a.b", " d "},
		// the default is whatever follows the first ':' - texts that another syntax would read differently included
		{"a.b:-1", "a.b", "-1"}, {"a.b:--v", "a.b", "--v"}, {"a.b:=x", "a.b", "=x"}, {"a.b:?e", "a.b", "?e"}, {"a.b:+y", "a.b", "+y"}}
	for _, v := range vals {
		for _, e := range exps {
			for _, history := range []bool{false, true} {
				// history: the same processor has resolved the same key without a default before (what a placeholder
				// resolves to depends on the configuration and its own text, not on what was asked earlier)
				if history && (!v.absent || e.def == "" || e.text != "a.b:dflt") {
					continue
				}
				var asked, recorded []string
				var parseErr, fmtErr bool
				var used absint.Value
				build := func() (absint.Oracle, []absint.Value, []absint.Value) {
					asked, recorded, parseErr, fmtErr, used = nil, nil, false, false, nil
					t := newTbl(c)
					pr := absint.NewTok("prop", "property")
					pr.Fields["Configurations"] = &absint.MapVal{M: map[string]absint.Value{}}
					proc := absint.NewTok("proc", "processor")
					t.ext["strings.SplitN"] = func(ip *absint.Interp, a []absint.Value) absint.Value {
						s, ok1 := a[0].(absint.Str)
						sep, ok2 := a[1].(absint.Str)
						n, ok3 := a[2].(absint.Int)
						if !ok1 || !ok2 || !ok3 {
							panic(&absint.Undecided{Msg: "SplitN on non-literal arguments"})
						}
						l := &absint.List{}
						for _, part := range strings.SplitN(string(s), string(sep), int(n)) {
							l.Elems = append(l.Elems, absint.Str(part))
						}
						return l
					}
					t.ext["strings.Cut"] = func(ip *absint.Interp, a []absint.Value) absint.Value {
						s, _ := a[0].(absint.Str)
						sep, _ := a[1].(absint.Str)
						b, af, f := strings.Cut(string(s), string(sep))
						return absint.Tuple{absint.Str(b), absint.Str(af), absint.Bool(f)}
					}
					t.invoke[ro.BinderGet] = func(ip *absint.Interp, a []absint.Value) absint.Value {
						asked = append(asked, absint.Show(a[1]))
						return v.val()
					}
					t.typeTest = func(x absint.Value, T types.Type) (bool, bool) {
						switch x.(type) {
						case *absint.MapVal:
							return types.Identical(T, mapAny), true
						case *absint.List:
							return types.Identical(T, sliceAny), true
						case *absint.Tok:
							if tk := x.(*absint.Tok); tk.Attr["basic"] != nil {
								b, isB := T.Underlying().(*types.Basic)
								return isB && !types.IsInterface(T) && b.Name() == string(tk.Attr["basic"].(absint.Str)), true
							}
							return false, true
						case absint.Str, absint.Bool, absint.Int:
							return false, true
						}
						return false, false
					}
					t.ext["github.com/go-kid/strconv2.ParseAny"] = func(ip *absint.Interp, a []absint.Value) absint.Value {
						if parseErr = ip.Choose(2, "parse default") == 1; parseErr {
							return absint.Tuple{absint.Nil{}, t.newErr("parse")}
						}
						return absint.Tuple{absint.NewTok("parsed("+absint.Show(a[0])+")", "cfg"), absint.Nil{}}
					}
					t.ext["github.com/go-kid/strconv2.FormatAny"] = func(ip *absint.Interp, a []absint.Value) absint.Value {
						used = a[0]
						if fmtErr = ip.Choose(2, "format") == 1; fmtErr {
							return absint.Tuple{absint.Str(""), t.newErr("format")}
						}
						return absint.Tuple{absint.NewTok("formatted("+absint.Show(a[0])+")", "text"), absint.Nil{}}
					}
					// a small model of reflect over the table's configuration values
					t.ext["reflect.ValueOf"] = func(ip *absint.Interp, a []absint.Value) absint.Value {
						rv := absint.NewTok("rv", "reflected")
						rv.Attr["of"] = a[0]
						return rv
					}
					of := func(v absint.Value) absint.Value {
						rv, ok := v.(*absint.Tok)
						if !ok || rv.Class != "reflected" {
							panic(&absint.Undecided{Msg: "reflect method on an unmodelled value"})
						}
						return rv.Attr["of"]
					}
					t.ext["(reflect.Value).IsValid"] = func(ip *absint.Interp, a []absint.Value) absint.Value {
						_, isNil := of(a[0]).(absint.Nil)
						return absint.Bool(!isNil)
					}
					t.ext["(reflect.Value).Kind"] = func(ip *absint.Interp, a []absint.Value) absint.Value {
						switch of(a[0]).(type) {
						case absint.Nil:
							return absint.Int(0)
						case absint.Bool:
							return absint.Int(1)
						case absint.Int:
							return absint.Int(2)
						case *absint.MapVal:
							return absint.Int(21)
						case *absint.List:
							return absint.Int(23)
						case absint.Str:
							return absint.Int(24)
						}
						return absint.Int(25) // an opaque scalar: modelled as a struct-kind value
					}
					t.ext["(reflect.Value).Len"] = func(ip *absint.Interp, a []absint.Value) absint.Value {
						switch x := of(a[0]).(type) {
						case *absint.MapVal:
							return absint.Int(len(x.M))
						case *absint.List:
							return absint.Int(len(x.Elems))
						case absint.Str:
							return absint.Int(len(x))
						}
						panic(&absint.GoPanic{Msg: "reflect: call of reflect.Value.Len on a value without length"})
					}
					t.ext["(reflect.Value).IsNil"] = func(ip *absint.Interp, a []absint.Value) absint.Value {
						switch x := of(a[0]).(type) {
						case *absint.MapVal:
							return absint.Bool(x.IsNil)
						case *absint.List:
							return absint.Bool(x.IsNil && len(x.Elems) == 0)
						case absint.Nil:
							panic(&absint.GoPanic{Msg: "reflect: call of reflect.Value.IsNil on zero Value"})
						}
						panic(&absint.GoPanic{Msg: "reflect: call of reflect.Value.IsNil on a non-nillable value"})
					}
					t.ext["(reflect.Value).IsZero"] = func(ip *absint.Interp, a []absint.Value) absint.Value {
						switch x := of(a[0]).(type) {
						case absint.Bool:
							return absint.Bool(!bool(x))
						case absint.Int:
							return absint.Bool(x == 0)
						case absint.Str:
							return absint.Bool(x == "")
						case *absint.MapVal:
							return absint.Bool(x.IsNil)
						case *absint.List:
							return absint.Bool(x.IsNil && len(x.Elems) == 0)
						case absint.Nil:
							panic(&absint.GoPanic{Msg: "reflect: call of reflect.Value.IsZero on zero Value"})
						}
						return absint.Bool(false)
					}
					if setCfg != nil {
						t.callee[setCfg] = func(ip *absint.Interp, a []absint.Value) absint.Value {
							recorded = append(recorded, absint.Show(a[1])+"="+absint.Show(a[2]))
							return nil
						}
					}
					_, recv, bind := callbackFrame(lit, func(ty types.Type) absint.Value {
						et := ty
						if pt, ok := et.Underlying().(*types.Pointer); ok {
							et = pt.Elem()
						}
						switch {
						case core.NamedOf(et) == prop:
							return pr
						case types.IsInterface(et):
							return &absint.Opaque{Why: "logger"}
						case core.NamedOf(et) == p.T:
							return proc
						}
						return nil
					})
					if history {
						first := append(append([]absint.Value(nil), recv...), absint.Str(e.key))
						t.setup = func(ip0 *absint.Interp) {
							if o := ip0.Run(resolveWrapper(lit), first, bind); o.Undecided != nil {
								panic(&absint.Undecided{Msg: "an earlier placeholder with the same key: " + o.Undecided.Msg})
							}
							asked, recorded, parseErr, fmtErr, used = nil, nil, false, false, nil
						}
					}
					return t, append(recv, absint.Str(e.text)), bind
				}
				check := func(ip *absint.Interp, out absint.Outcome) {
					w := fmt.Sprintf("placeholder=%q value=%s asked=%v recorded=%v formatted=%s => %s", e.text, v.name, asked, recorded, absint.Show(used), showOutcome(out))
					if out.Panic != nil {
						rs.fail("errors", "PANIC "+w)
						return
					}
					rs.hit("key-split")
					if len(asked) != 1 || asked[0] != fmt.Sprintf("%q", e.key) {
						rs.fail("key-split", w)
					}
					isErr := len(out.Ret) == 2 && isErrTok(out.Ret[1])
					if parseErr || fmtErr {
						rs.hit("errors")
						if !isErr {
							rs.fail("errors", w)
						}
						return
					}
					if isErr {
						rs.fail("errors", "unexpected error: "+w)
						return
					}
					ret := absint.Show(out.Ret[0])
					switch {
					case !v.absent:
						rs.hit("present")
						if !strings.HasPrefix(ret, "formatted(") || strings.Contains(ret, "parsed(") {
							rs.fail("present", w)
						}
					case e.def != "":
						rs.hit("absent-default")
						if ret != fmt.Sprintf("formatted(parsed(%q))", e.def) {
							rs.fail("absent-default", w)
						}
					default:
						rs.hit("absent-nothing")
						// the empty text, or the text of the empty container itself (an empty value either way)
						if ret != `""` && !(ret == "formatted("+absint.Show(v.val())+")" && v.name != "nil") {
							rs.fail("absent-nothing", w)
						}
					}
					rs.hit("recorded")
					okRec := len(recorded) == 1 && strings.HasPrefix(recorded[0], fmt.Sprintf("%q=", e.key))
					if okRec && v.absent && e.def != "" {
						okRec = strings.Contains(recorded[0], "parsed(")
					}
					if !okRec {
						rs.fail("recorded", w)
					}
				}
				n, u := runTable(c, resolveWrapper(lit), build, check)
				runs += n
				if u != "" {
					return rs, runs, u
				}
			}
		}
	}
	return
}

func c16(c *core.Ctx, r *core.Report) {
	r.Explanation = "C16 placeholders: (R1) every loop of the expression helper package has a bounded form (range over a value, counted loop, or a loop with an exit guarded by an induction variable compared against a loop-invariant bound): resolution of one text performs a bounded number of substitutions and ends in an error otherwise; (R2/R3/R5) the placeholder callback is interpreted abstractly on every combination of {nil, empty map, map, empty list, list, scalar, empty string, false, 0} x {key, key:default, key:, key:a:b} x parse/format outcomes and compared with the presence rule, the key/default split at the first ':' and error propagation; (R7) the substitution engine itself is interpreted on a table of concrete texts (repeated, adjacent, nested, self-introducing, failing and endless expressions) with regexp/strings modelled by their standard implementations; (R6) the ${ } and #{ } helpers are built from brace-free patterns (nested expressions resolve innermost first) and strip exactly their delimiters, and each stage uses its own helper; (R4) the stage substitutes in TagStr, handles the helper's error and commits the result to TagVal, which later stages read. Decides the termination premise and the presence rule; the produced text itself, regexp and viper are trusted."
	r.Assumptions = []string{"regexp.FindString and strings.Replace terminate", "Binder.Get returns nil for an unset key"}
	// R1
	c02Loops16(c, r)
	c16Delimiters(c, r)
	replaceAllTable(c, r, "C16.R7")
	ps := builtinProcessors(c)
	quotes := withRole(ps, "quote", true)
	if !r.Floor("C16.R2", "registered placeholder processor", len(quotes), 1) {
		return
	}
	for _, p := range quotes {
		checkReplaceStage(c, r, "C16.R4", p, "TagStr")
		lit := quoteCallback(c, p)
		if lit == nil {
			r.Undecided("C16.R2", p.Name()+":callback", c.FnPos(p.Props), "placeholder callback is not a function literal")
			continue
		}
		rs, runs, und := presenceTable(c, p, lit)
		r.Count("presence_table_runs", runs)
		cons := "presence-table:" + p.Name()
		if und != "" {
			r.Undecided("C16.R2", cons, c.FnPos(lit), "abstract interpretation left the model: "+und)
			continue
		}
		smallModelCheck(c, r, "C16.R2", cons, lit, 2)
		rs.report(c, r, lit, func(row string) string {
			switch row {
			case "key-split":
				return "C16.R3"
			case "errors":
				return "C16.R5"
			}
			return "C16.R2"
		}, cons, presenceRows)
	}
	r.Exhaustive = true
}

// c02Loops16: loop forms in util/el (and nothing is exempt there).
func c02Loops16(c *core.Ctx, r *core.Report) {
	loops := loopsIn(c, []string{"util/el"})
	r.Count("loops_classified", len(loops))
	if !r.Floor("C16.R1", "loops in the expression helper", len(loops), 2) {
		return
	}
	forms := map[string]int{}
	for _, l := range loops {
		form, why := loopForm(l.Info, l.Node)
		forms[form]++
		cons := fmt.Sprintf("loop:%s.%s#%d", l.Pkg, l.Func, l.Ord)
		if form == "unbounded" && ssaLoopBounded(c, l.Node) {
			form = "bounded-exit(ssa)"
			forms["unbounded"]--
			forms[form]++
		}
		if form == "unbounded" {
			r.Fail("C16.R1", cons, c.Pos(l.Node.Pos()), "substitution loop has no bounded form: "+why+" (a configuration value that refers to itself would make start-up spin forever)")
		} else {
			r.Hold("C16.R1", cons, c.Pos(l.Node.Pos()), "bounded form: "+form)
		}
	}
	// the helper's implementation must be reached: ReplaceAllContent implementors
	n := 0
	for _, T := range c.Implementors(c.Iface("util/el", "Helper")) {
		if m := c.DeclaredMethod(T, "ReplaceAllContent"); m != nil {
			n++
			// an error of the callback propagates
			for _, ci := range core.Calls(m) {
				call, ok := ci.(*ssa.Call)
				if !ok || call.Common().StaticCallee() != nil || call.Common().IsInvoke() {
					continue
				}
				if _, isB := call.Common().Value.(*ssa.Builtin); isB {
					continue
				}
				if core.ReturnsError(call.Common().Signature()) {
					u := core.ClassifyErr(call)
					r.Check(u.Class == core.ErrTested || u.Class == core.ErrReturned, "C16.R5", "callback-error@"+core.FnName(m), c.Pos(call.Pos()), "an error of the substitution callback ends the substitution with that error ("+string(u.Class)+")")
				}
			}
		}
	}
	r.Floor("C16.R1", "el.Helper implementations", n, 1)
}

// c16Delimiters: R6 — each expression helper is built from a pattern <open>[^{}]*} whose content cannot contain
// braces (so nested expressions are resolved innermost first) and strips exactly the delimiters; the placeholder
// processor uses the ${ } helper and the expression processor the #{ } helper.
func c16Delimiters(c *core.Ctx, r *core.Report) {
	newEl := c.Func("util/el", "newEl")
	type hv struct {
		name, open string
	}
	ctors := map[*ssa.Function]string{}
	for _, h := range []hv{{"NewQuote", "${"}, {"NewExpr", "#{"}} {
		fn := c.Func("util/el", h.name)
		cons := "delimiters:el." + h.name
		if fn == nil || newEl == nil {
			r.Undecided("C16.R6", cons, "", "helper constructor not found")
			continue
		}
		ctors[fn] = h.open
		ok, detail := false, "constructor shape not recognised"
		for _, ci := range core.Calls(fn) {
			if !core.IsCallTo(ci.Common(), newEl) {
				continue
			}
			a := ci.Common().Args
			if len(a) != 3 {
				continue
			}
			pre, ok1 := core.ConstInt(a[1])
			suf, ok2 := core.ConstInt(a[2])
			var pat string
			okPat := false
			if call, isCall := core.Norm(a[0]).(*ssa.Call); isCall && core.IsExtCall(call.Common(), "regexp.MustCompile") {
				pat, okPat = core.ConstString(call.Common().Args[0])
			}
			if !ok1 || !ok2 || !okPat {
				continue
			}
			const body = "[^{}]*}"
			if !strings.HasSuffix(pat, body) {
				detail = "pattern " + pat + " does not end in " + body
				continue
			}
			open := strings.ReplaceAll(strings.TrimSuffix(pat, body), "\\", "")
			ok = open == h.open && int(pre) == len(open) && suf == 1
			detail = fmt.Sprintf("pattern %q, strips %d+%d characters", pat, pre, suf)
		}
		if !ok && detail == "constructor shape not recognised" {
			// another constructor shape: what the helper matches and strips is decided by the substitution table
			// (C16.R7 interprets the constructor and the engine on concrete texts with the real pattern)
			continue
		}
		r.Check(ok, "C16.R6", cons, c.FnPos(fn), "the helper matches "+h.open+"...} with brace-free content and strips exactly its delimiters: "+detail)
	}
	// content() slices by the stored lengths
	// processors use the right helper
	for _, p := range builtinProcessors(c) {
		want := ""
		switch {
		case p.Roles["quote"]:
			want = "${"
		case p.Roles["expr"]:
			want = "#{"
		default:
			continue
		}
		// the helper field(s): of the processor itself, or of an object of its package it keeps its engine in
		var stores []core.FieldAccess
		helperT := c.Named("util/el", "Helper")
		for _, owner := range stateTypes(p.T) {
			st := core.StructOf(owner)
			for i := 0; st != nil && i < st.NumFields(); i++ {
				isHelper := helperT != nil && core.NamedOf(st.Field(i).Type()) == helperT
				if it, isIface := st.Field(i).Type().Underlying().(*types.Interface); isIface && helperT != nil && !isHelper && it.NumMethods() > 0 {
					// a narrowed view of the helper: an interface the helper satisfies that has its substitution method
					for k := 0; k < it.NumMethods(); k++ {
						if it.Method(k).Name() == "ReplaceAllContent" && types.Implements(helperT, it) {
							isHelper = true
						}
					}
				}
				if isHelper {
					ss, _ := c.FieldAccesses(owner, st.Field(i).Name())
					stores = append(stores, ss...)
				}
			}
		}
		ok := len(stores) > 0
		for _, st := range stores {
			good := false
			for _, o := range originsThroughParams(c, st.Store.Val, 0) {
				if call, isCall := o.(*ssa.Call); isCall {
					if cal := call.Common().StaticCallee(); cal != nil && ctors[cal] == want {
						good = true
					}
				} else {
					good = false // something else than a constructor's result reaches the field
					break
				}
			}
			if !good {
				ok = false
			}
		}
		r.Check(ok, "C16.R6", "helper-of:"+p.Name(), c.Pos(p.T.Obj().Pos()), "the processor is wired with the "+want+" } helper")
	}
}

// replaceAllTable: the substitution engine resolves every expression of a text completely - repeated, adjacent,
// nested (innermost first) and those introduced by a replacement - calls the callback with the content between the
// delimiters, propagates its error and gives up with an error on endless substitution.  The helper is built by
// interpreting its constructor; regexp and strings functions are modelled by their standard implementations on the
// concrete texts of the table.
var rxCache sync.Map

func replaceAllTable(c *core.Ctx, r *core.Report, rule string) {
	type hc struct {
		ctor  string
		open  string
		cases []struct{ in, want string }
	}
	dict := map[string]string{"a": "1", "b": "2", "env": "dev", "limits.dev": "42", "x": "${y}", "y": "7", "empty": "", "self": "${self}", "grow": "g${grow}", "hash": "#{1}", "double": "${double}-${double}", "left": "${right}${right}", "right": "<${left}>"}
	helpers := []hc{
		{"NewQuote", "${", []struct{ in, want string }{
			{"plain", "plain"}, {"${a}", "1"}, {"p${a}q${b}r${a}", "p1q2r1"}, {"${limits.${env}}", "42"}, {"#{${limits.${env}}*2}", "#{42*2}"},
			{"${x}", "7"}, {"${empty}${a}", "1"}, {"${a}${limits.${env}}", "142"}, {"${boom}", "ERROR"}, {"${self}", "ERROR"}, {"${grow}", "ERROR"}, {"${hash}", "#{1}"}, {"${double}", "ERROR"}, {"${left}", "ERROR"}}},
		{"NewExpr", "#{", []struct{ in, want string }{{"#{a}+#{b}", "1+2"}, {"${a}", "${a}"}, {"#{limits.#{env}}", "42"}}},
	}
	for _, h := range helpers {
		ctor := c.Func("util/el", h.ctor)
		cons := "replace-all-table:el." + h.ctor
		if ctor == nil {
			r.Undecided(rule, cons, "", "helper constructor not found")
			continue
		}
		var impl *ssa.Function
		for _, T := range c.Implementors(c.Iface("util/el", "Helper")) {
			if m := c.DeclaredMethod(T, "ReplaceAllContent"); m != nil {
				impl = m
			}
		}
		if impl == nil {
			r.Undecided(rule, cons, "", "ReplaceAllContent implementation not found")
			continue
		}
		bad := ""
		runs := 0
		for _, cs := range h.cases {
			var asked []string
			mkOracle := func() *tbl {
				t := newTbl(c)
				str := func(v absint.Value) string {
					s, ok := v.(absint.Str)
					if !ok {
						panic(&absint.Undecided{Msg: "string function on a non-literal: " + absint.Show(v)})
					}
					return string(s)
				}
				t.ext["regexp.MustCompile"] = func(ip *absint.Interp, a []absint.Value) absint.Value {
					re := absint.NewTok("regexp", "regexp")
					re.Attr["pattern"] = a[0]
					return re
				}
				rx := func(v absint.Value) *regexp.Regexp {
					re, ok := v.(*absint.Tok)
					if !ok || re.Attr["pattern"] == nil {
						panic(&absint.Undecided{Msg: "regexp method on something that is not a compiled pattern"})
					}
					pat := str(re.Attr["pattern"])
					if x, ok := rxCache.Load(pat); ok {
						return x.(*regexp.Regexp)
					}
					x, err := regexp.Compile(pat)
					if err != nil {
						panic(&absint.GoPanic{Msg: "regexp: " + err.Error()})
					}
					rxCache.Store(pat, x)
					return x
				}
				t.ext["(*regexp.Regexp).FindString"] = func(ip *absint.Interp, a []absint.Value) absint.Value {
					return absint.Str(rx(a[0]).FindString(str(a[1])))
				}
				t.ext["(*regexp.Regexp).FindAllString"] = func(ip *absint.Interp, a []absint.Value) absint.Value {
					n, _ := a[2].(absint.Int)
					all := rx(a[0]).FindAllString(str(a[1]), int(n))
					l := &absint.List{IsNil: all == nil}
					for _, m := range all {
						l.Elems = append(l.Elems, absint.Str(m))
					}
					return l
				}
				t.ext["(*regexp.Regexp).ReplaceAllStringFunc"] = func(ip *absint.Interp, a []absint.Value) absint.Value {
					return absint.Str(rx(a[0]).ReplaceAllStringFunc(str(a[1]), func(m string) string {
						return str(ip.CallValue(a[2], absint.Str(m)))
					}))
				}
				t.ext["(*regexp.Regexp).MatchString"] = func(ip *absint.Interp, a []absint.Value) absint.Value {
					return absint.Bool(rx(a[0]).MatchString(str(a[1])))
				}
				t.ext["(*regexp.Regexp).FindStringIndex"] = func(ip *absint.Interp, a []absint.Value) absint.Value {
					loc := rx(a[0]).FindStringIndex(str(a[1]))
					if loc == nil {
						return &absint.List{IsNil: true}
					}
					return &absint.List{Elems: []absint.Value{absint.Int(loc[0]), absint.Int(loc[1])}}
				}
				t.ext["strings.Replace"] = func(ip *absint.Interp, a []absint.Value) absint.Value {
					n, _ := a[3].(absint.Int)
					return absint.Str(strings.Replace(str(a[0]), str(a[1]), str(a[2]), int(n)))
				}
				t.ext["strings.Index"] = func(ip *absint.Interp, a []absint.Value) absint.Value {
					return absint.Int(strings.Index(str(a[0]), str(a[1])))
				}
				t.ext["strings.Contains"] = func(ip *absint.Interp, a []absint.Value) absint.Value {
					return absint.Bool(strings.Contains(str(a[0]), str(a[1])))
				}
				return t
			}
			// build the helper by interpreting its constructor
			t0 := mkOracle()
			ip0 := absint.New(t0)
			ip0.IsLog, ip0.InScope = core.IsLogCall, c.InScope
			o0 := ip0.Run(ctor, nil, nil)
			if o0.Undecided != nil || o0.Panic != nil || len(o0.Ret) != 1 {
				bad = "constructor left the model: " + showOutcome(o0)
				if o0.Undecided != nil {
					bad += " " + o0.Undecided.Msg
				}
				break
			}
			helper := o0.Ret[0]
			cb := absint.NewTok("callback", "func")
			build := func() (absint.Oracle, []absint.Value, []absint.Value) {
				asked = nil
				t := mkOracle()
				t.dynamic = func(ip *absint.Interp, fn absint.Value, a []absint.Value) (absint.Value, bool) {
					if fn != absint.Value(cb) {
						return nil, false
					}
					k, _ := a[0].(absint.Str)
					asked = append(asked, string(k))
					v, ok := dict[string(k)]
					if !ok {
						return absint.Tuple{absint.Str(""), t.newErr("lookup")}, true
					}
					return absint.Tuple{absint.Str(v), absint.Nil{}}, true
				}
				return t, []absint.Value{helper, absint.Str(cs.in), cb}, nil
			}
			check := func(ip *absint.Interp, out absint.Outcome) {
				got := showOutcome(out)
				isErr := len(out.Ret) == 2 && isErrTok(out.Ret[1])
				ok := out.Panic == nil
				if cs.want == "ERROR" {
					ok = ok && isErr
				} else {
					ok = ok && !isErr && len(out.Ret) == 2 && out.Ret[0] == absint.Value(absint.Str(cs.want))
				}
				if !ok {
					bad = fmt.Sprintf("%s on %q: callback asked %v => %s, want %q", h.ctor, cs.in, firstN(asked, 6), got, cs.want)
				}
			}
			ipFuel := 250000
			var tape []int
			for {
				orc, args, bind := build()
				ip := absint.New(orc)
				ip.IsLog, ip.InScope, ip.Tape, ip.Fuel = core.IsLogCall, c.InScope, tape, ipFuel
				out := ip.Run(impl, args, bind)
				runs++
				if out.Undecided != nil {
					bad = "left the model: " + out.Undecided.Msg
					break
				}
				check(ip, out)
				next, more := absint.NextTape(padTape(tape, len(ip.Arity)), ip.Arity)
				if !more {
					break
				}
				tape = next
			}
		}
		r.Check(bad == "", rule, cons, c.FnPos(impl), fmt.Sprintf("every expression of a text is resolved completely - repeated, adjacent, nested innermost-first and those a replacement introduces; callback errors and endless substitution end in an error (%d abstract runs over %d texts) %s", runs, len(h.cases), bad))
	}
}

// originsThroughParams: the origins of v; where one is a parameter of an unexported function that is only ever called
// directly, the origins of what every call site passes for it (two levels).
func originsThroughParams(c *core.Ctx, v ssa.Value, depth int) []ssa.Value {
	var out []ssa.Value
	for _, o := range core.Origins(v, nil) {
		p, isP := o.(*ssa.Parameter)
		if !isP || depth >= 2 {
			out = append(out, o)
			continue
		}
		fn := p.Parent()
		idx := -1
		for i, q := range fn.Params {
			if q == p {
				idx = i
			}
		}
		sites := c.CallSites(func(com *ssa.CallCommon) bool { return core.IsCallTo(com, fn) })
		if fn.Object() == nil || fn.Object().Exported() || len(c.FuncValueUses(fn)) != 0 || len(sites) == 0 || idx < 0 {
			out = append(out, o)
			continue
		}
		for _, cs := range sites {
			if idx < len(cs.Common().Args) {
				out = append(out, originsThroughParams(c, cs.Common().Args[idx], depth+1)...)
			} else {
				out = append(out, o)
			}
		}
	}
	return out
}
