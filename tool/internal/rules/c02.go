package rules

import (
	"fmt"
	"go/ast"
	"go/token"
	"go/types"
	"strings"

	"golang.org/x/tools/go/callgraph"
	"golang.org/x/tools/go/ssa"

	"iocvet/internal/core"
)

func init() { register("C02", c02) }

func c02(c *core.Ctx, r *core.Report) {
	ro := c.Roles()
	r.Explanation = "C02 cycles resolve and start-up terminates. Termination argument (paper): a name enters creation at most once per start because the accessor consults the cache with early references allowed before creating (R3), the early factory is registered before any dependency is resolved (R1) under a condition that is not narrower than {singleton, circular references allowed, in creation} (R2), the registry reports the name in creation during the whole callback (R5 = C04.A2), every call-graph cycle through the creator passes the cache accessor (R4), candidates are filtered for the holder itself before injection with error-iff-required on an empty rest (R6, Inject decision table), every loop on the creation path has a bounded form (R7), and candidate selection never answers with the holder itself (R8, narrowing table). The tool decides these premises on all paths; that a concrete graph ends up fully wired is not decided."
	r.Assumptions = []string{"user callbacks terminate", "parent chains of holders are acyclic (Holder.Holder is set only in a constructor to an already constructed holder)"}
	l := findLifecycle(c, r, "C02.R0")
	if l == nil {
		return
	}
	ex := l.exposer
	// ---- R1 / R2 via the creator decision table + structure
	rs, runs, und := exposerTable(c, l)
	r.Count("exposer_table_runs", runs)
	if und != "" {
		r.Undecided("C02.R1", "exposer-table", c.FnPos(ex), "abstract interpretation left the model: "+und)
	} else {
		rs.report(c, r, ex, func(row string) string {
			if row == "expose-iff-condition" {
				return "C02.R1"
			}
			return ""
		}, "exposer-table@"+core.FnName(ex), exposerRows)
	}
	exposureStructure(c, r, l, "C02.R1", "C02.R2")
	// ---- R3
	accessorRules(c, r, "C02.R3", l)
	// ---- R4: every call-graph cycle through the creator contains the accessor
	c02Cycle(c, r, l)
	// ---- R5 = C04.A2
	for _, T := range implementorsBehindFacades(c, "container", "SingletonComponentRegistry") {
		sub := core.NewReport("C04", c.Tier, 0)
		c04Explore(c, sub, T)
		for _, o := range sub.Obls {
			// A4: a failed creation that leaves its early reference behind makes a later start "succeed" with a
			// half-built component (required points unpopulated)
			if o.Rule == "C04.A2" || o.Rule == "C04.A1" || o.Rule == "C04.A4" || o.Verdict == core.Undecided {
				o2 := *o
				o2.Rule = "C02.R5"
				o2.Construct = o.Rule + ":" + o.Construct
				r.Obls = append(r.Obls, &o2)
			}
		}
	}
	// ---- R6 self filter (Inject table rows)
	irs, iruns, iund := injectTable(c, listLen(c))
	r.Count("inject_table_runs", iruns)
	if iund != "" {
		r.Undecided("C02.R6", "inject-table", "", "abstract interpretation left the model: "+iund)
	} else {
		irs.report(c, r, ro.PropertyInject, func(row string) string {
			switch row {
			case "nothing-to-inject", "single", "slice":
				return "C02.R6"
			}
			return ""
		}, "inject-table@(*component_definition.Property).Inject", injectRows)
	}
	smallModelCheck(c, r, "C02.R6", "inject-table", ro.PropertyInject, int64(listLen(c)))
	isSelfTable(c, r, "C02.R6")
	smallModelCheck(c, r, "C02.R1", "exposer-table", ex, 2)
	// ---- R8 selection on a self-free list: the narrowing never answers with the holder itself, so the self filter of
	// Inject cannot empty a point that has another valid candidate
	if nf, _, _ := narrowingFn(c, builtinProcessors(c)); nf != nil {
		nrs, nruns, nund := narrowTable(c, nf, 2)
		r.Count("narrowing_table_runs", nruns)
		if nund != "" {
			r.Undecided("C02.R8", "narrowing-table", c.FnPos(nf), "abstract interpretation left the model: "+nund)
		} else {
			nrs.report(c, r, nf, func(row string) string {
				if row == "never-self" || row == "single-member" || row == "nothing-qualifies" {
					return "C02.R8"
				}
				return ""
			}, "narrowing-table@"+core.FnName(nf), narrowRows)
		}
	} else {
		r.Undecided("C02.R8", "role:narrowing", "", "narrowing function not found")
	}
	// ---- R7 bounded loops
	c02Loops(c, r, []string{"container/factory", "container/support", "component_definition", "container/processors", "container"}, "C02.R7")
}

// exposureStructure: the early factory is registered before any dependency is resolved (must-pass-through) and the
// exposure condition is made of allowed atoms only.
func exposureStructure(c *core.Ctx, r *core.Report, l *lifecycleRoles, rule1, rule2 string) {
	ro := c.Roles()
	ex := l.exposer
	ev := l.ev
	// structural must-pass-through: every path to a DEP-reaching call passes the AddSingletonFactory block or the
	// false edge of a condition the registration is control dependent on
	var add *ssa.Call
	for _, ci := range core.Calls(ex) {
		if call, ok := ci.(*ssa.Call); ok && core.IsInvoke(call.Common(), ro.SCRAddFactory) {
			add = call
		}
	}
	depSites := ev.SitesReaching(ex, evDep)
	if add == nil || len(depSites) == 0 {
		// the registration lives in a helper: the order and the condition are decided by the exposer table alone
		// (rows expose-iff-condition and stage-order), which every caller of this function also reports
		return
	} else {
		cut := map[[2]*ssa.BasicBlock]bool{}
		var conds []core.CondEdge
		for _, cd := range c.ControlDeps(add.Block()) {
			conds = append(conds, cd)
			k := 1
			if !cd.Branch {
				k = 0
			}
			cut[[2]*ssa.BasicBlock{cd.If.Block(), cd.If.Block().Succs[k]}] = true
		}
		for _, d := range depSites {
			passes := !reachableAvoiding(ex, d.Block(), map[*ssa.BasicBlock]bool{add.Block(): true}, cut)
			r.Check(passes && core.Dominates(add.Block().Instrs[0], add) && !core.BlockReaches(d.Block(), add.Block()), rule1, "expose-before-populate@"+core.FnName(ex), c.Pos(d.Pos()),
				"every path to dependency resolution has registered the early factory or taken the false edge of the exposure condition")
		}
		// R2: the exposure condition's atoms
		for i, cd := range conds {
			kind := exposureAtom(c, ro, cd.If.Cond)
			r.Check(kind != "", rule2, fmt.Sprintf("exposure-condition-atom#%d@%s", i, core.FnName(ex)), c.Pos(cd.If.Cond.Pos()),
				"each atom of the exposure condition is one of {IsSingleton() (constant true), a factory flag that is only ever true, IsSingletonCurrentlyInCreation(name)}: "+kind)
		}
		r.Floor(rule2, "exposure condition atoms", len(conds), 1)
	}
}

// exposureAtom classifies one atom of the early-exposure condition; "" = not allowed.
// onlyConstantOf: the one constant every in-scope store gives the field (ok=false if there is none or several).
func onlyConstantOf(c *core.Ctx, fa *ssa.FieldAddr) (string, bool) {
	fr, ok := core.FieldOfAddr(fa)
	if !ok {
		return "", false
	}
	stores, _ := c.FieldAccesses(fr.Owner, fr.Name)
	only := ""
	for _, st := range stores {
		k, isK := st.Store.Val.(*ssa.Const)
		if !isK || k.Value == nil {
			return "", false
		}
		if only != "" && only != k.Value.ExactString() {
			return "", false
		}
		only = k.Value.ExactString()
	}
	return only, only != ""
}

func exposureAtom(c *core.Ctx, ro *core.Roles, cond ssa.Value) string {
	cond = core.Norm(cond)
	// a guard on the routine's own parameter being there at all (the definition handed in is never nil)
	if b, ok := cond.(*ssa.BinOp); ok && (b.Op == token.EQL || b.Op == token.NEQ) {
		for _, pr := range [][2]ssa.Value{{b.X, b.Y}, {b.Y, b.X}} {
			if _, isP := core.Norm(pr[0]).(*ssa.Parameter); isP && core.IsNilConst(pr[1]) {
				return "parameter compared with nil"
			}
		}
	}
	if u, ok := cond.(*ssa.UnOp); ok && u.Op == token.NOT {
		// a negation of something built from allowed atoms is built from allowed atoms (which combination of them
		// exposes is decided by the exposer table's expose-iff-condition row)
		if k := exposureAtom(c, ro, u.X); k != "" {
			return "not (" + k + ")"
		}
		return ""
	}
	if phi, ok := cond.(*ssa.Phi); ok {
		// short-circuit && / ||: every edge is a boolean constant or an allowed atom, and every branch that selects
		// between the edges (the blocks between the phi's immediate dominator and the phi) tests an allowed atom
		for _, e := range phi.Edges {
			if k, isK := e.(*ssa.Const); isK && k.Value != nil && (k.Value.String() == "false" || k.Value.String() == "true") {
				continue
			}
			if exposureAtom(c, ro, e) == "" {
				return ""
			}
		}
		b := phi.Block()
		if idom := b.Idom(); idom != nil {
			for _, x := range b.Parent().Blocks {
				if x == b || !idom.Dominates(x) || !core.BlockReaches(x, b) || b.Dominates(x) {
					continue
				}
				if iff, isIf := x.Instrs[len(x.Instrs)-1].(*ssa.If); isIf {
					if exposureAtom(c, ro, iff.Cond) == "" {
						return ""
					}
				}
			}
		}
		return "combination of allowed atoms"
	}
	if call, ok := cond.(*ssa.Call); ok {
		if core.IsInvoke(call.Common(), ro.SCRIsCreating) {
			return "IsSingletonCurrentlyInCreation"
		}
		if cal := core.Callee(call.Common()); cal != nil && cal.Name() == "IsSingleton" {
			if len(cal.Blocks) == 1 {
				if ret, isRet := cal.Blocks[0].Instrs[len(cal.Blocks[0].Instrs)-1].(*ssa.Return); isRet && len(ret.Results) == 1 {
					if k, isK := ret.Results[0].(*ssa.Const); isK && k.Value != nil && k.Value.String() == "true" {
						return "IsSingleton() == constant true"
					}
				}
			}
		}
		return ""
	}
	if bo, ok := cond.(*ssa.BinOp); ok && bo.Op == token.EQL {
		// a policy field of a small named type compared with the one constant it is ever given
		fld, k := bo.X, bo.Y
		if _, isK := fld.(*ssa.Const); isK {
			fld, k = bo.Y, bo.X
		}
		// a local state variable (a phi of constants) compared with one of its constants: the branches that select
		// its value must test allowed atoms only
		if phi, isPhi := fld.(*ssa.Phi); isPhi {
			if _, isK := k.(*ssa.Const); isK {
				allConst := true
				for _, e := range phi.Edges {
					if _, ok := e.(*ssa.Const); !ok {
						allConst = false
					}
				}
				b := phi.Block()
				if idom := b.Idom(); allConst && idom != nil {
					n := 0
					for _, x := range b.Parent().Blocks {
						if x == b || !idom.Dominates(x) || !core.BlockReaches(x, b) || b.Dominates(x) {
							continue
						}
						if iff, isIf := x.Instrs[len(x.Instrs)-1].(*ssa.If); isIf {
							n++
							if exposureAtom(c, ro, iff.Cond) == "" {
								return ""
							}
						}
					}
					if n > 0 {
						return "state variable selected by allowed atoms"
					}
				}
			}
			return ""
		}
		if u, isU := core.Norm(fld).(*ssa.UnOp); isU && u.Op == token.MUL {
			if fa, isFA := u.X.(*ssa.FieldAddr); isFA {
				if kc, isK := k.(*ssa.Const); isK && kc.Value != nil {
					if only, ok2 := onlyConstantOf(c, fa); ok2 && only == kc.Value.ExactString() {
						fr, _ := core.FieldOfAddr(fa)
						return "policy field " + fr.Name + " (only ever stored " + only + ")"
					}
				}
			}
		}
	}
	if u, ok := cond.(*ssa.UnOp); ok && u.Op == token.MUL {
		if fa, isFA := u.X.(*ssa.FieldAddr); isFA && isBoolType(fa) {
			fr, _ := core.FieldOfAddr(fa)
			stores, _ := c.FieldAccesses(fr.Owner, fr.Name)
			if len(stores) == 0 {
				return ""
			}
			for _, st := range stores {
				k, isK := st.Store.Val.(*ssa.Const)
				if !isK || k.Value == nil || k.Value.String() != "true" {
					return ""
				}
			}
			return "flag " + fr.Name + " (only ever stored true)"
		}
	}
	return ""
}

// c02Cycle: remove the accessor from the CHA graph; the creator chain must then be acyclic w.r.t. itself.
// factoryTargets resolves an invoke of SingletonFactory.GetComponent by provenance: a factory that is a
// parameter of a registry method is the literal passed at the corresponding interface call sites; a factory
// loaded from a registry cell is one that was stored through AddSingletonFactory.
func factoryTargets(c *core.Ctx, ro *core.Roles, site ssa.CallInstruction) []*ssa.Function {
	var out []*ssa.Function
	fn := site.Parent()
	litsPassedTo := func(m *types.Func, argIdx int) {
		for _, s := range c.CallSites(func(com *ssa.CallCommon) bool { return core.IsInvoke(com, m) }) {
			if argIdx < len(s.Common().Args) {
				if lit := core.ClosureOf(s.Common().Args[argIdx]); lit != nil {
					out = append(out, lit)
				}
			}
		}
	}
	fromParam := false
	for _, o := range core.Origins(site.Common().Value, nil) {
		if p, ok := o.(*ssa.Parameter); ok {
			fromParam = true
			for i, fp := range fn.Params {
				if fp == p && fn.Name() == ro.SCRGetOrCreate.Name() {
					litsPassedTo(ro.SCRGetOrCreate, i-1)
				}
			}
		}
	}
	if !fromParam {
		litsPassedTo(ro.SCRAddFactory, 1)
	}
	return out
}

func c02Cycle(c *core.Ctx, r *core.Report, l *lifecycleRoles) {
	ro := c.Roles()
	cg := c.CG()
	start := cg.Nodes[l.exposer]
	if start == nil {
		r.Undecided("C02.R4", "cycle-guard", c.FnPos(l.exposer), "creator not in the call graph")
		return
	}
	// DFS from the exposer's callees, not entering the accessor; reaching the exposer again = unguarded cycle
	seen := map[*callgraph.Node]bool{}
	var path []string
	var found []string
	var visit func(n *callgraph.Node, depth int) bool
	visit = func(n *callgraph.Node, depth int) bool {
		if n == nil || !c.InScope(n.Func) || n.Func == l.accessor {
			return false
		}
		if n.Func == l.exposer && depth > 0 {
			found = append([]string(nil), path...)
			return true
		}
		if seen[n] {
			return false
		}
		seen[n] = true
		path = append(path, core.FnName(n.Func))
		defer func() { path = path[:len(path)-1] }()
		for _, e := range n.Out {
			// function values behind SingletonFactory are resolved by provenance (CHA would match every func() (*Meta, error))
			if e.Site != nil && core.IsInvoke(e.Site.Common(), ro.SFGetComponent) {
				continue
			}
			if visit(e.Callee, depth+1) {
				return true
			}
		}
		for _, ci := range core.Calls(n.Func) {
			if !core.IsInvoke(ci.Common(), ro.SFGetComponent) {
				continue
			}
			for _, tgt := range factoryTargets(c, ro, ci) {
				if visit(cg.Nodes[tgt], depth+1) {
					return true
				}
			}
		}
		for _, a := range n.Func.AnonFuncs {
			if visit(cg.Nodes[a], depth+1) {
				return true
			}
		}
		return false
	}
	cyc := visit(start, 0)
	r.Count("cycle_search_nodes", len(seen))
	if cyc {
		r.Fail("C02.R4", "cycle-guard@"+core.FnName(l.exposer), c.FnPos(l.exposer), "the creator can reach itself on the call graph without passing the cache accessor: a dependency cycle would recurse forever", "path: "+strings.Join(found, " -> "))
	} else {
		r.Hold("C02.R4", "cycle-guard@"+core.FnName(l.exposer), c.FnPos(l.exposer), fmt.Sprintf("no call-graph cycle through the creator avoids the cache accessor (%d in-scope nodes searched on the CHA graph)", len(seen)))
	}
}

// ---- loop forms (P9) ---------------------------------------------------------------------------------

// loopForm classifies an AST loop: "range", "counted", "bounded-exit", or "unbounded".
func loopForm(info *types.Info, n ast.Node) (string, string) {
	switch x := n.(type) {
	case *ast.RangeStmt:
		// range over a value that is appended to in the body is still bounded in Go (length evaluated once)
		return "range", ""
	case *ast.ForStmt:
		if x.Cond == nil {
			if hasBoundedExit(info, x) {
				return "bounded-exit", ""
			}
			return "unbounded", "for without condition whose exits do not compare an induction variable with a bound"
		}
		// counted: i < bound / i <= bound / i > bound with i modified by Post (i++, i--, i += k)
		if be, ok := x.Cond.(*ast.BinaryExpr); ok {
			switch be.Op {
			case token.LSS, token.LEQ, token.GTR, token.GEQ, token.NEQ:
				if id, ok := be.X.(*ast.Ident); ok && x.Post != nil && postModifies(x.Post, id.Name) && !assignedIn(x.Body, id.Name) {
					return "counted", ""
				}
				if id, ok := be.Y.(*ast.Ident); ok && x.Post != nil && postModifies(x.Post, id.Name) && !assignedIn(x.Body, id.Name) {
					return "counted", ""
				}
			}
		}
		// counted on a field of a local object: for ; s.n > 0; s.n-- { ... } where the body neither assigns that
		// field nor hands the object to anybody (no call mentions it)
		if be, ok := x.Cond.(*ast.BinaryExpr); ok && x.Post != nil {
			if sel, ok := be.X.(*ast.SelectorExpr); ok {
				if base, ok := sel.X.(*ast.Ident); ok {
					if fieldCounted(info, x, be, sel, base) {
						return "counted", ""
					}
				}
			}
		}
		// parent-chain walk: for v != nil { ...; v = v.F } (every assignment to v in the loop follows the same field)
		if be, ok := x.Cond.(*ast.BinaryExpr); ok && be.Op == token.NEQ {
			if id, ok := be.X.(*ast.Ident); ok {
				if nl, ok := be.Y.(*ast.Ident); ok && nl.Name == "nil" {
					field, n, bad := "", 0, false
					visit := func(node ast.Node) {
						ast.Inspect(node, func(m ast.Node) bool {
							as, ok := m.(*ast.AssignStmt)
							if !ok {
								return true
							}
							for i, l := range as.Lhs {
								li, ok := l.(*ast.Ident)
								if !ok || li.Name != id.Name || info.ObjectOf(li) != info.ObjectOf(id) {
									continue
								}
								n++
								if i >= len(as.Rhs) || as.Tok != token.ASSIGN {
									bad = true
									continue
								}
								sel, ok := as.Rhs[i].(*ast.SelectorExpr)
								base, ok2 := (ast.Expr)(nil), false
								if ok {
									base, ok2 = sel.X, true
								}
								bi, ok3 := base.(*ast.Ident)
								if !ok || !ok2 || !ok3 || bi.Name != id.Name || (field != "" && field != sel.Sel.Name) {
									bad = true
									continue
								}
								field = sel.Sel.Name
							}
							return true
						})
					}
					visit(x.Body)
					if x.Post != nil {
						visit(x.Post)
					}
					if n > 0 && !bad && field != "" {
						if pt, ok := info.TypeOf(id).Underlying().(*types.Pointer); ok {
							if nt, ok := pt.Elem().(*types.Named); ok {
								return "chain-walk", nt.Obj().Pkg().Path() + "|" + nt.Obj().Name() + "|" + field
							}
						}
					}
				}
			}
		}
		// worklist: `for len(stack) > 0 { pop ... push ... }` - the iterative form of a recursive walk; like the
		// recursion it replaces it ends when the (finite, acyclic) structure it walks is exhausted
		if be, ok := x.Cond.(*ast.BinaryExpr); ok && (be.Op == token.GTR || be.Op == token.NEQ) {
			if call, ok := be.X.(*ast.CallExpr); ok && len(call.Args) == 1 {
				if fnId, ok := call.Fun.(*ast.Ident); ok && fnId.Name == "len" {
					if lit, ok := be.Y.(*ast.BasicLit); ok && lit.Value == "0" {
						if st, ok := call.Args[0].(*ast.Ident); ok && popsIn(x.Body, st.Name) {
							return "worklist", ""
						}
					}
				}
			}
		}
		// pointer-chasing / data-dependent condition
		if k, ok := x.Cond.(*ast.Ident); ok && k.Name == "true" {
			if hasBoundedExit(info, x) {
				return "bounded-exit", ""
			}
			return "unbounded", "for true {} whose exits depend only on computed data"
		}
		if hasBoundedExit(info, x) {
			return "bounded-exit", ""
		}
		return "unbounded", "loop condition is data dependent and no exit compares an induction variable with a bound"
	}
	return "unbounded", "unknown loop statement"
}

// popsIn: the body shortens the slice `name` by re-slicing it (stack = stack[:len(stack)-1] / stack[1:]).
func popsIn(body *ast.BlockStmt, name string) bool {
	found := false
	ast.Inspect(body, func(n ast.Node) bool {
		as, ok := n.(*ast.AssignStmt)
		if !ok || len(as.Lhs) != 1 || len(as.Rhs) != 1 {
			return true
		}
		l, ok := as.Lhs[0].(*ast.Ident)
		if !ok || l.Name != name {
			return true
		}
		if sl, ok := as.Rhs[0].(*ast.SliceExpr); ok {
			if b, ok := sl.X.(*ast.Ident); ok && b.Name == name && (sl.High != nil || sl.Low != nil) {
				found = true
			}
		}
		return true
	})
	return found
}

// fieldCounted: cond is `base.f > K` / `>= K` / `!= K` with post `base.f--`, or `base.f < K` / `<= K` with `base.f++`
// (K a literal), and nothing in the body assigns a field of that name or passes base on.
func fieldCounted(info *types.Info, x *ast.ForStmt, be *ast.BinaryExpr, sel *ast.SelectorExpr, base *ast.Ident) bool {
	if _, isLit := be.Y.(*ast.BasicLit); !isLit {
		return false
	}
	inc, ok := x.Post.(*ast.IncDecStmt)
	if !ok {
		return false
	}
	ps, ok := inc.X.(*ast.SelectorExpr)
	if !ok || info.ObjectOf(ps.Sel) == nil || info.ObjectOf(ps.Sel) != info.ObjectOf(sel.Sel) {
		return false
	}
	if pb, ok := ps.X.(*ast.Ident); !ok || info.ObjectOf(pb) != info.ObjectOf(base) {
		return false
	}
	down := be.Op == token.GTR || be.Op == token.GEQ || be.Op == token.NEQ
	up := be.Op == token.LSS || be.Op == token.LEQ
	if !(down && inc.Tok == token.DEC || up && inc.Tok == token.INC) {
		return false
	}
	if be.Op == token.NEQ {
		return false // stepping past the bound would never end
	}
	clean := true
	ast.Inspect(x.Body, func(n ast.Node) bool {
		switch a := n.(type) {
		case *ast.AssignStmt:
			for _, l := range a.Lhs {
				if ls, ok := l.(*ast.SelectorExpr); ok && info.ObjectOf(ls.Sel) == info.ObjectOf(sel.Sel) {
					clean = false
				}
			}
		case *ast.IncDecStmt:
			if ls, ok := a.X.(*ast.SelectorExpr); ok && info.ObjectOf(ls.Sel) == info.ObjectOf(sel.Sel) {
				clean = false
			}
		case *ast.CallExpr:
			ast.Inspect(a, func(m ast.Node) bool {
				if id, ok := m.(*ast.Ident); ok && info.ObjectOf(id) == info.ObjectOf(base) {
					clean = false
				}
				return true
			})
		case *ast.UnaryExpr:
			if a.Op == token.AND {
				clean = false // an address taken in the body: the field may be reached through it
			}
		}
		return true
	})
	return clean
}

func postModifies(post ast.Stmt, name string) bool {
	switch p := post.(type) {
	case *ast.IncDecStmt:
		id, ok := p.X.(*ast.Ident)
		return ok && id.Name == name
	case *ast.AssignStmt:
		if len(p.Lhs) == 1 {
			id, ok := p.Lhs[0].(*ast.Ident)
			return ok && id.Name == name && (p.Tok == token.ADD_ASSIGN || p.Tok == token.SUB_ASSIGN)
		}
	}
	return false
}

func assignedIn(body *ast.BlockStmt, name string) bool {
	found := false
	ast.Inspect(body, func(n ast.Node) bool {
		switch a := n.(type) {
		case *ast.AssignStmt:
			for _, l := range a.Lhs {
				if id, ok := l.(*ast.Ident); ok && id.Name == name {
					found = true
				}
			}
		case *ast.IncDecStmt:
			if id, ok := a.X.(*ast.Ident); ok && id.Name == name {
				found = true
			}
		}
		return true
	})
	return found
}

// hasBoundedExit: the loop body unconditionally increments an integer variable (declared outside, not otherwise
// assigned in the body) and contains `if v <op> bound { break | return }` at the top level of the body.
func hasBoundedExit(info *types.Info, f *ast.ForStmt) bool {
	counters := map[string]bool{}
	for _, st := range f.Body.List {
		switch s := st.(type) {
		case *ast.IncDecStmt:
			if id, ok := s.X.(*ast.Ident); ok && s.Tok == token.INC {
				counters[id.Name] = true
			}
		case *ast.AssignStmt:
			if len(s.Lhs) == 1 && s.Tok == token.ADD_ASSIGN {
				if id, ok := s.Lhs[0].(*ast.Ident); ok {
					counters[id.Name] = true
				}
			}
		}
	}
	if f.Post != nil {
		for name := range map[string]bool{} {
			_ = name
		}
		switch p := f.Post.(type) {
		case *ast.IncDecStmt:
			if id, ok := p.X.(*ast.Ident); ok && p.Tok == token.INC {
				counters[id.Name] = true
			}
		}
	}
	for _, st := range f.Body.List {
		ifs, ok := st.(*ast.IfStmt)
		if !ok || ifs.Init != nil {
			continue
		}
		be, ok := ifs.Cond.(*ast.BinaryExpr)
		if !ok {
			continue
		}
		id, ok := be.X.(*ast.Ident)
		if !ok || !counters[id.Name] {
			continue
		}
		if be.Op != token.GTR && be.Op != token.GEQ && be.Op != token.EQL {
			continue
		}
		// bound must be loop invariant: a constant or an identifier not assigned in the body
		switch b := be.Y.(type) {
		case *ast.BasicLit:
		case *ast.Ident:
			if assignedIn(f.Body, b.Name) {
				continue
			}
		default:
			if tv, ok := info.Types[be.Y]; !ok || tv.Value == nil {
				continue
			}
		}
		// the counter must not be reset in the body besides its increment
		resets := 0
		ast.Inspect(f.Body, func(n ast.Node) bool {
			if a, ok := n.(*ast.AssignStmt); ok && a.Tok != token.ADD_ASSIGN {
				for _, l := range a.Lhs {
					if x, ok := l.(*ast.Ident); ok && x.Name == id.Name {
						resets++
					}
				}
			}
			return true
		})
		if resets > 0 {
			continue
		}
		// the then-branch ends the loop
		if len(ifs.Body.List) > 0 {
			switch last := ifs.Body.List[len(ifs.Body.List)-1].(type) {
			case *ast.ReturnStmt:
				return true
			case *ast.BranchStmt:
				if last.Tok == token.BREAK && last.Label == nil {
					return true
				}
			}
		}
	}
	return false
}

// chainStoreOK: a store into a link field keeps the chain finite and acyclic: it targets a freshly allocated object
// (a new node pointing at an existing one), or it stores a freshly allocated object or nil (a new node appended behind
// an existing one), or it targets the receiver of an unexported initialiser that is only ever called on a fresh object.
func chainStoreOK(c *core.Ctx, st core.FieldAccess) bool {
	fresh := func(v ssa.Value) bool {
		v = core.Norm(v)
		if _, ok := v.(*ssa.Alloc); ok {
			return true
		}
		if call, ok := v.(*ssa.Call); ok {
			if bi, isB := call.Common().Value.(*ssa.Builtin); isB && bi.Name() == "new" {
				return true
			}
		}
		return false
	}
	if fresh(st.Addr.X) {
		return true
	}
	if core.IsNilConst(st.Store.Val) || fresh(st.Store.Val) {
		return true
	}
	if p, ok := core.Norm(st.Addr.X).(*ssa.Parameter); ok {
		fn := p.Parent()
		if fn.Object() != nil && !fn.Object().Exported() && len(fn.Params) > 0 && fn.Params[0] == p && len(c.FuncValueUses(fn)) == 0 {
			sites := c.CallSites(func(com *ssa.CallCommon) bool { return core.IsCallTo(com, fn) })
			okAll := len(sites) > 0
			for _, s := range sites {
				if len(s.Common().Args) == 0 || !fresh(s.Common().Args[0]) {
					okAll = false
				}
			}
			return okAll
		}
	}
	return false
}

// ssaLoopBounded decides the loop statement n on the SSA form, whatever its syntax: the natural loop it compiles to has
// an induction variable (a header phi that every way round the loop increases by a positive constant) and a test of
// that variable against a loop-invariant bound that leaves the loop when the variable is large, executed on every
// iteration (the test's block dominates every latch).
func ssaLoopBounded(c *core.Ctx, n ast.Node) bool {
	fn, loop := ssaLoopOf(c, n)
	if loop == nil {
		return false
	}
	return ssaLoopBoundedIn(fn, loop)
}

// ssaChainWalkOf: the loop statement n, on the SSA form, follows one pointer field: a header phi whose every value
// from inside the loop is a load of field F of the phi itself.  Returns the struct type and the field.
func ssaChainWalkOf(c *core.Ctx, n ast.Node) (owner *types.Named, field string) {
	_, loop := ssaLoopOf(c, n)
	if loop == nil {
		return nil, ""
	}
	for _, in := range loop.Header.Instrs {
		phi, ok := in.(*ssa.Phi)
		if !ok {
			break
		}
		var fr core.FieldRef
		okAll, cnt := true, 0
		for i, e := range phi.Edges {
			if !loop.Blocks[loop.Header.Preds[i]] {
				continue
			}
			cnt++
			ld, isLoad := e.(*ssa.UnOp)
			if !isLoad || ld.Op != token.MUL {
				okAll = false
				break
			}
			fa, isFA := ld.X.(*ssa.FieldAddr)
			if !isFA || core.Norm(fa.X) != ssa.Value(phi) {
				okAll = false
				break
			}
			f2, ok2 := core.FieldOfAddr(fa)
			if !ok2 || (fr.Name != "" && fr != f2) {
				okAll = false
				break
			}
			fr = f2
		}
		if okAll && cnt > 0 && fr.Owner != nil {
			return fr.Owner, fr.Name
		}
	}
	return nil, ""
}

// ssaLoopOf locates the natural loop that the loop statement n compiles to.
func ssaLoopOf(c *core.Ctx, n ast.Node) (*ssa.Function, *core.Loop) {
	var fn *ssa.Function
	for _, f := range c.Scope {
		syn := f.Syntax()
		if syn == nil || syn.Pos() > n.Pos() || syn.End() < n.End() {
			continue
		}
		if fn == nil || (fn.Syntax().Pos() <= syn.Pos() && syn.End() <= fn.Syntax().End()) {
			fn = f // innermost enclosing function or literal
		}
	}
	if fn == nil {
		return nil, nil
	}
	var loop *core.Loop
	for _, l := range core.Loops(fn) {
		inside, any := true, false
		for b := range l.Blocks {
			for _, in := range b.Instrs {
				if _, isPhi := in.(*ssa.Phi); isPhi {
					continue // a phi sits at its variable's declaration, possibly before the statement
				}
				if p := in.Pos(); p.IsValid() {
					any = true
					if p < n.Pos() || p > n.End() {
						inside = false
					}
				}
			}
		}
		if inside && any && (loop == nil || len(l.Blocks) > len(loop.Blocks)) {
			loop = l
		}
	}
	return fn, loop
}

func ssaLoopBoundedIn(fn *ssa.Function, loop *core.Loop) bool {
	var latches []*ssa.BasicBlock
	for _, p := range loop.Header.Preds {
		if loop.Blocks[p] {
			latches = append(latches, p)
		}
	}
	var invariant func(v ssa.Value) bool
	invariant = func(v ssa.Value) bool {
		switch x := v.(type) {
		case *ssa.Const, *ssa.Parameter, *ssa.FreeVar, *ssa.Global:
			return true
		case *ssa.Call:
			// len / cap of something the loop does not redefine
			if bi, ok := x.Common().Value.(*ssa.Builtin); ok && (bi.Name() == "len" || bi.Name() == "cap") && len(x.Common().Args) == 1 {
				if invariant(x.Common().Args[0]) {
					return true
				}
			}
			return !loop.Blocks[x.Block()]
		case ssa.Instruction:
			return !loop.Blocks[x.Block()]
		}
		return false
	}
	for _, in := range loop.Header.Instrs {
		phi, ok := in.(*ssa.Phi)
		if !ok {
			break
		}
		// induction: every edge from inside the loop is phi + positive constant
		counters := map[ssa.Value]bool{phi: true}
		okInd := len(latches) > 0
		for i, e := range phi.Edges {
			if !loop.Blocks[loop.Header.Preds[i]] {
				continue
			}
			bo, isBO := e.(*ssa.BinOp)
			if !isBO || bo.Op != token.ADD || bo.X != ssa.Value(phi) {
				okInd = false
				break
			}
			if k, isK := core.ConstInt(bo.Y); !isK || k <= 0 {
				okInd = false
				break
			}
			counters[bo] = true
		}
		if !okInd {
			continue
		}
		for b := range loop.Blocks {
			iff, ok := b.Instrs[len(b.Instrs)-1].(*ssa.If)
			if !ok {
				continue
			}
			bo, ok := iff.Cond.(*ssa.BinOp)
			if !ok || !counters[bo.X] || !invariant(bo.Y) {
				continue
			}
			exitTrue, exitFalse := !loop.Blocks[b.Succs[0]], !loop.Blocks[b.Succs[1]]
			leaves := false
			switch bo.Op {
			case token.GEQ, token.GTR, token.EQL:
				leaves = exitTrue
			case token.LSS, token.LEQ, token.NEQ:
				leaves = exitFalse
			}
			if !leaves {
				continue
			}
			dominatesAll := true
			for _, l := range latches {
				if !b.Dominates(l) {
					dominatesAll = false
				}
			}
			if dominatesAll {
				return true
			}
		}
	}
	return false
}

// loopsIn lists every for/range statement of the in-scope packages given (relative paths), with its enclosing function.
type astLoop struct {
	Node ast.Node
	Func string
	Pkg  string
	Info *types.Info
	Ord  int
}

func loopsIn(c *core.Ctx, pkgs []string) []astLoop {
	var out []astLoop
	for _, rel := range pkgs {
		p := c.ByPath[core.Mod+"/"+rel]
		if p == nil {
			continue
		}
		for _, f := range p.Syntax {
			for _, d := range f.Decls {
				fd, ok := d.(*ast.FuncDecl)
				if !ok || fd.Body == nil {
					continue
				}
				name := fd.Name.Name
				if fd.Recv != nil && len(fd.Recv.List) > 0 {
					name = types.ExprString(fd.Recv.List[0].Type) + "." + name
				}
				ord := 0
				ast.Inspect(fd.Body, func(n ast.Node) bool {
					switch n.(type) {
					case *ast.ForStmt, *ast.RangeStmt:
						out = append(out, astLoop{Node: n, Func: name, Pkg: rel, Info: p.TypesInfo, Ord: ord})
						ord++
					}
					return true
				})
			}
		}
	}
	return out
}

// c02Loops: every loop in the given packages has a bounded form; parent-chain walks are the frozen exception.
func c02Loops(c *core.Ctx, r *core.Report, pkgs []string, rule string) {
	loops := loopsIn(c, pkgs)
	r.Count("loops_classified", len(loops))
	r.Floor(rule, "loops in the creation-path packages", len(loops), 40)
	forms := map[string]int{}
	for _, l := range loops {
		form, why := loopForm(l.Info, l.Node)
		forms[form]++
		cons := fmt.Sprintf("loop:%s.%s#%d", l.Pkg, l.Func, l.Ord)
		if form == "chain-walk" {
			// a walk along a parent field is finite if that field is stored only while constructing a fresh object
			parts := strings.Split(why, "|")
			var owner *types.Named
			for _, p := range c.Pkgs {
				if p.PkgPath == parts[0] {
					if tn, ok := p.Types.Scope().Lookup(parts[1]).(*types.TypeName); ok {
						owner, _ = tn.Type().(*types.Named)
					}
				}
			}
			stores, _ := c.FieldAccesses(owner, parts[2])
			okCtor := owner != nil && len(stores) > 0
			for _, st := range stores {
				if !chainStoreOK(c, st) {
					okCtor = false
				}
			}
			r.Check(okCtor, rule, cons, c.Pos(l.Node.Pos()), "parent-chain walk along "+parts[1]+"."+parts[2]+": the field is stored only while constructing a fresh object from an existing one, so the chain is finite and acyclic")
			continue
		}
		if form != "unbounded" {
			continue
		}
		if ssaLoopBounded(c, l.Node) {
			forms["unbounded"]--
			forms["bounded-exit(ssa)"]++
			continue
		}
		if owner, field := ssaChainWalkOf(c, l.Node); owner != nil {
			// a walk along a pointer field, whatever its exit test looks like
			stores, _ := c.FieldAccesses(owner, field)
			okCtor := len(stores) > 0
			for _, st := range stores {
				if !chainStoreOK(c, st) {
					okCtor = false
				}
			}
			forms["unbounded"]--
			forms["chain-walk(ssa)"]++
			r.Check(okCtor, rule, cons, c.Pos(l.Node.Pos()), "chain walk along "+owner.Obj().Name()+"."+field+": the field is only ever given a fresh object, or stored into a fresh object, so the chain is finite and acyclic")
			continue
		}
		r.Fail(rule, cons, c.Pos(l.Node.Pos()), "loop has no bounded form: "+why)
	}
	r.Extra["loop_forms"] = forms
	r.Hold(rule, "bounded-forms:"+strings.Join(pkgs, ","), "", fmt.Sprintf("%d loops classified: %v", len(loops), forms))
}
