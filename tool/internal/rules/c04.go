package rules

import (
	"fmt"
	"go/types"
	"sort"
	"strings"

	"golang.org/x/tools/go/ssa"

	"iocvet/internal/absint"
	"iocvet/internal/core"
)

func init() { register("C04", c04) }

// ---- abstract registry machine --------------------------------------------------------------------

// regState is the content of every abstract cell for the tracked name ("" = absent).
type regState map[string]string

func (s regState) key() string {
	var ks []string
	for k, v := range s {
		if v != "" {
			ks = append(ks, k+"="+v)
		}
	}
	sort.Strings(ks)
	return strings.Join(ks, ";")
}

type regMon struct {
	inCreation bool
	added      bool
	early      string
	published  string
	failedOnce bool
	nCreate    int
	nEarly     int
	earlyRuns  int // stored-factory invocations within the current creation
}

func (m regMon) key() string {
	return fmt.Sprintf("%v|%v|%s|%s|%v|%d|%d|%d", m.inCreation, m.added, m.early, m.published, m.failedOnce, m.nCreate, m.nEarly, m.earlyRuns)
}

type regOp struct {
	kind    string // Q, L, B, A, E
	allow   bool   // L
	earlyOK bool   // L: outcome of the stored early factory if it is consulted
	ok      bool   // E
}

func (o regOp) String() string {
	switch o.kind {
	case "Q":
		return "IS_CREATING"
	case "L":
		if o.earlyOK {
			return fmt.Sprintf("LOOKUP(allowEarly=%v)", o.allow)
		}
		return fmt.Sprintf("LOOKUP(allowEarly=%v, early factory fails)", o.allow)
	case "B":
		return "CREATE_BEGIN"
	case "A":
		return "ADD_FACTORY"
	case "E":
		if o.ok {
			return "CREATE_END(ok)"
		}
		return "CREATE_END(fail)"
	}
	return "?"
}

type incomplete struct{}

// regDriver replays one history against the interpreted registry methods.
type regDriver struct {
	absint.BaseOracle
	c            *core.Ctx
	T            *types.Named
	recv         *absint.Tok
	key          *absint.Tok
	factoryP     *absint.Tok
	st           regState
	mon          regMon
	ops          []regOp
	pos          int
	viol         map[string]string // violation class -> detail
	keyBad       string
	constructing bool // while the constructor of the registry is interpreted
	ncell        int
	consulted    int               // stored factory consulted during the current op
	failing      bool              // between a failed creation callback and the return of the create method
	pubCells     map[string]bool   // cells that received a published instance
	failDel      map[string]string // cells deleted from while failing -> history
	curEarly     bool              // earlyOK of the op being executed
	trans        int
}

func (d *regDriver) violate(class, detail string) {
	if _, ok := d.viol[class]; !ok {
		d.viol[class] = detail
	}
}

func (d *regDriver) cellOf(v absint.Value) (string, bool) {
	t, ok := v.(*absint.Tok)
	if ok && t.Class == "cell" {
		return t.ID, true // a container made by the interpreted constructor
	}
	if ok {
		// ... or allocated by it as a literal of one of the container types
		if gt, has := t.Attr["gotype"].(types.Type); has {
			if pt, isPtr := gt.Underlying().(*types.Pointer); isPtr {
				gt = pt.Elem()
			}
			if n := core.NamedOf(gt); n != nil && n.Obj().Pkg() != nil {
				if p := n.Obj().Pkg().Path(); p == core.Mod+"/util/sync2" || p == core.Mod+"/util/list" {
					return t.ID, true
				}
			}
		}
	}
	if !ok || !strings.HasPrefix(t.ID, d.recv.ID+".") {
		return "", false
	}
	return strings.TrimPrefix(t.ID, d.recv.ID+"."), true
}

// construct interprets the registry's constructor (the parameterless in-scope function that allocates T), so that
// state the constructor arranges - lookup tables over the caches, shared containers - is what the methods see.  The
// containers it makes (util/sync2 maps, util/list sets) become cells.  If there is no such constructor, or it leaves
// the model, the receiver stays a blank object whose fields are cells by name.
func (d *regDriver) construct() {
	var ctor *ssa.Function
	for _, fn := range d.c.Scope {
		if fn.Parent() != nil || len(fn.Params) != 0 || fn.Signature.Results().Len() != 1 || core.PkgOf(fn) == nil || core.PkgOf(fn).Pkg != d.T.Obj().Pkg() {
			continue
		}
		for _, b := range fn.Blocks {
			for _, in := range b.Instrs {
				if al, ok := in.(*ssa.Alloc); ok && core.NamedOf(al.Type()) == d.T {
					ctor = fn
				}
			}
		}
	}
	if ctor == nil {
		return
	}
	d.constructing = true
	defer func() { d.constructing = false }()
	ip := absint.New(d)
	ip.IsLog, ip.InScope = core.IsLogCall, d.c.InScope
	out := ip.Run(ctor, nil, nil)
	if out.Undecided != nil || out.Panic != nil || len(out.Ret) != 1 {
		d.ncell = 0
		return
	}
	if obj, ok := out.Ret[0].(*absint.Tok); ok {
		// keep the identity the rest of the driver knows, take over what the constructor built
		for k, v := range obj.Fields {
			d.recv.Fields[k] = v
		}
	}
}

func (d *regDriver) checkKey(v absint.Value, site ssa.CallInstruction) {
	if v != absint.Value(d.key) {
		d.keyBad = fmt.Sprintf("cell operation at %s uses key %s instead of the method's name parameter", d.c.Pos(site.Pos()), absint.Show(v))
		panic(&absint.Undecided{Msg: d.keyBad})
	}
}

func (d *regDriver) tokOf(id string) absint.Value {
	if id == "" {
		return absint.Nil{}
	}
	return d.tok(id)
}

var regToks = map[string]*absint.Tok{}

func (d *regDriver) tok(id string) *absint.Tok {
	// tokens are compared by pointer: intern per driver
	if t, ok := d.recv.Attr["tok:"+id].(*absint.Tok); ok {
		return t
	}
	t := absint.NewTok(id, id[:1])
	d.recv.Attr["tok:"+id] = t
	return t
}

func (d *regDriver) Call(ip *absint.Interp, site ssa.CallInstruction, args []absint.Value) (absint.Value, bool) {
	com := site.Common()
	if com.IsInvoke() {
		m := com.Method.Name()
		if cell, ok := d.cellOf(args[0]); ok {
			// set-like cell behind an interface (list.Set)
			switch m {
			case "Put":
				d.checkKey(args[1], site)
				d.st[cell] = "1"
				return nil, true
			case "Remove":
				d.checkKey(args[1], site)
				delete(d.st, cell)
				return nil, true
			case "Exists":
				d.checkKey(args[1], site)
				return absint.Bool(d.st[cell] != ""), true
			}
			panic(&absint.Undecided{Msg: "set operation " + m + " is not in the cell model"})
		}
		if m == "GetComponent" {
			if args[0] == absint.Value(d.factoryP) {
				return d.callback(), true
			}
			if t, ok := args[0].(*absint.Tok); ok && t.Class == "F" {
				// a stored early factory is run: the environment decides
				d.consulted++
				if !d.curEarly {
					return absint.Tuple{absint.Nil{}, d.tok("Xerr")}, true
				}
				d.mon.nEarly++
				d.mon.earlyRuns++ // successful runs: a failed run hands out no reference (A5)
				return absint.Tuple{d.tok(fmt.Sprintf("E%d", d.mon.nEarly)), absint.Nil{}}, true
			}
		}
		return nil, false
	}
	cal := core.Callee(com)
	if cal == nil {
		return nil, false
	}
	if d.c.InScope(cal) && cal.Signature.Recv() != nil && d.ownState(core.NamedOf(cal.Signature.Recv().Type())) && (pureTextFn(d.c, cal, 0) || onlyLoggedText(d.c, cal)) {
		return &absint.Opaque{Why: "text of " + cal.Name()}, true // a rendering for a log line: reads and formats only
	}
	if full := cal.String(); strings.HasPrefix(full, "time.") || strings.HasPrefix(full, "(time.") {
		return &absint.Opaque{Why: "time"}, true // a clock read for a statistic: a registry that decides by one leaves the model there
	}
	if full := cal.String(); strings.HasPrefix(full, "(*sync/atomic.") {
		// counters of the registry's own: written blindly; a value read from one is unknown (a registry that decides
		// anything by it leaves the model at that branch)
		switch cal.Name() {
		case "Store":
			return nil, true
		case "Add", "Load", "Swap":
			return &absint.Opaque{Why: "atomic counter"}, true
		}
		panic(&absint.Undecided{Msg: full + " is not in the cell model"})
	}
	if full := cal.String(); strings.HasPrefix(full, "(*sync.Mutex).") || strings.HasPrefix(full, "(*sync.RWMutex).") {
		return nil, true // histories are sequential: a lock of the registry's own has no effect on them
	}
	if d.constructing && cal.Signature.Recv() == nil && cal.Pkg != nil {
		// the constructor makes its containers: each is a cell
		if p := cal.Pkg.Pkg.Path(); (p == core.Mod+"/util/sync2" || p == core.Mod+"/util/list") && cal.Signature.Results().Len() == 1 {
			d.ncell++
			return absint.NewTok(fmt.Sprintf("cell#%d", d.ncell), "cell"), true
		}
	}
	if recv := cal.Signature.Recv(); recv != nil {
		if n := core.NamedOf(recv.Type()); n != nil && n.Obj().Pkg() != nil && n.Obj().Pkg().Path() == core.Mod+"/util/list" && len(args) >= 2 {
			// the in-creation set used through its concrete type instead of the list.Set interface
			if cell, ok := d.cellOf(args[0]); ok {
				switch cal.Name() {
				case "Put":
					d.checkKey(args[1], site)
					d.st[cell] = "1"
					return nil, true
				case "Remove":
					d.checkKey(args[1], site)
					delete(d.st, cell)
					return nil, true
				case "Exists":
					d.checkKey(args[1], site)
					return absint.Bool(d.st[cell] != ""), true
				}
				panic(&absint.Undecided{Msg: "set operation " + cal.Name() + " is not in the cell model"})
			}
		}
		if n := core.NamedOf(recv.Type()); n != nil && n.Obj().Pkg() != nil && n.Obj().Pkg().Path() == core.Mod+"/util/sync2" && n.Obj().Name() == "Map" {
			cell, ok := d.cellOf(args[0])
			if !ok {
				panic(&absint.Undecided{Msg: "sync2.Map operation on something that is not a receiver field"})
			}
			d.checkKey(args[1], site)
			switch cal.Name() {
			case "Load":
				if v := d.st[cell]; v != "" {
					return absint.Tuple{d.tok(v), absint.Bool(true)}, true
				}
				return absint.Tuple{absint.Nil{}, absint.Bool(false)}, true
			case "Store":
				t, ok := args[2].(*absint.Tok)
				if !ok {
					panic(&absint.Undecided{Msg: "store of a non-token into a cell: " + absint.Show(args[2])})
				}
				d.st[cell] = t.ID
				if strings.HasPrefix(t.ID, "P") {
					d.pubCells[cell] = true
				}
				return nil, true
			case "Delete":
				if d.failing {
					if _, ok := d.failDel[cell]; !ok {
						d.failDel[cell] = d.hist()
					}
				}
				delete(d.st, cell)
				return nil, true
			case "LoadOrStore":
				if v := d.st[cell]; v != "" {
					return absint.Tuple{d.tok(v), absint.Bool(true)}, true
				}
				t, ok := args[2].(*absint.Tok)
				if !ok {
					panic(&absint.Undecided{Msg: "store of a non-token into a cell"})
				}
				d.st[cell] = t.ID
				return absint.Tuple{t, absint.Bool(false)}, true
			}
			panic(&absint.Undecided{Msg: "sync2.Map." + cal.Name() + " is not in the cell model"})
		}
	}
	return nil, false
}

func (d *regDriver) Field(ip *absint.Interp, obj *absint.Tok, name string, typ types.Type) absint.Value {
	if obj != d.recv && strings.HasPrefix(obj.ID, d.recv.ID+".") && obj.Class == "field" {
		return nil // a part of the registry's own state held in a nested struct: cells are named by their path
	}
	if obj != d.recv && (obj.Attr["zeroed"] != nil || (obj.Class == "struct" && strings.HasPrefix(obj.ID, "struct#"))) {
		return nil // an object the registry's own code has built (a row of a table of its own): unset fields are zero
	}
	if obj != d.recv {
		// the protocol is payload-agnostic: a registry that looks inside the definitions / factories it stores
		// behaves differently for different components, which the per-name token model cannot see
		panic(&absint.Undecided{Msg: "the registry inspects field " + name + " of a stored value (" + obj.ID + "): its behaviour depends on the payload, which the typestate model does not cover"})
	}
	return nil // default: fresh token named recv.<field>
}

// ownState: n is the registry type or one of the unexported struct types it keeps its state in (not something it stores).
func (d *regDriver) ownState(n *types.Named) bool {
	for _, x := range stateTypes(d.T) {
		if n != nil && x == n {
			return true
		}
	}
	return false
}

func (d *regDriver) method(name string) *ssa.Function { return d.c.DeclaredMethod(d.T, name) }

func (d *regDriver) run(name string, args ...absint.Value) absint.Outcome {
	fn := d.method(name)
	if fn == nil {
		panic(&absint.Undecided{Msg: "registry method " + name + " not declared on " + d.T.Obj().Name()})
	}
	ip := absint.New(d)
	ip.IsLog = core.IsLogCall
	ip.InScope = d.c.InScope
	out := ip.Run(fn, append([]absint.Value{d.recv}, args...), nil)
	d.trans++
	d.syncMaps()
	if out.Undecided != nil {
		panic(out.Undecided)
	}
	if out.Panic != nil {
		panic(&absint.Undecided{Msg: name + " panics in the model: " + out.Panic.Msg})
	}
	return out
}

// syncMaps: containers the registry keeps as plain Go maps (behind a lock of its own) are interpreted, not modelled;
// what they hold for the tracked name is read back into the cell state after every method, so that the exploration
// and the assertions see them like the modelled containers.
func (d *regDriver) syncMaps() {
	key := "tok:" + d.key.ID
	seen := map[*absint.Tok]bool{}
	var walk func(o *absint.Tok, path string, depth int)
	walk = func(o *absint.Tok, path string, depth int) {
		if seen[o] || depth > 3 {
			return
		}
		seen[o] = true
		var names []string
		for k := range o.Fields {
			names = append(names, k)
		}
		sort.Strings(names)
		for _, k := range names {
			switch v := o.Fields[k].(type) {
			case *absint.MapVal:
				cell := "map:" + path + k
				old := d.st[cell]
				cur := ""
				if e, has := v.M[key]; has {
					if t, isTok := e.(*absint.Tok); isTok {
						cur = t.ID
					} else {
						cur = "1" // a set entry
					}
				}
				if cur == "" {
					if old != "" && d.failing {
						if _, ok := d.failDel[cell]; !ok {
							d.failDel[cell] = d.hist()
						}
					}
					delete(d.st, cell)
				} else {
					d.st[cell] = cur
					if strings.HasPrefix(cur, "P") {
						d.pubCells[cell] = true
					}
				}
			case *absint.Tok:
				if v.Class != "cell" && v != d.key && v != d.factoryP && (strings.HasPrefix(v.ID, "alloc") || v.Class == "field") {
					walk(v, path+k+".", depth+1)
				}
			}
		}
	}
	walk(d.recv, "", 0)
}

// callback is entered when the interpreted create method invokes its factory parameter.
func (d *regDriver) callback() absint.Value {
	if d.mon.published != "" {
		d.violate("A3:create re-enters the callback after publication", d.hist())
	}
	d.mon.inCreation, d.mon.added, d.mon.early, d.mon.earlyRuns = true, false, "", 0
	d.mon.nCreate++
	for {
		if d.pos >= len(d.ops) {
			panic(incomplete{})
		}
		op := d.ops[d.pos]
		d.pos++
		if op.kind == "E" {
			if op.ok {
				return absint.Tuple{d.tok(fmt.Sprintf("P%d", d.mon.nCreate)), absint.Nil{}}
			}
			d.failing = true
			return absint.Tuple{absint.Nil{}, d.tok("Xerr")}
		}
		d.exec(op)
	}
}

func (d *regDriver) hist() string {
	var s []string
	for i := 0; i < d.pos && i < len(d.ops); i++ {
		s = append(s, d.ops[i].String())
	}
	return strings.Join(s, " · ")
}

func isTok(v absint.Value) (*absint.Tok, bool) { t, ok := v.(*absint.Tok); return t, ok }

func (d *regDriver) exec(op regOp) {
	switch op.kind {
	case "Q":
		out := d.run("IsSingletonCurrentlyInCreation", d.key)
		got, _ := out.Ret[0].(absint.Bool)
		if bool(got) != d.mon.inCreation {
			switch {
			case d.mon.failedOnce && !d.mon.inCreation:
				d.violate("A2:name still reported in creation after a failed creation", d.hist())
			case d.mon.published != "" && !d.mon.inCreation:
				d.violate("A2:name still reported in creation after publication", d.hist())
			case d.mon.inCreation:
				d.violate("A2:name not reported in creation during its creation callback", d.hist())
			default:
				d.violate("A2:name reported in creation before any creation", d.hist())
			}
		}
	case "L":
		before := d.st.key()
		d.consulted, d.curEarly = 0, op.earlyOK
		out := d.run("GetSingleton", d.key, absint.Bool(op.allow))
		v, e := out.Ret[0], out.Ret[1]
		vt, isV := isTok(v)
		_, isE := isTok(e)
		if d.consulted > 0 && !op.earlyOK {
			if isV || !isE || d.st.key() != before {
				d.violate("A5:early-factory error not returned as (nil, err) with the state unchanged", d.hist())
			}
			return
		}
		switch {
		case d.mon.published != "":
			if !isV || vt.ID != d.mon.published || isE {
				d.violate("A3:lookup after publication does not return the published instance", d.hist()+" => "+absint.Show(v))
			}
		case d.mon.inCreation:
			if isV {
				if d.mon.early == "" {
					d.mon.early = vt.ID
				} else if d.mon.early != vt.ID {
					d.violate("A1:two different early references within one creation", d.hist()+" => "+d.mon.early+" vs "+vt.ID)
				}
				if d.mon.earlyRuns > 1 {
					d.violate("A1:early-reference factory ran more than once within one creation", d.hist())
				}
			} else if d.mon.added && op.allow && !isE {
				d.violate("A1:lookup allowing early references returns nothing although a factory was registered", d.hist())
			} else if d.mon.early != "" && !isE {
				d.violate("A1:early reference lost within one creation", d.hist())
			}
		default:
			if isV && !isE {
				if d.mon.failedOnce {
					d.violate("A4:lookup after a failed creation returns the half-built instance with a nil error", d.hist()+" => ("+vt.ID+", nil)")
				} else {
					d.violate("A4:lookup outside any creation returns an unpublished instance", d.hist()+" => ("+vt.ID+", nil)")
				}
			}
		}
	case "A":
		d.run("AddSingletonFactory", d.key, d.tok(fmt.Sprintf("F%d", d.mon.nCreate)))
		d.mon.added = true
	case "B":
		n0 := d.mon.nCreate
		wasPublished := d.mon.published
		out := d.run("GetSingletonOrCreateByFactory", d.key, d.factoryP)
		d.failing = false
		v, e := out.Ret[0], out.Ret[1]
		vt, isV := isTok(v)
		_, isE := isTok(e)
		entered := d.mon.nCreate > n0
		if !entered {
			if wasPublished == "" || !isV || vt.ID != wasPublished || isE {
				if d.mon.failedOnce && wasPublished == "" {
					d.violate("A4:create after a failed creation does not re-enter the callback", d.hist()+" => "+absint.Show(v))
				} else {
					d.violate("A3:create returns without running the callback although nothing is published", d.hist()+" => "+absint.Show(v))
				}
			}
			return
		}
		// the callback ran and consumed ops up to its CREATE_END
		last := d.ops[d.pos-1]
		d.mon.inCreation, d.mon.added, d.mon.early, d.mon.earlyRuns = false, false, "", 0
		if last.ok {
			want := fmt.Sprintf("P%d", d.mon.nCreate)
			if !isV || vt.ID != want || isE {
				d.violate("A3:successful create does not return the created instance", d.hist()+" => "+absint.Show(v))
			}
			d.mon.published = want
		} else {
			if !isE || isV {
				d.violate("A4:failed create does not return (nil, err)", d.hist()+" => "+absint.Show(out.Ret[0]))
			}
			d.mon.failedOnce = true
		}
	}
}

// replay runs a history from the initial state.  complete=false when the history ends inside a creation.
func (d *regDriver) replay() (complete bool) {
	defer func() {
		if r := recover(); r != nil {
			if _, ok := r.(incomplete); ok {
				complete = false
				return
			}
			panic(r)
		}
	}()
	for d.pos < len(d.ops) {
		op := d.ops[d.pos]
		d.pos++
		d.exec(op)
	}
	return true
}

func newRegDriver(c *core.Ctx, T *types.Named, ops []regOp) *regDriver {
	d := &regDriver{c: c, T: T, st: regState{}, ops: ops, viol: map[string]string{}, pubCells: map[string]bool{}, failDel: map[string]string{}}
	d.recv = absint.NewTok("r", "recv")
	d.key = absint.NewTok("name", "key")
	d.factoryP = absint.NewTok("factory", "factoryParam")
	d.construct()
	return d
}

// alphabetRules: who may un-publish or publish behind the create protocol's back: nobody in scope calls the registry's
// RemoveSingleton / AddSingleton through the interface (the explored alphabet does not contain them; an eviction after
// publication would make the next lookup create a second instance).
func alphabetRules(c *core.Ctx, r *core.Report, rule string) {
	ro := c.Roles()
	rm := c.CallSites(func(com *ssa.CallCommon) bool { return core.IsInvoke(com, ro.SCRRemove) })
	if len(rm) > 0 {
		r.Undecided(rule, "alphabet:RemoveSingleton", c.Pos(rm[0].Pos()), "RemoveSingleton now has an in-scope caller: the explored alphabet no longer covers what the factory can issue (a published singleton can be evicted and created again)")
	} else {
		r.Hold(rule, "alphabet:RemoveSingleton", "", "no in-scope caller of SingletonComponentRegistry.RemoveSingleton")
	}
	pub := c.CallSites(func(com *ssa.CallCommon) bool { return core.IsInvoke(com, ro.SCRAddSingleton) })
	if len(pub) > 0 {
		r.Undecided(rule, "alphabet:AddSingleton", c.Pos(pub[0].Pos()), "AddSingleton now has an in-scope caller outside the registry: the explored alphabet no longer covers what the factory can issue")
	} else {
		r.Hold(rule, "alphabet:AddSingleton", "", "no in-scope caller of SingletonComponentRegistry.AddSingleton outside the registry")
	}
}

func c04(c *core.Ctx, r *core.Report) {
	r.Explanation = "C04 singleton cache protocol as typestate: every receiver field used as a map/set cell becomes an abstract cell for one tracked name; the bodies of AddSingletonFactory, AddSingleton, GetSingleton, GetSingletonOrCreateByFactory and IsSingletonCurrentlyInCreation are interpreted (SSA, symbolic tokens, cell primitives answered by the model, same-receiver helpers inlined, logging effect-free); every history a factory can issue for one name - lookups with/without early references, in-creation queries, create begin, add factory (<=1 per creation), create end ok/fail, early factory ok/fail - is explored to a fixpoint over (cell contents, monitor) with bounded tokens (2 creations, 3 early runs) and checked against observational assertions A1 one early reference / A2 in-creation mark / A3 published is final / A4 clean failure (including: the clean-up of a failed attempt never deletes from a cell that receives published instances) / A5 early-factory error. R1: every cell operation is keyed by the method's name parameter (makes the per-name projection sound). R3: the factory side of the protocol that the alphabet relies on - the accessor consults the cache (early references allowed) before creating, the early factory is registered exactly under the un-narrowed exposure condition and before any dependency is resolved, the creator's own lookup does not allow creating an early reference. Decides every single-name history; does not decide custom registries or the atomicity of sync.Map (C20)."
	r.Assumptions = []string{"sync2.Map / list.Set primitives behave as a map / set per key (delegation checked in C20.R4)", "operations on other names do not touch this name's cells (C04.R1)", "the factory issues at most one AddSingletonFactory per creation and does not re-enter creation of the same name while it is in creation (C02.R1/R3)"}
	impls := implementorsBehindFacades(c, "container", "SingletonComponentRegistry")
	r.Count("registry_impls", len(impls))
	if !r.Exactly("C04.R0", "SingletonComponentRegistry implementations", len(impls), 1) {
		return
	}
	alphabetRules(c, r, "C04.R0")
	// the factory's side of the protocol: the machine above assumes that a name in creation is never created again
	// and that at most one early factory is registered per creation, before anything can look the name up
	if l := findLifecycle(c, r, "C04.R3"); l != nil {
		accessorRules(c, r, "C04.R3", l)
		exposureStructure(c, r, l, "C04.R3", "C04.R3")
		rs, _, und := exposerTable(c, l)
		if und != "" {
			r.Undecided("C04.R3", "exposer-table", c.FnPos(l.exposer), "abstract interpretation left the model: "+und)
		} else {
			rs.report(c, r, l.exposer, func(row string) string {
				// (early-reuse: what is published for the name is the early reference that was handed out for it)
				// (stale-detected: when it is another version, and somebody was handed the early one, the creation fails)
				if row == "expose-iff-condition" || row == "lookup-after-init" || row == "early-reuse" || row == "stale-detected" {
					return "C04.R3"
				}
				return ""
			}, "exposer-table@"+core.FnName(l.exposer), exposerRows)
		}
	}
	for _, T := range impls {
		c04Explore(c, r, T)
		for _, m := range []string{"AddSingletonFactory", "AddSingleton", "GetSingleton", "GetSingletonOrCreateByFactory", "IsSingletonCurrentlyInCreation"} {
			if fn := c.DeclaredMethod(T, m); fn != nil {
				smallModelCheck(c, r, "C04.R0", "registry:"+T.Obj().Name()+"."+m, fn, 1)
			}
		}
	}
}

func c04Explore(c *core.Ctx, r *core.Report, T *types.Named) {
	name := "registry:" + T.Obj().Name()
	pos := c.Pos(T.Obj().Pos())
	type node struct{ ops []regOp }
	maxCreate, maxEarly, maxHist := 2, 3, 14
	if c.Tier == "thorough" {
		maxCreate, maxEarly, maxHist = 3, 5, 22
	}
	r.Extra["bounds"] = map[string]int{"creations": maxCreate, "early_runs": maxEarly, "history_length": maxHist}
	seen := map[string]bool{}
	queue := []node{{nil}}
	viol := map[string]string{}
	pubCells, failDel := map[string]bool{}, map[string]string{}
	states, transitions, histories := 0, 0, 0
	maxLen := 0
	var sampleHist []string
	undec := ""
	func() {
		defer func() {
			if x := recover(); x != nil {
				if u, ok := x.(*absint.Undecided); ok {
					undec = u.Msg
					return
				}
				panic(x)
			}
		}()
		for len(queue) > 0 {
			n := queue[0]
			queue = queue[1:]
			d := newRegDriver(c, T, n.ops)
			complete := d.replay()
			histories++
			transitions += d.trans
			for k, v := range d.viol {
				if _, ok := viol[k]; !ok {
					viol[k] = v
				}
			}
			for cell := range d.pubCells {
				pubCells[cell] = true
			}
			for cell, h := range d.failDel {
				if _, ok := failDel[cell]; !ok {
					failDel[cell] = h
				}
			}
			key := d.st.key() + "#" + d.mon.key() + fmt.Sprint("#", complete)
			if seen[key] {
				continue
			}
			seen[key] = true
			states++
			if len(n.ops) > maxLen {
				maxLen = len(n.ops)
			}
			if len(sampleHist) < 6 && len(n.ops) >= 4 {
				sampleHist = append(sampleHist, d.hist()+"  ⇒ cells{"+d.st.key()+"}")
			}
			if len(n.ops) >= maxHist {
				continue
			}
			// successors
			var next []regOp
			next = append(next, regOp{kind: "Q"})
			for _, allow := range []bool{true, false} {
				next = append(next, regOp{kind: "L", allow: allow, earlyOK: true})
				if d.mon.nEarly < maxEarly {
					next = append(next, regOp{kind: "L", allow: allow, earlyOK: false})
				}
			}
			if d.mon.nEarly >= maxEarly {
				// bound on early tokens reached: do not extend with lookups that could mint more
				next = next[:1]
			}
			if !d.mon.inCreation {
				if d.mon.nCreate < maxCreate {
					next = append(next, regOp{kind: "B"})
				}
			} else {
				if !d.mon.added {
					next = append(next, regOp{kind: "A"})
				}
				next = append(next, regOp{kind: "E", ok: true}, regOp{kind: "E", ok: false})
			}
			for _, op := range next {
				queue = append(queue, node{append(append([]regOp(nil), n.ops...), op)})
			}
		}
	}()
	r.Count("abstract_states", states)
	r.Count("transitions", transitions)
	r.Count("histories_replayed", histories)
	r.Extra["states"] = states
	r.Extra["transitions"] = transitions
	r.Extra["longest_history"] = maxLen
	r.Extra["sample_histories"] = sampleHist
	if undec != "" {
		rule := "C04.R0"
		if strings.Contains(undec, "instead of the method's name parameter") {
			rule = "C04.R1"
			r.Fail(rule, name+":key-discipline", pos, undec)
			return
		}
		r.Undecided(rule, name+":model", pos, "the registry left the modelled fragment: "+undec)
		return
	}
	// a failed attempt takes away only what it left behind: its clean-up never deletes from the cell that holds
	// published instances (an overlapping or earlier successful attempt's result would be un-published)
	for cell, h := range failDel {
		if pubCells[cell] {
			viol["A4:failure clean-up deletes from the cell of published instances ("+cell+")"] = h
		}
	}
	r.Exhaustive = true
	r.Hold("C04.R1", name+":key-discipline", pos, "every cell operation executed in any explored history is keyed by the method's name parameter")
	assertions := map[string]string{
		"A1": "within one creation all lookups observe one early reference, produced by at most one run of the early factory",
		"A2": "the name is reported in creation exactly during its creation callback",
		"A3": "after a successful creation the published instance is the only thing ever returned and creation never re-runs",
		"A4": "after a failed creation nothing of the attempt stays visible and creation can be re-attempted",
		"A5": "an early-factory error is returned as (nil, err) and changes nothing",
	}
	var ids []string
	for k := range assertions {
		ids = append(ids, k)
	}
	sort.Strings(ids)
	for _, a := range ids {
		found := false
		var classes []string
		for k := range viol {
			if strings.HasPrefix(k, a+":") {
				classes = append(classes, k)
			}
		}
		sort.Strings(classes)
		for _, k := range classes {
			found = true
			r.Fail("C04."+a, name+":"+strings.TrimPrefix(k, a+":"), pos, strings.TrimPrefix(k, a+":"), "history: "+viol[k])
		}
		if !found {
			r.Hold("C04."+a, name, pos, fmt.Sprintf("%s — on all %d reachable abstract states / %d interpreted method calls", assertions[a], states, transitions))
		}
	}
}
