package rules

import (
	"fmt"
	"go/types"
	"strings"

	"golang.org/x/tools/go/ssa"

	"iocvet/internal/absint"
	"iocvet/internal/core"
)

func init() { register("C15", c15) }

// reachesInvoke: fn (or its literals / in-scope static callees, depth-limited) contains an invoke of m.
func reachesInvoke(c *core.Ctx, fn *ssa.Function, m *types.Func, depth int) ssa.CallInstruction {
	for _, f := range core.WithAnon(fn) {
		for _, ci := range core.Calls(f) {
			if core.IsInvoke(ci.Common(), m) {
				return ci
			}
			if depth > 0 {
				if cal := ci.Common().StaticCallee(); cal != nil && c.InScope(cal) && !core.IsLogCall(ci.Common()) {
					if s := reachesInvoke(c, cal, m, depth-1); s != nil {
						return s
					}
				}
			}
		}
	}
	return nil
}

// constOrder evaluates a method whose every return is the same integer constant.
func constOrder(fn *ssa.Function) (int64, bool) { return constOrderDepth(fn, 0) }

func constOrderDepth(fn *ssa.Function, depth int) (int64, bool) {
	if fn == nil || fn.Blocks == nil || depth > 3 {
		return 0, false
	}
	var val int64
	n := 0
	for _, ret := range core.Returns(fn) {
		if len(ret.Results) != 1 {
			return 0, false
		}
		k, ok := core.ConstInt(ret.Results[0])
		if !ok {
			// handed over to a collaborator: what that answers
			if call, isCall := core.Norm(ret.Results[0]).(*ssa.Call); isCall && len(call.Common().Args) <= 1 {
				cal := call.Common().StaticCallee()
				if cal == nil {
					cal = core.Seam(call.Common())
				}
				k, ok = constOrderDepth(cal, depth+1)
			}
		}
		if !ok {
			return 0, false
		}
		if n > 0 && k != val {
			return 0, false
		}
		val = k
		n++
	}
	return val, n > 0
}

// orderClass: contract class of a type: "P" priority-ordered, "O" ordered, "U" otherwise.
func orderClass(c *core.Ctx, T types.Type) string {
	ord, pri := c.Iface("definition", "Ordered"), c.Iface("definition", "Priority")
	impl := func(i *types.Interface) bool {
		return types.Implements(T, i) || types.Implements(types.NewPointer(T), i)
	}
	switch {
	case impl(ord) && impl(pri):
		return "P"
	case impl(ord):
		return "O"
	}
	return "U"
}

func c15(c *core.Ctx, r *core.Report) {
	ro := c.Roles()
	r.Explanation = "C15 configuration sources: (R1) the loader loop ranges forward over the sorted loaders, leaves early only with a non-nil error, and hands every non-empty result to Binder.SetConfig; (R2) every Binder.SetConfig implementation merges (viper.MergeConfig) and never replaces (ReadConfig); (R3) the adding options (app.SetConfig, app.AddConfigLoader) reach Configure.AddLoaders and never SetLoaders, SetLoaders has no other in-scope caller than the documented replacer and the default constructor; (R4) AddLoaders appends to the loader field that the loader loop sorts and ranges; (R5) loader classes: FileLoader is priority-ordered with constant Order 0, raw/args loaders are unordered; (R6) the default configuration installs the command-line loader and a binder; (R7) the command-line loader maps exactly the --app.config=key=value arguments to key -> parsed value (decision table over concrete argument lists); (R8) file and raw loaders hand back exactly what they were given. Decides order and non-loss of sources; viper's deep merge of keys is trusted."
	r.Assumptions = []string{"viper.MergeConfig deep-merges and later values win", "yaml/properties encoders are faithful"}

	// ---- R1 loader loop: decision table of every Configure implementation's Initialize (see R4 for the field)
	sites := c.CallSites(func(com *ssa.CallCommon) bool { return core.IsInvoke(com, ro.LoaderLoad) })
	r.Floor("C15.R1", "invoke sites of Loader.LoadConfig", len(sites), 1)
	// every site that asks a loader belongs to a start routine the load table interprets (Initialize with whatever it
	// calls), or is a loader's own LoadConfig handing the question on to the loader it wraps
	inLoad := map[*ssa.Function]bool{}
	for _, T := range c.Implementors(c.Iface("configure", "Configure")) {
		if initFn := c.DeclaredMethod(T, "Initialize"); initFn != nil {
			reachesCall(initFn, func(*ssa.CallCommon) bool { return false }, inLoad)
		}
	}
	ldIface := c.Iface("configure", "Loader")
	for _, s := range sites {
		fn := core.TopLevel(s.Parent())
		ok := inLoad[fn] || inLoad[s.Parent()]
		if !ok && fn.Signature.Recv() != nil && fn.Name() == "LoadConfig" && ldIface != nil {
			rt := fn.Signature.Recv().Type()
			ok = types.Implements(rt, ldIface) || types.Implements(types.NewPointer(rt), ldIface)
		}
		r.Check(ok, "C15.R1", "load-site@"+core.FnName(s.Parent()), c.Pos(s.Pos()), "a loader is asked for its configuration only by the start routine the load table decides (or by a loader that forwards to the one it wraps)")
	}

	// ---- R2 binder implementations merge
	bimpls := c.Implementors(c.Iface("configure", "Binder"))
	nb := 0
	for _, T := range bimpls {
		m := c.DeclaredMethod(T, "SetConfig")
		if m == nil || forwardsToHeld(m) {
			continue // promoted from an embedded Binder, or handed on to a held one: delegates
		}
		nb++
		cons := "SetConfig@" + core.FnName(m)
		var merge *ssa.Call
		bad := ""
		for _, ci := range core.Calls(m) {
			cal := core.Callee(ci.Common())
			if cal == nil {
				continue
			}
			switch cal.String() {
			case "(*github.com/spf13/viper.Viper).MergeConfig", "(*github.com/spf13/viper.Viper).MergeConfigMap":
				if cl, ok := ci.(*ssa.Call); ok {
					merge = cl
				}
			case "(*github.com/spf13/viper.Viper).ReadConfig", "(*github.com/spf13/viper.Viper).ReadInConfig", "github.com/spf13/viper.New", "(*github.com/spf13/viper.Viper).Set":
				bad = cal.Name()
			}
		}
		if merge == nil {
			r.Fail("C15.R2", cons, c.FnPos(m), "SetConfig does not reach viper.MergeConfig (a later source would replace earlier ones) "+bad)
			continue
		}
		ok, ret := core.NilOnlyIf(m, merge)
		pos := c.Pos(merge.Pos())
		if ret != nil {
			pos = c.Pos(ret.Pos())
		}
		// the merged bytes derive from the parameter
		fromParam := false
		for _, o := range core.Origins(merge.Common().Args[1], func(v ssa.Value) bool { _, isP := v.(*ssa.Parameter); return isP }) {
			if call, isCall := o.(*ssa.Call); isCall {
				for _, a := range call.Common().Args {
					if p, isP := core.Norm(a).(*ssa.Parameter); isP && p == m.Params[1] {
						fromParam = true
					}
				}
			}
			if p, isP := o.(*ssa.Parameter); isP && p == m.Params[1] {
				fromParam = true
			}
		}
		r.Check(ok && bad == "" && fromParam && !core.InLoop(merge.Block()) && c.PostDom(m).PostDominates(merge.Block(), m.Blocks[0]), "C15.R2", cons, pos,
			"SetConfig merges exactly the given document once on every path, returns nil only if the merge succeeded, and never replaces ("+bad+")")
	}
	r.Floor("C15.R2", "Binder implementations declaring SetConfig", nb, 1)

	// ---- R3 adding options
	addL := c.IfaceMethod("configure", "Configure", "AddLoaders")
	setL := c.IfaceMethod("configure", "Configure", "SetLoaders")
	if addL == nil || setL == nil {
		r.Undecided("C15.R3", "role:Configure.AddLoaders/SetLoaders", "", "Configure.AddLoaders / SetLoaders not found")
	} else {
		for _, name := range []string{"SetConfig", "AddConfigLoader"} {
			opt := c.Func("app", name)
			cons := "option:app." + name
			if opt == nil {
				r.Undecided("C15.R3", cons, "", "adding option not found (renaming it is an API break)")
				continue
			}
			a := reachesInvoke(c, opt, addL, 1)
			s := reachesInvoke(c, opt, setL, 1)
			switch {
			case s != nil:
				r.Fail("C15.R3", cons, c.Pos(s.Pos()), "an option that adds a configuration source calls Configure.SetLoaders, which discards every source configured earlier")
			case a == nil:
				r.Fail("C15.R3", cons, c.FnPos(opt), "adding option never reaches Configure.AddLoaders")
			default:
				// the added loaders derive from the option's arguments
				r.Hold("C15.R3", cons, c.Pos(a.Pos()), "reaches Configure.AddLoaders and never SetLoaders")
			}
		}
		// who may call SetLoaders
		allowed := map[string]bool{"app.SetConfigLoader": true, "configure.Default": true}
		for _, s := range c.CallSites(func(com *ssa.CallCommon) bool { return core.IsInvoke(com, setL) }) {
			top := core.FnName(core.TopLevel(s.Parent()))
			r.Check(allowed[top], "C15.R3", "who-calls-SetLoaders:"+top, c.Pos(s.Pos()), "Configure.SetLoaders (replace) is called only by the documented replacer app.SetConfigLoader and the default constructor")
		}
	}

	// ---- R4 AddLoaders appends to the field the loader loop uses
	cimpls := c.Implementors(c.Iface("configure", "Configure"))
	nc := 0
	for _, T := range cimpls {
		add := c.DeclaredMethod(T, "AddLoaders")
		if add == nil {
			continue
		}
		nc++
		cons := "AddLoaders@" + core.FnName(add)
		okAppend := false
		var fld core.FieldRef
		for _, b := range add.Blocks {
			for _, in := range b.Instrs {
				st, ok := in.(*ssa.Store)
				if !ok {
					continue
				}
				fa, ok := st.Addr.(*ssa.FieldAddr)
				if !ok {
					continue
				}
				call, ok := st.Val.(*ssa.Call)
				if !ok {
					continue
				}
				if bi, isB := call.Common().Value.(*ssa.Builtin); !isB || bi.Name() != "append" {
					continue
				}
				fr, _ := core.FieldOfAddr(fa)
				if bfa, ok := core.IsFieldLoad(core.Norm(call.Common().Args[0]), fr.Owner, fr.Name); ok && core.Equiv(bfa.X, fa.X) {
					if p, isP := core.Norm(call.Common().Args[1]).(*ssa.Parameter); isP && p == add.Params[len(add.Params)-1] {
						okAppend = true
						fld = fr
					}
				}
			}
		}
		if okAppend && len(add.Blocks) == 1 {
			r.Hold("C15.R4", cons, c.FnPos(add), "AddLoaders stores append(<the loader field>, <all given loaders>...) unconditionally")
		} // any other shape: the load table registers its loaders through AddLoaders (two calls) and decides that exactly they are loaded, in order
		smallModelCheck(c, r, "C15.R4", cons, add, 3)
		if true {
			initFn := c.DeclaredMethod(T, "Initialize")
			if initFn == nil {
				r.Undecided("C15.R1", "load-table@"+T.Obj().Name(), c.FnPos(add), "the Configure implementation declares no Initialize method")
			} else {
				maxLen := 2
				if r.Tier == "thorough" {
					maxLen = 3
				}
				lrs, lruns, lund := loadTable(c, initFn, fld.Name, maxLen)
				r.Count("load_table_runs", lruns)
				lcons := "load-table@" + core.FnName(initFn)
				if lund != "" {
					r.Undecided("C15.R1", lcons, c.FnPos(initFn), "abstract interpretation left the model: "+lund)
				} else {
					smallModelCheck(c, r, "C15.R1", lcons, initFn, int64(maxLen))
					lrs.report(c, r, initFn, func(row string) string {
						if row == "order" {
							return "C15.R4"
						}
						return "C15.R1"
					}, lcons, loadRows)
				}
			}
		}
	}
	r.Floor("C15.R4", "Configure implementations declaring AddLoaders", nc, 1)

	// ---- R5 loader classes
	type lc struct {
		name, class string
	}
	for _, want := range []lc{{"FileLoader", "P"}, {"RawLoader", "U"}, {"ArgsLoader", "U"}} {
		T := c.Named("configure/loader", want.name)
		cons := "loader-class:" + want.name
		if T == nil {
			r.Undecided("C15.R5", cons, "", "loader type not found")
			continue
		}
		got := orderClass(c, T)
		ok := got == want.class
		detail := "class " + got
		if want.class == "P" {
			ord, okc := constOrder(c.Method(T, "Order"))
			ok = ok && okc && ord == 0
			detail += ", constant Order " + strings.TrimSpace(strings.Repeat(" ", 0)) + itoa(ord)
		}
		r.Check(ok, "C15.R5", cons, c.Pos(T.Obj().Pos()), "file loader is priority-ordered with constant Order 0; raw and args loaders implement neither Ordered nor Priority ("+detail+")")
	}

	// ---- R6 default configure
	def := c.Func("configure", "Default")
	if def == nil {
		r.Undecided("C15.R6", "configure.Default", "", "configure.Default not found")
	} else {
		argsL := c.Func("configure/loader", "NewArgsLoader")
		viperB := c.Func("configure/binder", "NewViperBinder")
		setB := c.IfaceMethod("configure", "Configure", "SetBinder")
		okArgs, okBinder := false, false
		for _, ci := range core.Calls(def) {
			com := ci.Common()
			if (core.IsInvoke(com, setL) || core.IsInvoke(com, addL)) && len(com.Args) == 1 {
				for _, o := range core.Origins(com.Args[0], nil) {
					if call, ok := o.(*ssa.Call); ok && core.IsCallTo(call.Common(), argsL) {
						okArgs = true
					}
				}
			}
			if core.IsInvoke(com, setB) && len(com.Args) == 1 {
				for _, o := range core.Origins(com.Args[0], nil) {
					if call, ok := o.(*ssa.Call); ok && core.IsCallTo(call.Common(), viperB) {
						okBinder = true
					}
				}
			}
		}
		okDef := okArgs && okBinder && len(def.Blocks) == 1
		if !okDef && argsL != nil && viperB != nil {
			// however it is put together: what the function hands out holds the command-line loader as its only
			// loader and the merging binder, whatever happens (one abstract run: the function takes no decisions)
			okDef = defaultConfigureByState(c, def, argsL, viperB)
		}
		r.Check(okDef, "C15.R6", "configure.Default", c.FnPos(def), "the default configuration unconditionally installs the command-line loader and a merging binder")
		// and NewApp uses it
		// (decided by interpreting the constructor, whatever helpers it is split into, with every function of another
		// package standing for an opaque result)
		newApp := c.Func("app", "NewApp")
		usesDef, detail := false, "app.NewApp not found"
		if newApp != nil {
			defTok := absint.NewTok("configure.Default()", "configure")
			build := func() (absint.Oracle, []absint.Value, []absint.Value) {
				t := newTbl(c)
				seen := map[*ssa.Function]bool{}
				var walk func(fn *ssa.Function)
				walk = func(fn *ssa.Function) {
					if seen[fn] || fn.Blocks == nil {
						return
					}
					seen[fn] = true
					for _, g := range core.WithAnon(fn) {
						for _, ci := range core.Calls(g) {
							cal := ci.Common().StaticCallee()
							if cal == nil || !c.InScope(cal) {
								continue
							}
							if core.PkgOf(cal) != nil && core.PartOf(core.PkgOf(cal), core.PkgOf(newApp)) {
								walk(cal)
								continue
							}
							t.callee[cal] = func(ip *absint.Interp, a []absint.Value) absint.Value {
								if cal == def {
									return defTok
								}
								return absint.NewTok(core.FnName(cal)+"()", "opaque")
							}
						}
					}
				}
				walk(newApp)
				t.ext["flag.Parse"] = func(ip *absint.Interp, a []absint.Value) absint.Value { return absint.Nil{} }
				return t, nil, nil
			}
			n, u := runTable(c, newApp, build, func(ip *absint.Interp, out absint.Outcome) {
				detail = showOutcome(out)
				if app, ok := first(out.Ret).(*absint.Tok); ok && out.Panic == nil {
					usesDef = ip.LoadField(app, "Configure", types.Typ[types.Invalid]) == absint.Value(defTok)
				}
			})
			if u != "" {
				detail = "undecided: " + u
			}
			_ = n
		}
		r.Check(usesDef, "C15.R6", "app.NewApp", c.FnPos(newApp), "NewApp starts from configure.Default(): the application it returns holds the default configuration ("+detail+")")
	}
	c15ArgsLoader(c, r)
}

func itoa(i int64) string {
	s := ""
	neg := i < 0
	if neg {
		i = -i
	}
	if i == 0 {
		s = "0"
	}
	for i > 0 {
		s = string(rune('0'+i%10)) + s
		i /= 10
	}
	if neg {
		s = "-" + s
	}
	return s
}

// isNilTestOf: the branch edge is the nil (wantNil) or non-nil edge of a nil test of v.
func isNilTestOf(cd core.CondEdge, v ssa.Value, wantNil bool) bool {
	for _, t := range core.NilTests(v) {
		if t.If == cd.If {
			succ := cd.If.Block().Succs[1]
			if cd.Branch {
				succ = cd.If.Block().Succs[0]
			}
			if wantNil {
				return succ == t.Nil
			}
			return succ == t.NonNil
		}
	}
	return false
}

// isLenNonZeroTest: the edge taken when len(v) != 0.
func isLenNonZeroTest(cd core.CondEdge, v ssa.Value) bool {
	b, ok := cd.If.Cond.(*ssa.BinOp)
	if !ok {
		return false
	}
	ln, ok := b.X.(*ssa.Call)
	if !ok {
		return false
	}
	bi, ok := ln.Common().Value.(*ssa.Builtin)
	if !ok || bi.Name() != "len" || core.Norm(ln.Common().Args[0]) != v {
		return false
	}
	k, ok := core.ConstInt(b.Y)
	if !ok || k != 0 {
		return false
	}
	switch b.Op.String() {
	case "!=", ">":
		return cd.Branch
	case "==":
		return !cd.Branch
	}
	return false
}

// c15ArgsLoader: R7 — the command-line loader turns every --app.config=key=value argument (and only those) into
// one entry key -> parsed value of the document it returns (decision table over concrete argument texts).
func c15ArgsLoader(c *core.Ctx, r *core.Report) {
	T := c.Named("configure/loader", "ArgsLoader")
	if T == nil {
		r.Undecided("C15.R7", "role:ArgsLoader", "", "loader.ArgsLoader not found")
		return
	}
	fn := c.DeclaredMethod(T, "LoadConfig")
	if fn == nil {
		r.Undecided("C15.R7", "role:ArgsLoader.LoadConfig", "", "ArgsLoader.LoadConfig not found")
		return
	}
	cases := []struct {
		args []string
		want []string
	}{
		{[]string{"prog"}, nil},
		{[]string{"prog", "-v", "--logLevel=debug"}, nil},
		{[]string{"prog", "--app.name=demo", "--application=x"}, nil},
		{[]string{"prog", "--app.config=a.b=1"}, []string{`a.b=parsed("1")`}},
		{[]string{"prog", "--app.config=a.b=1", "--other=x", "--app.config=flag", "--app.config=k=v=w"}, []string{`a.b=parsed("1")`, `flag=parsed("")`, `k=parsed("v=w")`}},
		{[]string{"--app.config=x=1", "--app.config=x=2"}, []string{`x=parsed("1")`, `x=parsed("2")`}},
	}
	bad := ""
	runs := 0
	for _, cs := range cases {
		var sets []string
		var parseErr, yamlErr bool
		var doc *absint.MapVal
		build := func() (absint.Oracle, []absint.Value, []absint.Value) {
			sets, parseErr, yamlErr, doc = nil, false, false, nil
			t := newTbl(c)
			in := &absint.List{}
			for _, a := range cs.args {
				in.Elems = append(in.Elems, absint.Str(a))
			}
			str := func(v absint.Value) string {
				s, ok := v.(absint.Str)
				if !ok {
					panic(&absint.Undecided{Msg: "string function on a non-literal"})
				}
				return string(s)
			}
			stringModels(t) // the standard string functions on literal texts
			t.ext["github.com/go-kid/properties.New"] = func(ip *absint.Interp, a []absint.Value) absint.Value {
				doc = &absint.MapVal{M: map[string]absint.Value{}}
				return doc
			}
			t.ext["(github.com/go-kid/properties.Properties).Set"] = func(ip *absint.Interp, a []absint.Value) absint.Value {
				m, ok := a[0].(*absint.MapVal)
				if !ok {
					panic(&absint.Undecided{Msg: "Properties.Set on something else than the document"})
				}
				m.M[str(a[1])] = a[2]
				m.IsNil = false
				sets = append(sets, str(a[1])+"="+absint.Show(a[2]))
				return nil
			}
			t.ext["github.com/go-kid/strconv2.ParseAny"] = func(ip *absint.Interp, a []absint.Value) absint.Value {
				if parseErr = ip.Choose(2, "parse") == 1; parseErr {
					return absint.Tuple{absint.Nil{}, t.newErr("parse")}
				}
				return absint.Tuple{absint.NewTok("parsed("+absint.Show(a[0])+")", "cfg"), absint.Nil{}}
			}
			t.ext["gopkg.in/yaml.v3.Marshal"] = func(ip *absint.Interp, a []absint.Value) absint.Value {
				if yamlErr = ip.Choose(2, "yaml") == 1; yamlErr {
					return absint.Tuple{&absint.List{IsNil: true}, t.newErr("yaml")}
				}
				if a[0] != absint.Value(doc) {
					panic(&absint.Undecided{Msg: "yaml.Marshal of something else than the document"})
				}
				return absint.Tuple{absint.NewTok("yaml(document)", "bytes"), absint.Nil{}}
			}
			return t, []absint.Value{in}, nil
		}
		check := func(ip *absint.Interp, out absint.Outcome) {
			w := fmt.Sprintf("args=%v sets=%v => %s", cs.args, sets, showOutcome(out))
			if out.Panic != nil {
				bad = "PANIC " + w
				return
			}
			isErr := len(out.Ret) == 2 && isErrTok(out.Ret[1])
			if parseErr || yamlErr {
				if !isErr {
					bad = "error not propagated: " + w
				}
				return
			}
			if strings.Join(sets, "|") != strings.Join(cs.want, "|") || isErr {
				bad = w + " want " + strings.Join(cs.want, "|")
				return
			}
			if len(cs.want) == 0 {
				if l, ok := out.Ret[0].(*absint.List); !ok || len(l.Elems) != 0 {
					bad = "no command-line configuration but a document is returned: " + w
				}
			} else if !isTokID(out.Ret[0], "yaml(document)") {
				bad = "the document is not what is returned: " + w
			}
		}
		n, u := runTable(c, fn, build, check)
		runs += n
		if u != "" {
			bad = "left the model: " + u
		}
	}
	r.Check(bad == "", "C15.R7", "args-loader@"+core.FnName(fn), c.FnPos(fn), fmt.Sprintf("every --app.config=key=value argument, and nothing else, becomes key -> parsed value (split at the first '=') of the returned document; no such argument yields no document; errors propagate (%d abstract runs) %s", runs, bad))
	loaderIdentityRules(c, r, "C15.R8")
}

// loaderIdentityRules: file and raw loaders hand back exactly what they were given, reported under rule.
func loaderIdentityRules(c *core.Ctx, r *core.Report, rule string) {
	// R8 file and raw loaders hand back exactly what they were given
	if fl := c.Named("configure/loader", "FileLoader"); fl != nil {
		if m := c.DeclaredMethod(fl, "LoadConfig"); m != nil {
			ok := false
			for _, ci := range core.Calls(m) {
				if call, isCall := ci.(*ssa.Call); isCall && core.IsExtCall(call.Common(), "os.ReadFile") {
					arg := core.Norm(call.Common().Args[0])
					if cv, isCv := arg.(*ssa.Convert); isCv {
						arg = core.Norm(cv.X)
					}
					_, isRecv := arg.(*ssa.Parameter)
					okRet := false
					for _, ret := range core.Returns(m) {
						if core.ClassifyReturn(ret) == core.RetSuccess && core.Norm(ret.Results[0]) == core.ResultValue(call, 0) {
							okRet = true
						}
					}
					u := core.ClassifyErr(call)
					ok = isRecv && okRet && (u.Class == core.ErrTested || u.Class == core.ErrReturned)
				}
			}
			r.Check(ok, rule, "file-loader@"+core.FnName(m), c.FnPos(m), "the file loader returns the bytes of the file named by the loader itself; a read error propagates")
		}
	}
	if rl := c.Named("configure/loader", "RawLoader"); rl != nil {
		if m := c.DeclaredMethod(rl, "LoadConfig"); m != nil {
			ok := len(m.Blocks) == 1
			for _, ret := range core.Returns(m) {
				v := core.Norm(ret.Results[0])
				if cv, isCv := v.(*ssa.Convert); isCv {
					v = core.Norm(cv.X)
				}
				if _, isP := v.(*ssa.Parameter); !isP || !core.IsNilConst(ret.Results[1]) {
					ok = false
				}
			}
			r.Check(ok, rule, "raw-loader@"+core.FnName(m), c.FnPos(m), "the raw loader returns its own bytes")
		}
	}
}

// defaultConfigureByState interprets configure.Default with the two constructors standing for tokens and looks at the
// object it hands out: one loader list holding exactly the command-line loader, one field holding the binder.
func defaultConfigureByState(c *core.Ctx, def, argsL, viperB *ssa.Function) bool {
	ok := true
	runs, und := runTable(c, def, func() (absint.Oracle, []absint.Value, []absint.Value) {
		t := newTbl(c)
		t.callee[argsL] = func(ip *absint.Interp, a []absint.Value) absint.Value { return absint.NewTok("ARGS-LOADER", "loader") }
		t.callee[viperB] = func(ip *absint.Interp, a []absint.Value) absint.Value {
			return absint.NewTok("MERGING-BINDER", "binder")
		}
		t.global = func(g *ssa.Global) absint.Value {
			if g.Pkg != nil && g.Pkg.Pkg.Path() == "os" {
				return &absint.Opaque{Why: "os." + g.Name()}
			}
			return nil
		}
		return t, nil, nil
	}, func(ip *absint.Interp, out absint.Outcome) {
		if out.Panic != nil || len(out.Ret) != 1 {
			ok = false
			return
		}
		obj, isTok := out.Ret[0].(*absint.Tok)
		if !isTok {
			ok = false
			return
		}
		loaders, binder := 0, 0
		for _, v := range obj.Fields {
			switch x := v.(type) {
			case *absint.List:
				if len(x.Elems) == 1 && absint.Show(x.Elems[0]) == "ARGS-LOADER" {
					loaders++
				} else if len(x.Elems) > 0 {
					ok = false
				}
			case *absint.Tok:
				if x.ID == "MERGING-BINDER" {
					binder++
				}
			}
		}
		if loaders != 1 || binder != 1 {
			ok = false
		}
	})
	return ok && und == "" && runs >= 1
}
