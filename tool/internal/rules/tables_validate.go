package rules

import (
	"fmt"
	"go/types"
	"strings"

	"iocvet/internal/absint"
	"iocvet/internal/core"
)

var validateRows = map[string]string{
	"not-gated-in": "a property that is not a configuration property, or carries no validate argument, is never validated and never fails",
	"struct":       "a configuration property of struct kind (or pointer to struct) with a validate argument is validated exactly once with Struct() on its bound value",
	"var":          "any other accessible configuration property with a validate argument is validated exactly once with Var() on its bound value and the argument's items joined by ','",
	"inaccessible": "a non-struct value that cannot be turned into an interface is skipped without error",
	"error":        "a validator verdict becomes the stage's error, and nothing else does; later properties are not validated after a failure",
	"continues":    "a property that needs no validation does not end the loop: the next property is still validated",
}

// validateTable interprets the validation stage's PostProcessProperties - with whatever helpers it is split into - on a
// list of two properties: the first one varies over property type x validate argument x field kind x interface
// access x bound text, the second is a fixed configuration property that must be validated with Var() unless the
// first one failed.
func validateTable(c *core.Ctx, p *procInfo) (rs rows, runs int, undecided string) {
	rs = rows{}
	prop := c.Named("component_definition", "Property")
	tagArg := c.Named("component_definition", "TagArg")
	argsM := c.DeclaredMethod(prop, "Args")
	find := c.DeclaredMethod(tagArg, "Find")
	has := c.DeclaredMethod(tagArg, "Has")
	if argsM == nil || find == nil {
		return rs, 0, "Property.Args / TagArg.Find not found"
	}
	type shape struct {
		name       string
		kind, elem int64
	}
	shapes := []shape{{"struct", 25, 0}, {"*struct", 22, 25}, {"*int", 22, 2}, {"int", 2, 0}, {"string", 24, 0}, {"[]string", 23, 24}, {"map", 21, 0}}
	for _, ptype := range []string{"Configuration", "Component"} {
		for _, hasValidate := range []bool{true, false} {
			for _, sh := range shapes {
				for _, canIface := range []bool{true, false} {
					for _, text := range []string{"", "text"} {
						var calls []string
						var failed []bool
						mk := func(t *tbl, id, ptype string, validate bool, sh shape, canIface bool, text string) *absint.Tok {
							pr := absint.NewTok(id, "property")
							fld := absint.NewTok(id+".Field", "field")
							base := absint.NewTok(id+".Field.Base", "base")
							ft := absint.NewTok("T:"+sh.name, "type")
							ft.Attr["kind"] = absint.Int(sh.kind)
							if sh.elem != 0 {
								et := absint.NewTok("T:elem("+sh.name+")", "type")
								et.Attr["kind"] = absint.Int(sh.elem)
								ft.Attr["elem"] = et
							}
							rv := absint.NewTok("value("+id+")", "reflected")
							rv.Attr["canInterface"] = absint.Bool(canIface)
							rv.Attr["type"] = ft
							args := absint.NewTok(id+".args", "tagargs")
							args.Attr["validate"] = absint.Bool(validate)
							pr.Fields["Field"], fld.Fields["Base"] = fld, base
							base.Fields["Type"], base.Fields["Value"] = ft, rv
							pr.Fields["PropertyType"] = absint.Str(ptype)
							pr.Fields["TagVal"], pr.Fields["TagStr"] = absint.Str(text), absint.Str(text)
							pr.Fields["Tag"] = absint.Str("value")
							pr.Fields["args"] = args
							return pr
						}
						build := func() (absint.Oracle, []absint.Value, []absint.Value) {
							calls, failed = nil, nil
							t := newTbl(c)
							self := absint.NewTok("proc", "processor")
							vd := absint.NewTok("validator", "validator")
							t.field = func(ip *absint.Interp, obj *absint.Tok, name string, typ types.Type) absint.Value {
								if obj == self {
									return vd
								}
								return nil
							}
							p1 := mk(t, "p1", ptype, hasValidate, sh, canIface, text)
							p2 := mk(t, "p2", "Configuration", true, shape{"int", 2, 0}, true, "7")
							t.callee[argsM] = func(ip *absint.Interp, a []absint.Value) absint.Value {
								if pt, ok := a[0].(*absint.Tok); ok && pt.Fields["args"] != nil {
									return pt.Fields["args"]
								}
								panic(&absint.Undecided{Msg: "Args() of an unknown property"})
							}
							lookup := func(a []absint.Value) (bool, bool) {
								at, ok := a[0].(*absint.Tok)
								k, ok2 := a[1].(absint.Str)
								if !ok || !ok2 || at.Attr["validate"] == nil {
									panic(&absint.Undecided{Msg: "TagArg lookup on unmodelled arguments"})
								}
								return strings.EqualFold(string(k), "validate"), bool(at.Attr["validate"].(absint.Bool))
							}
							t.callee[find] = func(ip *absint.Interp, a []absint.Value) absint.Value {
								if isV, present := lookup(a); isV && present {
									return absint.Tuple{&absint.List{Elems: []absint.Value{absint.Str("r1"), absint.Str("r2")}}, absint.Bool(true)}
								}
								return absint.Tuple{&absint.List{IsNil: true}, absint.Bool(false)}
							}
							if has != nil {
								t.callee[has] = func(ip *absint.Interp, a []absint.Value) absint.Value {
									isV, present := lookup(a)
									return absint.Bool(isV && present)
								}
							}
							typeAttr := func(v absint.Value, attr, what string) absint.Value {
								if ty, ok := v.(*absint.Tok); ok && ty.Attr[attr] != nil {
									return ty.Attr[attr]
								}
								if attr == "elem" {
									panic(&absint.GoPanic{Msg: "reflect: Elem of invalid type"})
								}
								panic(&absint.Undecided{Msg: what + " of an unmodelled value"})
							}
							t.invokeN["Kind"] = func(ip *absint.Interp, a []absint.Value) absint.Value { return typeAttr(a[0], "kind", "Kind()") }
							t.invokeN["Elem"] = func(ip *absint.Interp, a []absint.Value) absint.Value { return typeAttr(a[0], "elem", "Elem()") }
							t.ext["(reflect.Value).Kind"] = func(ip *absint.Interp, a []absint.Value) absint.Value {
								return typeAttr(typeAttr(a[0], "type", "Kind()"), "kind", "Kind()")
							}
							t.ext["(reflect.Value).Type"] = func(ip *absint.Interp, a []absint.Value) absint.Value { return typeAttr(a[0], "type", "Type()") }
							t.ext["(reflect.Value).CanInterface"] = func(ip *absint.Interp, a []absint.Value) absint.Value {
								return typeAttr(a[0], "canInterface", "CanInterface()")
							}
							t.ext["(reflect.Value).Interface"] = func(ip *absint.Interp, a []absint.Value) absint.Value {
								rv, ok := a[0].(*absint.Tok)
								if !ok || rv.Class != "reflected" {
									panic(&absint.Undecided{Msg: "Interface() of an unmodelled value"})
								}
								if !bool(rv.Attr["canInterface"].(absint.Bool)) {
									panic(&absint.GoPanic{Msg: "reflect.Value.Interface: cannot return value obtained from unexported field or method"})
								}
								return absint.NewTok("iface("+rv.ID+")", "bound")
							}
							t.ext["strings.Join"] = func(ip *absint.Interp, a []absint.Value) absint.Value {
								l, ok := a[0].(*absint.List)
								sep, ok2 := a[1].(absint.Str)
								if !ok || !ok2 {
									panic(&absint.Undecided{Msg: "strings.Join on non-literal arguments"})
								}
								var parts []string
								for _, e := range l.Elems {
									s, ok := e.(absint.Str)
									if !ok {
										panic(&absint.Undecided{Msg: "strings.Join on non-literal elements"})
									}
									parts = append(parts, string(s))
								}
								return absint.Str(strings.Join(parts, string(sep)))
							}
							verdict := func(ip *absint.Interp, what string) absint.Value {
								bad := ip.Choose(2, "validator verdict") == 1
								failed = append(failed, bad)
								if bad {
									return t.newErr(what)
								}
								return absint.Nil{}
							}
							t.ext["(*github.com/go-playground/validator/v10.Validate).Struct"] = func(ip *absint.Interp, a []absint.Value) absint.Value {
								calls = append(calls, "Struct("+absint.Show(a[1])+")")
								return verdict(ip, "struct")
							}
							t.ext["(*github.com/go-playground/validator/v10.Validate).Var"] = func(ip *absint.Interp, a []absint.Value) absint.Value {
								calls = append(calls, "Var("+absint.Show(a[1])+","+absint.Show(a[2])+")")
								return verdict(ip, "var")
							}
							props := &absint.List{Elems: []absint.Value{p1, p2}}
							return t, []absint.Value{self, props, absint.NewTok("component", "component"), absint.NewTok("componentName", "key")}, nil
						}
						check := func(ip *absint.Interp, out absint.Outcome) {
							w := fmt.Sprintf("first property: type=%s validate-arg=%v kind=%s canInterface=%v text=%q; validator calls=%v verdicts(failed)=%v => %s",
								ptype, hasValidate, sh.name, canIface, text, calls, failed, showOutcome(out))
							isErr := len(out.Ret) == 2 && isErrTok(out.Ret[1])
							gated := ptype == "Configuration" && hasValidate
							isStruct := sh.kind == 25 || (sh.kind == 22 && sh.elem == 25)
							if gated && isStruct && !canIface {
								return // a settable field can always be turned into an interface: the combination is infeasible
							}
							if out.Panic != nil {
								rs.fail("error", "PANIC "+w)
								return
							}
							var want []string
							row := "not-gated-in"
							switch {
							case !gated:
							case isStruct:
								row, want = "struct", []string{"Struct(iface(value(p1)))"}
							case canIface:
								row, want = "var", []string{`Var(iface(value(p1)),"r1,r2")`}
							default:
								row = "inaccessible"
							}
							second := `Var(iface(value(p2)),"r1,r2")`
							firstFailed := len(want) == 1 && len(failed) > 0 && failed[0]
							if !firstFailed {
								want = append(want, second)
							}
							rs.hit(row)
							okCalls := len(calls) == len(want)
							for i := 0; okCalls && i < len(want); i++ {
								okCalls = calls[i] == want[i]
							}
							if !okCalls {
								if len(calls) >= 1 && len(want) >= 1 && calls[0] == want[0] || (len(want) == 1 && len(calls) == 0) {
									rs.hit("continues")
									rs.fail("continues", w+fmt.Sprintf(" expected calls %v", want))
								} else {
									rs.fail(row, w+fmt.Sprintf(" expected calls %v", want))
								}
								return
							}
							if len(want) == 2 || (len(want) == 1 && row != "struct" && row != "var") {
								rs.hit("continues")
							}
							anyFailed := false
							for _, f := range failed {
								anyFailed = anyFailed || f
							}
							rs.hit("error")
							if isErr != anyFailed {
								rs.fail("error", w)
							}
						}
						n, u := runTable(c, p.Props, build, check)
						runs += n
						if u != "" {
							return rs, runs, u
						}
					}
				}
			}
		}
	}
	return
}

var _ = core.Mod
