package rules

import (
	"fmt"
	"go/token"
	"go/types"
	"os"
	"sort"
	"strings"

	"golang.org/x/tools/go/ssa"

	"iocvet/internal/absint"
	"iocvet/internal/core"
)

func init() { register("C10", c10) }

// contractIfaces: interfaces whose method names give role-stable keys to their implementations.
var contractIfaces = [][2]string{
	{"container", "Factory"}, {"container", "DefinitionRegistry"}, {"container", "SingletonRegistry"}, {"container", "SingletonComponentRegistry"},
	{"container", "InstantiationAwareComponentPostProcessor"}, {"container", "DefinitionRegistryPostProcessor"}, {"container", "ComponentFactoryPostProcessor"},
	{"configure", "Configure"}, {"configure", "Binder"}, {"configure", "Loader"}, {"util/list", "Set"}, {"util/el", "Helper"},
}

// roleName: "Iface.Method" for methods implementing a contract interface, else the function's own name.
func roleName(c *core.Ctx, fn *ssa.Function) string {
	return roleNameDepth(c, fn, 3)
}

// roleNameDepth: contract methods are named by their contract; an unexported helper whose every in-scope caller lies
// in one and the same contract role inherits that role's name (extracting a helper does not rename its sources).
func roleNameDepth(c *core.Ctx, fn *ssa.Function, depth int) string {
	top := core.TopLevel(fn)
	if o := top.Origin(); o != nil {
		top = o
	}
	if recv := top.Signature.Recv(); recv != nil {
		for _, ci := range contractIfaces {
			n := c.Named(ci[0], ci[1])
			if n == nil {
				continue
			}
			iface := n.Underlying().(*types.Interface)
			rt := recv.Type()
			if (types.Implements(rt, iface) || types.Implements(types.NewPointer(rt), iface)) && hasMethod(iface, top.Name()) {
				s := ci[1] + "." + top.Name()
				if fn != top {
					s += "$literal"
				}
				return s
			}
		}
	}
	if depth > 0 && top.Object() != nil && !top.Object().Exported() && len(c.FuncValueUses(top)) == 0 {
		role := ""
		for _, caller := range c.Callers(top) {
			ct := core.TopLevel(caller)
			if ct == top {
				continue
			}
			rn := roleNameDepth(c, ct, depth-1)
			if rn == core.FnName(ct) { // the caller has no contract role
				role = ""
				break
			}
			rn = strings.TrimSuffix(rn, "$literal")
			if role != "" && role != rn {
				role = ""
				break
			}
			role = rn
		}
		if role != "" {
			if fn != top {
				role += "$literal"
			}
			return role
		}
	}
	return core.FnName(fn)
}

func hasMethod(i *types.Interface, name string) bool {
	for k := 0; k < i.NumMethods(); k++ {
		if i.Method(k).Name() == name {
			return true
		}
	}
	return false
}

type unorderedSource struct {
	key  string // kind@roleName
	kind string
	fn   *ssa.Function
	in   ssa.Instruction
	val  ssa.Value // the unordered sequence as seen at a use site
}

// onlyLoggedText: fn is an unexported function or method that returns one string and nothing else, stores nothing
// outside its own variables (and those of its literals), and each of its calls is an argument of a log call.
func onlyLoggedText(c *core.Ctx, fn *ssa.Function) bool {
	if fn == nil || fn.Object() == nil || fn.Object().Exported() || fn.Signature.Results().Len() != 1 || len(c.FuncValueUses(fn)) != 0 {
		return false
	}
	if b, ok := fn.Signature.Results().At(0).Type().Underlying().(*types.Basic); !ok || b.Info()&types.IsString == 0 {
		return false
	}
	for _, g := range core.WithAnon(fn) {
		for _, b := range g.Blocks {
			for _, in := range b.Instrs {
				switch x := in.(type) {
				case *ssa.Store:
					addr := x.Addr
					if ia, ok := addr.(*ssa.IndexAddr); ok {
						addr = ia.X
					}
					switch addr.(type) {
					case *ssa.Alloc, *ssa.FreeVar:
					default:
						return false
					}
				case *ssa.MapUpdate, *ssa.Send, *ssa.Go:
					return false
				}
			}
		}
	}
	sites := c.CallSites(func(com *ssa.CallCommon) bool { return core.IsCallTo(com, fn) })
	if len(sites) == 0 {
		return false
	}
	for _, cs := range sites {
		v := cs.Value()
		if v == nil {
			return false
		}
		if !flowsOnlyIntoLog(v, 0) {
			return false
		}
	}
	return true
}

// flowsOnlyIntoLog: every use of v is boxing, a store into a variadic argument array, or an argument of a log call.
func flowsOnlyIntoLog(v ssa.Value, depth int) bool {
	if depth > 4 || v.Referrers() == nil {
		return false
	}
	n := 0
	for _, rf := range *v.Referrers() {
		switch x := rf.(type) {
		case *ssa.DebugRef:
		case *ssa.MakeInterface:
			n++
			if !flowsOnlyIntoLog(x, depth+1) {
				return false
			}
		case *ssa.Store:
			// into the array of a variadic call: the array's slice must go to a log call
			ia, ok := x.Addr.(*ssa.IndexAddr)
			if !ok || x.Val != v {
				return false
			}
			al, ok := ia.X.(*ssa.Alloc)
			if !ok {
				return false
			}
			n++
			for _, r2 := range *al.Referrers() {
				if sl, isSl := r2.(*ssa.Slice); isSl {
					if !flowsOnlyIntoLog(sl, depth+1) {
						return false
					}
				}
			}
		case ssa.CallInstruction:
			if !core.IsLogCall(x.Common()) {
				return false
			}
			n++
		default:
			return false
		}
	}
	return n > 0
}

// deadFunction: an unexported function or method that nothing in scope calls (also not through an interface of its
// package) and whose value nothing takes.
func deadFunction(c *core.Ctx, fn *ssa.Function) bool {
	if fn == nil || fn.Object() == nil || fn.Object().Exported() {
		return false
	}
	return len(c.Callers(fn)) == 0 && len(c.FuncValueUses(fn)) == 0
}

// mapRangeForwarder: fn ranges over one Go map and does nothing with the entries but hand them to its callback
// parameter (besides taking and releasing a lock, and logging); it returns nothing.
func mapRangeForwarder(fn *ssa.Function, cb *ssa.Parameter) bool {
	if len(fn.AnonFuncs) != 0 {
		return false
	}
	ranges, cbCalls := 0, 0
	for _, b := range fn.Blocks {
		for _, in := range b.Instrs {
			switch x := in.(type) {
			case *ssa.Range:
				if _, ok := x.X.Type().Underlying().(*types.Map); !ok {
					return false
				}
				ranges++
			case ssa.CallInstruction:
				com := x.Common()
				if com.Value == ssa.Value(cb) {
					cbCalls++
					continue
				}
				if cal := core.Callee(com); cal != nil {
					full := cal.String()
					if strings.HasPrefix(full, "(*sync.Mutex).") || strings.HasPrefix(full, "(*sync.RWMutex).") {
						continue
					}
				}
				if core.IsLogCall(com) {
					continue
				}
				return false
			case *ssa.Store, *ssa.MapUpdate, *ssa.Send, *ssa.Go:
				return false
			}
		}
	}
	return ranges == 1 && cbCalls == 1
}

// c10Census enumerates primary sources and use sites of unordered sequences.
func c10Census(c *core.Ctx) (sources []unorderedSource, unorderedFns map[*ssa.Function]bool) {
	unorderedFns = map[*ssa.Function]bool{}
	sync2Map := c.Named("util/sync2", "Map")
	var s2Range *ssa.Function
	if sync2Map != nil {
		s2Range = c.DeclaredMethod(sync2Map, "Range")
	}
	// range forwarders: functions that do nothing with an unordered iteration but hand each entry to their own callback
	// parameter (the typed wrapper around sync.Map.Range, and whatever that is layered on): their callers are the sources
	forwarders := map[*ssa.Function]bool{}
	if s2Range != nil {
		forwarders[s2Range] = true
	}
	isRangePrim := func(com *ssa.CallCommon) bool {
		if core.IsExtCall(com, "(*sync.Map).Range") {
			return true
		}
		if cal := core.Callee(com); cal != nil && forwarders[cal] {
			return true
		}
		return false
	}
	for changed := true; changed; {
		changed = false
		for _, fn := range c.Scope {
			top := fn
			if o := fn.Origin(); o != nil {
				top = o
			}
			if fn.Parent() != nil || forwarders[top] || fn.Blocks == nil {
				continue
			}
			var cbParams []*ssa.Parameter
			for _, p := range fn.Params {
				if _, isSig := p.Type().Underlying().(*types.Signature); isSig {
					cbParams = append(cbParams, p)
				}
			}
			if len(cbParams) == 1 && fn.Signature.Results().Len() == 0 && mapRangeForwarder(fn, cbParams[0]) {
				forwarders[top] = true
				changed = true
				continue
			}
			if len(cbParams) != 1 || len(fn.Blocks) != 1 {
				continue
			}
			var rangeCalls []ssa.CallInstruction
			other := false
			for _, ci := range core.Calls(fn) {
				if isRangePrim(ci.Common()) {
					rangeCalls = append(rangeCalls, ci)
				} else if !core.IsLogCall(ci.Common()) {
					other = true
				}
			}
			if len(rangeCalls) != 1 || other {
				continue
			}
			// the iteration's callback is the parameter itself, or a literal that only calls the parameter
			okFwd := false
			for _, a := range rangeCalls[0].Common().Args {
				if a == ssa.Value(cbParams[0]) {
					okFwd = true
				}
				if lit := core.ClosureOf(a); lit != nil && lit.Parent() == fn {
					calls := core.Calls(lit)
					only := len(calls) == 1
					for _, lc := range calls {
						ld, isLoad := lc.Common().Value.(*ssa.UnOp)
						fv, isFV := lc.Common().Value.(*ssa.FreeVar)
						if isLoad {
							fv, isFV = ld.X.(*ssa.FreeVar)
						}
						if !isFV || lc.Common().IsInvoke() {
							only = false
							continue
						}
						_, isSig := fv.Type().Underlying().(*types.Signature)
						if pt, isPtr := fv.Type().Underlying().(*types.Pointer); isPtr {
							_, isSig = pt.Elem().Underlying().(*types.Signature)
						}
						only = only && isSig
					}
					okFwd = okFwd || only
				}
			}
			if okFwd {
				forwarders[top] = true
				changed = true
			}
		}
	}
	// primary: map ranges and sync.Map ranges
	for _, fn := range c.Scope {
		if fn.Parent() != nil {
			continue
		}
		for _, f := range core.WithAnon(fn) {
			for _, b := range f.Blocks {
				for _, in := range b.Instrs {
					switch x := in.(type) {
					case *ssa.Range:
						if o := fn.Origin(); (o != nil && forwarders[o]) || forwarders[fn] {
							continue
						}
						if _, ok := x.X.Type().Underlying().(*types.Map); ok {
							sources = append(sources, unorderedSource{key: "maprange@" + roleName(c, f), kind: "maprange", fn: f, in: in})
						}
					case ssa.CallInstruction:
						if o := fn.Origin(); (o != nil && forwarders[o]) || forwarders[fn] {
							continue // the wrapper forwards the iteration to its callback: its callers are the sources
						}
						if isRangePrim(x.Common()) {
							sources = append(sources, unorderedSource{key: "syncrange@" + roleName(c, f), kind: "syncrange", fn: f, in: in})
						}
					}
				}
			}
		}
	}
	// unordered-returning functions: return a slice appended to under a primary source, not sorted in the function
	sortCalls := func(fn *ssa.Function) bool {
		for _, f := range core.WithAnon(fn) {
			for _, ci := range core.Calls(f) {
				if cal := core.Callee(ci.Common()); cal != nil {
					switch cal.String() {
					case core.Mod + "/util/sort2.Slice", "sort.Slice", "sort.SliceStable", "sort.Strings", "sort.Sort", "sort.Stable", "slices.Sort", "slices.SortFunc", "slices.SortStableFunc":
						return true
					}
					if cal.Name() == "SortOrderedComponents" {
						return true
					}
				}
			}
		}
		return false
	}
	for _, s := range sources {
		top := core.TopLevel(s.fn)
		if top.Signature.Results().Len() == 0 {
			continue
		}
		if s.kind == "maprange" && readsNeitherKeyNorValue(s.in) {
			continue // nothing of the map's order can end up in the result
		}
		if _, isSl := top.Signature.Results().At(0).Type().Underlying().(*types.Slice); isSl && !sortCalls(top) {
			unorderedFns[top] = true
			if o := top.Origin(); o != nil {
				unorderedFns[o] = true // an instance of a generic collector: calls are resolved to the generic function
			}
		}
	}
	// interface methods implemented by unordered functions
	// passName: a function that only hands on another unordered sequence is known by the name of what it hands on
	passName := map[*ssa.Function]string{}
	unorderedImpl := func(com *ssa.CallCommon) *ssa.Function {
		if cal := com.StaticCallee(); cal != nil {
			if o := cal.Origin(); o != nil {
				cal = o
			}
			if unorderedFns[cal] {
				return cal
			}
			return nil
		}
		if com.IsInvoke() {
			var fs []*ssa.Function
			for f := range unorderedFns {
				fs = append(fs, f)
			}
			sort.Slice(fs, func(i, j int) bool { return fs[i].String() < fs[j].String() })
			for _, f := range fs {
				if f.Name() == com.Method.Name() && f.Signature.Recv() != nil {
					if iface, ok := com.Value.Type().Underlying().(*types.Interface); ok {
						rt := f.Signature.Recv().Type()
						if types.Implements(rt, iface) || types.Implements(types.NewPointer(rt), iface) {
							return f
						}
					}
				}
			}
		}
		return nil
	}
	isUnorderedCall := func(com *ssa.CallCommon) bool { return unorderedImpl(com) != nil }
	nameOfCall := func(com *ssa.CallCommon) string {
		name := ""
		if com.Method != nil && com.IsInvoke() {
			name = com.Method.Name()
		} else if cal := core.Callee(com); cal != nil {
			name = cal.Name()
		}
		// a contract method keeps its own name however its implementation gets at the sequence; a helper or an
		// internal strategy that only hands another sequence on is known by that sequence's name
		contract := false
		if com.IsInvoke() && com.Method != nil && com.Method.Exported() {
			if n := core.NamedOf(com.Value.Type()); n != nil && n.Obj().Exported() {
				contract = true
			}
		}
		if f := unorderedImpl(com); f != nil && passName[f] != "" && !contract {
			name = passName[f]
		}
		return name
	}
	// pass-through closure and use sites
	for changed := true; changed; {
		changed = false
		for _, fn := range c.Scope {
			if fn.Parent() != nil || unorderedFns[fn] || fn.Signature.Results().Len() == 0 {
				continue
			}
			for _, ci := range core.Calls(fn) {
				call, ok := ci.(*ssa.Call)
				if !ok || !isUnorderedCall(call.Common()) {
					continue
				}
				for _, ret := range core.Returns(fn) {
					if len(ret.Results) > 0 && core.Norm(ret.Results[0]) == ssa.Value(call) && !sortCalls(fn) {
						passName[fn] = nameOfCall(call.Common())
						unorderedFns[fn] = true
						changed = true
					}
				}
			}
		}
	}
	for _, fn := range c.Scope {
		for _, ci := range core.Calls(fn) {
			call, ok := ci.(*ssa.Call)
			if !ok || !isUnorderedCall(call.Common()) {
				continue
			}
			passThrough := false
			for _, ret := range core.Returns(fn) {
				if len(ret.Results) > 0 && core.Norm(ret.Results[0]) == ssa.Value(call) {
					passThrough = true
				}
			}
			if passThrough && unorderedFns[core.TopLevel(fn)] {
				continue
			}
			callee := nameOfCall(call.Common())
			if it := iteratorHelper(fn, call); it {
				// a visitor: the function only hands each element to its callback; its call sites are the use sites
				n := 0
				for _, caller := range c.Callers(core.TopLevel(fn)) {
					for _, cs := range core.CallsMatching(caller, func(com *ssa.CallCommon) bool { return core.IsCallTo(com, core.TopLevel(fn)) }) {
						sources = append(sources, unorderedSource{key: "use@" + roleName(c, caller) + "←" + callee, kind: "use", fn: caller, in: cs})
						n++
					}
				}
				if n > 0 {
					continue
				}
			}
			sources = append(sources, unorderedSource{key: "use@" + roleName(c, fn) + "←" + callee, kind: "use", fn: fn, in: call, val: call})
		}
	}
	sort.SliceStable(sources, func(i, j int) bool { return sources[i].key < sources[j].key })
	return
}

func sortedCollectorOK(c *core.Ctx, s unorderedSource) bool {
	ok, _ := sortedCollector(c, s)
	return ok
}

// sortedCollector: the map range of s only collects (its loop calls nothing but append/len and writes nothing but
// locals), and the function sorts the collected slice with a strict `<` before the loop that visits it, or before
// returning it.
func sortedCollector(c *core.Ctx, s unorderedSource) (bool, string) {
	rng, ok := s.in.(*ssa.Range)
	if !ok {
		return false, "not a map range"
	}
	// the loop driven by this range: the innermost loop holding its Next
	var loop *core.Loop
	for _, rf := range *rng.Referrers() {
		if nx, isNext := rf.(*ssa.Next); isNext {
			loop = core.InnermostLoop(s.fn, nx.Block())
		}
	}
	if loop == nil {
		return false, "range loop not found"
	}
	for b := range loop.Blocks {
		for _, in := range b.Instrs {
			switch x := in.(type) {
			case ssa.CallInstruction:
				bi, isB := x.Common().Value.(*ssa.Builtin)
				if _, isCall := in.(*ssa.Call); !isCall || !isB || (bi.Name() != "append" && bi.Name() != "len") {
					return false, "the map range does more than collect (" + c.Pos(in.Pos()) + ")"
				}
			case *ssa.Store:
				if _, local := x.Addr.(*ssa.Alloc); !local {
					if _, isIdx := x.Addr.(*ssa.IndexAddr); !isIdx {
						return false, "the map range writes non-local memory (" + c.Pos(in.Pos()) + ")"
					}
				}
			case *ssa.MapUpdate, *ssa.Send:
				return false, "the map range writes shared state (" + c.Pos(in.Pos()) + ")"
			}
		}
	}
	why := "no strict ascending sort of what the map range collected"
	// (a) visited in place: the loop with the dynamic (callback) call ranges over a slice sorted before it
	for _, rl := range core.RangeLoops(s.fn) {
		hasDyn := false
		for b := range rl.Loop.Blocks {
			for _, in := range b.Instrs {
				if ci, isCall := in.(ssa.CallInstruction); isCall && ci.Common().StaticCallee() == nil && !ci.Common().IsInvoke() {
					if _, isB := ci.Common().Value.(*ssa.Builtin); !isB {
						hasDyn = true
					}
				}
			}
		}
		if hasDyn {
			ok, w := sortedBeforeLoop(c, s.fn, rl)
			if ok {
				return true, ""
			}
			why = w
		}
	}
	// (b) handed back: every return yields a slice that a strict sort of the same value dominates
	rets := core.Returns(s.fn)
	if len(rets) == 0 || s.fn.Signature.Results().Len() != 1 {
		return false, why
	}
	for _, ret := range rets {
		okRet := false
		for _, ci := range core.Calls(s.fn) {
			call, isCall := ci.(*ssa.Call)
			if !isCall {
				continue
			}
			sorted, _ := strictlySorted(c, call)
			if sorted != nil && sorted == core.Norm(ret.Results[0]) && core.Dominates(call, ret) && !loop.Blocks[call.Block()] {
				okRet = true
			}
		}
		if !okRet {
			return false, why
		}
	}
	return true, ""
}

// readsNeitherKeyNorValue: the map range's iterations never look at the key or the value they are given.
func readsNeitherKeyNorValue(in ssa.Instruction) bool {
	rng, ok := in.(*ssa.Range)
	if !ok {
		return false
	}
	for _, rf := range *rng.Referrers() {
		nx, isNext := rf.(*ssa.Next)
		if !isNext {
			continue
		}
		for _, r2 := range *nx.Referrers() {
			ex, isEx := r2.(*ssa.Extract)
			if !isEx {
				continue
			}
			if ex.Index == 0 {
				continue // the "there is another entry" flag
			}
			for _, r3 := range *ex.Referrers() {
				if _, isDbg := r3.(*ssa.DebugRef); !isDbg {
					return false
				}
			}
		}
	}
	return true
}

// onlyLenUses: v is used only as the argument of len.
func onlyLenUses(v ssa.Value) bool {
	if v.Referrers() == nil {
		return true
	}
	for _, rf := range *v.Referrers() {
		switch x := rf.(type) {
		case *ssa.DebugRef:
		case *ssa.Call:
			if bi, ok := x.Common().Value.(*ssa.Builtin); !ok || bi.Name() != "len" {
				return false
			}
		default:
			return false
		}
	}
	return true
}

// strictlySorted: call sorts a slice into strictly ascending order of its (distinct) elements; returns the slice.
// Recognised: sort2.Slice with the comparator `a < b` on its two parameters, sort.Strings / sort.Ints, and
// sort.Sort / sort.Stable of a named slice type whose Len / Less / Swap - interpreted on every permutation of three
// distinct elements - leave them ascending.
func strictlySorted(c *core.Ctx, call *ssa.Call) (ssa.Value, string) {
	com := call.Common()
	cal := com.StaticCallee()
	if cal == nil {
		return nil, ""
	}
	if o := cal.Origin(); o != nil {
		cal = o
	}
	switch {
	case cal == c.Func("util/sort2", "Slice"):
		if why := strictLessValue(c, com.Args[1], call.Parent(), 0); why != "" {
			return nil, why
		}
		return core.Norm(com.Args[0]), ""
	case cal.String() == "sort.Slice" || cal.String() == "sort.SliceStable":
		// an index comparator over the slice it captures: decided by interpretation, like sort.Sort
		mc, ok := com.Args[1].(*ssa.MakeClosure)
		mi, ok2 := com.Args[0].(*ssa.MakeInterface)
		if !ok || !ok2 || len(mc.Bindings) != 1 {
			return nil, "sort.Slice whose comparator is not a literal over the one slice it sorts"
		}
		byRef := false
		if ld, isLd := mi.X.(*ssa.UnOp); isLd && ld.Op == token.MUL && ld.X == mc.Bindings[0] {
			byRef = true
		} else if core.Norm(mi.X) != core.Norm(mc.Bindings[0]) {
			return nil, "the comparator handed to sort.Slice does not index the slice being sorted"
		}
		if ok, why := sortSliceCanonical(c, mc.Fn.(*ssa.Function), mi.X.Type(), byRef); !ok {
			return nil, why
		}
		return core.Norm(mi.X), ""
	case cal.String() == "sort.Strings" || cal.String() == "sort.Ints" || cal.String() == "slices.Sort":
		return core.Norm(com.Args[0]), ""
	case cal.String() == "slices.SortFunc" || cal.String() == "slices.SortStableFunc":
		// a three-way comparator that is the standard ordering of its two parameters
		cmpFn := core.ClosureOf(com.Args[1])
		if f, isFn := com.Args[1].(*ssa.Function); isFn {
			cmpFn = f
		}
		if cmpFn == nil {
			return nil, "the comparator handed to " + cal.String() + " is not visible"
		}
		if n := cmpFn.String(); n == "strings.Compare" || strings.HasPrefix(n, "cmp.Compare") {
			return core.Norm(com.Args[0]), ""
		}
		if len(cmpFn.Blocks) == 1 && len(cmpFn.Params) == 2 {
			if ret, isRet := cmpFn.Blocks[0].Instrs[len(cmpFn.Blocks[0].Instrs)-1].(*ssa.Return); isRet && len(ret.Results) == 1 {
				if call, isCall := ret.Results[0].(*ssa.Call); isCall {
					if inner := core.Callee(call.Common()); inner != nil && (inner.String() == "strings.Compare" || inner.String() == "cmp.Compare") && len(call.Common().Args) == 2 &&
						call.Common().Args[0] == ssa.Value(cmpFn.Params[0]) && call.Common().Args[1] == ssa.Value(cmpFn.Params[1]) {
						return core.Norm(com.Args[0]), ""
					}
				}
			}
		}
		return nil, "the comparator handed to " + cal.String() + " is not the standard ordering of its two parameters"
	case cal.String() == "sort.Sort" || cal.String() == "sort.Stable":
		mi, ok := com.Args[0].(*ssa.MakeInterface)
		if !ok {
			return nil, "sort.Sort of a value whose type is not visible"
		}
		if ok, why := sortsAscending(c, mi.X.Type()); !ok {
			return nil, why
		}
		return core.Norm(mi.X), ""
	}
	return nil, ""
}

// sortsAscending interprets sort.Sort over T's own Len / Less / Swap on every permutation of three distinct elements.
func sortsAscending(c *core.Ctx, T types.Type) (bool, string) {
	key := "sorts-ascending:" + T.String()
	if v, ok := c.Memo.Load(key); ok {
		return v.(string) == "", v.(string)
	}
	why := func() (why string) {
		sl, ok := T.Underlying().(*types.Slice)
		if !ok {
			return "sort.Sort of something that is not a slice type"
		}
		b, ok := sl.Elem().Underlying().(*types.Basic)
		if !ok || b.Info()&(types.IsString|types.IsInteger) == 0 {
			return "sort.Sort of a slice whose elements are neither strings nor integers"
		}
		mk := func(i int) absint.Value {
			if b.Info()&types.IsString != 0 {
				return absint.Str(string(rune('a' + i)))
			}
			return absint.Int(int64(i))
		}
		defer func() {
			if r := recover(); r != nil {
				switch x := r.(type) {
				case *absint.Undecided:
					why = "interpreting " + T.String() + "'s Len/Less/Swap left the model: " + x.Msg
				case *absint.GoPanic:
					why = T.String() + "'s Len/Less/Swap panic: " + x.Msg
				default:
					panic(r)
				}
			}
		}()
		canon := map[int]string{}
		for _, perm := range [][]int{{0, 1, 2}, {0, 2, 1}, {1, 0, 2}, {1, 2, 0}, {2, 0, 1}, {2, 1, 0}} {
			t := newTbl(c)
			ip := absint.New(t)
			ip.IsLog = core.IsLogCall
			ip.InScope = c.InScope
			l := &absint.List{GoType: T, IsNil: len(perm) == 0}
			for _, i := range perm {
				l.Elems = append(l.Elems, mk(i))
			}
			t.sortInterface(ip, l)
			// one canonical order, whatever order the elements came in (ascending or descending alike)
			got := absint.Show(l)
			if prev, seen := canon[len(perm)]; seen && prev != got {
				return fmt.Sprintf("%s's Len/Less/Swap leave the same elements as %s or as %s, depending on the order they came in", T.String(), prev, got)
			}
			canon[len(perm)] = got
			have := map[string]bool{}
			for _, e := range l.Elems {
				have[absint.Show(e)] = true
			}
			if len(l.Elems) != len(perm) || len(have) != len(perm) {
				return fmt.Sprintf("%s's Len/Less/Swap turn %v into %s: elements lost or duplicated", T.String(), perm, got)
			}
		}
		return ""
	}()
	c.Memo.Store(key, why)
	return why == "", why
}

// sortedBeforeLoop: the slice ranged by the loop was sorted into strictly ascending order before the loop.
func sortedBeforeLoop(c *core.Ctx, fn *ssa.Function, rl *core.RangeLoop) (bool, string) {
	why := "no strict ascending sort of the ranged slice dominates the loop"
	for _, ci := range core.Calls(fn) {
		call, ok := ci.(*ssa.Call)
		if !ok {
			continue
		}
		sorted, w := strictlySorted(c, call)
		if sorted == nil {
			if w != "" {
				why = w
			}
			continue
		}
		if sorted != core.Norm(rl.Slice) && !sameCellLoad(sorted, core.Norm(rl.Slice), call) {
			continue
		}
		if !core.Dominates(call, rl.Header.Instrs[0]) || rl.Loop.Blocks[call.Block()] {
			continue
		}
		return true, ""
	}
	return false, why
}

func c10(c *core.Ctx, r *core.Report) {
	ro := c.Roles()
	r.Explanation = "C10 order independence (audit): (R1) every source of an unordered sequence in scope - range over a Go map, sync.Map / sync2.Map Range callbacks, slices returned by functions that collect under such a range (followed through pass-through returns and interface dispatch) at each use site, and results collected from goroutines - must match an entry of a frozen table keyed by role-stable names, and the entry's guard is re-verified: SORTED (sorted by a strict comparator before the consuming loop), SETLIKE (the consumer is order-insensitive by a named rule), TIE-ONLY, DIAGNOSTIC (log / error text only), UNUSED (not reachable from App.Run / App.Close on the CHA graph); (R2) the refresh list is sorted by name before the creation loop; (R3) candidate selection is permutation-invariant and (R4) never answers with the holder itself (narrowing table); (R5) exactly three sorter call sites. Decides that every unordered source is sorted or provably order-insensitive; which early reference a dependency cycle exposes still depends on creation order (immaterial unless a post-processor substitutes, C03)."
	r.Assumptions = []string{"user post-processors are order-insensitive", "the order of elements inside an injected slice is not part of the outcome"}
	sources, ufns := c10Census(c)
	r.Count("unordered_sources", len(sources))
	r.Count("unordered_returning_functions", len(ufns))
	r.Floor("C10.R1", "unordered sources", len(sources), 10)
	appT := c.Named("app", "App")
	var roots []*ssa.Function
	if appT != nil {
		roots = append(roots, c.DeclaredMethod(appT, "Run"), c.DeclaredMethod(appT, "Close"))
	}
	reach := map[*ssa.Function]bool{}
	for _, f := range reachableInScope(c, roots...) {
		reach[f] = true
	}
	ps := builtinProcessors(c)
	// guards shared by several entries
	permOK, permWhy := false, "narrowing function not found"
	if fn, _, _ := narrowingFn(c, ps); fn != nil {
		rs, _, und := narrowTable(c, fn, 2)
		permOK = und == "" && (rs["permutation-invariant"] == nil || len(rs["permutation-invariant"].bad) == 0) && (rs["never-self"] == nil || len(rs["never-self"].bad) == 0)
		permWhy = und
		if und == "" {
			rs.report(c, r, fn, func(row string) string {
				switch row {
				case "permutation-invariant":
					return "C10.R3"
				case "never-self", "single-member":
					return "C10.R4"
				}
				return ""
			}, "narrowing-table@"+core.FnName(fn), narrowRows)
		} else {
			r.Undecided("C10.R3", "narrowing-table", c.FnPos(fn), "abstract interpretation left the model: "+und)
		}
	}
	loopIndep := true
	for _, p := range ps {
		sub := core.NewReport("C08", c.Tier, 0)
		c08LoopIndependence(c, sub, p)
		for _, o := range sub.Obls {
			if o.Verdict != core.Held {
				loopIndep = false
			}
		}
	}
	seenKeys := map[string]int{}
	refreshDone := false
	for _, s := range sources {
		seenKeys[s.key]++
		cons := s.key
		if seenKeys[s.key] > 1 {
			cons = fmt.Sprintf("%s#%d", s.key, seenKeys[s.key])
		}
		pos := c.Pos(s.in.Pos())
		switch {
		// ---- primary sources
		case s.kind == "maprange" && ufns[core.TopLevel(s.fn)] && isPropertySlice(c, core.TopLevel(s.fn).Signature.Results().At(0).Type()):
			// SETLIKE: the result only feeds PostProcessProperties, whose per-property loops are independent
			okUse := true
			for _, cs := range c.CallSites(func(com *ssa.CallCommon) bool { return core.IsCallTo(com, core.TopLevel(s.fn)) }) {
				for _, rf := range *cs.Value().Referrers() {
					if call, isCall := rf.(*ssa.Call); isCall && core.IsInvoke(call.Common(), ro.IAProps) {
						continue
					}
					if _, isDbg := rf.(*ssa.DebugRef); isDbg {
						continue
					}
					if ret, isRet := rf.(*ssa.Return); isRet && ufns[core.TopLevel(ret.Parent())] {
						continue // handed on: the use sites of that function are classified below
					}
					okUse = false
				}
			}
			r.Check(okUse && loopIndep, "C10.R1", cons, pos, "SETLIKE: property groups are concatenated in map order, but the list only feeds PostProcessProperties, whose per-property iterations are independent (C08.R1)")
		case strings.HasPrefix(s.key, "maprange@") && goInLoop(s.in) != nil:
			// SETLIKE: fan-out, one goroutine per entry
			sub := core.NewReport("C20", c.Tier, 0)
			_, okF := checkWaitGroupFanout(c, sub, "C20", goInLoop(s.in), "fanout")
			for _, o := range sub.Obls {
				if o.Verdict != core.Held {
					okF = false
				}
			}
			r.Check(okF, "C10.R1", cons, pos, "SETLIKE: the map is only fanned out, one goroutine per entry, all awaited (WaitGroup protocol)")
		case s.kind == "maprange" && scanFansOut(c, s.fn):
			r.Hold("C10.R1", cons, pos, "SETLIKE: the entries are handed to the goroutines of the definition scan (scan table: every scanner call is made by a goroutine the scan started, every entry is shown to every scanner exactly once, all joined before the scan returns)")
		case s.kind == "maprange" && readsNeitherKeyNorValue(s.in):
			r.Hold("C10.R1", cons, pos, "EMPTINESS: the range reads neither keys nor values (it only finds out whether there is an entry, or counts them)")
		case s.key == "maprange@(component_definition.TagArg).ForEach" || (s.kind == "maprange" && sortedCollectorOK(c, s)):
			// SORTED: keys are collected, sorted, then visited (in place, or by the caller of a key-collecting helper)
			okSorted, why := sortedCollector(c, s)
			r.Check(okSorted, "C10.R1", cons, pos, "SORTED: the map range only collects keys, which are sorted with a strict `<` before they are visited or handed back "+why)
		case onlyLoggedText(c, core.TopLevel(s.fn)):
			r.Hold("C10.R1", cons, pos, "DIAGNOSTIC: the enclosing function renders a text, and every call of it is an argument of a log call: the order can only show in a log line")
		case s.kind == "use" && !reach[s.fn] && !reach[core.TopLevel(s.fn)] && deadFunction(c, core.TopLevel(s.fn)):
			r.Hold("C10.R1", cons, pos, "UNUSED: the use sits in an unexported function that nothing in scope calls or takes the value of")
		case s.kind != "use" && !reach[s.fn] && !reach[core.TopLevel(s.fn)]:
			r.Hold("C10.R1", cons, pos, "UNUSED: not reachable from App.Run / App.Close on the CHA call graph")
		case (s.kind == "syncrange" || s.kind == "maprange") && ufns[core.TopLevel(s.fn)] && sliceResultOnlyAppends(s):
			r.Hold("C10.R1", cons, pos, "collector: the enclosing function returns the collected slice unordered; every use site of its result is classified below")
		// ---- use sites
		case s.val != nil && s.kind == "use" && isPropertySlice(c, s.val.Type()):
			okUse := true
			for _, rf := range *s.val.Referrers() {
				if call, isCall := rf.(*ssa.Call); isCall && core.IsInvoke(call.Common(), ro.IAProps) {
					continue
				}
				if _, isDbg := rf.(*ssa.DebugRef); isDbg {
					continue
				}
				okUse = false
			}
			r.Check(okUse && loopIndep, "C10.R1", cons, pos, "SETLIKE: the property list (groups in map order) only feeds PostProcessProperties, whose per-property iterations are independent (C08.R1)")
		case s.key == "use@Factory.Refresh←GetMetas":
			// SORTED: decided by the refresh decision table (every enumeration order gives the same creation order)
			refreshDone = true
			r.Hold("C10.R1", cons, pos, "SORTED: the creation order of refresh is independent of the enumeration order (refresh table, C10.R2)")
		case s.key == "use@Factory.GetComponents←GetMetas":
			r.Hold("C10.R1", cons, pos, "TIE-ONLY: the public multi-lookup returns matches in unspecified order; each element is resolved by name")
		case s.val != nil && strings.Replace(s.key, "$literal", "", 1) == "use@InstantiationAwareComponentPostProcessor.PostProcessProperties←GetMetas":
			// SETLIKE: candidates only extend Injects; narrowing is permutation invariant
			okApp := true
			for _, rf := range *s.val.Referrers() {
				switch x := rf.(type) {
				case *ssa.Call:
					// (its length is the same in every order)
					if bi, isB := x.Common().Value.(*ssa.Builtin); (!isB || (bi.Name() != "append" && bi.Name() != "len")) && !core.IsLogCall(x.Common()) {
						okApp = false
					}
				case *ssa.ChangeType:
					// shown in a log line under a type that renders it (the order can only show there)
					if !flowsOnlyIntoLog(x, 0) {
						okApp = false
					}
				case *ssa.MakeInterface:
					if !flowsOnlyIntoLog(x, 0) {
						okApp = false
					}
				case *ssa.DebugRef:
				default:
					okApp = false
				}
			}
			r.Check(okApp && permOK, "C10.R1", cons, pos, "SETLIKE: candidates only extend Property.Injects, and the narrowing of candidate lists is permutation-invariant and self-free (C08.R3/R4) "+permWhy)
		case s.key == "use@Factory.PrepareComponents←GetSingletonNames":
			c10Registration(c, r, s, cons, ps)
		case s.val != nil && s.kind == "use" && onlyLenUses(s.val):
			r.Hold("C10.R1", cons, pos, "SETLIKE: only the length is used")
		case s.kind == "use" && s.val != nil && isErrorSlice(s.val.Type()) && diagnosticOnly(c, s.val, 0):
			r.Hold("C10.R1", cons, pos, "DIAGNOSTIC: the errors come back in no particular order, and are only tested for presence and put into an error text")
		default:
			r.Fail("C10.R1", cons, pos, "unclassified source of an unordered sequence: it is neither sorted before use nor in the table of order-insensitive consumers")
		}
	}
	if !refreshDone {
		r.Undecided("C10.R2", "use@Factory.Refresh←GetMetas", "", "refresh does not enumerate the definition registry")
	}
	refreshRules(c, r, func(row string) string {
		if row == "sorted" {
			return "C10.R2"
		}
		return ""
	})
	// goroutine collector: DIAGNOSTIC
	c10Collector(c, r)
	// R5
	sorterSiteRules(c, r, "C10.R5")
}

// goInLoop: the go statement inside the loop driven by a map Range instruction.
func goInLoop(in ssa.Instruction) *ssa.Go {
	rg, ok := in.(*ssa.Range)
	if !ok {
		return nil
	}
	fn := rg.Parent()
	for _, l := range core.Loops(fn) {
		isThis := false
		for _, hi := range l.Header.Instrs {
			if nx, isNext := hi.(*ssa.Next); isNext && nx.Iter == ssa.Value(rg) {
				isThis = true
			}
		}
		if !isThis {
			continue
		}
		for b := range l.Blocks {
			for _, x := range b.Instrs {
				if g, isGo := x.(*ssa.Go); isGo {
					return g
				}
			}
		}
	}
	return nil
}

// c10Registration: the registration order of components only reaches (a) the sorter, (b) keyed containers.
func c10Registration(c *core.Ctx, r *core.Report, s unorderedSource, cons string, ps []*procInfo) {
	ro := c.Roles()
	fn := s.fn
	pos := c.Pos(s.in.Pos())
	// the loop over names: what is order-sensitive in its body?
	var rl *core.RangeLoop
	for _, l := range core.RangeLoops(fn) {
		if s.val != nil && core.Norm(l.Slice) == s.val {
			rl = l
		}
	}
	bad := ""
	var loopBlocks map[*ssa.BasicBlock]bool
	if rl == nil {
		// the names travel through a run-context object or a visitor: what the enumeration order can change is
		// decided by the preparation table on every enumeration order (the delegate's registration list goes through
		// the ordering helper: bootstrap table, C12)
		sub := core.NewReport("C10", c.Tier, 0)
		prepareRules(c, sub, func(row string) string {
			if row == "order-free" || row == "classified" {
				return "C10.R1"
			}
			return ""
		})
		for _, o := range sub.Obls {
			if o.Verdict == core.Undecided {
				r.Undecided("C10.R1", cons, pos, "the names are not consumed by a forward range in the function that asks for them, and the preparation table is undecided: "+o.Detail)
				return
			}
			if o.Verdict != core.Held {
				bad = "the preparation table is violated: " + o.Detail
			}
		}
		if _, why := findBootstrap(c); why != "" {
			r.Undecided("C10.R1", cons, pos, "the registration list is not known to go through the ordering helper: "+why)
			return
		}
	} else {
		loopBlocks = rl.Loop.Blocks
	}
	for b := range loopBlocks {
		for _, in := range b.Instrs {
			switch x := in.(type) {
			case *ssa.MapUpdate:
				// keyed: order free
			case *ssa.Store:
				// appends to lists: allowed only for the processor lists (sorted later / applied independently)
				if fa, isFA := x.Addr.(*ssa.FieldAddr); isFA {
					fr, _ := core.FieldOfAddr(fa)
					if sl, isSl := core.StructOf(fa.X.Type()).Field(fa.Field).Type().Underlying().(*types.Slice); isSl {
						et := sl.Elem().String()
						if !(strings.HasSuffix(et, "DefinitionRegistryPostProcessor") || strings.HasSuffix(et, "ComponentFactoryPostProcessor")) {
							bad = "order-sensitive append to " + fr.Name
						}
					}
				}
			case ssa.CallInstruction:
				com := x.Common()
				if core.IsLogCall(com) || (com.IsInvoke() && c.InternalImpl(com) == nil) {
					continue
				}
				if cal := c.ResolvedCallee(com); cal != nil && c.InScope(cal) {
					// registration of component post-processors: must end up in a list that goes through the sorter
					through := false
					for _, f := range c.StaticCalleesInPkg(cal, nil) {
						for _, st := range f.Blocks {
							for _, ii := range st.Instrs {
								if s2, isSt := ii.(*ssa.Store); isSt {
									if fa, isFA := s2.Addr.(*ssa.FieldAddr); isFA {
										fr, _ := core.FieldOfAddr(fa)
										if sortedFieldLater(c, fr, ro.Sorter) {
											through = true
										}
									}
								}
							}
						}
					}
					// a helper without effects of its own (it only computes its result from its arguments; what the
					// loop does with the result is judged where it is stored)
					pure := true
					// a method of a collector that is a local variable of the registering function: what it writes
					// through its receiver stays in that local, exactly as an append to a local slice does
					recvLocal := false
					if cal.Signature.Recv() != nil && len(com.Args) > 0 && len(cal.Params) > 0 {
						if al, isAl := com.Args[0].(*ssa.Alloc); isAl && al.Parent() == fn && localOnlyReceiver(al) {
							recvLocal = true
						}
					}
					for _, f := range c.StaticCalleesInPkg(cal, nil) {
						for _, bb := range f.Blocks {
							for _, ii := range bb.Instrs {
								switch y := ii.(type) {
								case *ssa.Store:
									if recvLocal && f == cal && rootedAt(y.Addr, cal.Params[0]) {
										continue // fills the caller's local collector (as a local append would)
									}
									if fa, isFA := y.Addr.(*ssa.FieldAddr); isFA {
										if _, fresh := fa.X.(*ssa.Alloc); fresh {
											continue // initialises an object the function has just made
										}
									}
									if _, local := y.Addr.(*ssa.Alloc); !local {
										ia, isIA := y.Addr.(*ssa.IndexAddr)
										_, localArr := (func() (ssa.Value, bool) {
											if !isIA {
												return nil, false
											}
											a, ok := ia.X.(*ssa.Alloc)
											return a, ok
										})()
										if !isIA || !(localArr || freshSlice(ia.X)) {
											pure = false
											if os.Getenv("IOCVET_DEBUG") != "" {
												fmt.Fprintln(os.Stderr, "IMPURE store", f, y)
											}
										}
									}
								case *ssa.MapUpdate, *ssa.Go, *ssa.Send, *ssa.Defer:
									pure = false
								case ssa.CallInstruction:
									if _, isB := y.Common().Value.(*ssa.Builtin); !isB && y.Common().StaticCallee() == nil {
										pure = false // dynamic call: unknown effects
										if os.Getenv("IOCVET_DEBUG") != "" {
											fmt.Fprintln(os.Stderr, "IMPURE call", f, y)
										}
									}
								}
							}
						}
					}
					if !through && !pure && !core.IsLogCall(com) {
						if _, isB := com.Value.(*ssa.Builtin); !isB {
							bad = "call of " + cal.Name() + " in registration order"
						}
					}
				}
			}
		}
	}
	// equal-rank registered processors must not compete for the same tag
	type rk struct {
		class string
		order int64
	}
	byKey := map[rk][]*procInfo{}
	for _, p := range ps {
		if p.Registered {
			byKey[rk{p.Class, p.Order}] = append(byKey[rk{p.Class, p.Order}], p)
		}
	}
	for k, group := range byKey {
		tags := map[string]string{}
		for _, p := range group {
			t := procOwnTag(c, p)
			if t == "" {
				t = "role:" + strings.Join(rolesOf(p), "+")
			}
			if other, dup := tags[t]; dup {
				bad = fmt.Sprintf("processors %s and %s share rank (%s,%d) and both handle %s", other, p.Name(), k.class, k.order, t)
			}
			tags[t] = p.Name()
		}
	}
	r.Check(bad == "", "C10.R1", cons, pos, "REGISTRATION-ORDER: component names arrive unordered, but inside the loop they only fill keyed containers and lists that are sorted by the ordering contract before use; processors of equal rank handle disjoint tags, definition-registry and factory post-processors act per tag / once "+bad)
}

// rootedAt: the address is reached from root through field selections, element selections and loads only.
func rootedAt(addr ssa.Value, root ssa.Value) bool {
	for i := 0; i < 8 && addr != nil; i++ {
		if addr == root {
			return true
		}
		switch x := addr.(type) {
		case *ssa.FieldAddr:
			addr = x.X
		case *ssa.IndexAddr:
			addr = x.X
		case *ssa.UnOp:
			if x.Op != token.MUL {
				return false
			}
			addr = x.X
		default:
			return false
		}
	}
	return false
}

// localOnlyReceiver: the local variable is used only as the receiver of static method calls (it is never stored,
// captured or handed to anything else).
func localOnlyReceiver(al *ssa.Alloc) bool {
	for _, rf := range *al.Referrers() {
		switch x := rf.(type) {
		case *ssa.DebugRef:
		case *ssa.Call:
			if x.Common().StaticCallee() == nil || x.Common().StaticCallee().Signature.Recv() == nil || len(x.Common().Args) == 0 || x.Common().Args[0] != ssa.Value(al) {
				return false
			}
			for _, a := range x.Common().Args[1:] {
				if a == ssa.Value(al) {
					return false
				}
			}
		case *ssa.Store:
			if x.Addr != ssa.Value(al) {
				return false // the address itself is stored somewhere
			}
		default:
			return false
		}
	}
	return true
}

// freshSlice: v is a slice the function made itself (make / append result / slice of a local array).
func freshSlice(v ssa.Value) bool {
	switch x := core.Norm(v).(type) {
	case *ssa.MakeSlice:
		return true
	case *ssa.Slice:
		_, isAlloc := x.X.(*ssa.Alloc)
		return isAlloc
	case *ssa.Call:
		if bi, ok := x.Common().Value.(*ssa.Builtin); ok && bi.Name() == "append" {
			return true
		}
	}
	return false
}

func rolesOf(p *procInfo) []string {
	var s []string
	for k := range p.Roles {
		s = append(s, k)
	}
	sort.Strings(s)
	return s
}

// sortedFieldLater: some function stores the sorter's result into this field (so whatever order it was filled in is normalised).
func sortedFieldLater(c *core.Ctx, fr core.FieldRef, sorter *ssa.Function) bool {
	stores, _ := c.FieldAccesses(fr.Owner, fr.Name)
	for _, st := range stores {
		call, ok := core.Norm(st.Store.Val).(*ssa.Call)
		if !ok {
			continue
		}
		if core.IsCallTo(call.Common(), sorter) {
			return true
		}
		// ... through a collaborator behind an internal interface, every implementation of which hands its argument to
		// the sorter and returns what that returns
		impls := core.SeamAll(call.Common())
		if cal := call.Common().StaticCallee(); cal != nil {
			impls = []*ssa.Function{cal}
		}
		all := len(impls) > 0
		for _, impl := range impls {
			if pureForwarder(impl) != sorter && !(pureForwarder(impl) != nil && pureForwarder(impl).Origin() == sorter) {
				all = false
			}
		}
		if all {
			return true
		}
	}
	return false
}

// c10Collector: slices appended to by goroutine bodies are used for diagnostics only.
func c10Collector(c *core.Ctx, r *core.Report) {
	n := 0
	for _, fn := range c.Scope {
		for _, ci := range core.Calls(fn) {
			g, ok := ci.(*ssa.Go)
			if !ok {
				continue
			}
			body := core.ClosureOf(g.Call.Value)
			mc, isMC := g.Call.Value.(*ssa.MakeClosure)
			if body == nil || !isMC {
				continue
			}
			for i, fv := range body.FreeVars {
				appended := false
				for _, rf := range *fv.Referrers() {
					if st, isSt := rf.(*ssa.Store); isSt && st.Addr == ssa.Value(fv) {
						if call, isCall := st.Val.(*ssa.Call); isCall {
							if bi, isB := call.Common().Value.(*ssa.Builtin); isB && bi.Name() == "append" {
								appended = true
							}
						}
					}
				}
				if !appended || i >= len(mc.Bindings) {
					continue
				}
				n++
				al, _ := mc.Bindings[i].(*ssa.Alloc)
				cons := "collect@" + roleName(c, fn)
				if al == nil {
					r.Undecided("C10.R1", cons, c.Pos(g.Pos()), "collector cell not found")
					continue
				}
				// parent uses: nil/len tests and a range whose elements only feed error construction (also inside a helper
				// the slice is handed to)
				ok := true
				for _, rf := range *al.Referrers() {
					if ld, isLoad := rf.(*ssa.UnOp); isLoad {
						if !diagnosticOnly(c, ld, 0) {
							ok = false
						}
					}
				}
				r.Check(ok, "C10.R1", cons, c.Pos(g.Pos()), "DIAGNOSTIC: what the goroutines collect (in completion order) is only tested for emptiness and folded into an error message")
			}
		}
	}
	r.Count("goroutine_collectors", n)
}

// diagnosticOnly: the slice value v is only tested for emptiness, measured, or has its elements folded into error
// texts - directly or inside an in-scope static callee it is passed to.
func diagnosticOnly(c *core.Ctx, v ssa.Value, depth int) bool {
	if depth > 2 || v.Referrers() == nil {
		return false
	}
	for _, u := range *v.Referrers() {
		switch x := u.(type) {
		case *ssa.BinOp, *ssa.DebugRef:
		case *ssa.Call:
			if bi, isB := x.Common().Value.(*ssa.Builtin); isB {
				if bi.Name() != "len" {
					return false
				}
				continue
			}
			cal := x.Common().StaticCallee()
			if cal == nil || !c.InScope(cal) || cal.Blocks == nil {
				return false
			}
			okArg := false
			for i, a := range x.Common().Args {
				if a == v && i < len(cal.Params) {
					okArg = diagnosticOnly(c, cal.Params[i], depth+1)
				}
			}
			if !okArg {
				return false
			}
		case *ssa.IndexAddr:
			for _, e1 := range *x.Referrers() {
				el, isEl := e1.(*ssa.UnOp)
				if !isEl {
					continue
				}
				for _, e2 := range *el.Referrers() {
					call, isCall := e2.(*ssa.Call)
					if !isCall {
						if _, isDbg := e2.(*ssa.DebugRef); !isDbg {
							return false
						}
						continue
					}
					if !(call.Common().IsInvoke() && call.Common().Method.Name() == "Error") {
						if _, isWrap := core.IsErrWrap(call); !isWrap {
							return false
						}
					}
				}
			}
		default:
			return false
		}
	}
	return true
}

// sortSliceCanonical interprets sort.Slice with the given index comparator (which captures the slice) on every
// permutation of three distinct elements: the result must not depend on the order they came in.
func sortSliceCanonical(c *core.Ctx, less *ssa.Function, T types.Type, byRef bool) (bool, string) {
	key := "sort-slice-canonical:" + less.String()
	if v, ok := c.Memo.Load(key); ok {
		return v.(string) == "", v.(string)
	}
	why := func() (why string) {
		sl, ok := T.Underlying().(*types.Slice)
		if !ok {
			return "sort.Slice of something that is not a slice"
		}
		b, ok := sl.Elem().Underlying().(*types.Basic)
		if !ok || b.Info()&(types.IsString|types.IsInteger) == 0 {
			return "sort.Slice of a slice whose elements are neither strings nor integers"
		}
		mk := func(i int) absint.Value {
			if b.Info()&types.IsString != 0 {
				return absint.Str(string(rune('a' + i)))
			}
			return absint.Int(int64(i))
		}
		defer func() {
			if r := recover(); r != nil {
				switch x := r.(type) {
				case *absint.Undecided:
					why = "interpreting the comparator left the model: " + x.Msg
				case *absint.GoPanic:
					why = "the comparator panics: " + x.Msg
				default:
					panic(r)
				}
			}
		}()
		canon := ""
		for _, perm := range [][]int{{0, 1, 2}, {0, 2, 1}, {1, 0, 2}, {1, 2, 0}, {2, 0, 1}, {2, 1, 0}} {
			t := newTbl(c)
			ip := absint.New(t)
			ip.IsLog = core.IsLogCall
			ip.InScope = c.InScope
			l := &absint.List{}
			for _, i := range perm {
				l.Elems = append(l.Elems, mk(i))
			}
			var bound absint.Value = l
			if byRef {
				bound = &absint.Cell{V: l}
			}
			cl := &absint.Closure{Fn: less, Bind: []absint.Value{bound}}
			lessAt := func(i, j int) bool {
				r, ok := ip.CallValue(cl, absint.Int(i), absint.Int(j)).(absint.Bool)
				if !ok {
					panic(&absint.Undecided{Msg: "the comparator did not return a boolean"})
				}
				return bool(r)
			}
			for i := 1; i < len(l.Elems); i++ {
				for j := i; j > 0 && lessAt(j, j-1); j-- {
					l.Elems[j], l.Elems[j-1] = l.Elems[j-1], l.Elems[j]
				}
			}
			got := absint.Show(l)
			if canon != "" && canon != got {
				return fmt.Sprintf("the comparator leaves the same elements as %s or as %s, depending on the order they came in", canon, got)
			}
			canon = got
		}
		return ""
	}()
	c.Memo.Store(key, why)
	return why == "", why
}

// sameCellLoad: a and b are loads of one local variable and nothing is stored into it after the instruction `after`
// (every store comes before it): both read the value the variable had at `after`.
func sameCellLoad(a, b ssa.Value, after ssa.Instruction) bool {
	la, ok1 := a.(*ssa.UnOp)
	lb, ok2 := b.(*ssa.UnOp)
	if !ok1 || !ok2 || la.Op != token.MUL || lb.Op != token.MUL || la.X != lb.X {
		return false
	}
	al, ok := la.X.(*ssa.Alloc)
	if !ok {
		return false
	}
	for _, rf := range *al.Referrers() {
		switch x := rf.(type) {
		case *ssa.Store:
			if x.Addr == ssa.Value(al) && !core.StrictlyBefore(x, after) && (x.Block() == after.Block() || core.BlockReaches(after.Block(), x.Block())) {
				return false // the store may run after the sort
			}
		case *ssa.MakeClosure:
			// a literal that captures the variable must not write it
			fn := x.Fn.(*ssa.Function)
			for i, bnd := range x.Bindings {
				if bnd != ssa.Value(al) || i >= len(fn.FreeVars) {
					continue
				}
				for _, r2 := range *fn.FreeVars[i].Referrers() {
					if st, isSt := r2.(*ssa.Store); isSt && st.Addr == ssa.Value(fn.FreeVars[i]) {
						return false
					}
				}
			}
		}
	}
	return true
}

func isErrorSlice(t types.Type) bool {
	sl, ok := t.Underlying().(*types.Slice)
	return ok && isErrorType(sl.Elem())
}

// iteratorHelper: fn uses the sequence only as the operand of a forward range whose body hands the element to a
// function-typed parameter of fn (and looks at what that returns).
func iteratorHelper(fn *ssa.Function, call *ssa.Call) bool {
	if fn.Parent() != nil {
		return false
	}
	var rl *core.RangeLoop
	for _, l := range core.RangeLoops(fn) {
		if core.Norm(l.Slice) == ssa.Value(call) {
			if rl != nil {
				return false
			}
			rl = l
		}
	}
	if rl == nil {
		return false
	}
	for _, rf := range *call.Referrers() {
		switch x := rf.(type) {
		case *ssa.DebugRef:
		case *ssa.Call:
			if bi, isB := x.Common().Value.(*ssa.Builtin); !isB || bi.Name() != "len" {
				return false
			}
		case *ssa.IndexAddr, *ssa.Index, *ssa.Range:
		default:
			return false
		}
	}
	handed := false
	for b := range rl.Loop.Blocks {
		for _, in := range b.Instrs {
			switch x := in.(type) {
			case ssa.CallInstruction:
				com := x.Common()
				if p, isParam := com.Value.(*ssa.Parameter); isParam && !com.IsInvoke() {
					if _, isSig := p.Type().Underlying().(*types.Signature); isSig {
						for _, a := range com.Args {
							if rl.ElemOf(a) {
								handed = true
							}
						}
						continue
					}
				}
				if _, isB := com.Value.(*ssa.Builtin); isB || core.IsLogCall(com) {
					continue
				}
				return false
			case *ssa.Store, *ssa.MapUpdate, *ssa.Send, *ssa.Go, *ssa.Defer:
				return false
			}
		}
	}
	return handed
}

// strictLessValue: v is a literal `func(a, b) bool { return a < b }`, or a parameter of the enclosing function for
// which every in-scope call of that function passes such a comparator.  "" when it is, else why not.
func strictLessValue(c *core.Ctx, v ssa.Value, in *ssa.Function, depth int) string {
	if p, isParam := v.(*ssa.Parameter); isParam && depth < 2 && in != nil && in.Parent() == nil {
		idx := -1
		for i, q := range in.Params {
			if q == p {
				idx = i
			}
		}
		target := in
		if o := in.Origin(); o != nil {
			target = o
		}
		sites := c.CallSites(func(com *ssa.CallCommon) bool { return core.IsCallTo(com, target) })
		if idx < 0 || len(sites) == 0 || len(c.FuncValueUses(target)) != 0 {
			return "the comparator is a parameter whose arguments cannot all be seen"
		}
		for _, cs := range sites {
			args := cs.Common().Args
			if idx >= len(args) {
				return "the comparator is a parameter whose arguments cannot all be seen"
			}
			if why := strictLessValue(c, args[idx], cs.Parent(), depth+1); why != "" {
				return why
			}
		}
		return ""
	}
	cmp := core.ClosureOf(v)
	if cmp == nil || len(cmp.Blocks) != 1 {
		return "comparator is not a simple literal"
	}
	ret, isRet := cmp.Blocks[0].Instrs[len(cmp.Blocks[0].Instrs)-1].(*ssa.Return)
	if !isRet {
		return "comparator shape"
	}
	b, isB := ret.Results[0].(*ssa.BinOp)
	if !isB || b.Op != token.LSS || b.X != ssa.Value(cmp.Params[0]) || b.Y != ssa.Value(cmp.Params[1]) {
		return "comparator is not `a < b` on its two parameters"
	}
	return ""
}

// isPropertySlice: []*component_definition.Property.
func isPropertySlice(c *core.Ctx, t types.Type) bool {
	sl, ok := t.Underlying().(*types.Slice)
	return ok && core.NamedOf(sl.Elem()) != nil && core.NamedOf(sl.Elem()) == c.Named("component_definition", "Property")
}

// sliceResultOnlyAppends: the range of a collector does nothing but append to the slice the function hands back (for
// a sync.Map range the callback's body is judged where the collector rule always was: by its use sites).
func sliceResultOnlyAppends(s unorderedSource) bool {
	rng, ok := s.in.(*ssa.Range)
	if !ok {
		return s.kind == "syncrange"
	}
	var loop *core.Loop
	for _, rf := range *rng.Referrers() {
		if nx, isNext := rf.(*ssa.Next); isNext {
			loop = core.InnermostLoop(s.fn, nx.Block())
		}
	}
	if loop == nil {
		return false
	}
	for b := range loop.Blocks {
		for _, in := range b.Instrs {
			switch x := in.(type) {
			case ssa.CallInstruction:
				bi, isB := x.Common().Value.(*ssa.Builtin)
				if _, isCall := in.(*ssa.Call); !isCall || !isB || (bi.Name() != "append" && bi.Name() != "len") {
					return false
				}
			case *ssa.Store:
				if _, local := x.Addr.(*ssa.Alloc); !local {
					if _, isIdx := x.Addr.(*ssa.IndexAddr); !isIdx {
						return false
					}
				}
			case *ssa.MapUpdate, *ssa.Send, *ssa.Go, *ssa.Defer:
				return false
			}
		}
	}
	return true
}
