package rules

import (
	"fmt"
	"go/types"
	"strings"

	"golang.org/x/tools/go/ssa"

	"iocvet/internal/absint"
	"iocvet/internal/core"
)

var resolverRows = map[string]string{
	"ask-in-order":     "before-instantiation callbacks are asked in list order until one produces an object or fails; later ones are not asked",
	"after-init-only":  "after-initialization callbacks run on the short-circuit path only for an object a before-instantiation callback produced, chained in list order, each once",
	"nothing-produced": "when no callback produces an object the resolver returns nothing and no after-initialization callback runs here",
	"error":            "a failing callback ends the resolver with a non-nil error and nothing after it",
}

var creatorPathRows = map[string]string{
	"exclusive": "a component goes through exactly one of the two paths: the normal life cycle runs exactly when the before-instantiation resolver succeeded and produced nothing",
	"error":     "an error of the resolver or of the normal path makes the creation fail; an unknown name fails",
	"result":    "a produced object is published as the definition itself (same object) or as a proxy of it, never dropped",
}

// resolverTable: the before-instantiation resolver of the delegate (smallest function reaching both
// PostProcessBeforeInstantiation and PostProcessAfterInitialization).
func resolverTable(c *core.Ctx, fn *ssa.Function, maxProcs int) (rs rows, runs int, undecided string) {
	ro := c.Roles()
	rs = rows{}
	ia := c.Named("container", "InstantiationAwareComponentPostProcessor")
	for n := 0; n <= maxProcs; n++ {
		var events []string
		var stopped, wantErr bool
		var after []string
		build := func() (absint.Oracle, []absint.Value, []absint.Value) {
			events, stopped, wantErr, after = nil, false, false, nil
			t := newTbl(c)
			self := absint.NewTok("delegate", "delegate")
			procs := &absint.List{IsNil: n == 0}
			for i := 1; i <= n; i++ {
				procs.Elems = append(procs.Elems, absint.NewTok(fmt.Sprintf("P%d", i), "processor"))
			}
			var regState *absint.Tok
			regTried := false
			t.field = func(ip *absint.Interp, obj *absint.Tok, name string, typ types.Type) absint.Value {
				if sl, ok := typ.Underlying().(*types.Slice); ok && types.IsInterface(sl.Elem()) && partOfState(obj, self) {
					return dispatchList(c, t, name, procs)
				}
				if partOfState(obj, self) {
					if v := policyField(c, t, procs, name, typ, &regState, &regTried); v != nil {
						return v
					}
				}
				if b, ok := typ.Underlying().(*types.Basic); ok && b.Kind() == types.Bool && partOfState(obj, self) {
					return absint.Bool(n > 0)
				}
				return nil
			}
			t.typeTest = func(v absint.Value, T types.Type) (bool, bool) {
				if tok, ok := v.(*absint.Tok); ok && tok.Class == "processor" {
					return ia != nil && types.Identical(T, ia) || types.IsInterface(T), true
				}
				return false, false
			}
			ev := func(e string) {
				if stopped {
					after = append(after, e)
				}
				events = append(events, e)
			}
			t.invoke[ro.IABeforeInst] = func(ip *absint.Interp, a []absint.Value) absint.Value {
				ev("before-inst:" + absint.Show(a[0]))
				switch ip.Choose(3, "before-instantiation outcome") {
				case 1:
					return absint.Tuple{absint.NewTok("produced-by-"+absint.Show(a[0]), "component"), absint.Nil{}}
				case 2:
					stopped, wantErr = true, true
					return absint.Tuple{absint.Nil{}, t.newErr("before-inst")}
				}
				return absint.Tuple{absint.Nil{}, absint.Nil{}}
			}
			t.invoke[ro.CPAfterInit] = func(ip *absint.Interp, a []absint.Value) absint.Value {
				ev("after-init:" + absint.Show(a[0]) + "(" + absint.Show(a[1]) + ")")
				switch ip.Choose(3, "after-initialization outcome") {
				case 1:
					return absint.Tuple{absint.NewTok("w("+absint.Show(a[1])+")", "component"), absint.Nil{}}
				case 2:
					stopped, wantErr = true, true
					return absint.Tuple{absint.Nil{}, t.newErr("after-init")}
				}
				return absint.Tuple{a[1], absint.Nil{}}
			}
			args := []absint.Value{self}
			for _, p := range fn.Params[1:] {
				if b, isB := p.Type().Underlying().(*types.Basic); isB && b.Info()&types.IsString != 0 {
					args = append(args, absint.Str("name"))
				} else {
					args = append(args, absint.NewTok("meta", "meta"))
				}
			}
			return t, args, nil
		}
		check := func(ip *absint.Interp, out absint.Outcome) {
			w := fmt.Sprintf("%d processor(s): events=%v => %s", n, events, showOutcome(out))
			if out.Panic != nil {
				rs.fail("error", "PANIC "+w)
				return
			}
			isErr := len(out.Ret) >= 1 && isErrTok(out.Ret[len(out.Ret)-1])
			rs.hit("error")
			if isErr != wantErr || len(after) != 0 {
				rs.fail("error", w)
			}
			// split the trace
			var befores, afters []string
			producedAt := -1
			for _, e := range events {
				if strings.HasPrefix(e, "before-inst:") {
					if len(afters) > 0 {
						rs.fail("ask-in-order", w)
					}
					befores = append(befores, strings.TrimPrefix(e, "before-inst:"))
				} else {
					afters = append(afters, e)
				}
			}
			rs.hit("ask-in-order")
			for i, b := range befores {
				if b != fmt.Sprintf("P%d", i+1) {
					rs.fail("ask-in-order", w)
				}
			}
			// which one produced: by construction the last before-inst asked, if an after-init followed or the result is non-nil
			produced := ""
			if len(afters) > 0 && len(befores) > 0 {
				produced = "produced-by-" + befores[len(befores)-1]
				producedAt = len(befores)
			}
			_ = producedAt
			if produced == "" {
				rs.hit("nothing-produced")
				if !wantErr && len(befores) != n {
					// stopping early without a product is only legal if the last asked one produced (then after-init must follow)
					if len(out.Ret) >= 1 {
						if _, isNil := out.Ret[0].(absint.Nil); isNil {
							rs.fail("ask-in-order", w+" (stopped asking although nothing was produced)")
						}
					}
				}
				return
			}
			rs.hit("after-init-only")
			cur := produced
			okChain := true
			for i, e := range afters {
				want := fmt.Sprintf("after-init:P%d(%s)", i+1, cur)
				if e != want {
					okChain = false
				}
				// what the callback returned is unknown here except through the next argument; accept either form
				if i+1 < len(afters) {
					nx := afters[i+1]
					l, r2 := strings.Index(nx, "("), strings.LastIndex(nx, ")")
					if l >= 0 && r2 > l {
						cur = nx[l+1 : r2]
					}
				}
			}
			if !okChain || (!wantErr && len(afters) != n) {
				rs.fail("after-init-only", w)
			}
		}
		m, u := runTable(c, fn, build, check)
		runs += m
		if u != "" {
			return rs, runs, u
		}
	}
	return
}

// creatorPathTable: the function of the creator chain that calls the resolver and the normal life cycle.
func creatorPathTable(c *core.Ctx, fn, resolver, normal *ssa.Function) (rs rows, runs int, undecided string) {
	ro := c.Roles()
	rs = rows{}
	var events []string
	var wantErr bool
	var produced string
	var known bool
	var meta, raw *absint.Tok
	build := func() (absint.Oracle, []absint.Value, []absint.Value) {
		events, wantErr, produced, known = nil, false, "", true
		t := newTbl(c)
		factory := absint.NewTok("factory", "factory")
		meta = absint.NewTok("meta", "meta")
		raw = absint.NewTok("raw", "component")
		meta.Fields["Raw"] = raw
		t.invoke[ro.DRGetMetaByName] = func(ip *absint.Interp, a []absint.Value) absint.Value {
			if ip.Choose(2, "definition known") == 1 {
				known = false
				wantErr = true
				return absint.Nil{}
			}
			return meta
		}
		t.callee[resolver] = func(ip *absint.Interp, a []absint.Value) absint.Value {
			events = append(events, "resolve")
			switch ip.Choose(4, "resolver outcome") {
			case 1:
				produced = "raw"
				return absint.Tuple{raw, absint.Nil{}}
			case 2:
				produced = "other"
				return absint.Tuple{absint.NewTok("other", "component"), absint.Nil{}}
			case 3:
				wantErr = true
				return absint.Tuple{absint.Nil{}, t.newErr("resolve")}
			}
			return absint.Tuple{absint.Nil{}, absint.Nil{}}
		}
		t.callee[normal] = func(ip *absint.Interp, a []absint.Value) absint.Value {
			events = append(events, "normal")
			if ip.Choose(2, "normal path outcome") == 1 {
				wantErr = true
				return absint.Tuple{absint.Nil{}, t.newErr("normal")}
			}
			return absint.Tuple{absint.NewTok("created", "meta"), absint.Nil{}}
		}
		if ro.CreateProxy != nil {
			t.callee[ro.CreateProxy] = func(ip *absint.Interp, a []absint.Value) absint.Value {
				events = append(events, "proxy("+absint.Show(a[0])+","+absint.Show(a[2])+")")
				return absint.Tuple{absint.NewTok("proxy", "meta"), absint.Nil{}}
			}
		}
		args := []absint.Value{factory}
		for range fn.Params[1:] {
			args = append(args, absint.Str("name"))
		}
		return t, args, nil
	}
	check := func(ip *absint.Interp, out absint.Outcome) {
		w := fmt.Sprintf("known=%v produced=%q events=%v => %s", known, produced, events, showOutcome(out))
		if out.Panic != nil {
			rs.fail("error", "PANIC "+w)
			return
		}
		isErr := len(out.Ret) == 2 && isErrTok(out.Ret[1])
		rs.hit("error")
		if isErr != wantErr {
			rs.fail("error", w)
		}
		if !known {
			return
		}
		nNormal, nResolve := 0, 0
		for _, e := range events {
			if e == "normal" {
				nNormal++
			}
			if e == "resolve" {
				nResolve++
			}
		}
		rs.hit("exclusive")
		resolverFailed := wantErr && nNormal == 0 && produced == ""
		wantNormal := 0
		if produced == "" && !resolverFailed {
			wantNormal = 1
		}
		if nResolve != 1 || nNormal != wantNormal || (len(events) > 0 && events[0] != "resolve") {
			rs.fail("exclusive", w)
		}
		if produced != "" && !isErr {
			rs.hit("result")
			got := absint.Show(out.Ret[0])
			switch produced {
			case "raw":
				if got != "meta" && got != "proxy" {
					rs.fail("result", w)
				}
			case "other":
				if got != "proxy" {
					rs.fail("result", w)
				}
			}
		}
	}
	m, u := runTable(c, fn, build, check)
	return rs, m, u
}
