package rules

import (
	"fmt"
	"go/token"
	"go/types"
	"sort"
	"strings"

	"golang.org/x/tools/go/ssa"

	"iocvet/internal/core"
)

func init() { register("C09", c09) }

// reachableInScope: in-scope functions reachable from the roots.  Static calls are followed directly, interface
// invokes through the CHA graph; calls of plain function values are resolved by provenance instead of CHA's
// signature matching (which drags in unrelated functions): every literal is reachable where it is created, every
// named function where it is used as a value, and functions stored into a package-level variable become reachable
// when reachable code refers to that variable.
func reachableInScope(c *core.Ctx, roots ...*ssa.Function) []*ssa.Function {
	cg := c.CG()
	seen := map[*ssa.Function]bool{}
	// functions stored into globals (by init functions etc.)
	globalFns := map[*ssa.Global][]*ssa.Function{}
	for _, fn := range c.Scope {
		stores := map[*ssa.Global]bool{}
		for _, b := range fn.Blocks {
			for _, in := range b.Instrs {
				if st, ok := in.(*ssa.Store); ok {
					if g, isG := st.Addr.(*ssa.Global); isG {
						stores[g] = true
					}
				}
			}
		}
		if len(stores) == 0 {
			continue
		}
		var fvals []*ssa.Function
		for _, b := range fn.Blocks {
			for _, in := range b.Instrs {
				var ops []*ssa.Value
				for _, op := range in.Operands(ops) {
					if *op == nil {
						continue
					}
					switch x := (*op).(type) {
					case *ssa.MakeClosure:
						fvals = append(fvals, x.Fn.(*ssa.Function))
					case *ssa.Function:
						if ci, isCall := in.(ssa.CallInstruction); isCall && ci.Common().Value == *op {
							continue
						}
						fvals = append(fvals, x)
					}
				}
				if mc, isMC := in.(*ssa.MakeClosure); isMC {
					fvals = append(fvals, mc.Fn.(*ssa.Function))
				}
			}
		}
		for g := range stores {
			globalFns[g] = append(globalFns[g], fvals...)
		}
	}
	var visit func(fn *ssa.Function)
	visit = func(fn *ssa.Function) {
		// a bound-method / thunk wrapper stands for the method it wraps
		if fn != nil && fn.Synthetic != "" && !c.InScope(fn) {
			if m, ok := fn.Object().(*types.Func); ok {
				if real := c.Prog.FuncValue(m); real != nil && real != fn {
					fn = real
				}
			}
		}
		if fn == nil || seen[fn] || !c.InScope(fn) {
			return
		}
		seen[fn] = true
		node := cg.Nodes[fn]
		for _, b := range fn.Blocks {
			for _, in := range b.Instrs {
				var ops []*ssa.Value
				for _, op := range in.Operands(ops) {
					if *op == nil {
						continue
					}
					switch x := (*op).(type) {
					case *ssa.Function:
						visit(x) // static callee or function used as a value
					case *ssa.Global:
						for _, f := range globalFns[x] {
							visit(f)
						}
					}
				}
				switch x := in.(type) {
				case *ssa.MakeClosure:
					visit(x.Fn.(*ssa.Function))
				case ssa.CallInstruction:
					if x.Common().IsInvoke() && node != nil {
						for _, e := range node.Out {
							if e.Site == x {
								visit(e.Callee.Func)
							}
						}
					}
				}
			}
		}
	}
	for _, r := range roots {
		visit(r)
	}
	var out []*ssa.Function
	for f := range seen {
		out = append(out, f)
	}
	sort.Slice(out, func(i, j int) bool { return out[i].String() < out[j].String() })
	return out
}

func calleeName(com *ssa.CallCommon) string {
	if com.IsInvoke() {
		return core.Short(com.Method.FullName())
	}
	if cal := core.Callee(com); cal != nil {
		return core.Short(cal.String())
	}
	return "dynamic"
}

// closureReturnsOnlyNil: every return of the literal passed as a callback yields the nil error constant.
func closureReturnsOnlyNil(v ssa.Value) bool {
	cl := resolveWrapper(core.ClosureOf(v)) // a method value stands for the method
	if cl == nil || cl.Blocks == nil {
		return false
	}
	for _, ret := range core.Returns(cl) {
		if len(ret.Results) == 0 || !core.IsNilConst(ret.Results[len(ret.Results)-1]) {
			return false
		}
	}
	return true
}

// isFatalBlock: the block ends the process (log Fatal*/Panic*, panic, os.Exit).
func isFatalBlock(b *ssa.BasicBlock) bool {
	for _, in := range b.Instrs {
		switch x := in.(type) {
		case *ssa.Panic:
			return true
		case ssa.CallInstruction:
			com := x.Common()
			name := ""
			if com.IsInvoke() {
				name = com.Method.Name()
			} else if cal := core.Callee(com); cal != nil {
				name = cal.Name()
				if cal.String() == "os.Exit" {
					return true
				}
			}
			if core.IsLogCall(com) && (strings.HasPrefix(name, "Fatal") || strings.HasPrefix(name, "Panic")) {
				return true
			}
			// a function of the module that never returns: all its exits are panics
			if cal := com.StaticCallee(); cal != nil && neverReturns(cal, 0) {
				return true
			}
		}
	}
	return false
}

// neverReturns: fn has a body without any return instruction (every path ends in panic, or in a call of such a
// function followed by nothing).
func neverReturns(fn *ssa.Function, depth int) bool {
	if fn == nil || fn.Blocks == nil || depth > 2 || fn.Recover != nil {
		return false
	}
	for _, b := range fn.Blocks {
		for _, in := range b.Instrs {
			if _, isRet := in.(*ssa.Return); isRet {
				return false
			}
		}
	}
	return true
}

// accumulateThenTest recognises the fan-out idiom: inside a goroutine body the non-nil edge appends the
// (wrapped) error to a captured slice; the parent tests that slice after Wait and returns a non-nil error.
func accumulateThenTest(c *core.Ctx, call *ssa.Call) (bool, string) {
	fn := call.Parent()
	parent := fn.Parent()
	if parent == nil {
		return false, "not inside a function literal"
	}
	ev := core.ErrValue(call)
	var cell *ssa.FreeVar
	for _, t := range core.NilTests(ev) {
		for b := range core.ReachableFrom(t.NonNil, nil) {
			for _, in := range b.Instrs {
				st, ok := in.(*ssa.Store)
				if !ok {
					continue
				}
				fv, ok := st.Addr.(*ssa.FreeVar)
				if !ok {
					continue
				}
				app, ok := st.Val.(*ssa.Call)
				if !ok {
					continue
				}
				if bi, isB := app.Common().Value.(*ssa.Builtin); !isB || bi.Name() != "append" {
					continue
				}
				// appended element derives from the error
				from := false
				for _, o := range core.Origins(app.Common().Args[1], func(v ssa.Value) bool { return v == ev }) {
					if o == ev {
						from = true
					}
					if w, isW := o.(*ssa.Call); isW {
						if in, isWrap := core.IsErrWrap(w); isWrap && in == ev {
							from = true
						}
					}
				}
				if from {
					cell = fv
				}
			}
		}
	}
	if cell == nil {
		return false, "the non-nil edge does not append the error to a captured slice"
	}
	// parent: find the bound alloc, a load of it after a WaitGroup.Wait that feeds a nil/len test leading to RetError
	idx := -1
	for i, fv := range fn.FreeVars {
		if fv == cell {
			idx = i
		}
	}
	var alloc ssa.Value
	for _, b := range parent.Blocks {
		for _, in := range b.Instrs {
			if mc, ok := in.(*ssa.MakeClosure); ok && mc.Fn == ssa.Value(fn) && idx >= 0 {
				alloc = mc.Bindings[idx]
			}
		}
	}
	if alloc == nil {
		return false, "captured slice not found in the parent"
	}
	var wait ssa.Instruction
	for _, ci := range core.Calls(parent) {
		if core.IsExtCall(ci.Common(), "(*sync.WaitGroup).Wait") {
			wait = ci
		}
	}
	if wait == nil {
		return false, "parent never waits for the goroutines"
	}
	for _, rf := range *alloc.Referrers() {
		ld, ok := rf.(*ssa.UnOp)
		if !ok || !core.StrictlyBefore(wait, ld) {
			continue
		}
		for _, t := range core.NilTests(ld) {
			okAll := true
			n := 0
			for b := range core.ReachableFrom(t.NonNil, nil) {
				if len(b.Instrs) == 0 {
					continue
				}
				if ret, isRet := b.Instrs[len(b.Instrs)-1].(*ssa.Return); isRet {
					n++
					if core.ClassifyReturn(ret) != core.RetError {
						okAll = false
					}
				}
			}
			if okAll && n > 0 {
				return true, ""
			}
		}
		// len(errs) != 0 form
		for _, rr := range *ld.Referrers() {
			if ln, isCall := rr.(*ssa.Call); isCall {
				if bi, isB := ln.Common().Value.(*ssa.Builtin); isB && bi.Name() == "len" {
					for _, r3 := range *ln.Referrers() {
						if cmp, isCmp := r3.(*ssa.BinOp); isCmp {
							for _, r4 := range *cmp.Referrers() {
								if iff, isIf := r4.(*ssa.If); isIf {
									k, isK := core.ConstInt(cmp.Y)
									if !isK || k != 0 || (cmp.Op.String() != "!=" && cmp.Op.String() != ">") {
										continue
									}
									for _, s := range iff.Block().Succs[:1] {
										okAll, n := true, 0
										for b := range core.ReachableFrom(s, nil) {
											if ret, isRet := b.Instrs[len(b.Instrs)-1].(*ssa.Return); isRet {
												n++
												if core.ClassifyReturn(ret) != core.RetError {
													okAll = false
												}
											}
										}
										if okAll && n > 0 {
											return true, ""
										}
									}
								}
							}
						}
					}
				}
			}
		}
	}
	return false, "the collected errors are not tested after Wait and turned into a non-nil return"
}

func c09(c *core.Ctx, r *core.Report) {
	r.Explanation = "C09 clean failure: (E1) every error-returning call in the in-scope functions reachable from App.Run on the CHA call graph (logging excluded) is classified: returned as the function's own error, or nil-tested with every return reachable from the non-nil edge carrying a non-nil error (process-ending Fatal/Panic blocks count as terminal); anything else must match a reasoned exception that is itself verified (callback returns only nil, accumulate-then-test after Wait, documented never-fails, parse-or-fall-back-to-literal, optional point skipped only under IsRequired()==false). (E3) at every IsRequired() decision the true edge reaches only non-nil error returns and the false edge reaches the next property without a field write. (E2) panic sources are decided under C07.R5/R6, (E4) runner gating under C13.R1. Decides that no error is dropped on the way to Run's result; does not decide panics or hangs inside user callbacks."
	r.Assumptions = []string{"CHA over-approximates dispatch; calls through reflect are invisible (FuncNameAndResult calls a user method)", "user callbacks return instead of panicking"}
	appT := c.Named("app", "App")
	var run *ssa.Function
	if appT != nil {
		run = c.DeclaredMethod(appT, "Run")
	}
	if run == nil {
		r.Undecided("C09.E1", "role:App.Run", "", "(*app.App).Run not found")
		return
	}
	fns := reachableInScope(c, run)
	r.Count("functions_reachable_from_Run", len(fns))
	if !r.Floor("C09.E1", "in-scope functions reachable from App.Run", len(fns), 150) {
		return
	}
	sites, okSites := 0, 0
	byClass := map[string]int{}
	scanBodies, scanOK := defScanRules(c, r, func(row string) string {
		if row == "error" || row == "joined" {
			return "C09.E1" // (a scan that waits for ever, or returns before its scanners have answered, reports nothing)
		}
		return ""
	})
	// the narrowing call of the further-matching stage: what happens to its error is decided by that stage's table
	furtherState := 0 // 0 not computed, 1 rows hold, 2 not
	var narrowFn *ssa.Function
	var narrowProc *procInfo
	furtherDecides := func(call *ssa.Call) bool {
		if furtherState == 0 {
			furtherState = 2
			narrowFn, _, narrowProc = narrowingFn(c, builtinProcessors(c))
			if narrowFn != nil && narrowProc != nil {
				if rs, _, und := furtherPropsTable(c, narrowProc, narrowFn); und == "" {
					ok := true
					for _, row := range []string{"optional-cleared", "required-error", "narrowed-once"} {
						if rr := rs[row]; rr == nil || rr.runs == 0 || len(rr.bad) > 0 {
							ok = false
						}
					}
					if ok {
						furtherState = 1
					}
				}
			}
		}
		if furtherState != 1 || !core.IsCallTo(call.Common(), narrowFn) {
			return false
		}
		for _, f := range narrowProc.Body {
			if f == call.Parent() {
				return true
			}
		}
		return false
	}
	for _, fn := range fns {
		if p := core.PkgOf(fn); p != nil && core.IsSyslogPath(p.Pkg.Path()) {
			continue
		}
		for _, ci := range core.Calls(fn) {
			com := ci.Common()
			if !core.ReturnsError(com.Signature()) || core.IsLogCall(com) {
				continue
			}
			if core.IsErrCtor0(com) {
				continue // constructing an error is not a fallible call
			}
			sites++
			cons := calleeName(com) + "@" + core.FnName(fn)
			pos := c.Pos(ci.Pos())
			call, isCall := ci.(*ssa.Call)
			if !isCall {
				r.Fail("C09.E1", cons, pos, "error-returning call started with go/defer: its error is lost")
				continue
			}
			if _, isWrap := core.IsErrWrap(call); isWrap {
				sites--
				continue // a wrapper of an error value, classified with the wrapped call
			}
			u := core.ClassifyErr(call)
			// treat process-ending blocks as terminal
			if u.Class == core.ErrSwallow {
				fatal := true
				for _, t := range u.Tests {
					if !isFatalBlock(t.NonNil) {
						fatal = false
					}
				}
				if fatal {
					byClass["fatal"]++
					okSites++
					r.Hold("C09.E1", cons, pos, "non-nil edge ends the process (Fatal/Panic): accepted idiom")
					continue
				}
			}
			switch u.Class {
			case core.ErrReturned, core.ErrTested:
				byClass[string(u.Class)]++
				okSites++
				r.Hold("C09.E1", cons, pos, "error is "+string(u.Class))
				continue
			}
			// ---- reasoned exceptions, each verified
			name := calleeName(com)
			switch {
			case (name == "fmt.Fprintf" || name == "fmt.Fprint" || name == "fmt.Fprintln") && writesToBuilder(com):
				byClass["never-fails"]++
				okSites++
				r.Hold("C09.E1", cons, pos, "exception: formatted output into a *strings.Builder: its Write is documented to always return a nil error")
			case name == "(*strings.Builder).WriteString" || name == "(*strings.Builder).WriteByte" || name == "(*strings.Builder).WriteRune" || name == "(*strings.Builder).Write":
				byClass["never-fails"]++
				okSites++
				r.Hold("C09.E1", cons, pos, "exception: the write methods of strings.Builder are documented to always return a nil error")
			case u.Class == core.ErrDropped && anyClosureArgReturnsOnlyNil(call) && forwardsOnlyCallbackError(c, com.StaticCallee(), 0):
				byClass["callback-returns-nil"]++
				okSites++
				r.Hold("C09.E1", cons, pos, "exception: the iterator only forwards its callback's error and the callback passed here returns the nil constant on every path")
			case u.Class == core.ErrSwallow && strings.HasSuffix(name, "strconv2.ParseAny") && withinRole(c, fn, func(g *ssa.Function) bool {
				return core.TopLevel(g) == c.Func("container", "FuncNameAndResult")
			}, 3):
				byClass["parse-or-literal"]++
				okSites++
				r.Hold("C09.E1", cons, pos, "exception: func-tag result matching falls back to comparing with the literal text when it does not parse")
			case (u.Class == core.ErrSwallow || u.Class == core.ErrDropped || (u.Class == core.ErrOther && core.IsInvoke(com, c.Roles().DRPPPostProcess))) && (scanBodies[core.TopLevel(fn)] || scanBodies[fn]):
				if scanOK {
					byClass["accumulate-then-test"]++
					okSites++
					r.Hold("C09.E1", cons, pos, "exception: goroutine body of the parallel definition scan hands the error to the collector; the scan table decides that any such error becomes a non-nil result after the scanner's fan-out")
				} else {
					r.Fail("C09.E1", cons, pos, "error of a definition scanner is collected, but the scan table does not show that it reaches the result")
				}
			case u.Class == core.ErrSwallow && fn.Parent() != nil && !furtherDecides(call):
				if ok, why := accumulateThenTest(c, call); ok {
					byClass["accumulate-then-test"]++
					okSites++
					r.Hold("C09.E1", cons, pos, "exception: goroutine body appends the error to a captured slice that the parent tests after Wait and turns into a non-nil return")
				} else {
					r.Fail("C09.E1", cons, pos, "error is swallowed inside a function literal: "+why)
				}
			case (u.Class == core.ErrOther || u.Class == core.ErrDropped || u.Class == core.ErrSwallow) && flaggedError(c, call):
				byClass["flag-guarded"]++
				okSites++
				r.Hold("C09.E1", cons, pos, "exception: the callee answers (finished, err) and reports an error only together with finished==true (every return of every implementation); the caller returns err on the finished edge")
			case u.Class == core.ErrSwallow && optionalSkip(c, call, u):
				byClass["optional-skip"]++
				okSites++
				r.Hold("C09.E1", cons, pos, "exception: candidate narrowing failed for an optional injection point (IsRequired()==false edge): the point is skipped")
			case (u.Class == core.ErrSwallow || u.Class == core.ErrOther) && furtherDecides(call):
				byClass["optional-skip"]++
				okSites++
				r.Hold("C09.E1", cons, pos, "exception: the narrowing error of the further-matching stage is dropped only for an optional point without candidates - decided by the further-matching table (rows optional-cleared / required-error hold on every pair of points, whatever the exit structure)")
			default:
				p2 := pos
				if u.Escape != nil {
					p2 = c.Pos(u.Escape.Pos())
				}
				r.Fail("C09.E1", cons, p2, "error is "+string(u.Class)+" ("+u.Detail+"): a failure at this call would not reach Run's result")
			}
		}
	}
	r.Count("error_returning_call_sites", sites)
	r.Extra["e1_by_class"] = byClass
	r.Floor("C09.E1", "error-returning call sites reachable from App.Run", sites, 80)

	// ---- E3
	c09E3(c, r, fns)
}

// forwardsOnlyCallbackError: every error the in-scope iterator fn can return is the nil constant or the result of
// calling one of its func-typed parameters (or of an iterator of the same kind it hands that parameter to).
func forwardsOnlyCallbackError(c *core.Ctx, fn *ssa.Function, depth int) bool {
	if fn == nil || fn.Blocks == nil || !c.InScope(fn) || depth > 2 {
		return false
	}
	isCallback := func(v ssa.Value) bool {
		p, ok := v.(*ssa.Parameter)
		if !ok {
			return false
		}
		_, isSig := p.Type().Underlying().(*types.Signature)
		return isSig
	}
	n := 0
	for _, ret := range core.Returns(fn) {
		if len(ret.Results) == 0 {
			return false
		}
		for _, o := range core.Origins(ret.Results[len(ret.Results)-1], nil) {
			if core.IsNilConst(o) {
				continue
			}
			if ex, ok := o.(*ssa.Extract); ok {
				o = ex.Tuple
			}
			call, ok := o.(*ssa.Call)
			if !ok {
				return false
			}
			com := call.Common()
			switch {
			case !com.IsInvoke() && com.StaticCallee() == nil && isCallback(com.Value):
				n++
			case com.StaticCallee() != nil && com.StaticCallee() != fn && forwardsOnlyCallbackError(c, com.StaticCallee(), depth+1):
				passes := false
				for _, a := range com.Args {
					passes = passes || isCallback(a)
				}
				if !passes {
					return false
				}
				n++
			case com.StaticCallee() == fn:
			default:
				return false
			}
		}
	}
	return n > 0
}

// writesToBuilder: the io.Writer argument is a *strings.Builder boxed at the call.
func writesToBuilder(com *ssa.CallCommon) bool {
	if len(com.Args) == 0 {
		return false
	}
	mi, ok := com.Args[0].(*ssa.MakeInterface)
	return ok && mi.X.Type().String() == "*strings.Builder"
}

func anyClosureArgReturnsOnlyNil(call *ssa.Call) bool {
	for _, a := range call.Common().Args {
		if core.ClosureOf(a) != nil {
			return closureReturnsOnlyNil(a)
		}
	}
	return false
}

// optionalSkip: every way out of the error handler (the region dominated by the non-nil edge) that does not carry
// a non-nil error is taken only under IsRequired()==false.
func optionalSkip(c *core.Ctx, call *ssa.Call, u core.ErrUse) bool {
	prop := c.Named("component_definition", "Property")
	isReq := c.DeclaredMethod(prop, "IsRequired")
	fn := call.Parent()
	hasErr := core.ReturnsError(fn.Signature)
	isReqFalse := func(g core.CondEdge) bool {
		cl, isCall := g.If.Cond.(*ssa.Call)
		return isCall && core.IsCallTo(cl.Common(), isReq) && !g.Branch
	}
	ok, found := true, false
	for _, t := range u.Tests {
		region := map[*ssa.BasicBlock]bool{}
		for _, b := range fn.Blocks {
			if t.NonNil.Dominates(b) {
				region[b] = true
			}
		}
		guarded := func(b *ssa.BasicBlock) bool {
			for _, g := range core.Guards(b) {
				if region[g.If.Block()] && isReqFalse(g) {
					return true
				}
			}
			return false
		}
		for b := range region {
			if len(b.Instrs) == 0 {
				continue
			}
			last := b.Instrs[len(b.Instrs)-1]
			if ret, isRet := last.(*ssa.Return); isRet {
				if !hasErr || core.ClassifyReturn(ret) != core.RetError {
					if guarded(b) {
						found = true
					} else {
						ok = false
					}
				}
				continue
			}
			for k, s := range b.Succs {
				if region[s] {
					continue
				}
				direct := false
				if iff, isIf := last.(*ssa.If); isIf {
					direct = isReqFalse(core.CondEdge{If: iff, Branch: k == 0})
				}
				if direct || guarded(b) {
					found = true
				} else {
					ok = false
				}
			}
		}
	}
	return ok && found
}

// c09E3: IsRequired decisions.
func c09E3(c *core.Ctx, r *core.Report, fns []*ssa.Function) {
	requiredDecisionRules(c, r, "C09.E3", fns)
}

// requiredDecisionRules: at every IsRequired() decision the required edge ends in an error, the optional edge writes nothing.
func requiredDecisionRules(c *core.Ctx, r *core.Report, rule string, fns []*ssa.Function) {
	prop := c.Named("component_definition", "Property")
	isReq := c.DeclaredMethod(prop, "IsRequired")
	unm := c.DeclaredMethod(prop, "Unmarshall")
	n := 0
	// the decision values: the results of IsRequired(), and the loads of a field of a run-context object that holds
	// nothing but such a result (read once, decided on later)
	type decision struct {
		fn  *ssa.Function
		v   ssa.Value
		pos token.Pos
	}
	var decisions []decision
	inFns := map[*ssa.Function]bool{}
	for _, fn := range fns {
		inFns[fn] = true
	}
	for _, fn := range fns {
		for _, ci := range core.Calls(fn) {
			call, ok := ci.(*ssa.Call)
			if !ok || !core.IsCallTo(call.Common(), isReq) {
				continue
			}
			carried := false
			for _, rf := range *call.Referrers() {
				st, isSt := rf.(*ssa.Store)
				if !isSt || st.Val != ssa.Value(call) {
					continue
				}
				fa, isFA := st.Addr.(*ssa.FieldAddr)
				if !isFA {
					continue
				}
				fr, okF := core.FieldOfAddr(fa)
				if !okF || !transientType(c, fr.Owner, 0) {
					continue
				}
				stores, others := c.FieldAccesses(fr.Owner, fr.Name)
				only := true
				for _, s2 := range stores {
					if c2, isCall := s2.Store.Val.(*ssa.Call); !isCall || !core.IsCallTo(c2.Common(), isReq) {
						only = false
					}
				}
				if !only {
					continue
				}
				carried = true
				for _, o := range others {
					if ld, isLoad := o.Instr.(*ssa.UnOp); isLoad && ld.Op == token.MUL && ld.X == ssa.Value(o.Addr) && inFns[core.TopLevel(o.Fn)] {
						decisions = append(decisions, decision{o.Fn, ld, ld.Pos()})
					}
				}
			}
			if !carried {
				decisions = append(decisions, decision{fn, call, call.Pos()})
			}
		}
	}
	// a decision handed to a helper as an argument is taken there: the helper's parameter is the decision value
	handedOn := func(v ssa.Value, rf ssa.Instruction) (*ssa.Function, *ssa.Parameter) {
		ci, ok := rf.(ssa.CallInstruction)
		if !ok {
			return nil, nil
		}
		cal := ci.Common().StaticCallee()
		if cal == nil || !c.InScope(cal) || cal.Blocks == nil {
			return nil, nil
		}
		for i, a := range ci.Common().Args {
			if a == v && i < len(cal.Params) {
				return cal, cal.Params[i]
			}
		}
		return nil, nil
	}
	for i := 0; i < len(decisions) && i < 64; i++ {
		d := decisions[i]
		if d.v.Referrers() == nil {
			continue
		}
		for _, rf := range *d.v.Referrers() {
			if cal, p := handedOn(d.v, rf); cal != nil {
				decisions = append(decisions, decision{cal, p, p.Pos()})
			}
		}
	}
	injState := 0 // 0 unknown, 1 the inject table holds, 2 it does not
	injectDecides := func(fn *ssa.Function) bool {
		inj := c.Roles().PropertyInject
		if inj == nil {
			return false
		}
		part := false
		for _, g := range c.StaticCalleesInPkg(inj, nil) {
			part = part || g == fn
		}
		if !part || fn == inj {
			return false
		}
		for _, cl := range c.Callers(fn) {
			in := false
			for _, g := range c.StaticCalleesInPkg(inj, nil) {
				in = in || g == core.TopLevel(cl)
			}
			if !in {
				return false
			}
		}
		if injState == 0 {
			injState = 2
			if rs, _, und := injectTable(c, listLen(c)); und == "" {
				if rr := rs["nothing-to-inject"]; rr != nil && len(rr.bad) == 0 && rr.runs > 0 {
					injState = 1
				}
			}
		}
		return injState == 1
	}
	for _, d := range decisions {
		fn, call := d.fn, d.v
		{
			// every If on the result
			for _, rf := range *call.Referrers() {
				iff, ok := rf.(*ssa.If)
				if !ok {
					if _, isDbg := rf.(*ssa.DebugRef); isDbg {
						continue
					}
					if cal, _ := handedOn(call, rf); cal != nil {
						continue // decided in the helper (its parameter is a decision value of its own)
					}
					r.Undecided(rule, "IsRequired-use@"+core.FnName(fn), c.Pos(d.pos), "IsRequired() result is used other than as a branch condition")
					continue
				}
				n++
				cons := fmt.Sprintf("IsRequired@%s#%d", core.FnName(fn), branchOrdinal(fn, iff))
				if _, isParam := call.(*ssa.Parameter); isParam && injectDecides(fn) {
					// a helper of Property.Inject that is handed the decision: what Inject does with a required and
					// with an optional point that nothing is left for is its table's row, whatever the helper's shape
					r.Hold(rule, cons+":required=>error", c.Pos(iff.Cond.Pos()), "decided by the inject table (row nothing-to-inject: error iff required, nothing written either way)")
					r.Hold(rule, cons+":optional=>skip", c.Pos(iff.Cond.Pos()), "decided by the inject table (row nothing-to-inject)")
					continue
				}
				tEdge, fEdge := iff.Block().Succs[0], iff.Block().Succs[1]
				// true edge: only error returns, never the loop again
				okTrue, nRet := true, 0
				trueReach := core.ReachableFrom(tEdge, nil)
				for b := range trueReach {
					if b == iff.Block() {
						okTrue = false // re-enters the decision: continued
					}
				}
				// path by path (a single-exit `return err` merges this edge with the others)
				if core.WalkReturns(iff, true, nil, func(ret *ssa.Return, nilness int, resolved ssa.Value) bool {
					nRet++
					if nilness != 1 && core.ClassifyReturn(ret) != core.RetError && !(resolved != nil && !core.IsNilConst(resolved) && core.NonNilAtFrom(resolved, ret, trueReach)) {
						okTrue = false
					}
					return true
				}) {
					okTrue = false
				}
				r.Check(okTrue && nRet > 0, rule, cons+":required=>error", c.Pos(iff.Cond.Pos()), "when the point is required every continuation is a non-nil error return")
				// false edge: up to the next iteration / return, no field write
				loop := core.InnermostLoop(fn, iff.Block())
				stop := map[*ssa.BasicBlock]bool{}
				if loop != nil {
					stop[loop.Header] = true
				}
				bad := ""
				for b := range core.ReachableFrom(fEdge, stop) {
					for _, in := range b.Instrs {
						if x, isCall := in.(ssa.CallInstruction); isCall {
							com := x.Common()
							if core.IsCallTo(com, unm) {
								bad = "Unmarshall at " + c.Pos(x.Pos())
							}
							if cal := core.Callee(com); cal != nil && strings.HasPrefix(cal.String(), "(reflect.Value).Set") {
								bad = cal.Name() + " at " + c.Pos(x.Pos())
							}
						}
					}
					if ret, isRet := b.Instrs[len(b.Instrs)-1].(*ssa.Return); isRet && core.ClassifyReturn(ret) == core.RetError {
						bad = "error return at " + c.Pos(ret.Pos())
					}
				}
				r.Check(bad == "", rule, cons+":optional=>skip", c.Pos(iff.Cond.Pos()), "when the point is optional the field is left untouched and no error results "+bad)
			}
		}
	}
	r.Count("IsRequired_decisions", n)
	r.Floor(rule, "IsRequired() decisions", n, 5)
}

// branchOrdinal: position of an If among the Ifs of its function (stable under line moves).
func branchOrdinal(fn *ssa.Function, iff *ssa.If) int {
	n := 0
	for _, b := range fn.Blocks {
		for _, in := range b.Instrs {
			if x, ok := in.(*ssa.If); ok {
				if x == iff {
					return n
				}
				if c, isCall := x.Cond.(*ssa.Call); isCall {
					if c2, ok2 := iff.Cond.(*ssa.Call); ok2 && c.Common().StaticCallee() == c2.Common().StaticCallee() {
						n++
					}
				} else if x.Cond == iff.Cond {
					n++
				}
			}
		}
	}
	return n
}

// flaggedError: the call answers (flag bool, err error); every in-scope implementation returns a non-nil error only
// together with the constant true flag; and the caller returns the error as it is on the flag's true edge.  On the
// other edge there is no error to lose.
func flaggedError(c *core.Ctx, call *ssa.Call) bool {
	sig := call.Common().Signature()
	if sig.Results().Len() != 2 || !isErrorType(sig.Results().At(1).Type()) {
		return false
	}
	if b, ok := sig.Results().At(0).Type().Underlying().(*types.Basic); !ok || b.Kind() != types.Bool {
		return false
	}
	var impls []*ssa.Function
	if cal := call.Common().StaticCallee(); cal != nil {
		impls = []*ssa.Function{cal}
	} else if g := core.Seam(call.Common()); g != nil {
		impls = []*ssa.Function{g}
	} else {
		impls = core.SeamAll(call.Common())
	}
	if len(impls) == 0 {
		return false
	}
	for _, f := range impls {
		if f.Blocks == nil || !c.InScope(f) {
			return false
		}
		for _, ret := range core.Returns(f) {
			if len(ret.Results) != 2 {
				return false
			}
			k, isK := ret.Results[0].(*ssa.Const)
			isTrue := isK && k.Value != nil && k.Value.String() == "true"
			if !isTrue && !core.IsNilConst(ret.Results[1]) {
				return false
			}
		}
	}
	// the caller: if flag { return ..., err }
	var flag, errv ssa.Value
	for _, rf := range *call.Referrers() {
		if ex, ok := rf.(*ssa.Extract); ok {
			if ex.Index == 0 {
				flag = ex
			} else {
				errv = ex
			}
		}
	}
	if flag == nil || errv == nil {
		return false
	}
	for _, rf := range *flag.Referrers() {
		iff, ok := rf.(*ssa.If)
		if !ok {
			continue
		}
		tb := iff.Block().Succs[0]
		if ret, isRet := tb.Instrs[len(tb.Instrs)-1].(*ssa.Return); isRet && len(ret.Results) > 0 && ret.Results[len(ret.Results)-1] == errv {
			return true
		}
	}
	return false
}
