package rules

import (
	"fmt"
	"go/types"

	"golang.org/x/tools/go/ssa"

	"iocvet/internal/core"
)

func init() { register("C05", c05) }

// lifecycleRoles locates the four functions that carry the stage order.
type lifecycleRoles struct {
	ev          *Events
	exposer     *ssa.Function // invokes AddSingletonFactory
	populator   *ssa.Function // calls Property.Inject
	initializer *ssa.Function // invokes AfterPropertiesSet / Init
	initFn      *ssa.Function // in-scope caller of the initializer
	accessor    *ssa.Function
	creator     *ssa.Function // literal handed to GetSingletonOrCreateByFactory
}

func one(r *core.Report, rule, what string, fs []*ssa.Function) *ssa.Function {
	if len(fs) != 1 {
		r.Undecided(rule, "role:"+what, "", fmt.Sprintf("expected exactly one %s, found %d", what, len(fs)))
		return nil
	}
	return fs[0]
}

func findLifecycle(c *core.Ctx, r *core.Report, rule string) *lifecycleRoles {
	ro := c.Roles()
	l := &lifecycleRoles{ev: newEvents(c)}
	l.exposer = one(r, rule, "EarlyExposer (invokes AddSingletonFactory)", ro.EarlyExposers())
	l.populator = one(r, rule, "Populator (calls Property.Inject)", ro.Populators())
	l.initializer = one(r, rule, "Initializer (invokes AfterPropertiesSet/Init)", ro.Initializers())
	l.accessor = one(r, rule, "CacheAccessor (invokes GetSingletonOrCreateByFactory)", ro.CacheAccessors())
	if l.initializer != nil {
		l.initFn = one(r, rule, "InitFn (caller of the Initializer)", c.Callers(l.initializer))
	}
	if l.accessor != nil {
		l.creator = ro.CreatorClosure(l.accessor)
		if l.creator == nil {
			r.Undecided(rule, "role:Creator", c.FnPos(l.accessor), "the factory handed to GetSingletonOrCreateByFactory is not a function literal")
		}
	}
	if l.exposer == nil || l.populator == nil || l.initializer == nil || l.initFn == nil || l.accessor == nil || l.creator == nil {
		return nil
	}
	return l
}

func oneSite(r *core.Report, rule, cons, what string, sites []*ssa.Call, c *core.Ctx, fn *ssa.Function) *ssa.Call {
	if len(sites) != 1 {
		r.Undecided(rule, cons, c.FnPos(fn), fmt.Sprintf("expected exactly one %s in %s, found %d", what, core.FnName(fn), len(sites)))
		return nil
	}
	return sites[0]
}

// reachableAvoiding: is `target` reachable from entry without passing through the `avoid` blocks or the cut edges.
func reachableAvoiding(fn *ssa.Function, target *ssa.BasicBlock, avoid map[*ssa.BasicBlock]bool, cut map[[2]*ssa.BasicBlock]bool) bool {
	seen := map[*ssa.BasicBlock]bool{}
	var walk func(b *ssa.BasicBlock) bool
	walk = func(b *ssa.BasicBlock) bool {
		if b == target {
			return true
		}
		if seen[b] || avoid[b] {
			return false
		}
		seen[b] = true
		for _, s := range b.Succs {
			if cut[[2]*ssa.BasicBlock{b, s}] {
				continue
			}
			if walk(s) {
				return true
			}
		}
		return false
	}
	return walk(fn.Blocks[0])
}

// assertOf: the comma-ok type assertion whose result value v is (the receiver of an invoke).
func assertOf(v ssa.Value) (*ssa.TypeAssert, ssa.Value) {
	v = core.Norm(v)
	if ex, ok := v.(*ssa.Extract); ok && ex.Index == 0 {
		if ta, ok := ex.Tuple.(*ssa.TypeAssert); ok && ta.CommaOk {
			for _, r := range *ta.Referrers() {
				if ex2, ok := r.(*ssa.Extract); ok && ex2.Index == 1 {
					return ta, ex2
				}
			}
			return ta, nil
		}
	}
	return nil, nil
}

func c05(c *core.Ctx, r *core.Report) {
	ro := c.Roles()
	r.Explanation = "C05 lifecycle: call sites are classified by the life-cycle events they can trigger (event reach summaries over in-scope static callees and literals; recursion into the cache accessor is the opaque event DEP) and stage order is decided by dominance between classified sites inside the four role functions: (R1) properties/configuration before dependency resolution before injection, populate before initialize, before-init -> init methods -> after-init each on the nil-error edge of the previous, AfterPropertiesSet before Init; (R2) every success return is dominated by the mandatory stages; (R3) the init callbacks are conditional only on their own type assertion and earlier error tests; (R4) each stage is a single site outside any loop with a single in-scope caller chain; (R6) creation-triggering sites are a frozen set and the eager ones are guarded by a failed LazyInit type test; (R7) the before-instantiation short-circuit is closed. Decides stage order on all paths of the container's code; dependency edges the container cannot see are out of scope."
	r.Assumptions = []string{"once per name follows from C01.R3 + C04.A3", "user post-processors do not call back into the factory for the component being created"}
	l := findLifecycle(c, r, "C05.R0")
	if l == nil {
		return
	}
	ev := l.ev
	r.Count("role_functions", 6)

	// ---- R1(a) Populator
	pop := l.populator
	props := oneSite(r, "C05.R1a", "props-site@"+core.FnName(pop), "site reaching PostProcessProperties", ev.SitesReaching(pop, evProps), c, pop)
	var deps, injects []*ssa.Call
	for _, ci := range core.Calls(pop) {
		call, ok := ci.(*ssa.Call)
		if !ok {
			continue
		}
		switch ev.Direct(call.Common()) {
		case evDep:
			deps = append(deps, call)
		case evInject:
			injects = append(injects, call)
		}
	}
	r.Floor("C05.R1a", "dependency-resolution sites in the populator", len(deps), 1)
	r.Floor("C05.R1a", "Inject sites in the populator", len(injects), 1)
	if props != nil {
		for _, d := range append(append([]*ssa.Call(nil), deps...), injects...) {
			r.Check(core.OnNilErrEdge(props, d), "C05.R1a", "props-before-"+ev.Direct(d.Common())+"@"+core.FnName(pop), c.Pos(d.Pos()),
				"property post-processing (configuration values, candidate selection) succeeded before any dependency is resolved or injected")
		}
	}
	for _, inj := range injects {
		// every dependency of this injection is resolved before it: all DEP sites that feed it dominate it on their nil-error edge
		okAll := len(deps) > 0
		for _, d := range deps {
			feeds := false
			for _, o := range core.Origins(inj.Common().Args[1], nil) {
				if o == core.ResultValue(d, 0) {
					feeds = true
				}
			}
			if !feeds {
				okAll = false
			}
		}
		r.Check(okAll, "C05.R1a", "deps-before-inject@"+core.FnName(pop), c.Pos(inj.Pos()), "the injected list is built only from results of the cache accessor resolved in the same function")
	}

	// ---- R1(b) EarlyExposer
	ex := l.exposer
	popSite := oneSite(r, "C05.R1b", "populate-site@"+core.FnName(ex), "site reaching PROPS+INJECT", ev.SitesReaching(ex, evProps, evInject), c, ex)
	var initSites []*ssa.Call
	for _, s := range ev.SitesReaching(ex, evBeforeInit) {
		if ev.SiteReach(s).has(evAfterInit) {
			initSites = append(initSites, s)
		}
	}
	initSite := oneSite(r, "C05.R1b", "init-site@"+core.FnName(ex), "site reaching BEFORE_INIT+AFTER_INIT", initSites, c, ex)
	if popSite != nil && initSite != nil {
		r.Check(core.OnNilErrEdge(popSite, initSite), "C05.R1b", "populate-before-initialize@"+core.FnName(ex), c.Pos(initSite.Pos()),
			"initialization is dominated by the nil-error edge of population: all injection points and configuration values are set first")
		r.Check(core.IsCallTo(initSite.Common(), l.initFn) && core.IsCallTo(popSite.Common(), pop), "C05.R1b", "sites-are-roles@"+core.FnName(ex), c.Pos(initSite.Pos()),
			"the classified sites call the Populator and the InitFn directly")
	}

	// ---- R1(c) InitFn
	inf := l.initFn
	bi := oneSite(r, "C05.R1c", "before-init-site@"+core.FnName(inf), "site reaching BEFORE_INIT", ev.SitesReaching(inf, evBeforeInit), c, inf)
	var imSites []*ssa.Call
	for _, ci := range core.Calls(inf) {
		if call, ok := ci.(*ssa.Call); ok && core.IsCallTo(call.Common(), l.initializer) {
			imSites = append(imSites, call)
		}
	}
	im := oneSite(r, "C05.R1c", "initializer-site@"+core.FnName(inf), "call of the Initializer", imSites, c, inf)
	ai := oneSite(r, "C05.R1c", "after-init-site@"+core.FnName(inf), "site reaching AFTER_INIT", ev.SitesReaching(inf, evAfterInit), c, inf)
	if bi != nil && im != nil && ai != nil {
		r.Check(core.OnNilErrEdge(bi, im), "C05.R1c", "before-init<init-methods@"+core.FnName(inf), c.Pos(im.Pos()), "init methods run only after the before-initialization callbacks succeeded")
		r.Check(core.OnNilErrEdge(im, ai), "C05.R1c", "init-methods<after-init@"+core.FnName(inf), c.Pos(ai.Pos()), "after-initialization callbacks run only after the init methods succeeded")
		r.Check(!core.InLoop(bi.Block()) && !core.InLoop(im.Block()) && !core.InLoop(ai.Block()), "C05.R1c", "no-loop@"+core.FnName(inf), c.Pos(im.Pos()), "the three stage sites are outside any loop")
		// the component handed to the init methods is the before-init result
		arg := core.Norm(im.Common().Args[len(im.Common().Args)-1])
		r.Check(arg == core.ResultValue(bi, 0), "C05.R1c", "init-on-before-init-result@"+core.FnName(inf), c.Pos(im.Pos()), "the init methods run on the instance returned by the before-initialization callbacks")
	}

	// ---- R1(d), R3 Initializer
	ini := l.initializer
	var aps, init *ssa.Call
	for _, ci := range core.Calls(ini) {
		call, ok := ci.(*ssa.Call)
		if !ok {
			continue
		}
		if core.IsInvoke(call.Common(), ro.APS) {
			if aps != nil {
				r.Fail("C05.R4", "aps-single-site@"+core.FnName(ini), c.Pos(call.Pos()), "AfterPropertiesSet is invoked at more than one site")
			}
			aps = call
		}
		if core.IsInvoke(call.Common(), ro.Init) {
			if init != nil {
				r.Fail("C05.R4", "init-single-site@"+core.FnName(ini), c.Pos(call.Pos()), "Init is invoked at more than one site")
			}
			init = call
		}
	}
	if aps == nil || init == nil {
		r.Undecided("C05.R1d", "aps/init@"+core.FnName(ini), c.FnPos(ini), "the Initializer does not invoke both AfterPropertiesSet and Init synchronously")
	} else {
		apsTA, apsOK := assertOf(aps.Common().Value)
		initTA, initOK := assertOf(init.Common().Value)
		cons := "@" + core.FnName(ini)
		if apsTA == nil || initTA == nil || apsOK == nil || initOK == nil {
			r.Undecided("C05.R1d", "assertions"+cons, c.FnPos(ini), "init callbacks are not invoked on comma-ok type assertions of the component")
		} else {
			// must-pass-through: INIT unreachable when avoiding the APS block and the APS-assertion's false edge
			cut := map[[2]*ssa.BasicBlock]bool{}
			for _, rf := range *apsOK.Referrers() {
				if iff, ok := rf.(*ssa.If); ok {
					cut[[2]*ssa.BasicBlock{iff.Block(), iff.Block().Succs[1]}] = true
				}
			}
			passes := !reachableAvoiding(ini, init.Block(), map[*ssa.BasicBlock]bool{aps.Block(): true}, cut)
			r.Check(passes && len(cut) > 0, "C05.R1d", "aps-before-init"+cons, c.Pos(init.Pos()), "every path to Init() has passed AfterPropertiesSet() or the failed type test for it")
			r.Check(!core.BlockReaches(init.Block(), aps.Block()), "C05.R1d", "no-init-then-aps"+cons, c.Pos(aps.Pos()), "no path leads from Init() back to AfterPropertiesSet()")
			// Init only on the nil-error edge of APS when APS ran
			okEdge := true
			for _, t := range core.NilTests(core.ErrValue(aps)) {
				if core.ReachableFrom(t.NonNil, nil)[init.Block()] {
					okEdge = false
				}
			}
			ua := core.ClassifyErr(aps)
			r.Check(okEdge && (ua.Class == core.ErrTested || ua.Class == core.ErrReturned), "C05.R1d", "init-after-aps-success"+cons, c.Pos(init.Pos()), "a failing AfterPropertiesSet() prevents Init() and becomes a non-nil return")
			reachAfter := false
			for _, t := range core.NilTests(core.ErrValue(aps)) {
				if core.ReachableFrom(t.Nil, nil)[init.Block()] {
					reachAfter = true
				}
			}
			r.Check(reachAfter, "C05.R3", "init-not-excluded-by-aps"+cons, c.Pos(init.Pos()), "Init() is still reached after a successful AfterPropertiesSet() (the two callbacks are independent, not else-if)")
			ui := core.ClassifyErr(init)
			r.Check(ui.Class == core.ErrTested || ui.Class == core.ErrReturned, "C05.R1d", "init-error"+cons, c.Pos(init.Pos()), "a failing Init() becomes a non-nil return")
			// both on the same component value
			r.Check(core.Norm(apsTA.X) == core.Norm(initTA.X), "C05.R1d", "same-component"+cons, c.Pos(init.Pos()), "both callbacks are looked up on the same component value")
			// R3 guards
			for _, g := range []struct {
				name string
				site *ssa.Call
				ok   ssa.Value
			}{{"aps", aps, apsOK}, {"init", init, initOK}} {
				bad := ""
				for _, cd := range c.ControlDeps(g.site.Block()) {
					switch {
					case cd.If.Cond == g.ok && cd.Branch:
					case g.name == "init" && cd.If.Cond == apsOK:
						// reached through the AfterPropertiesSet error test, or around it when the component has none
					case isErrNilEdge(cd):
					default:
						bad = "extra condition at " + c.Pos(cd.If.Cond.Pos())
					}
				}
				r.Check(bad == "", "C05.R3", g.name+"-guards"+cons, c.Pos(g.site.Pos()), "the callback is conditional only on its own type assertion and on earlier error tests "+bad)
				r.Check(!core.InLoop(g.site.Block()), "C05.R4", g.name+"-not-in-loop"+cons, c.Pos(g.site.Pos()), "the callback site is outside any loop")
			}
		}
	}

	// ---- R2 must-stages
	if popSite != nil && initSite != nil {
		for _, ret := range core.Returns(ex) {
			if core.ClassifyReturn(ret) == core.RetError {
				continue
			}
			r.Check(core.OnNilErrEdge(popSite, ret) && core.OnNilErrEdge(initSite, ret), "C05.R2", "success-after-populate+initialize@"+core.FnName(ex), c.Pos(ret.Pos()),
				"a component is handed back as created only after population and initialization both succeeded")
		}
	}
	if bi != nil && im != nil && ai != nil {
		for _, ret := range core.Returns(inf) {
			if core.ClassifyReturn(ret) == core.RetError {
				continue
			}
			if core.OnNilEdge(core.ResultValue(bi, 0), ret) {
				r.Hold("C05.R2", "before-init-veto@"+core.FnName(inf), c.Pos(ret.Pos()), "a before-initialization callback returning nil ends initialization (Spring short-circuit); the component is returned unchanged")
				continue
			}
			r.Check(core.OnNilErrEdge(im, ret) && core.OnNilErrEdge(ai, ret), "C05.R2", "success-after-all-stages@"+core.FnName(inf), c.Pos(ret.Pos()),
				"initialization reports success only after the init methods and the after-initialization callbacks succeeded")
		}
	}

	// ---- R4 single call chain
	for _, x := range []struct {
		what string
		fn   *ssa.Function
		in   *ssa.Function
	}{{"Initializer", ini, inf}, {"InitFn", inf, ex}, {"Populator", pop, ex}, {"EarlyExposer", ex, nil}} {
		var sites []ssa.CallInstruction
		for _, fn := range c.Scope {
			sites = append(sites, core.CallsMatching(fn, func(com *ssa.CallCommon) bool { return core.IsCallTo(com, x.fn) })...)
		}
		uses := c.FuncValueUses(x.fn)
		cons := "single-caller:" + x.what
		if len(sites) != 1 || len(uses) != 0 {
			r.Fail("C05.R4", cons, c.FnPos(x.fn), fmt.Sprintf("%s has %d call sites and %d uses as a value in scope (want exactly one call): the stage could run more than once per creation", x.what, len(sites), len(uses)))
			continue
		}
		s := sites[0]
		_, isCall := s.(*ssa.Call)
		okIn := x.in == nil || s.Parent() == x.in
		r.Check(isCall && okIn && !core.InLoop(s.Block()), "C05.R4", cons, c.Pos(s.Pos()), x.what+" is called from exactly one synchronous site outside any loop, in the expected role function")
	}

	// ---- R5 once per name: creator exclusivity + registry typestate (creation never re-runs, one early reference)
	creatorExclusive(c, r, "C05.R5", l)
	for _, T := range c.Implementors(c.Iface("container", "SingletonComponentRegistry")) {
		sub := core.NewReport("C04", c.Tier, 0)
		c04Explore(c, sub, T)
		for _, o := range sub.Obls {
			if o.Rule == "C04.A1" || o.Rule == "C04.A2" || o.Rule == "C04.A3" || o.Verdict == core.Undecided {
				o2 := *o
				o2.Rule = "C05.R5"
				o2.Construct = o.Rule + ":" + o.Construct
				r.Obls = append(r.Obls, &o2)
			}
		}
	}
	accessorRules(c, r, "C05.R5", l)
	// ---- R6 lazy
	c05Lazy(c, r, l)

	// ---- R7 short circuit
	c05ShortCircuit(c, r, l)
}

// isErrNilEdge: the edge taken when some error-typed value is nil.
func isErrNilEdge(cd core.CondEdge) bool {
	b, ok := cd.If.Cond.(*ssa.BinOp)
	if !ok {
		return false
	}
	var v ssa.Value
	switch {
	case core.IsNilConst(b.Y):
		v = b.X
	case core.IsNilConst(b.X):
		v = b.Y
	default:
		return false
	}
	if !types.Identical(v.Type(), core.ErrType) {
		return false
	}
	return isNilTestOf(cd, v, true)
}

func lazyInitType(c *core.Ctx) types.Type {
	n := c.Named("definition", "LazyInit")
	if n == nil {
		return nil
	}
	return n
}

// guardedByFailedLazyTest: blk is dominated by the false edge of a comma-ok assertion to definition.LazyInit.
func guardedByFailedLazyTest(c *core.Ctx, blk *ssa.BasicBlock) bool {
	lazy := lazyInitType(c)
	for _, g := range core.Guards(blk) {
		cond := g.If.Cond
		neg := false
		if u, ok := cond.(*ssa.UnOp); ok && u.Op.String() == "!" {
			cond, neg = u.X, true
		}
		ex, ok := cond.(*ssa.Extract)
		if !ok || ex.Index != 1 {
			continue
		}
		ta, ok := ex.Tuple.(*ssa.TypeAssert)
		if !ok || !types.Identical(ta.AssertedType, lazy) {
			continue
		}
		if g.Branch == neg { // ok==false edge
			return true
		}
	}
	return false
}

func c05Lazy(c *core.Ctx, r *core.Report, l *lifecycleRoles) {
	ro := c.Roles()
	ev := l.ev
	fimpls := c.Implementors(c.Iface("container", "Factory"))
	allowed := map[*ssa.Function]string{l.populator: "populator (dependency-driven)"}
	var refresh *ssa.Function
	for _, T := range fimpls {
		if m := c.DeclaredMethod(T, "Refresh"); m != nil {
			allowed[m] = "refresh"
			refresh = m
		}
		if m := c.DeclaredMethod(T, "GetComponentByName"); m != nil {
			allowed[m] = "public lookup"
		}
		if m := c.DeclaredMethod(T, "GetComponents"); m != nil {
			allowed[m] = "public lookup"
		}
	}
	// the post-processor bootstrap: the function that fills the processor list from the sorter
	var bootstrap *ssa.Function
	for _, s := range c.CallSites(func(com *ssa.CallCommon) bool { return core.IsCallTo(com, ro.Sorter) }) {
		if cal := s.Common().StaticCallee(); cal != nil && len(cal.TypeArgs()) == 1 {
			if n := core.NamedOf(cal.TypeArgs()[0]); n != nil && n.Obj().Name() == "ComponentPostProcessor" {
				bootstrap = s.Parent()
			}
		}
	}
	if bootstrap != nil {
		allowed[bootstrap] = "post-processor bootstrap"
	}
	n := 0
	for _, fn := range c.Scope {
		for _, ci := range core.Calls(fn) {
			k := ev.Direct(ci.Common())
			if k != evDep && k != evTrigger {
				continue
			}
			n++
			top := core.TopLevel(fn)
			what, ok := allowed[top]
			cons := "trigger@" + core.FnName(top)
			if !ok {
				r.Fail("C05.R6", cons, c.Pos(ci.Pos()), "creation of a component is triggered from a site that is not in the frozen table {refresh, post-processor bootstrap, populator, public lookups}: a LazyInit component could be initialised without a dependant")
				continue
			}
			switch what {
			case "post-processor bootstrap":
				r.Check(guardedByFailedLazyTest(c, ci.Block()), "C05.R6", cons+":lazy-guard", c.Pos(ci.Pos()), "the bootstrap creates a post-processor only under a failed LazyInit type test")
			case "refresh":
				c05RefreshLazy(c, r, top, ci, "C05.R6")
			default:
				r.Hold("C05.R6", cons, c.Pos(ci.Pos()), "creation trigger in the frozen table: "+what)
			}
		}
	}
	r.Count("creation_trigger_sites", n)
	r.Floor("C05.R6", "creation-triggering sites", n, 4)
	if refresh == nil {
		r.Undecided("C05.R6", "role:Refresh", "", "no Factory implementation declares Refresh")
	}
}

// c05RefreshLazy: the refresh loop iterates a list whose elements were appended only under a failed LazyInit test.
func c05RefreshLazy(c *core.Ctx, r *core.Report, refresh *ssa.Function, site ssa.CallInstruction, rule string) {
	cons := "trigger@" + core.FnName(refresh) + ":lazy-filter"
	rl := core.RangeLoopOf(refresh, site.Block())
	if rl == nil {
		r.Undecided("C05.R6", cons, c.Pos(site.Pos()), "refresh does not create inside a forward range")
		return
	}
	// all append sites that feed the ranged slice
	ok := true
	nApp := 0
	seen := map[ssa.Value]bool{}
	var walk func(v ssa.Value)
	walk = func(v ssa.Value) {
		v = core.Norm(v)
		if v == nil || seen[v] {
			return
		}
		seen[v] = true
		switch x := v.(type) {
		case *ssa.Phi:
			for _, e := range x.Edges {
				walk(e)
			}
		case *ssa.Call:
			if bi, isB := x.Common().Value.(*ssa.Builtin); isB && bi.Name() == "append" {
				nApp++
				if !guardedByFailedLazyTest(c, x.Block()) {
					ok = false
				}
				walk(x.Common().Args[0])
				return
			}
			ok = false
		case *ssa.Const:
		case *ssa.Slice:
			walk(x.X)
		default:
			ok = false
		}
	}
	walk(rl.Slice)
	r.Check(ok && nApp >= 1, rule, cons, c.Pos(site.Pos()), fmt.Sprintf("the eager creation list is built only by appends (%d) that are dominated by a failed LazyInit type test", nApp))
	// completeness: nothing but the LazyInit test (and the loop over all definitions) decides whether a definition is listed
	lazy := lazyInitType(c)
	for v := range seen {
		call, isCall := v.(*ssa.Call)
		if !isCall {
			continue
		}
		if bi, isB := call.Common().Value.(*ssa.Builtin); !isB || bi.Name() != "append" {
			continue
		}
		bad := ""
		for _, cd := range c.ControlDeps(call.Block()) {
			cond := cd.If.Cond
			if u, isU := cond.(*ssa.UnOp); isU && u.Op.String() == "!" {
				cond = u.X
			}
			if ex, isEx := cond.(*ssa.Extract); isEx {
				if ta, isTA := ex.Tuple.(*ssa.TypeAssert); isTA && types.Identical(ta.AssertedType, lazy) {
					continue
				}
			}
			if core.RangeLoopOf(refresh, cd.If.Block()) != nil && core.RangeLoopOf(refresh, cd.If.Block()).Header == cd.If.Block() {
				continue
			}
			bad = "extra condition at " + c.Pos(cd.If.Cond.Pos())
		}
		// and the loop ranges over the unfiltered definition registry
		r.Check(bad == "", rule, cons+":complete", c.Pos(call.Pos()), "every definition that is not LazyInit is listed for eager creation: the listing depends on nothing but the LazyInit test "+bad)
	}
}

func c05ShortCircuit(c *core.Ctx, r *core.Report, l *lifecycleRoles) {
	ev := l.ev
	// the after-init role function: the in-scope function that invokes PostProcessAfterInitialization
	ro := c.Roles()
	afters := c.Invokers(ro.CPAfterInit)
	if len(afters) != 1 {
		r.Undecided("C05.R7", "role:AfterInit", "", fmt.Sprintf("expected one function invoking PostProcessAfterInitialization, found %d", len(afters)))
		return
	}
	after := afters[0]
	for _, fn := range c.Scope {
		for _, ci := range core.Calls(fn) {
			if !core.IsCallTo(ci.Common(), after) || fn == l.initFn {
				continue
			}
			cons := "short-circuit@" + core.FnName(fn)
			// guarded by non-nil result of a BEFORE_INST-reaching call
			ok := false
			for _, g := range core.Guards(ci.Block()) {
				b, isB := g.If.Cond.(*ssa.BinOp)
				if !isB {
					continue
				}
				var v ssa.Value
				if core.IsNilConst(b.Y) {
					v = b.X
				} else if core.IsNilConst(b.X) {
					v = b.Y
				}
				if v == nil || !isNilTestOf(g, v, false) {
					continue
				}
				for _, o := range core.Origins(v, nil) {
					if ex, isEx := o.(*ssa.Extract); isEx {
						if call, isCall := ex.Tuple.(*ssa.Call); isCall && ev.SiteReach(call).has(evBeforeInst) {
							ok = true
						}
					}
				}
			}
			r.Check(ok, "C05.R7", cons, c.Pos(ci.Pos()), "after-initialization callbacks outside the normal path run only for an object a before-instantiation callback produced")
		}
	}
	// in the creator chain: the site reaching PROPS lies on the nil edge of the resolver's result
	for _, fn := range c.StaticCalleesInPkg(l.creator, map[*ssa.Function]bool{l.exposer: true}) {
		res := ev.SitesReaching(fn, evBeforeInst)
		norm := ev.SitesReaching(fn, evProps)
		if len(res) == 0 || len(norm) == 0 {
			continue
		}
		for _, rs := range res {
			for _, ns := range norm {
				if rs == ns {
					continue
				}
				v := core.ResultValue(rs, 0)
				r.Check(core.OnNilErrEdge(rs, ns) && core.OnNilEdge(v, ns), "C05.R7", "normal-path-only-without-short-circuit@"+core.FnName(fn), c.Pos(ns.Pos()),
					"the normal life cycle runs only when the before-instantiation resolver succeeded and produced nothing (no component goes through both paths)")
			}
		}
	}
}
