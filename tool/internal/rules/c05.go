package rules

import (
	"fmt"
	"go/types"

	"golang.org/x/tools/go/ssa"

	"iocvet/internal/core"
)

func init() { register("C05", c05) }

// lifecycleRoles locates the functions that carry the stage order, by what they do and by the life-cycle events
// their call sites can trigger (never by name, so extracting helpers does not move a role).
type lifecycleRoles struct {
	ev        *Events
	exposer   *ssa.Function   // invokes AddSingletonFactory
	populator *ssa.Function   // callee of the exposer's site reaching PROPS + INJECT
	initFn    *ssa.Function   // callee of the exposer's site reaching BEFORE_INIT + AFTER_INIT
	injectors []*ssa.Function // functions calling Property.Inject (the populator or a helper of it)
	accessor  *ssa.Function
	creator   *ssa.Function // literal handed to GetSingletonOrCreateByFactory
	popSite   *ssa.Call
	initSite  *ssa.Call
}

func one(r *core.Report, rule, what string, fs []*ssa.Function) *ssa.Function {
	if len(fs) != 1 {
		r.Undecided(rule, "role:"+what, "", fmt.Sprintf("expected exactly one %s, found %d", what, len(fs)))
		return nil
	}
	return fs[0]
}

func findLifecycle(c *core.Ctx, r *core.Report, rule string) *lifecycleRoles {
	ro := c.Roles()
	l := &lifecycleRoles{ev: newEvents(c)}
	l.accessor = one(r, rule, "CacheAccessor (invokes GetSingletonOrCreateByFactory)", ro.CacheAccessors())
	l.injectors = ro.Populators()
	if len(l.injectors) == 0 {
		r.Undecided(rule, "role:Injector", "", "no in-scope function calls Property.Inject")
	}
	if l.accessor != nil {
		l.creator = ro.CreatorClosure(l.accessor)
		if l.creator == nil {
			r.Undecided(rule, "role:Creator", c.FnPos(l.accessor), "the factory handed to GetSingletonOrCreateByFactory is not a function literal")
		}
	}
	// stage routines by what they contain (whatever helpers they are split into): the smallest function of the factory
	// package that reaches ...
	pick := func(what string, preds ...func(*ssa.CallCommon) bool) *ssa.Function {
		fs := lowestReaching(c, "container/factory", preds...)
		if len(fs) != 1 {
			r.Undecided(rule, "role:"+what, "", fmt.Sprintf("expected exactly one %s, found %d", what, len(fs)))
			return nil
		}
		return fs[0]
	}
	inv := func(m *types.Func) func(*ssa.CallCommon) bool {
		return func(com *ssa.CallCommon) bool { return core.IsInvoke(com, m) }
	}
	l.exposer = pick("creation routine (registers the early factory, populates, initializes)", inv(ro.SCRAddFactory), inv(ro.IAProps), inv(ro.CPBeforeInit))
	// the creation routine takes the definition and hands back the component to publish: when the protocol itself sits
	// in a helper running stage objects over a shared state, the routine is the helper's only caller with that shape
	l.exposer = liftToShape(c, l.exposer, func(sig *types.Signature) bool {
		metaT := c.Named("component_definition", "Meta")
		hasMeta := func(tu *types.Tuple) bool {
			for i := 0; i < tu.Len(); i++ {
				if core.NamedOf(tu.At(i).Type()) == metaT && metaT != nil {
					return true
				}
			}
			return false
		}
		return hasMeta(sig.Params()) && hasMeta(sig.Results())
	})
	l.populator = pick("populator (property stage and injection)", inv(ro.IAProps), func(com *ssa.CallCommon) bool { return core.IsCallTo(com, ro.PropertyInject) })
	l.initFn = pick("initialization routine (before-init and after-init dispatch)", inv(ro.CPBeforeInit), inv(ro.CPAfterInit), inv(ro.APS))
	if l.exposer == nil || l.populator == nil || l.initFn == nil || l.accessor == nil || l.creator == nil || len(l.injectors) == 0 {
		return nil
	}
	return l
}

// addFactorySites: the calls registering an early factory, in the creation routine or a helper split off it.
func addFactorySites(c *core.Ctx, l *lifecycleRoles) (out []ssa.CallInstruction) {
	ro := c.Roles()
	for _, fn := range c.Invokers(ro.SCRAddFactory) {
		if !withinRole(c, fn, func(f *ssa.Function) bool { return f == l.exposer }, 3) {
			continue
		}
		for _, ci := range core.Calls(fn) {
			if core.IsInvoke(ci.Common(), ro.SCRAddFactory) && len(ci.Common().Args) == 2 {
				out = append(out, ci)
			}
		}
	}
	return out
}

func oneSite(r *core.Report, rule, cons, what string, sites []*ssa.Call, c *core.Ctx, fn *ssa.Function) *ssa.Call {
	if len(sites) != 1 {
		r.Undecided(rule, cons, c.FnPos(fn), fmt.Sprintf("expected exactly one %s in %s, found %d", what, core.FnName(fn), len(sites)))
		return nil
	}
	return sites[0]
}

// reachableAvoiding: is `target` reachable from entry without passing through the `avoid` blocks or the cut edges.
func reachableAvoiding(fn *ssa.Function, target *ssa.BasicBlock, avoid map[*ssa.BasicBlock]bool, cut map[[2]*ssa.BasicBlock]bool) bool {
	seen := map[*ssa.BasicBlock]bool{}
	var walk func(b *ssa.BasicBlock) bool
	walk = func(b *ssa.BasicBlock) bool {
		if b == target {
			return true
		}
		if seen[b] || avoid[b] {
			return false
		}
		seen[b] = true
		for _, s := range b.Succs {
			if cut[[2]*ssa.BasicBlock{b, s}] {
				continue
			}
			if walk(s) {
				return true
			}
		}
		return false
	}
	return walk(fn.Blocks[0])
}

// assertOf: the comma-ok type assertion whose result value v is (the receiver of an invoke).
func assertOf(v ssa.Value) (*ssa.TypeAssert, ssa.Value) {
	v = core.Norm(v)
	if ex, ok := v.(*ssa.Extract); ok && ex.Index == 0 {
		if ta, ok := ex.Tuple.(*ssa.TypeAssert); ok && ta.CommaOk {
			for _, r := range *ta.Referrers() {
				if ex2, ok := r.(*ssa.Extract); ok && ex2.Index == 1 {
					return ta, ex2
				}
			}
			return ta, nil
		}
	}
	return nil, nil
}

func c05(c *core.Ctx, r *core.Report) {
	ro := c.Roles()
	r.Explanation = "C05 lifecycle: call sites are classified by the life-cycle events they can trigger (event reach summaries over in-scope static callees and literals; recursion into the cache accessor is the opaque event DEP) and stage order is decided by dominance between classified sites (R1a properties/configuration before dependency resolution and injection; R1b populate before initialize; R2 success only after both), and the initialization function - whatever helpers it is split into - by a decision table over processor lists x component class x callback outcomes (R1c before-init chain, AfterPropertiesSet, Init, after-init chain in that order, each once and only after everything before it succeeded; R1d init methods on the before-init result; R2 veto / result; R3 errors end everything); (R4) each stage is a single site outside any loop with a single in-scope caller chain; (R6) creation-triggering sites are a frozen set and the eager ones are guarded by a failed LazyInit type test; (R7) the before-instantiation short-circuit is closed. Decides stage order on all paths of the container's code; dependency edges the container cannot see are out of scope."
	r.Assumptions = []string{"once per name follows from C01.R3 + C04.A3", "user post-processors do not call back into the factory for the component being created"}
	l := findLifecycle(c, r, "C05.R0")
	if l == nil {
		return
	}
	pop := l.populator
	r.Count("role_functions", 5+len(l.injectors))

	// ---- R1(a) Populator: decision table (property stage first, candidates resolved through the accessor, then injected)
	populateRules(c, r, l, func(row string) string {
		if row == "error" {
			return "C05.R3"
		}
		return "C05.R1a"
	})

	// ---- R1(b) / R2: stage order in the creation routine (decision table of the routine with its helpers)
	ex := l.exposer
	if xrs, _, xund := exposerTable(c, l); xund != "" {
		r.Undecided("C05.R1b", "exposer-table@"+core.FnName(ex), c.FnPos(ex), "abstract interpretation left the model: "+xund)
	} else {
		xrs.report(c, r, ex, func(row string) string {
			switch row {
			case "stage-order":
				return "C05.R1b"
			case "failure-propagates":
				return "C05.R2"
			case "expose-iff-condition":
				// "exactly once per start": a singleton in creation that is asked for again is answered with its early
				// reference - for every singleton, whatever it declares - and not created a second time
				return "C05.R13"
			}
			return ""
		}, "exposer-table@"+core.FnName(ex), map[string]string{"stage-order": exposerRows["stage-order"], "failure-propagates": exposerRows["failure-propagates"], "expose-iff-condition": exposerRows["expose-iff-condition"]})
		exposureStructure(c, r, l, "C05.R13", "C05.R13")
	}

	// ---- R1(c), R1(d), R3 and the initialization half of R2: decision table of the initialization function
	maxProcs := 2
	irs, iruns, iund := initTable(c, l.initFn, maxProcs)
	r.Count("init_table_runs", iruns)
	icons := "init-table@" + core.FnName(l.initFn)
	if iund != "" {
		r.Undecided("C05.R1c", icons, c.FnPos(l.initFn), "abstract interpretation left the model: "+iund)
	} else {
		smallModelCheck(c, r, "C05.R1c", icons, l.initFn, int64(maxProcs))
		irs.report(c, r, l.initFn, func(row string) string {
			switch row {
			case "sequence":
				return "C05.R1c"
			case "init-target":
				return "C05.R1d"
			case "veto", "result":
				return "C05.R2"
			case "error":
				return "C05.R3"
			}
			return ""
		}, icons, initRows)
	}

	// ---- R4 single sites, single call chain
	for _, x := range []struct {
		name string
		m    *types.Func
	}{{"AfterPropertiesSet", ro.APS}, {"Init", ro.Init}} {
		sites := c.CallSites(func(com *ssa.CallCommon) bool { return core.IsInvoke(com, x.m) })
		cons := "single-site:" + x.name
		if len(sites) != 1 {
			r.Fail("C05.R4", cons, "", fmt.Sprintf("%s is invoked at %d sites in scope (want exactly one)", x.name, len(sites)))
			continue
		}
		_, isCall := sites[0].(*ssa.Call)
		r.Check(isCall && !core.InLoop(sites[0].Block()), "C05.R4", cons, c.Pos(sites[0].Pos()), x.name+" is invoked synchronously at a single site outside any loop")
	}
	for _, x := range []struct {
		what string
		fn   *ssa.Function
		in   *ssa.Function
	}{{"InitFn", l.initFn, ex}, {"Populator", pop, ex}, {"EarlyExposer", ex, nil}} {
		var sites []ssa.CallInstruction
		for _, fn := range c.Scope {
			sites = append(sites, core.CallsMatching(fn, func(com *ssa.CallCommon) bool { return core.IsCallTo(com, x.fn) })...)
		}
		uses := c.FuncValueUses(x.fn)
		cons := "single-caller:" + x.what
		if len(sites) != 1 || len(uses) != 0 {
			r.Fail("C05.R4", cons, c.FnPos(x.fn), fmt.Sprintf("%s has %d call sites and %d uses as a value in scope (want exactly one call): the stage could run more than once per creation", x.what, len(sites), len(uses)))
			continue
		}
		s := sites[0]
		_, isCall := s.(*ssa.Call)
		okIn := x.in == nil || withinRole(c, s.Parent(), func(f *ssa.Function) bool { return f == x.in }, 3) // how often the helper itself runs is the exposer table's stage-order row
		r.Check(isCall && okIn && !core.InLoop(s.Block()), "C05.R4", cons, c.Pos(s.Pos()), x.what+" is called from exactly one synchronous site outside any loop, in the expected role function")
	}

	// ---- R5 once per name: creator exclusivity + registry typestate (creation never re-runs, one early reference)
	creatorExclusive(c, r, "C05.R5", l)
	for _, T := range implementorsBehindFacades(c, "container", "SingletonComponentRegistry") {
		sub := core.NewReport("C04", c.Tier, 0)
		c04Explore(c, sub, T)
		for _, o := range sub.Obls {
			// A4: what a failed creation leaves behind would be handed out as created - a component that never
			// finished (or never re-runs) its lifecycle
			if o.Rule == "C04.A1" || o.Rule == "C04.A2" || o.Rule == "C04.A3" || o.Rule == "C04.A4" || o.Verdict == core.Undecided {
				o2 := *o
				o2.Rule = "C05.R5"
				o2.Construct = o.Rule + ":" + o.Construct
				r.Obls = append(r.Obls, &o2)
			}
		}
	}
	accessorRules(c, r, "C05.R5", l)
	// ---- R6 lazy
	c05Lazy(c, r, l)

	// ---- R7 short circuit
	c05ShortCircuit(c, r, l)
}

// isErrNilEdge: the edge taken when some error-typed value is nil.
func isErrNilEdge(cd core.CondEdge) bool {
	b, ok := cd.If.Cond.(*ssa.BinOp)
	if !ok {
		return false
	}
	var v ssa.Value
	switch {
	case core.IsNilConst(b.Y):
		v = b.X
	case core.IsNilConst(b.X):
		v = b.Y
	default:
		return false
	}
	if !types.Identical(v.Type(), core.ErrType) {
		return false
	}
	return isNilTestOf(cd, v, true)
}

func lazyInitType(c *core.Ctx) types.Type {
	n := c.Named("definition", "LazyInit")
	if n == nil {
		return nil
	}
	return n
}

// guardedByFailedLazyTest: blk is dominated by the false edge of a comma-ok assertion to definition.LazyInit.
func guardedByFailedLazyTest(c *core.Ctx, blk *ssa.BasicBlock) bool {
	lazy := lazyInitType(c)
	for _, g := range core.Guards(blk) {
		cond := g.If.Cond
		neg := false
		if u, ok := cond.(*ssa.UnOp); ok && u.Op.String() == "!" {
			cond, neg = u.X, true
		}
		ex, ok := cond.(*ssa.Extract)
		if !ok || ex.Index != 1 {
			continue
		}
		ta, ok := ex.Tuple.(*ssa.TypeAssert)
		if !ok || !types.Identical(ta.AssertedType, lazy) {
			continue
		}
		if g.Branch == neg { // ok==false edge
			return true
		}
	}
	return false
}

func c05Lazy(c *core.Ctx, r *core.Report, l *lifecycleRoles) {
	_ = c.Roles()
	ev := l.ev
	fimpls := c.Implementors(c.Iface("container", "Factory"))
	allowed := map[*ssa.Function]string{l.populator: "populator (dependency-driven)"}
	for _, inj := range l.injectors {
		allowed[inj] = "populator (dependency-driven)"
	}
	var refresh *ssa.Function
	for _, T := range fimpls {
		if m := c.DeclaredMethod(T, "Refresh"); m != nil {
			allowed[m] = "refresh"
			refresh = m
		}
		if m := c.DeclaredMethod(T, "GetComponentByName"); m != nil {
			allowed[m] = "public lookup"
		}
		if m := c.DeclaredMethod(T, "GetComponents"); m != nil {
			allowed[m] = "public lookup"
		}
	}
	// the post-processor bootstrap: the routine that sorts the registered processors and creates the eager ones
	bs, bsWhy := findBootstrap(c)
	if bs != nil {
		allowed[bs.fn] = "post-processor bootstrap"
	} else {
		r.Undecided("C05.R6", "bootstrap", "", bsWhy)
	}
	// a helper whose every caller lies in one allowed role inherits it
	var roleOf func(fn *ssa.Function, depth int) string
	roleOf = func(fn *ssa.Function, depth int) string {
		if w, ok := allowed[fn]; ok {
			return w
		}
		if depth == 0 || fn.Object() == nil || fn.Object().Exported() || len(c.FuncValueUses(fn)) != 0 {
			return ""
		}
		role := ""
		for _, caller := range c.Callers(fn) {
			ct := core.TopLevel(caller)
			if ct == fn {
				continue
			}
			w := roleOf(ct, depth-1)
			if w == "" || (role != "" && role != w) {
				return ""
			}
			role = w
		}
		return role
	}
	n := 0
	for _, fn := range c.Scope {
		for _, ci := range core.Calls(fn) {
			k := ev.Direct(ci.Common())
			if k != evDep && k != evTrigger {
				continue
			}
			n++
			top := core.TopLevel(fn)
			what := roleOf(top, 3)
			cons := "trigger@" + core.FnName(top)
			if what == "" {
				r.Fail("C05.R6", cons, c.Pos(ci.Pos()), "creation of a component is triggered from a site that is not in the frozen table {refresh, post-processor bootstrap, populator, public lookups}: a LazyInit component could be initialised without a dependant")
				continue
			}
			r.Hold("C05.R6", cons, c.Pos(ci.Pos()), "creation trigger in the frozen table: "+what)
		}
	}
	r.Count("creation_trigger_sites", n)
	r.Floor("C05.R6", "creation-triggering sites", n, 4)
	if refresh == nil {
		r.Undecided("C05.R6", "role:Refresh", "", "no Factory implementation declares Refresh")
	}
	// which definitions the two eager triggers create: decision tables
	if bs != nil {
		bsTable(c, r, bs, "C05.R6", map[string]bool{"eager-create": true})
	}
	refreshRules(c, r, func(row string) string {
		if row == "eager-only" {
			return "C05.R6"
		}
		return ""
	})
}

// c05RefreshLazy: the refresh loop iterates a list whose elements were appended only under a failed LazyInit test.
func c05RefreshLazy(c *core.Ctx, r *core.Report, refresh *ssa.Function, site ssa.CallInstruction, rule string) {
	cons := "trigger@" + core.FnName(refresh) + ":lazy-filter"
	rl := core.RangeLoopOf(refresh, site.Block())
	if rl == nil {
		r.Undecided("C05.R6", cons, c.Pos(site.Pos()), "refresh does not create inside a forward range")
		return
	}
	// all append sites that feed the ranged slice
	ok := true
	nApp := 0
	seen := map[ssa.Value]bool{}
	var walk func(v ssa.Value)
	walk = func(v ssa.Value) {
		v = core.Norm(v)
		if v == nil || seen[v] {
			return
		}
		seen[v] = true
		switch x := v.(type) {
		case *ssa.Phi:
			for _, e := range x.Edges {
				walk(e)
			}
		case *ssa.Call:
			if bi, isB := x.Common().Value.(*ssa.Builtin); isB && bi.Name() == "append" {
				nApp++
				if !guardedByFailedLazyTest(c, x.Block()) {
					ok = false
				}
				walk(x.Common().Args[0])
				return
			}
			ok = false
		case *ssa.Const:
		case *ssa.Slice:
			walk(x.X)
		default:
			ok = false
		}
	}
	walk(rl.Slice)
	r.Check(ok && nApp >= 1, rule, cons, c.Pos(site.Pos()), fmt.Sprintf("the eager creation list is built only by appends (%d) that are dominated by a failed LazyInit type test", nApp))
	// completeness: nothing but the LazyInit test (and the loop over all definitions) decides whether a definition is listed
	lazy := lazyInitType(c)
	for v := range seen {
		call, isCall := v.(*ssa.Call)
		if !isCall {
			continue
		}
		if bi, isB := call.Common().Value.(*ssa.Builtin); !isB || bi.Name() != "append" {
			continue
		}
		bad := ""
		for _, cd := range c.ControlDeps(call.Block()) {
			cond := cd.If.Cond
			if u, isU := cond.(*ssa.UnOp); isU && u.Op.String() == "!" {
				cond = u.X
			}
			if ex, isEx := cond.(*ssa.Extract); isEx {
				if ta, isTA := ex.Tuple.(*ssa.TypeAssert); isTA && types.Identical(ta.AssertedType, lazy) {
					continue
				}
			}
			if core.RangeLoopOf(refresh, cd.If.Block()) != nil && core.RangeLoopOf(refresh, cd.If.Block()).Header == cd.If.Block() {
				continue
			}
			bad = "extra condition at " + c.Pos(cd.If.Cond.Pos())
		}
		// and the loop ranges over the unfiltered definition registry
		r.Check(bad == "", rule, cons+":complete", c.Pos(call.Pos()), "every definition that is not LazyInit is listed for eager creation: the listing depends on nothing but the LazyInit test "+bad)
	}
}

func c05ShortCircuit(c *core.Ctx, r *core.Report, l *lifecycleRoles) {
	ro := c.Roles()
	subs := lowestReaching(c, "container/factory",
		func(com *ssa.CallCommon) bool { return core.IsInvoke(com, ro.IABeforeInst) },
		func(com *ssa.CallCommon) bool { return core.IsInvoke(com, ro.CPAfterInit) })
	if !r.Exactly("C05.R7", "before-instantiation resolvers (smallest function reaching PostProcessBeforeInstantiation and PostProcessAfterInitialization)", len(subs), 1) {
		return
	}
	resolver := subs[0]
	if bs, _ := findBootstrap(c); bs != nil {
		// a resolver that is a method of a policy object: the routine is the delegate's method that asks the policy
		resolver = liftToShape(c, resolver, func(sig *types.Signature) bool {
			return sig.Recv() != nil && core.NamedOf(sig.Recv().Type()) == bs.recv
		})
	}
	maxProcs := 2
	if r.Tier == "thorough" {
		maxProcs = 3
	}
	cons := "resolver-table@" + core.FnName(resolver)
	rrs, n, und := resolverTable(c, resolver, maxProcs)
	r.Count("resolver_table_runs", n)
	if und != "" {
		r.Undecided("C05.R7", cons, c.FnPos(resolver), "abstract interpretation left the model: "+und)
	} else {
		smallModelCheck(c, r, "C05.R7", cons, resolver, int64(maxProcs))
		rrs.report(c, r, resolver, func(string) string { return "C05.R7" }, cons, resolverRows)
	}
	// after-initialization callbacks have exactly two entry points: the initialization routine and the resolver
	for _, s := range c.CallSites(func(com *ssa.CallCommon) bool { return core.IsInvoke(com, ro.CPAfterInit) }) {
		fn := core.TopLevel(s.Parent())
		okFn := withinRole(c, fn, func(g *ssa.Function) bool { return g == resolver || g == l.initFn }, 3)
		if !okFn {
			// a dispatch helper shared by both
			callers := c.Callers(fn)
			okFn = len(callers) > 0
			for _, cl := range callers {
				if !withinRole(c, core.TopLevel(cl), func(g *ssa.Function) bool { return g == resolver || g == l.initFn }, 3) {
					okFn = false
				}
			}
		}
		r.Check(okFn, "C05.R7", "after-init-entry@"+core.FnName(fn), c.Pos(s.Pos()), "after-initialization callbacks are dispatched only from the initialization routine and the before-instantiation resolver")
	}
	// the creator path: resolver first, the normal life cycle only if it produced nothing
	callers := c.Callers(resolver)
	for i := 0; i < 3 && len(callers) == 1 && pureForwarder(core.TopLevel(callers[0])) == resolver; i++ {
		// the exported face of the resolver: the creator path is whoever calls that
		resolver = core.TopLevel(callers[0])
		callers = c.Callers(resolver)
	}
	if !r.Exactly("C05.R7", "callers of the before-instantiation resolver", len(callers), 1) {
		return
	}
	path := callers[0]
	pcons := "creator-path-table@" + core.FnName(path)
	prs, n2, und2 := creatorPathTable(c, path, resolver, l.exposer)
	r.Count("creator_path_table_runs", n2)
	if und2 != "" {
		r.Undecided("C05.R7", pcons, c.FnPos(path), "abstract interpretation left the model: "+und2)
		return
	}
	prs.report(c, r, path, func(string) string { return "C05.R7" }, pcons, creatorPathRows)
}

// populateRules reports the populator's decision table under the given rule ids.
func populateRules(c *core.Ctx, r *core.Report, l *lifecycleRoles, ruleOf func(row string) string) {
	cons := "populate-table@" + core.FnName(l.populator)
	prs, n, und := populateTable(c, l)
	r.Count("populate_table_runs", n)
	first := ""
	for _, k := range []string{"from-accessor", "props-first", "re-entrant", "error"} {
		if first == "" {
			first = ruleOf(k)
		}
	}
	if und != "" {
		r.Undecided(first, cons, c.FnPos(l.populator), "abstract interpretation left the model: "+und)
		return
	}
	smallModelCheck(c, r, first, cons, l.populator, 3)
	need := map[string]string{}
	for k, v := range populateRows {
		if ruleOf(k) != "" {
			need[k] = v
		}
	}
	prs.report(c, r, l.populator, ruleOf, cons, need)
}

// liftToShape: fn itself when its signature has the shape, else the nearest single static caller (up to three levels)
// that has it; fn when there is none.
func liftToShape(c *core.Ctx, fn *ssa.Function, shape func(*types.Signature) bool) *ssa.Function {
	if fn == nil {
		return nil
	}
	cur := fn
	for i := 0; i < 4; i++ {
		if shape(cur.Signature) {
			return cur
		}
		callers := c.Callers(cur)
		var tops []*ssa.Function
		for _, cl := range callers {
			if t := core.TopLevel(cl); t != cur && !containsFn(tops, t) {
				tops = append(tops, t)
			}
		}
		if len(tops) != 1 {
			return fn
		}
		cur = tops[0]
	}
	return fn
}

func containsFn(l []*ssa.Function, f *ssa.Function) bool {
	for _, x := range l {
		if x == f {
			return true
		}
	}
	return false
}
