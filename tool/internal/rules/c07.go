package rules

import (
	"fmt"
	"go/types"
	"strings"

	"golang.org/x/tools/go/ssa"

	"iocvet/internal/absint"
	"iocvet/internal/core"
)

func c07(c *core.Ctx, r *core.Report) {
	r.Explanation = "C07 injection by name: decision tables by abstract interpretation: (R1/R5/R6) the wire processor on every tag value x field shape x lookup outcome: a named single-valued point does exactly one GetMetaByName(<tag value>), and the candidate is appended iff it exists and is assignable to the field (so reflect.Value.Set can never be reached with an unassignable or nil candidate); (R2) GetMetaByName is one load keyed by its argument; (R3) naming agreement: GetComponentName returns the custom name when non-empty else the default id; the definition stored by GetMetaOrRegister(key, ...) answers Name()==key for default, custom and foreign keys; the scanner is handed the singleton registry's own key for each component; (R4) RegisterSingleton stores only on a miss under the component's name, keeps silent on re-registration of the same object and reaches Panicf without storing for a different one; (R7) required/optional decisions are C09.E3. Decides keyed lookup and its failure modes; the value injected is C01."
	r.Assumptions = []string{"reflectx.Id is a function of the type only", "reflect.Type.AssignableTo is the assignability Set requires"}
	ps := builtinProcessors(c)
	var wire *procInfo
	for _, p := range withRole(ps, "dep", true) {
		if procOwnTag(c, p) == stringConst(c, "definition", "InjectTag") {
			wire = p
		}
	}
	if wire == nil {
		r.Undecided("C07.R1", "role:wire-processor", "", "registered processor for the wire tag not found")
	} else {
		rs, runs, _, und := depProcessorTable(c, wire)
		r.Count("query_table_runs", runs)
		cons := "query-table:" + wire.Name()
		if und != "" {
			r.Undecided("C07.R1", cons, c.FnPos(wire.Props), "abstract interpretation left the model: "+und)
		} else {
			rs.report(c, r, wire.Props, func(row string) string {
				switch row {
				case "by-name", "by-name-slice":
					return "C07.R1"
				case "by-name-guard":
					return "C07.R5"
				case "no-error":
					return "C07.R6"
				}
				return ""
			}, cons, depRows, "func-predicate")
			smallModelCheck(c, r, "C07.R5", cons, wire.Props, 2)
		}
	}
	definitionRegistryTables(c, r, "", "C07.R2")
	c07Naming(c, r)
	c07Register(c, r)
	// R6 nil-free: every other writer of Injects stores non-nil-element lists
	c07InjectsWriters(c, r, ps)
	r.Exhaustive = true
}

// c07Naming: R3.
func c07Naming(c *core.Ctx, r *core.Report) {
	nameFn := c.Func("util/framework_helper", "GetComponentName")
	idFn := c.Func("util/reflectx", "Id")
	naming := c.Named("definition", "NamingComponent")
	namingM := c.IfaceMethod("definition", "NamingComponent", "Naming")
	if nameFn == nil || naming == nil {
		r.Undecided("C07.R3", "role:GetComponentName", "", "framework_helper.GetComponentName / definition.NamingComponent not found")
		return
	}
	// (i) GetComponentName table
	bad := ""
	runs := 0
	for _, alias := range []string{"", "custom"} {
		for _, isNaming := range []bool{true, false} {
			build := func() (absint.Oracle, []absint.Value, []absint.Value) {
				t := newTbl(c)
				comp := absint.NewTok("component", "component")
				if idFn != nil {
					t.callee[idFn] = func(ip *absint.Interp, a []absint.Value) absint.Value {
						if a[0] != absint.Value(comp) {
							panic(&absint.Undecided{Msg: "Id of something else than the component"})
						}
						return absint.Str("pkg/T")
					}
				}
				t.typeTest = func(v absint.Value, T types.Type) (bool, bool) {
					if types.Identical(T, naming) {
						return isNaming, true
					}
					if n := core.NamedOf(T); n != nil && n.Obj().Pkg() != nil && n.Obj().Pkg().Path() == "reflect" {
						return false, true
					}
					return false, false
				}
				t.invoke[namingM] = func(ip *absint.Interp, a []absint.Value) absint.Value { return absint.Str(alias) }
				return t, []absint.Value{comp}, nil
			}
			check := func(ip *absint.Interp, out absint.Outcome) {
				want := "pkg/T"
				if isNaming && alias != "" {
					want = alias
				}
				if out.Panic != nil || len(out.Ret) != 1 || out.Ret[0] != absint.Value(absint.Str(want)) {
					bad = fmt.Sprintf("naming=%v alias=%q => %s, want %q", isNaming, alias, showOutcome(out), want)
				}
			}
			k, u := runTable(c, nameFn, build, check)
			runs += k
			if u != "" {
				bad = "left the model: " + u
			}
		}
	}
	smallModelCheck(c, r, "C07.R3", "component-name@"+core.FnName(nameFn), nameFn, 1)
	r.Check(bad == "", "C07.R3", "component-name@"+core.FnName(nameFn), c.FnPos(nameFn), fmt.Sprintf("the registration name is the custom name when it is non-empty and the default package/type id otherwise (%d abstract runs) %s", runs, bad))

	aliasTable(c, r, "C07.R3")
	typeIdTable(c, r, "C07.R3")

	// (ii) GetMetaOrRegister stores a definition whose Name() is the key
	definitionNameRules(c, r, "C07.R3")
	ro := c.Roles()

	// (iii) the scanner is given the singleton registry's key: the preparation table's 'recorded' row (each fetched
	// singleton is in the component map under the very name it was fetched by)
	prepareRules(c, r, func(row string) string {
		if row == "recorded" {
			return "C07.R3"
		}
		return ""
	})
	// fan-out passes key and value of one entry: decision table of the parallel definition scan
	defScanRules(c, r, func(row string) string {
		if row == "pairs" {
			return "C07.R3"
		}
		return ""
	})
	// and the tag scanner registers under that name
	for _, s := range c.CallSites(func(com *ssa.CallCommon) bool { return core.IsInvoke(com, ro.DRGetMetaOrRegister) }) {
		fn := s.Parent()
		okArgs := false
		if len(fn.Params) >= 3 {
			a := s.Common().Args
			okArgs = core.Norm(a[0]) == ssa.Value(fn.Params[len(fn.Params)-1]) && core.Norm(a[1]) == ssa.Value(fn.Params[len(fn.Params)-2])
		}
		r.Check(okArgs, "C07.R3", "scanner-registers-under-key@"+core.FnName(fn), c.Pos(s.Pos()), "the scanner registers the definition under the component name it was given, for the component it was given")
	}
}

// c07Register: R4.
func c07Register(c *core.Ctx, r *core.Report) { registerRules(c, r, "C07.R4") }

// registerRules: RegisterSingleton's decision table under rule.
func registerRules(c *core.Ctx, r *core.Report, rule string) {
	sync2Map := c.Named("util/sync2", "Map")
	load, store := c.DeclaredMethod(sync2Map, "Load"), c.DeclaredMethod(sync2Map, "Store")
	nameFn := c.Func("util/framework_helper", "GetComponentName")
	for _, T := range c.Implementors(c.Iface("container", "SingletonRegistry")) {
		reg := c.DeclaredMethod(T, "RegisterSingleton")
		if reg == nil || load == nil || store == nil || nameFn == nil {
			r.Undecided(rule, "role:RegisterSingleton", "", "RegisterSingleton / sync2.Map.Load / Store / GetComponentName not found")
			continue
		}
		bad := ""
		runs := 0
		for _, existing := range []string{"none", "same", "other"} {
			var loads, stores []string
			panicked := false
			build := func() (absint.Oracle, []absint.Value, []absint.Value) {
				loads, stores, panicked = nil, nil, false
				t := newTbl(c)
				comp := absint.NewTok("component", "component")
				t.callee[nameFn] = func(ip *absint.Interp, a []absint.Value) absint.Value {
					if a[0] != absint.Value(comp) {
						panic(&absint.Undecided{Msg: "name of something else than the component"})
					}
					return absint.NewTok("NAME", "key")
				}
				t.callee[load] = func(ip *absint.Interp, a []absint.Value) absint.Value {
					loads = append(loads, absint.Show(a[1]))
					switch existing {
					case "same":
						return absint.Tuple{comp, absint.Bool(true)}
					case "other":
						return absint.Tuple{absint.NewTok("otherComponent", "component"), absint.Bool(true)}
					}
					return absint.Tuple{absint.Nil{}, absint.Bool(false)}
				}
				t.callee[store] = func(ip *absint.Interp, a []absint.Value) absint.Value {
					stores = append(stores, absint.Show(a[1])+"="+absint.Show(a[2]))
					return nil
				}
				t.invokeN["Panicf"] = func(ip *absint.Interp, a []absint.Value) absint.Value {
					panicked = true
					// the logger's Panicf panics only when the log level lets panic messages through (it returns
					// silently at level fatal): the duplicate must be left out in both cases
					if ip.Choose(2, "log level lets Panicf panic") == 1 {
						return nil
					}
					panic(&absint.GoPanic{Msg: "Panicf"})
				}
				t.invokeN["Panic"] = t.invokeN["Panicf"]
				return t, []absint.Value{absint.NewTok("reg", "registry"), comp}, nil
			}
			check := func(ip *absint.Interp, out absint.Outcome) {
				ok := true
				for _, l := range loads {
					if l != "NAME" {
						ok = false
					}
				}
				switch existing {
				case "none":
					ok = ok && !panicked && out.Panic == nil && len(stores) == 1 && stores[0] == "NAME=component"
				case "same":
					ok = ok && !panicked && out.Panic == nil && len(stores) == 0
				case "other":
					ok = ok && panicked && len(stores) == 0
				}
				if !ok || len(loads) == 0 {
					bad = fmt.Sprintf("existing=%s loads=%v stores=%v panicked=%v", existing, loads, stores, panicked)
				}
			}
			k, u := runTable(c, reg, build, check)
			runs += k
			if u != "" {
				bad = "left the model: " + u
			}
		}
		if bad != "" {
			// another representation than the sync2.Map the table above watches: the same rows, read off the state
			if bad2, runs2 := registerTableByState(c, T, reg, nameFn); bad2 == "" && runs2 > 0 {
				bad, runs = "", runs+runs2
			} else {
				bad += " | by state: " + bad2
			}
		}
		smallModelCheck(c, r, rule, "register@"+core.FnName(reg), reg, 1)
		r.Check(bad == "", rule, "register@"+core.FnName(reg), c.FnPos(reg), fmt.Sprintf("RegisterSingleton stores under the component's name only on a miss, ignores re-registration of the same object and reports a different one through Panicf without storing it - whether Panicf panics or, at log level fatal, returns (%d abstract runs) %s", runs, bad))
	}
}

// c07InjectsWriters: every store to Property.Injects in scope is one of the decided writers.
func c07InjectsWriters(c *core.Ctx, r *core.Report, ps []*procInfo) {
	prop := c.Named("component_definition", "Property")
	stores, _ := c.FieldAccesses(prop, "Injects")
	decided := map[*ssa.Function]string{}
	for _, p := range ps {
		// the tables interpret the method together with the helpers it is split into: a store in one of them is decided too
		if p.Roles["dep"] {
			for _, f := range p.Body {
				decided[f] = "query table (C06.R1/C07.R5): appends registry results or a guarded by-name candidate"
			}
		}
		if _, _, np := narrowingFn(c, ps); np == p {
			for _, f := range p.Body {
				decided[f] = "narrowing table (C08.R2/R3): stores the narrowing result, which never contains nil, or nil"
			}
		}
	}
	if inj := c.Roles().PropertyInject; inj != nil {
		// (the Inject table interprets the method together with the helpers and stage objects it is split into)
		parts := map[*ssa.Function]bool{}
		reachesCall(inj, func(*ssa.CallCommon) bool { return false }, parts)
		for f := range parts {
			if core.PkgOf(f) == core.PkgOf(inj) {
				decided[f] = "Inject table: the non-self candidates"
			}
		}
		decided[inj] = "Inject table: the non-self candidates"
	}
	for _, st := range stores {
		why, ok := decided[st.Fn]
		if _, fresh := core.Norm(st.Addr.X).(*ssa.Alloc); fresh {
			continue
		}
		r.Check(ok, "C07.R6", "Injects-writer@"+core.FnName(st.Fn), c.Pos(st.Instr.Pos()), "Property.Injects is written only by functions whose stored lists are decided to be nil-free: "+why)
	}
	r.Floor("C07.R6", "writers of Property.Injects", len(stores), 4)
}

// aliasTable: GetComponentNameWithAlias yields the default package/type id and, as alias, the custom name - empty
// exactly when the component declares none (an empty Naming() counts as none).  "Has a custom name" is derived from it.
func aliasTable(c *core.Ctx, r *core.Report, rule string) {
	fn := c.Func("util/framework_helper", "GetComponentNameWithAlias")
	idFn := c.Func("util/reflectx", "Id")
	naming := c.Named("definition", "NamingComponent")
	namingM := c.IfaceMethod("definition", "NamingComponent", "Naming")
	if fn == nil || naming == nil || namingM == nil {
		r.Undecided(rule, "role:GetComponentNameWithAlias", "", "framework_helper.GetComponentNameWithAlias / definition.NamingComponent not found")
		return
	}
	bad := ""
	runs := 0
	for _, alias := range []string{"", "custom"} {
		for _, isNaming := range []bool{true, false} {
			build := func() (absint.Oracle, []absint.Value, []absint.Value) {
				t := newTbl(c)
				comp := absint.NewTok("component", "component")
				if idFn != nil {
					t.callee[idFn] = func(ip *absint.Interp, a []absint.Value) absint.Value { return absint.Str("pkg/T") }
				}
				t.typeTest = func(v absint.Value, T types.Type) (bool, bool) {
					if types.Identical(T, naming) {
						return isNaming, true
					}
					if n := core.NamedOf(T); n != nil && n.Obj().Pkg() != nil && n.Obj().Pkg().Path() == "reflect" {
						return false, true
					}
					return false, false
				}
				t.invoke[namingM] = func(ip *absint.Interp, a []absint.Value) absint.Value { return absint.Str(alias) }
				return t, []absint.Value{comp}, nil
			}
			check := func(ip *absint.Interp, out absint.Outcome) {
				wantAlias := ""
				if isNaming {
					wantAlias = alias
				}
				if out.Panic != nil || len(out.Ret) != 2 || out.Ret[0] != absint.Value(absint.Str("pkg/T")) || out.Ret[1] != absint.Value(absint.Str(wantAlias)) {
					bad = fmt.Sprintf("naming=%v Naming()=%q => %s, want (\"pkg/T\", %q)", isNaming, alias, showOutcome(out), wantAlias)
				}
			}
			k, u := runTable(c, fn, build, check)
			runs += k
			if u != "" {
				bad = "left the model: " + u
			}
		}
	}
	r.Check(bad == "", rule, "component-alias@"+core.FnName(fn), c.FnPos(fn), fmt.Sprintf("the alias of a component is its custom name and is empty exactly when it declares none (%d abstract runs) %s", runs, bad))
	// IsAlias() is alias != ""
	meta := c.Named("component_definition", "Meta")
	if isAlias := c.DeclaredMethod(meta, "IsAlias"); isAlias != nil {
		bad2 := ""
		for _, a := range []string{"", "x"} {
			t := newTbl(c)
			m := absint.NewTok("m", "meta")
			m.Fields["alias"] = absint.Str(a)
			ip := absint.New(t)
			ip.IsLog, ip.InScope = core.IsLogCall, c.InScope
			out := ip.Run(isAlias, []absint.Value{m}, nil)
			if out.Undecided != nil {
				bad2 = "left the model: " + out.Undecided.Msg
			} else if out.Panic != nil || len(out.Ret) != 1 || out.Ret[0] != absint.Value(absint.Bool(a != "")) {
				bad2 = fmt.Sprintf("alias=%q => %s", a, showOutcome(out))
			}
		}
		r.Check(bad2 == "", rule, "is-alias@"+core.FnName(isAlias), c.FnPos(isAlias), "a definition counts as custom-named exactly when its alias is non-empty "+bad2)
	}
}

// typeIdTable: the default name of a type is its package path joined with its type name - a function of the type alone:
// two types that print alike but live in different packages get different names, in either order of asking, and asking
// again gives the same answer (whatever the helper remembers between calls).
func typeIdTable(c *core.Ctx, r *core.Report, rule string) {
	fn := c.Func("util/reflectx", "TypeId")
	if fn == nil {
		r.Undecided(rule, "role:TypeId", "", "reflectx.TypeId not found")
		return
	}
	type ty struct{ pkg, name, str string }
	types3 := []ty{{"text/template", "Template", "template.Template"}, {"html/template", "Template", "template.Template"}, {"a/b", "Other", "b.Other"}}
	bad := ""
	runs := 0
	for _, order := range [][]int{{0, 1, 2, 0, 1}, {1, 0, 1, 2, 0}, {2, 1, 0}} {
		for _, viaPtr := range []bool{false, true} {
			t := newTbl(c)
			stringModels(t)
			t.ext["path.Join"] = func(ip *absint.Interp, a []absint.Value) absint.Value {
				l, _ := a[0].(*absint.List)
				var parts []string
				if l != nil {
					for _, e := range l.Elems {
						s, _ := e.(absint.Str)
						parts = append(parts, string(s))
					}
				}
				return absint.Str(strings.Join(parts, "/"))
			}
			attr := func(name string) func(ip *absint.Interp, a []absint.Value) absint.Value {
				return func(ip *absint.Interp, a []absint.Value) absint.Value {
					if tk, ok := a[0].(*absint.Tok); ok && tk.Attr[name] != nil {
						return tk.Attr[name]
					}
					panic(&absint.Undecided{Msg: name + " of an unmodelled type"})
				}
			}
			t.invokeN["Kind"], t.invokeN["Elem"], t.invokeN["Name"] = attr("kind"), attr("elem"), attr("name")
			t.invokeN["PkgPath"], t.invokeN["String"] = attr("pkg"), attr("str")
			ip := absint.New(t)
			ip.IsLog, ip.InScope = core.IsLogCall, c.InScope
			toks := map[int]*absint.Tok{}
			for i, x := range types3 {
				tk := absint.NewTok("T:"+x.pkg+"."+x.name, "type")
				tk.Attr["kind"], tk.Attr["name"], tk.Attr["pkg"], tk.Attr["str"] = absint.Int(25), absint.Str(x.name), absint.Str(x.pkg), absint.Str(x.str)
				toks[i] = tk
			}
			for _, i := range order {
				arg := absint.Value(toks[i])
				if viaPtr {
					p := absint.NewTok("T:*"+types3[i].str, "type")
					p.Attr["kind"], p.Attr["elem"], p.Attr["name"], p.Attr["pkg"], p.Attr["str"] = absint.Int(22), toks[i], absint.Str(""), absint.Str(""), absint.Str("*"+types3[i].str)
					arg = p
				}
				out := ip.Run(fn, []absint.Value{arg}, nil)
				runs++
				want := types3[i].pkg + "/" + types3[i].name
				switch {
				case out.Undecided != nil:
					bad = "left the model: " + out.Undecided.Msg
				case out.Panic != nil || len(out.Ret) != 1 || out.Ret[0] != absint.Value(absint.Str(want)):
					bad = fmt.Sprintf("asking order %v (pointer=%v): TypeId(%s.%s) => %s, want %q", order, viaPtr, types3[i].pkg, types3[i].name, showOutcome(out), want)
				}
			}
		}
	}
	r.Check(bad == "", rule, "type-id@"+core.FnName(fn), c.FnPos(fn), fmt.Sprintf("the default name of a type is <package path>/<type name>, whatever was asked before (%d abstract runs) %s", runs, bad))
}

// definitionNameRules: the definition GetMetaOrRegister keeps under a key answers to that key (it is stored under the
// name the singleton registry handed out, and renamed to it), whatever its default and custom names are.
func definitionNameRules(c *core.Ctx, r *core.Report, rule string) {
	// (ii) GetMetaOrRegister stores a definition whose Name() is the key
	sync2Map := c.Named("util/sync2", "Map")
	lsf := c.DeclaredMethod(sync2Map, "LoadOrStoreFn")
	ro := c.Roles()
	meta := c.Named("component_definition", "Meta")
	nameM := c.DeclaredMethod(meta, "Name")
	for _, T := range c.Implementors(c.Iface("container", "DefinitionRegistry")) {
		gor := c.DeclaredMethod(T, "GetMetaOrRegister")
		if gor == nil || lsf == nil || nameM == nil || ro.NewMeta == nil {
			r.Undecided(rule, "role:GetMetaOrRegister", "", "GetMetaOrRegister / LoadOrStoreFn / Meta.Name / NewMeta not found")
			continue
		}
		bad := ""
		runs := 0
		lsfConsulted := false
		for _, key := range []string{"pkg/T", "custom", "foreign"} {
			for _, alias := range []string{"", "custom"} {
				// feasible keys: the singleton registry's key is the custom name when there is one (R3.i, R3.iii)
				if (alias != "" && key == "pkg/T") || (alias == "" && key == "custom") {
					continue
				}
				var storedKey absint.Value
				var stored *absint.Tok
				build := func() (absint.Oracle, []absint.Value, []absint.Value) {
					storedKey, stored = nil, nil
					t := newTbl(c)
					t.callee[ro.NewMeta] = func(ip *absint.Interp, a []absint.Value) absint.Value {
						m := absint.NewTok("newmeta", "meta")
						m.Fields["name"], m.Fields["alias"] = absint.Str("pkg/T"), absint.Str(alias)
						return m
					}
					t.callee[lsf] = func(ip *absint.Interp, a []absint.Value) absint.Value {
						lsfConsulted = true
						storedKey = a[1]
						v := ip.CallValue(a[2])
						stored, _ = v.(*absint.Tok)
						return absint.Tuple{v, absint.Bool(false)}
					}
					return t, []absint.Value{absint.NewTok("reg", "registry"), absint.Str(key), absint.NewTok("component", "component")}, nil
				}
				check := func(ip *absint.Interp, out absint.Outcome) {
					if out.Panic != nil || stored == nil || storedKey != absint.Value(absint.Str(key)) || len(out.Ret) != 1 || out.Ret[0] != absint.Value(stored) {
						bad = fmt.Sprintf("key=%q alias=%q: not stored under the key / not returned: %s", key, alias, showOutcome(out))
						return
					}
					// Name() of the stored definition
					ip2 := absint.New(newTbl(c))
					ip2.IsLog, ip2.InScope = core.IsLogCall, c.InScope
					o2 := ip2.Run(nameM, []absint.Value{stored}, nil)
					if o2.Undecided != nil || o2.Panic != nil || len(o2.Ret) != 1 || o2.Ret[0] != absint.Value(absint.Str(key)) {
						bad = fmt.Sprintf("key=%q default=pkg/T alias=%q: stored definition answers Name()=%s", key, alias, showOutcome(o2))
					}
				}
				k, u := runTable(c, gor, build, check)
				runs += k
				if u != "" {
					bad = "left the model: " + u
				}
			}
		}
		if bad != "" && (!lsfConsulted || strings.HasPrefix(bad, "left the model")) {
			if b2, r2 := definitionRegistryByStateMemo(c, T); b2 == "" && r2 > 0 {
				bad, runs = "", runs+r2 // (the registry observed through its own methods: a new definition is renamed to its key and found under it)
			}
		}
		r.Check(bad == "", rule, "definition-name@"+core.FnName(gor), c.FnPos(gor), fmt.Sprintf("the definition registered under a key answers Name()==key whatever its default and custom names are (%d abstract runs) %s", runs, bad))
	}
}
