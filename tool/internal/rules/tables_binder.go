package rules

import (
	"fmt"
	"go/types"
	"strings"

	"golang.org/x/tools/go/ssa"

	"iocvet/internal/absint"
	"iocvet/internal/core"
)

// binderRules: every Binder implementation is a read-through view of its store: Get(path) answers from the store's
// state at the time of the call, whatever was looked up, set or merged before (the store - viper - is an oracle whose
// answers carry the number of modifications made so far).
func binderRules(c *core.Ctx, r *core.Report, rule string) {
	n := 0
	for _, T := range c.Implementors(c.Iface("configure", "Binder")) {
		get, set, setCfg := c.DeclaredMethod(T, "Get"), c.DeclaredMethod(T, "Set"), c.DeclaredMethod(T, "SetConfig")
		if get == nil || set == nil || setCfg == nil {
			continue // delegating implementation (embedded Binder)
		}
		if forwardsToHeld(get) && forwardsToHeld(set) && forwardsToHeld(setCfg) {
			continue // delegating implementation (a held Binder with explicit forwarding methods)
		}
		n++
		cons := "binder-table@" + T.Obj().Name()
		// a constructor: a function of the same package returning *T
		var ctor *ssa.Function
		for _, fn := range c.Scope {
			if fn.Parent() != nil || fn.Signature.Recv() != nil || fn.Signature.Results().Len() != 1 || core.PkgOf(fn) == nil || core.PkgOf(fn).Pkg != T.Obj().Pkg() {
				continue
			}
			if pt, ok := fn.Signature.Results().At(0).Type().(*types.Pointer); ok && types.Identical(pt.Elem(), T) {
				ctor = fn
			}
		}
		type op struct {
			kind, path string
		}
		seqs := [][]op{
			{{"get", "a.b"}, {"set", "a"}, {"get", "a.b"}},
			{{"get", "a.b"}, {"merge", ""}, {"get", "a.b"}},
			{{"get", "a"}, {"set", "a.b"}, {"get", "a"}},
			{{"get", "a.b"}, {"get", "a.b"}, {"set", "a.b"}, {"get", "a.b"}},
			{{"get", "A.B"}, {"set", "a.b"}, {"get", "A.B"}, {"get", "a.b"}},
			{{"get", ""}, {"set", "x"}, {"get", ""}},
		}
		bad := ""
		runs := 0
		for _, seq := range seqs {
			version := 0
			t := newTbl(c)
			stringModels(t)
			t.ext["github.com/spf13/viper.New"] = func(ip *absint.Interp, a []absint.Value) absint.Value { return absint.NewTok("viper", "store") }
			t.ext["(*github.com/spf13/viper.Viper).SetConfigType"] = func(ip *absint.Interp, a []absint.Value) absint.Value { return nil }
			t.ext["(*github.com/spf13/viper.Viper).Get"] = func(ip *absint.Interp, a []absint.Value) absint.Value {
				return absint.NewTok(fmt.Sprintf("store[%s]@%d", strings.ToLower(strings.Trim(absint.Show(a[1]), `"`)), version), "cfg")
			}
			t.ext["(*github.com/spf13/viper.Viper).AllSettings"] = func(ip *absint.Interp, a []absint.Value) absint.Value {
				return absint.NewTok(fmt.Sprintf("store[]@%d", version), "cfg")
			}
			t.ext["(*github.com/spf13/viper.Viper).Set"] = func(ip *absint.Interp, a []absint.Value) absint.Value { version++; return nil }
			t.ext["(*github.com/spf13/viper.Viper).MergeConfig"] = func(ip *absint.Interp, a []absint.Value) absint.Value {
				version++
				return absint.Nil{}
			}
			t.ext["(*github.com/spf13/viper.Viper).MergeConfigMap"] = t.ext["(*github.com/spf13/viper.Viper).MergeConfig"]
			t.ext["bytes.NewBuffer"] = func(ip *absint.Interp, a []absint.Value) absint.Value { return absint.NewTok("buffer", "reader") }
			t.ext["bytes.NewReader"] = t.ext["bytes.NewBuffer"]
			ip := absint.New(t)
			ip.IsLog, ip.InScope = core.IsLogCall, c.InScope
			var b absint.Value
			if ctor != nil {
				var args []absint.Value
				for range ctor.Params {
					args = append(args, absint.Str("yaml"))
				}
				o := ip.Run(ctor, args, nil)
				if o.Undecided != nil || o.Panic != nil || len(o.Ret) != 1 {
					bad = "constructor " + core.FnName(ctor) + " left the model: " + showOutcome(o)
					if o.Undecided != nil {
						bad += " " + o.Undecided.Msg
					}
					break
				}
				b = o.Ret[0]
			} else {
				tk := absint.NewTok("binder", "binder")
				tk.Attr["zeroed"] = absint.Bool(true)
				b = tk
			}
			var log []string
			for _, o := range seq {
				var out absint.Outcome
				switch o.kind {
				case "get":
					out = ip.Run(get, []absint.Value{b, absint.Str(o.path)}, nil)
					want := fmt.Sprintf("store[%s]@%d", strings.ToLower(o.path), version)
					log = append(log, fmt.Sprintf("Get(%q)=%s", o.path, showOutcome(out)))
					if out.Undecided == nil && (out.Panic != nil || len(out.Ret) != 1 || absint.Show(out.Ret[0]) != want) {
						bad = fmt.Sprintf("%v: want %s (the store's current answer)", log, want)
					}
				case "set":
					out = ip.Run(set, []absint.Value{b, absint.Str(o.path), absint.NewTok("newValue", "cfg")}, nil)
					log = append(log, fmt.Sprintf("Set(%q)", o.path))
				case "merge":
					out = ip.Run(setCfg, []absint.Value{b, &absint.List{Elems: []absint.Value{absint.NewTok("doc", "bytes")}}}, nil)
					log = append(log, "SetConfig(doc)")
				}
				runs++
				if out.Undecided != nil {
					bad = "left the model: " + out.Undecided.Msg
					break
				}
			}
		}
		r.Check(bad == "", rule, cons, c.FnPos(get), fmt.Sprintf("Get answers from the store's current state after any sequence of lookups, Set and SetConfig (%d abstract steps) %s", runs, bad))
	}
	r.Floor(rule, "Binder implementations declaring Get, Set and SetConfig", n, 1)
}
