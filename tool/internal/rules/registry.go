// Package rules holds one file per property; each turns DESIGN.md's rule list into obligations.
package rules

import (
	"sort"

	"iocvet/internal/core"
)

type ruleFn func(c *core.Ctx, r *core.Report)

var registry = map[string]ruleFn{}

func register(id string, f ruleFn) { registry[id] = f }

// Lookup returns the property's rule set: its own rules followed by the shared-mechanism rules of extras.go.
func Lookup(id string) ruleFn {
	f := registry[id]
	if f == nil {
		return nil
	}
	return func(c *core.Ctx, r *core.Report) {
		f(c, r)
		if x := extras[id]; x != nil {
			x(c, r)
		}
	}
}

func IDs() []string {
	var out []string
	for k := range registry {
		out = append(out, k)
	}
	sort.Strings(out)
	return out
}
