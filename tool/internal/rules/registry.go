// Package rules holds one file per property; each turns DESIGN.md's rule list into obligations.
package rules

import (
	"sort"

	"iocvet/internal/core"
)

type ruleFn func(c *core.Ctx, r *core.Report)

var registry = map[string]ruleFn{}

func register(id string, f ruleFn) { registry[id] = f }

func Lookup(id string) ruleFn { return registry[id] }

func IDs() []string {
	var out []string
	for k := range registry {
		out = append(out, k)
	}
	sort.Strings(out)
	return out
}
