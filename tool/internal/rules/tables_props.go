package rules

import (
	"fmt"
	"go/types"
	"os"
	"strings"

	"golang.org/x/tools/go/ssa"

	"iocvet/internal/absint"
	"iocvet/internal/core"
)

var propsStageRows = map[string]string{
	"all-properties": "every instantiation-aware processor whose after-instantiation callback agrees receives all properties of the component (what an earlier processor returned does not shrink the list), the component and its name",
	"order":          "processors are asked in dispatch order; a processor whose after-instantiation callback declines is skipped, the next ones are not",
	"error":          "a failing callback ends the stage with a non-nil error and nothing after it; otherwise the result is nil",
}

// propsStageTable interprets the property stage of the delegate (the function that invokes PostProcessProperties).
func propsStageTable(c *core.Ctx, fn *ssa.Function, maxProcs int) (rs rows, runs int, undecided string) {
	ro := c.Roles()
	rs = rows{}
	ia := c.Named("container", "InstantiationAwareComponentPostProcessor")
	meta := c.Named("component_definition", "Meta")
	var allProps *ssa.Function
	if meta != nil {
		allProps = c.DeclaredMethod(meta, "GetAllProperties")
	}
	if allProps == nil {
		return rs, 0, "Meta.GetAllProperties not found"
	}
	classes := []string{"ia", "plain"}
	var lists [][]string
	var gen func(prefix []string)
	gen = func(prefix []string) {
		lists = append(lists, append([]string(nil), prefix...))
		if len(prefix) < maxProcs {
			for _, k := range classes {
				gen(append(append([]string(nil), prefix...), k))
			}
		}
	}
	gen(nil)
	for _, lst := range lists {
		var events []string
		var want []string
		var stopped, wantErr bool
		var after []string
		build := func() (absint.Oracle, []absint.Value, []absint.Value) {
			events, want, stopped, wantErr, after = nil, nil, false, false, nil
			t := newTbl(c)
			self := absint.NewTok("delegate", "delegate")
			m := absint.NewTok("meta", "meta")
			m.Fields["Raw"] = absint.NewTok("raw", "component")
			procs := &absint.List{IsNil: len(lst) == 0}
			for i, k := range lst {
				procs.Elems = append(procs.Elems, absint.NewTok(fmt.Sprintf("p%d:%s", i, k), k))
			}
			var regState *absint.Tok
			regTried := false
			t.field = func(ip *absint.Interp, obj *absint.Tok, name string, typ types.Type) absint.Value {
				if sl, ok := typ.Underlying().(*types.Slice); ok && types.IsInterface(sl.Elem()) && partOfState(obj, self) {
					return dispatchList(c, t, name, procs)
				}
				if partOfState(obj, self) {
					if v := policyField(c, t, procs, name, typ, &regState, &regTried); v != nil {
						return v
					}
				}
				if b, ok := typ.Underlying().(*types.Basic); ok && b.Kind() == types.Bool && partOfState(obj, self) {
					return absint.Bool(true)
				}
				return nil
			}
			t.typeTest = func(v absint.Value, T types.Type) (bool, bool) {
				p, ok := v.(*absint.Tok)
				if !ok {
					return false, false
				}
				if ia != nil && types.Identical(T, ia) {
					return p.Class == "ia", true
				}
				return false, types.IsInterface(T)
			}
			t.callee[allProps] = func(ip *absint.Interp, a []absint.Value) absint.Value {
				return &absint.List{Elems: []absint.Value{absint.NewTok("prop1", "property"), absint.NewTok("prop2", "property"), absint.NewTok("prop3", "property")}}
			}
			ev := func(e string) {
				if stopped {
					after = append(after, e)
				}
				events = append(events, e)
			}
			t.invoke[ro.IAAfterInst] = func(ip *absint.Interp, a []absint.Value) absint.Value {
				e := "after-inst:" + absint.Show(a[0]) + "(" + absint.Show(a[1]) + "," + absint.Show(a[2]) + ")"
				ev(e)
				want = append(want, e)
				switch ip.Choose(3, "after-instantiation outcome") {
				case 1:
					return absint.Tuple{absint.Bool(false), absint.Nil{}}
				case 2:
					stopped, wantErr = true, true
					return absint.Tuple{absint.Bool(false), t.newErr("after-inst")}
				}
				want = append(want, "props:"+absint.Show(a[0])+"([prop1 prop2 prop3],raw,"+absint.Show(a[2])+")")
				return absint.Tuple{absint.Bool(true), absint.Nil{}}
			}
			t.invoke[ro.IAProps] = func(ip *absint.Interp, a []absint.Value) absint.Value {
				ev("props:" + absint.Show(a[0]) + "(" + absint.Show(a[1]) + "," + absint.Show(a[2]) + "," + absint.Show(a[3]) + ")")
				switch ip.Choose(3, "properties outcome") {
				case 1:
					// the processor hands back the subset it dealt with
					return absint.Tuple{&absint.List{Elems: []absint.Value{absint.NewTok("prop1", "property")}}, absint.Nil{}}
				case 2:
					stopped, wantErr = true, true
					return absint.Tuple{absint.Nil{}, t.newErr("props")}
				}
				return absint.Tuple{&absint.List{IsNil: true}, absint.Nil{}}
			}
			args := []absint.Value{self}
			for _, p := range fn.Params[1:] {
				if b, isB := p.Type().Underlying().(*types.Basic); isB && b.Info()&types.IsString != 0 {
					args = append(args, absint.Str("name"))
				} else {
					args = append(args, m)
				}
			}
			return t, args, nil
		}
		check := func(ip *absint.Interp, out absint.Outcome) {
			w := fmt.Sprintf("processors=%v events=%v => %s", lst, events, showOutcome(out))
			if out.Panic != nil {
				rs.fail("error", "PANIC "+w)
				return
			}
			isErr := len(out.Ret) == 1 && isErrTok(out.Ret[0])
			rs.hit("error")
			if isErr != wantErr || len(after) != 0 {
				rs.fail("error", w)
			}
			rs.hit("all-properties")
			for _, e := range events {
				if strings.HasPrefix(e, "props:") && !strings.Contains(e, "([prop1 prop2 prop3],raw,") {
					rs.fail("all-properties", w)
				}
			}
			rs.hit("order")
			// the asked processors are exactly the ia ones, in order, as far as the run got
			k := 0
			okOrder := true
			for _, e := range events {
				if !strings.HasPrefix(e, "after-inst:") {
					continue
				}
				for k < len(lst) && lst[k] != "ia" {
					k++
				}
				if k >= len(lst) || !strings.HasPrefix(e, fmt.Sprintf("after-inst:p%d:ia(", k)) {
					okOrder = false
				}
				k++
			}
			nIA := 0
			for _, x := range lst {
				if x == "ia" {
					nIA++
				}
			}
			nAsked := 0
			for _, e := range events {
				if strings.HasPrefix(e, "after-inst:") {
					nAsked++
				}
			}
			if !okOrder || (!wantErr && nAsked != nIA) || strings.Join(events, " ") != strings.Join(want, " ") {
				rs.fail("order", w+fmt.Sprintf(" expected %v", want))
			}
		}
		m, u := runTable(c, fn, build, check)
		runs += m
		if u != "" {
			return rs, runs, u
		}
	}
	return
}

func propsStageRules(c *core.Ctx, r *core.Report, rule string) {
	ro := c.Roles()
	fn := propsStageEntry(c)
	if fn == nil {
		subs := lowestReaching(c, "container/factory", func(com *ssa.CallCommon) bool { return core.IsInvoke(com, ro.IAProps) })
		if !r.Exactly(rule, "property stages (smallest function of container/factory invoking PostProcessProperties)", len(subs), 1) {
			return
		}
		fn = subs[0]
	}
	cons := "props-stage-table@" + core.FnName(fn)
	rs, n, und := propsStageTable(c, fn, 2)
	r.Count("props_stage_table_runs", n)
	if und != "" {
		r.Undecided(rule, cons, c.FnPos(fn), "abstract interpretation left the model: "+und)
		return
	}
	smallModelCheck(c, r, rule, cons, fn, 2)
	rs.report(c, r, fn, func(string) string { return rule }, cons, propsStageRows)
}

// propsStageEntry: the function through which the populator runs the property stage - the one callee of the populator
// (the smallest function that both dispatches PostProcessProperties and injects) that reaches the dispatch. Whatever
// visitor, per-processor helper or closure the stage is made of lies below it.
func propsStageEntry(c *core.Ctx) *ssa.Function {
	ro := c.Roles()
	isProps := func(com *ssa.CallCommon) bool { return core.IsInvoke(com, ro.IAProps) }
	pops := lowestReaching(c, "container/factory", isProps, func(com *ssa.CallCommon) bool { return core.IsCallTo(com, ro.PropertyInject) })
	if os.Getenv("IOCVET_DEBUG") != "" {
		fmt.Fprintln(os.Stderr, "propsStageEntry pops", pops)
	}
	if len(pops) != 1 {
		return nil
	}
	accessor := map[*ssa.Function]bool{}
	for _, a := range ro.CacheAccessors() {
		accessor[a] = true
	}
	var out []*ssa.Function
	for _, g := range core.WithAnon(pops[0]) {
		for _, ci := range core.Calls(g) {
			cal := c.ResolvedCallee(ci.Common())
			if cal == nil || cal.Blocks == nil || !c.InScope(cal) || core.TopLevel(cal) == pops[0] || accessor[cal] {
				continue // (dependencies are created through the cache accessor: that is another component's stage)
			}
			if reachesCall(cal, isProps, map[*ssa.Function]bool{}) {
				dup := false
				for _, o := range out {
					dup = dup || o == cal
				}
				if !dup {
					out = append(out, cal)
				}
			}
		}
	}
	if os.Getenv("IOCVET_DEBUG") != "" {
		fmt.Fprintln(os.Stderr, "propsStageEntry out", out)
	}
	if len(out) != 1 {
		return nil
	}
	return out[0]
}

// validatorConfigRules: every validator the validation stage uses is built by validator.New with the
// required-struct option (without it `required` on a struct-typed member is silently ignored), once per processor.
func validatorConfigRules(c *core.Ctx, r *core.Report, rule string) {
	n := 0
	for _, fn := range c.Scope {
		for _, ci := range core.Calls(fn) {
			if !core.IsExtCall(ci.Common(), "github.com/go-playground/validator/v10.New") {
				continue
			}
			n++
			cons := "validator.New@" + core.FnName(fn)
			ok := false
			for _, o := range core.Origins(ci.Common().Args[0], nil) {
				if call, isCall := o.(*ssa.Call); isCall && core.IsExtCall(call.Common(), "github.com/go-playground/validator/v10.WithRequiredStructEnabled") {
					ok = true
				}
			}
			if !ok {
				// the variadic options slice: look at the stores into its backing array
				if sl, isSl := core.Norm(ci.Common().Args[0]).(*ssa.Slice); isSl {
					if al, isAl := sl.X.(*ssa.Alloc); isAl {
						for _, rf := range *al.Referrers() {
							if ia, isIA := rf.(*ssa.IndexAddr); isIA {
								for _, r2 := range *ia.Referrers() {
									if st, isSt := r2.(*ssa.Store); isSt {
										if call, isCall := core.Norm(st.Val).(*ssa.Call); isCall && core.IsExtCall(call.Common(), "github.com/go-playground/validator/v10.WithRequiredStructEnabled") {
											ok = true
										}
									}
								}
							}
						}
					}
				}
			}
			r.Check(ok, rule, cons, c.Pos(ci.Pos()), "the validator is created with WithRequiredStructEnabled: a `required` constraint on a struct-typed member is enforced")
		}
	}
	r.Floor(rule, "validator.New call sites", n, 1)
}

// propertyStoreRules: what the scanners record with Meta.SetProperties is what the later stages read back - every
// property, once, whatever other properties (same tag, same field name in another embedded struct) were recorded.
func propertyStoreRules(c *core.Ctx, r *core.Report, rule string) {
	meta := c.Named("component_definition", "Meta")
	if meta == nil {
		r.Undecided(rule, "role:Meta", "", "component_definition.Meta not found")
		return
	}
	set := c.DeclaredMethod(meta, "SetProperties")
	all, comp, conf := c.DeclaredMethod(meta, "GetAllProperties"), c.DeclaredMethod(meta, "GetComponentProperties"), c.DeclaredMethod(meta, "GetConfigurationProperties")
	if set == nil || all == nil || comp == nil || conf == nil {
		r.Undecided(rule, "role:Meta.SetProperties", "", "Meta.SetProperties / GetAllProperties / GetComponentProperties / GetConfigurationProperties not found")
		return
	}
	t := newTbl(c)
	ip := absint.New(t)
	ip.IsLog, ip.InScope = core.IsLogCall, c.InScope
	m := absint.NewTok("meta", "meta")
	// the definition as its constructor leaves it: every map it keeps (itself or in a part of its own package) is made
	var mkMaps func(st *types.Struct, depth int)
	mkMaps = func(st *types.Struct, depth int) {
		for i := 0; st != nil && i < st.NumFields(); i++ {
			f := st.Field(i)
			switch u := f.Type().Underlying().(type) {
			case *types.Map:
				m.Fields[f.Name()] = &absint.MapVal{M: map[string]absint.Value{}}
			case *types.Struct:
				if n, ok := f.Type().(*types.Named); ok && n.Obj().Pkg() == meta.Obj().Pkg() && depth < 2 {
					mkMaps(u, depth+1)
				}
			}
		}
	}
	mkMaps(core.StructOf(meta), 0)
	mk := func(id, ptype, tag, field string) *absint.Tok {
		p := absint.NewTok(id, "property")
		fld, sf := absint.NewTok(id+".Field", "field"), absint.NewTok(id+".Field.StructField", "structfield")
		p.Fields["Field"], fld.Fields["StructField"] = fld, sf
		sf.Fields["Name"] = absint.Str(field)
		p.Fields["PropertyType"], p.Fields["Tag"] = absint.Str(ptype), absint.Str(tag)
		p.Fields["TagStr"], p.Fields["TagVal"] = absint.Str(""), absint.Str("")
		return p
	}
	p1, p2 := mk("p1", "Component", "wire", "Repo"), mk("p2", "Component", "wire", "Repo") // same name, two embedded structs
	p3, p4 := mk("p3", "Configuration", "value", "Repo"), mk("p4", "Component", "wire", "Other")
	p5 := mk("p5", "Configuration", "value", "Level")
	cons := "property-store@" + core.FnName(set)
	show := func(o absint.Outcome) []string {
		var out []string
		if len(o.Ret) == 1 {
			if l, ok := o.Ret[0].(*absint.List); ok {
				for _, e := range l.Elems {
					out = append(out, absint.Show(e))
				}
			}
		}
		return out
	}
	step := func(fn *ssa.Function, args ...absint.Value) (absint.Outcome, bool) {
		o := ip.Run(fn, args, nil)
		if o.Undecided != nil {
			r.Undecided(rule, cons, c.FnPos(set), "abstract interpretation left the model: "+o.Undecided.Msg)
			return o, false
		}
		if o.Panic != nil {
			r.Fail(rule, cons, c.FnPos(set), "panics: "+o.Panic.Msg)
			return o, false
		}
		return o, true
	}
	if _, ok := step(set, m, &absint.List{Elems: []absint.Value{p1, p2, p3}}); !ok {
		return
	}
	if _, ok := step(set, m, &absint.List{Elems: []absint.Value{p4, p5}}); !ok {
		return
	}
	oc, ok1 := step(comp, m)
	of, ok2 := step(conf, m)
	oa, ok3 := step(all, m)
	if !ok1 || !ok2 || !ok3 {
		return
	}
	gotC, gotF, gotA := strings.Join(show(oc), " "), strings.Join(show(of), " "), show(oa)
	multi := map[string]int{}
	for _, x := range gotA {
		multi[x]++
	}
	okAll := len(gotA) == 5
	for _, x := range []string{"p1", "p2", "p3", "p4", "p5"} {
		if multi[x] != 1 {
			okAll = false
		}
	}
	r.Check(gotC == "p1 p2 p4" && gotF == "p3 p5" && okAll, rule, cons, c.FnPos(set),
		fmt.Sprintf("every recorded property is read back exactly once, component and configuration properties apart, in recording order within a kind (component=[%s] configuration=[%s] all=%v)", gotC, gotF, gotA))
}

// stageOptInRules: a built-in stage takes part for every component: its PostProcessAfterInstantiation - its own or the
// one it inherits - answers (true, nil) whatever the component is (interpreted on an unknown component and name; a
// stage that looks at the component to decide leaves the model and is reported as undecided).
func stageOptInRules(c *core.Ctx, r *core.Report, rule string, roles ...string) {
	n := 0
	for _, p := range builtinProcessors(c) {
		if !p.Registered {
			continue
		}
		has := false
		for _, ro := range roles {
			has = has || p.Roles[ro]
		}
		if !has {
			continue
		}
		n++
		cons := "stage-takes-part:" + p.Name()
		fn := c.Method(types.NewPointer(p.T), "PostProcessAfterInstantiation")
		if fn == nil {
			r.Undecided(rule, cons, c.Pos(p.T.Obj().Pos()), "PostProcessAfterInstantiation not found in the method set of the stage")
			continue
		}
		bad := ""
		runs, und := runTable(c, fn, func() (absint.Oracle, []absint.Value, []absint.Value) {
			t := newTbl(c)
			return t, []absint.Value{absint.NewTok("proc", "processor"), absint.NewTok("component", "any"), absint.NewTok("name", "key")}, nil
		}, func(ip *absint.Interp, out absint.Outcome) {
			ok := out.Panic == nil && len(out.Ret) == 2
			if ok {
				b, isB := out.Ret[0].(absint.Bool)
				_, isNil := out.Ret[1].(absint.Nil)
				ok = isB && bool(b) && isNil
			}
			if !ok {
				bad = "answers " + showOutcome(out)
			}
		})
		if und != "" {
			r.Undecided(rule, cons, c.FnPos(fn), "abstract interpretation left the model: "+und)
			continue
		}
		r.Check(bad == "", rule, cons, c.FnPos(fn), fmt.Sprintf("the stage takes part for every component: PostProcessAfterInstantiation answers (true, nil) whatever the component (%d abstract runs) %s", runs, bad))
	}
	r.Floor(rule, "registered stages with role "+strings.Join(roles, "/"), n, 1)
}
