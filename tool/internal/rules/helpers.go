package rules

import (
	"golang.org/x/tools/go/ssa"

	"iocvet/internal/core"
)

// withinRole reports whether fn satisfies ok, or is an unexported function that is never used as a value and whose
// every in-scope caller (transitively, up to depth) satisfies it: a helper extracted from a role function belongs to
// that role.
func withinRole(c *core.Ctx, fn *ssa.Function, ok func(*ssa.Function) bool, depth int) bool {
	if ok(fn) {
		return true
	}
	if depth == 0 || fn.Parent() != nil {
		if fn.Parent() != nil && depth > 0 {
			return withinRole(c, fn.Parent(), ok, depth-1)
		}
		return false
	}
	if fn.Object() == nil || fn.Object().Exported() || len(c.FuncValueUses(fn)) != 0 {
		return false
	}
	callers := c.Callers(fn)
	if len(callers) == 0 {
		return false
	}
	for _, caller := range callers {
		if caller == fn {
			continue
		}
		if !withinRole(c, caller, ok, depth-1) {
			return false
		}
	}
	return true
}
