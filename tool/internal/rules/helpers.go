package rules

import (
	"go/types"
	"golang.org/x/tools/go/ssa"

	"iocvet/internal/core"
)

// withinRole reports whether fn satisfies ok, or is an unexported function that is never used as a value and whose
// every in-scope caller (transitively, up to depth) satisfies it: a helper extracted from a role function belongs to
// that role.
func withinRole(c *core.Ctx, fn *ssa.Function, ok func(*ssa.Function) bool, depth int) bool {
	if ok(fn) {
		return true
	}
	if depth == 0 || fn.Parent() != nil {
		if fn.Parent() != nil && depth > 0 {
			return withinRole(c, fn.Parent(), ok, depth-1)
		}
		return false
	}
	if fn.Object() == nil || (fn.Object().Exported() && pureForwarder(fn) == nil) {
		return false
	}
	callers := c.Callers(fn)
	if uses := c.FuncValueUses(fn); len(uses) != 0 {
		// an entry of a package-level dispatch table: whoever reads the table can run it
		var inInit []ssa.Instruction
		for _, u := range uses {
			if g := u.Parent(); g != nil && g.Name() == "init" && g.Signature.Recv() == nil && g.Pkg == fn.Pkg {
				inInit = append(inInit, u)
			} else if g != nil && g.Pkg == fn.Pkg && g != fn {
				callers = append(callers, g) // a dispatcher of the package that hands the function out: it runs for whoever calls the dispatcher
			} else {
				return false
			}
		}
		if len(inInit) > 0 {
			readers, ok := tableReaders(c, fn, inInit)
			if !ok {
				return false
			}
			callers = append(callers, readers...)
		}
	}
	// ... or a method handed out as a method value: it runs for whoever obtains the value from the function that binds it
	if fn.Signature.Recv() != nil {
		for _, g := range c.Scope {
			if g.Pkg != fn.Pkg {
				continue
			}
			for _, b := range g.Blocks {
				for _, in := range b.Instrs {
					if mc, isMC := in.(*ssa.MakeClosure); isMC {
						if w, isFn := mc.Fn.(*ssa.Function); isFn && w != fn && resolveWrapper(w) == fn {
							callers = append(callers, g)
						}
					}
				}
			}
		}
	}
	if len(callers) == 0 {
		return false
	}
	for _, caller := range callers {
		if caller == fn {
			continue
		}
		if !withinRole(c, caller, ok, depth-1) {
			return false
		}
	}
	return true
}

// tableReaders: every use of fn as a value happens in its package's initializer and ends up in package-level
// variables (a map, slice or struct of functions built once); the result lists the functions that read those variables.
func tableReaders(c *core.Ctx, fn *ssa.Function, uses []ssa.Instruction) ([]*ssa.Function, bool) {
	var init *ssa.Function
	for _, u := range uses {
		p := u.Parent()
		if p == nil || p.Name() != "init" || p.Signature.Recv() != nil || p.Pkg != fn.Pkg {
			return nil, false
		}
		init = p
	}
	// forward taint inside the initializer, from the function value to the globals it is stored into
	tainted := map[ssa.Value]bool{}
	base := func(v ssa.Value) ssa.Value {
		for i := 0; i < 8; i++ {
			switch x := v.(type) {
			case *ssa.FieldAddr:
				v = x.X
			case *ssa.IndexAddr:
				v = x.X
			default:
				return v
			}
		}
		return v
	}
	isFn := func(v ssa.Value) bool {
		for i := 0; i < 4 && v != nil; i++ {
			if f, ok := v.(*ssa.Function); ok {
				if o := f.Origin(); o != nil {
					f = o
				}
				return f == fn
			}
			switch x := v.(type) {
			case *ssa.ChangeType:
				v = x.X
			case *ssa.MakeInterface:
				v = x.X
			case *ssa.MakeClosure:
				v = x.Fn
			default:
				return false
			}
		}
		return false
	}
	globals := map[*ssa.Global]bool{}
	for changed, rounds := true, 0; changed && rounds < 8; rounds++ {
		changed = false
		mark := func(v ssa.Value) {
			if v != nil && !tainted[v] {
				tainted[v] = true
				changed = true
			}
		}
		for _, b := range init.Blocks {
			for _, in := range b.Instrs {
				switch x := in.(type) {
				case *ssa.MapUpdate:
					if isFn(x.Value) || tainted[x.Value] {
						mark(x.Map)
					}
				case *ssa.Store:
					if isFn(x.Val) || tainted[x.Val] {
						if g, ok := x.Addr.(*ssa.Global); ok {
							if !globals[g] {
								globals[g] = true
								changed = true
							}
						} else {
							mark(base(x.Addr))
						}
					}
				case *ssa.Slice:
					if tainted[x.X] {
						mark(x)
					}
				case *ssa.ChangeType:
					if tainted[x.X] {
						mark(x)
					}
				case *ssa.MakeInterface:
					if tainted[x.X] {
						mark(x)
					}
				case *ssa.UnOp:
					if tainted[x.X] {
						mark(x)
					}
				}
			}
		}
	}
	if len(globals) == 0 {
		return nil, false
	}
	var readers []*ssa.Function
	seen := map[*ssa.Function]bool{}
	for _, f := range c.Scope {
		if f == init {
			continue
		}
		for _, b := range f.Blocks {
			for _, in := range b.Instrs {
				var ops []*ssa.Value
				for _, op := range in.Operands(ops) {
					if g, ok := (*op).(*ssa.Global); ok && globals[g] && !seen[f] {
						seen[f] = true
						readers = append(readers, f)
					}
				}
			}
		}
	}
	return readers, len(readers) > 0
}

// pureForwarder: fn does nothing but hand its own parameters, in order, to one static callee of the module (a same-named
// method of the object behind a facade, a function it was extracted into) and return what that returns; the helpers
// it uses to get at the receiver are single-block functions without calls.  Returns the callee, or nil.
func pureForwarder(fn *ssa.Function) *ssa.Function {
	if fn == nil || len(fn.Blocks) != 1 || fn.Parent() != nil {
		return nil
	}
	var fwd *ssa.Call
	for _, ci := range core.Calls(fn) {
		if core.IsLogCall(ci.Common()) {
			continue
		}
		call, ok := ci.(*ssa.Call)
		if !ok {
			return nil
		}
		cal := call.Common().StaticCallee()
		if cal == nil {
			return nil
		}
		if len(cal.Blocks) == 1 && len(core.Calls(cal)) == 0 && len(cal.Params) <= 1 && fwd == nil {
			continue // gets at the object behind the facade
		}
		if fwd != nil {
			return nil
		}
		fwd = call
	}
	if fwd == nil {
		return nil
	}
	cal := fwd.Common().StaticCallee()
	args := fwd.Common().Args
	// the facade's own parameters (after the receiver), in order, are the callee's last arguments
	own := fn.Params
	if fn.Signature.Recv() != nil {
		own = own[1:]
	}
	if len(args) < len(own) {
		return nil
	}
	tail := args[len(args)-len(own):]
	for i, a := range tail {
		if core.Norm(a) != ssa.Value(own[i]) {
			return nil
		}
	}
	ret, ok := fn.Blocks[0].Instrs[len(fn.Blocks[0].Instrs)-1].(*ssa.Return)
	if !ok {
		return nil
	}
	for i, rv := range ret.Results {
		switch x := rv.(type) {
		case *ssa.Extract:
			if x.Tuple != ssa.Value(fwd) || x.Index != i {
				return nil
			}
		default:
			if rv != ssa.Value(fwd) {
				return nil
			}
		}
	}
	if o := cal.Origin(); o != nil {
		cal = o
	}
	return cal
}

// implementorsBehindFacades: the implementations of an interface of the module, without those that are only a facade -
// a type every interface method of which forwards to the same-named method of another implementation.
func implementorsBehindFacades(c *core.Ctx, pkg, name string) []*types.Named {
	iface := c.Iface(pkg, name)
	all := c.Implementors(iface)
	if iface == nil || len(all) < 2 {
		return all
	}
	isImpl := func(n *types.Named) bool {
		for _, x := range all {
			if x == n {
				return true
			}
		}
		return false
	}
	var out []*types.Named
	for _, T := range all {
		facade := iface.NumMethods() > 0
		for i := 0; i < iface.NumMethods() && facade; i++ {
			fn := c.DeclaredMethod(T, iface.Method(i).Name())
			cal := pureForwarder(fn)
			if cal == nil || cal.Signature.Recv() == nil || cal.Name() != iface.Method(i).Name() {
				facade = false
				break
			}
			u := core.NamedOf(cal.Signature.Recv().Type())
			if u == nil || u == T || !isImpl(u) {
				facade = false
			}
		}
		if !facade {
			out = append(out, T)
		}
	}
	if len(out) == 0 {
		return all
	}
	return out
}
