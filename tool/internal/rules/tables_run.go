package rules

import (
	"fmt"
	"go/types"
	"os"
	"sort"
	"strings"
	"sync"

	"golang.org/x/tools/go/ssa"

	"iocvet/internal/absint"
	"iocvet/internal/core"
)

// seam resolves invokes through internal seams.
var seam = core.Seam

// reachCut: functions that reach analysis does not enter as callees (the cache accessor: creation re-enters through
// it, which would make every routine of the creation path reach everything).  Set per query by lowestReaching.
var reachCut = map[*ssa.Function]bool{}
var reachCutMu sync.Mutex

// reachInfo: calls = executing fn can execute a call matching the predicate; makes = fn creates (or obtains from a
// callee) function values whose execution can.
// dyn: the function, or one it calls, calls a function value
type reachInfo struct{ calls, makes, dyn bool }

func resolveWrapper(fn *ssa.Function) *ssa.Function {
	if fn != nil && strings.HasPrefix(fn.Synthetic, "bound method wrapper") {
		if m, ok := fn.Object().(*types.Func); ok && fn.Prog != nil {
			return fn.Prog.FuncValue(m)
		}
	}
	return fn
}

// reachNode is one function's local facts for the reach fixpoint.
type reachNode struct {
	direct     bool
	hasDynamic bool
	callees    []*ssa.Function // executed by fn (static callees in package, seams, immediately called literals)
	values     []*ssa.Function // function / method values fn creates
}

func reachLocal(fn *ssa.Function, pred func(*ssa.CallCommon) bool) *reachNode {
	n := &reachNode{}
	pkg := core.PkgOf(fn)
	if pkg == nil && fn.Object() != nil && fn.Object().Pkg() != nil && fn.Prog != nil {
		pkg = fn.Prog.Package(fn.Object().Pkg())
	}
	inPkg := func(g *ssa.Function) bool {
		return g != nil && g.Blocks != nil && (core.PartOf(core.PkgOf(g), pkg) || g.Synthetic != "")
	}
	for _, b := range fn.Blocks {
		for _, in := range b.Instrs {
			var calleeVal ssa.Value
			if ci, ok := in.(ssa.CallInstruction); ok {
				com := ci.Common()
				if pred(com) {
					n.direct = true
				}
				calleeVal = com.Value
				var g *ssa.Function
				switch v := com.Value.(type) {
				case *ssa.Function:
					g = v
				case *ssa.MakeClosure:
					g, _ = v.Fn.(*ssa.Function)
				}
				if com.IsInvoke() {
					g = seam(com)
					calleeVal = nil
					if g == nil {
						for _, h := range core.SeamAll(com) {
							if h = resolveWrapper(h); inPkg(h) && !reachCut[h] {
								n.callees = append(n.callees, h)
							}
						}
					}
				} else if g == nil {
					if _, isB := com.Value.(*ssa.Builtin); !isB {
						n.hasDynamic = true
					}
				}
				if g = resolveWrapper(g); inPkg(g) && !reachCut[g] {
					n.callees = append(n.callees, g)
				}
				for _, a := range com.Args {
					if _, isSig := a.Type().Underlying().(*types.Signature); isSig {
						n.hasDynamic = true // a function value handed to a callee may be called there
					}
				}
			}
			var ops []*ssa.Value
			for _, op := range in.Operands(ops) {
				if *op == nil || *op == calleeVal {
					continue
				}
				var g *ssa.Function
				switch v := (*op).(type) {
				case *ssa.Function:
					g = v
				case *ssa.MakeClosure:
					g, _ = v.Fn.(*ssa.Function)
				}
				if g = resolveWrapper(g); inPkg(g) {
					n.values = append(n.values, g)
				}
				if gl, isGlobal := (*op).(*ssa.Global); isGlobal && gl.Pkg != nil && core.PartOf(gl.Pkg, pkg) {
					// a package-level table of functions built once by the initializer: reading it obtains its entries
					for _, h := range globalFuncs(gl) {
						if h = resolveWrapper(h); inPkg(h) {
							n.values = append(n.values, h)
						}
					}
				}
			}
			if mc, ok := in.(*ssa.MakeClosure); ok {
				if g, _ := mc.Fn.(*ssa.Function); inPkg(resolveWrapper(g)) {
					n.values = append(n.values, resolveWrapper(g))
				}
			}
			if mi, ok := in.(*ssa.MakeInterface); ok {
				if _, isSig := mi.X.Type().Underlying().(*types.Signature); isSig {
					n.hasDynamic = true // a function value boxed into an interface is handed to whoever calls its method
				}
			}
		}
	}
	return n
}

// reachOf computes the reach of fn by a fixpoint over the functions it can run or make (recursion-safe).
func reachOf(fn *ssa.Function, pred func(*ssa.CallCommon) bool, memo map[*ssa.Function]*reachInfo) reachInfo {
	fn = resolveWrapper(fn)
	if fn == nil || fn.Blocks == nil {
		return reachInfo{}
	}
	if ri, ok := memo[fn]; ok {
		return *ri
	}
	nodes := map[*ssa.Function]*reachNode{}
	var order []*ssa.Function
	var collect func(f *ssa.Function)
	collect = func(f *ssa.Function) {
		if f == nil || nodes[f] != nil {
			return
		}
		if _, done := memo[f]; done {
			return
		}
		nodes[f] = reachLocal(f, pred)
		order = append(order, f)
		for _, g := range nodes[f].callees {
			collect(g)
		}
		for _, g := range nodes[f].values {
			collect(g)
		}
	}
	collect(fn)
	cur := map[*ssa.Function]*reachInfo{}
	get := func(f *ssa.Function) reachInfo {
		if ri, ok := memo[f]; ok {
			return *ri
		}
		if ri, ok := cur[f]; ok {
			return *ri
		}
		return reachInfo{}
	}
	for _, f := range order {
		cur[f] = &reachInfo{calls: nodes[f].direct}
	}
	for changed := true; changed; {
		changed = false
		for _, f := range order {
			n, ri := nodes[f], cur[f]
			calls, makes, dyn := ri.calls, ri.makes, ri.dyn || n.hasDynamic
			for _, g := range n.callees {
				x := get(g)
				calls = calls || x.calls
				makes = makes || x.makes
				dyn = dyn || x.dyn
			}
			for _, g := range n.values {
				x := get(g)
				if x.calls || x.makes {
					makes = true
				}
			}
			if dyn && makes {
				// (also when the value is made here and called by a callee it is handed to, or that finds it where
				// it was put: a table of steps walked by a helper)
				calls = true
			}
			if calls != ri.calls || makes != ri.makes || dyn != ri.dyn {
				ri.calls, ri.makes, ri.dyn = calls, makes, dyn
				changed = true
			}
		}
	}
	for f, ri := range cur {
		memo[f] = ri
	}
	return *memo[fn]
}

// reachesCall: executing fn can execute a call matching pred (through static callees of its own package, internal
// seams, and function / method values it creates or obtains and then calls or hands on). seen collects the functions
// looked at.
func reachesCall(fn *ssa.Function, pred func(*ssa.CallCommon) bool, seen map[*ssa.Function]bool) bool {
	memo := map[*ssa.Function]*reachInfo{}
	ri := reachOf(fn, pred, memo)
	for f := range memo {
		seen[f] = true
	}
	return ri.calls
}

// lowestReaching returns the in-scope functions of package pkgRel that reach calls matching every predicate while
// none of the functions they call (or whose function values they run) does: the smallest subject that contains the
// whole protocol.
func lowestReaching(c *core.Ctx, pkgRel string, preds ...func(*ssa.CallCommon) bool) []*ssa.Function {
	reachCutMu.Lock()
	defer reachCutMu.Unlock()
	reachCut = map[*ssa.Function]bool{}
	for _, a := range c.Roles().CacheAccessors() {
		reachCut[a] = true
	}
	defer func() { reachCut = map[*ssa.Function]bool{} }()
	memos := make([]map[*ssa.Function]*reachInfo, len(preds))
	for i := range memos {
		memos[i] = map[*ssa.Function]*reachInfo{}
	}
	all := func(f *ssa.Function) bool {
		for i, p := range preds {
			if !reachOf(f, p, memos[i]).calls {
				return false
			}
		}
		return true
	}
	var out []*ssa.Function
	for _, fn := range c.Scope {
		p := core.PkgOf(fn)
		if p == nil || p.Pkg.Path() != core.Mod+"/"+pkgRel || fn.Synthetic != "" || fn.Parent() != nil {
			continue
		}
		if !all(fn) {
			continue
		}
		lower := false
		for _, body := range core.WithAnon(fn) {
			for _, b := range body.Blocks {
				for _, in := range b.Instrs {
					if ci, ok := in.(ssa.CallInstruction); ok {
						if g := seam(ci.Common()); g != nil && g != fn && !reachCut[g] && all(g) {
							lower = true
						}
						for _, g := range core.SeamAll(ci.Common()) {
							if g != fn && !reachCut[g] && all(g) {
								lower = true
							}
						}
					}
					var ops []*ssa.Value
					for _, op := range in.Operands(ops) {
						if *op == nil {
							continue
						}
						var g *ssa.Function
						switch v := (*op).(type) {
						case *ssa.Function:
							g = v
						case *ssa.MakeClosure:
							g, _ = v.Fn.(*ssa.Function)
						}
						g = resolveWrapper(g)
						if g != nil && g != fn && !reachCut[g] && (core.PartOf(core.PkgOf(g), p) || g.Synthetic != "") && core.TopLevel(g) != fn && all(g) {
							lower = true
						}
					}
				}
			}
		}
		if !lower {
			out = append(out, fn)
		}
	}
	return out
}

// reversingSorter is the ordering helper as an oracle: it returns fresh "sorted:" tokens in reverse order, so that
// code iterating the unsorted input (or iterating backwards) is told apart from code iterating the helper's result.
func reversingSorter(trace *[]string) func(ip *absint.Interp, a []absint.Value) absint.Value {
	return func(ip *absint.Interp, a []absint.Value) absint.Value {
		in, ok := a[0].(*absint.List)
		if !ok {
			if _, isNil := a[0].(absint.Nil); isNil {
				in = &absint.List{IsNil: true}
			} else {
				panic(&absint.Undecided{Msg: "ordering helper applied to an unmodelled value"})
			}
		}
		out := &absint.List{}
		for i := len(in.Elems) - 1; i >= 0; i-- {
			e, isTok := in.Elems[i].(*absint.Tok)
			if !isTok {
				panic(&absint.Undecided{Msg: "ordering helper applied to an unmodelled element"})
			}
			cls := e.Class
			out.Elems = append(out.Elems, absint.NewTok("sorted:"+e.ID, cls))
		}
		*trace = append(*trace, "sort("+absint.Show(in)+")")
		return out
	}
}

var runRows = map[string]string{
	"phases":      "configuration, factory preparation, refresh and the runner phase happen in this order, each exactly once, each only after everything before it succeeded",
	"runners":     "every runner of the collection field is invoked exactly once, synchronously, in the order the ordering helper returned",
	"first-error": "the first failing phase or runner ends the start: nothing is invoked after it and the result is a non-nil error",
	"success":     "the result is nil exactly when every phase and every runner succeeded",
}

// appRunTable interprets the start routine (the smallest function of package app that contains refresh and the
// runner invocations, with its helpers, literals and method values) on runner lists of length 0..maxLen with every
// combination of phase / runner outcomes.
func appRunTable(c *core.Ctx, runFn *ssa.Function, runnersField string, maxLen int) (rs rows, runs int, undecided string) {
	ro := c.Roles()
	rs = rows{}
	cfgInit := c.IfaceMethod("configure", "Configure", "Initialize")
	// twice: with the ordering helper as an oracle (what the routine does with the helper's answer), and - on
	// runners that take no part in the ordering contract - with the helper itself interpreted (what the routine and
	// the helper do to each other's slices: the answer may be the very slice that was handed in)
	for _, realSorter := range []bool{false, true} {
		nMax := maxLen
		if realSorter {
			nMax = maxLen + 1
			if nMax < 3 {
				nMax = 3
			}
		}
		for n := 0; n <= nMax; n++ {
			if realSorter && n < 2 {
				continue
			}
			var trace []string
			var stopped, wantErr, phaseFailed bool
			var after []string
			build := func() (absint.Oracle, []absint.Value, []absint.Value) {
				trace, stopped, wantErr, phaseFailed, after = nil, false, false, false, nil
				t := newTbl(c)
				app := absint.NewTok("app", "app")
				rl := &absint.List{}
				for i := 1; i <= n; i++ {
					rl.Elems = append(rl.Elems, absint.NewTok(fmt.Sprintf("R%d", i), "runner"))
				}
				app.Fields[runnersField] = rl
				collab := map[string]*absint.Tok{}
				t.field = func(ip *absint.Interp, obj *absint.Tok, name string, typ types.Type) absint.Value {
					if obj == app && types.IsInterface(typ) {
						if collab[name] == nil {
							collab[name] = absint.NewTok("app."+name, "collaborator")
						}
						return collab[name]
					}
					return nil
				}
				event := func(name string) func(ip *absint.Interp, a []absint.Value) absint.Value {
					return func(ip *absint.Interp, a []absint.Value) absint.Value {
						e := name
						if name == "run" {
							e = "run(" + absint.Show(a[0]) + ")"
						}
						if stopped {
							after = append(after, e)
						}
						trace = append(trace, e)
						if ip.Choose(2, e+" outcome") == 1 {
							if !stopped && name != "run" {
								phaseFailed = true
							}
							stopped, wantErr = true, true
							trace = append(trace, "!")
							return t.newErr(name)
						}
						return absint.Nil{}
					}
				}
				if cfgInit != nil {
					t.invoke[cfgInit] = event("config")
				}
				t.invoke[ro.FPrepare] = event("prepare")
				t.invoke[ro.FRefresh] = event("refresh")
				t.invoke[ro.RunnerRun] = event("run")
				if ro.Sorter != nil && !realSorter {
					var sorts []string
					srt := reversingSorter(&sorts)
					t.callee[ro.Sorter] = func(ip *absint.Interp, a []absint.Value) absint.Value {
						trace = append(trace, "sort")
						return srt(ip, a)
					}
				}
				if realSorter {
					t.typeTest = func(v absint.Value, T types.Type) (bool, bool) {
						if tok, ok := v.(*absint.Tok); ok && tok.Class == "runner" && types.IsInterface(T) {
							if ar := c.Named("definition", "ApplicationRunner"); ar != nil && types.Identical(T, ar) {
								return true, true
							}
							return false, true // a runner that is nothing but a runner
						}
						return false, false
					}
				}
				return t, []absint.Value{receiverFor(runFn, c.Named("app", "App"), app)}, nil
			}
			check := func(ip *absint.Interp, out absint.Outcome) {
				w := fmt.Sprintf("%d runner(s): trace=%v => %s", n, trace, showOutcome(out))
				if out.Panic != nil {
					rs.fail("first-error", "PANIC "+w)
					return
				}
				isErr := len(out.Ret) == 1 && isErrTok(out.Ret[0])
				var ev []string
				for _, e := range trace {
					if e != "sort" && e != "!" {
						ev = append(ev, e)
					}
				}
				// expected prefix
				want := []string{"config", "prepare", "refresh"}
				for i := n; i >= 1 && !realSorter; i-- {
					want = append(want, fmt.Sprintf("run(sorted:R%d)", i))
				}
				for i := 1; i <= n && realSorter; i++ {
					want = append(want, fmt.Sprintf("run(R%d)", i)) // outside the contract: registration order
				}
				rs.hit("phases")
				okPrefix := len(ev) <= len(want)
				for i := 0; okPrefix && i < len(ev); i++ {
					okPrefix = ev[i] == want[i]
				}
				if !okPrefix {
					row := "phases"
					for _, e := range ev {
						if strings.HasPrefix(e, "run(") && len(ev) >= 3 && ev[0] == "config" && ev[1] == "prepare" && ev[2] == "refresh" {
							row = "runners"
						}
					}
					rs.hit(row)
					rs.fail(row, w+fmt.Sprintf(" expected a prefix of %v", want))
					return
				}
				rs.hit("runners")
				if !wantErr && len(ev) != len(want) {
					row := "runners"
					if len(ev) < 3 {
						row = "phases"
					}
					rs.fail(row, w+fmt.Sprintf(" expected %v", want))
				}
				rs.hit("first-error")
				if len(after) != 0 {
					if phaseFailed {
						rs.fail("phases", w+fmt.Sprintf(" invoked after the failed phase: %v", after))
					} else {
						rs.fail("first-error", w+fmt.Sprintf(" invoked after the failure: %v", after))
					}
				}
				rs.hit("success")
				if isErr != wantErr {
					if phaseFailed {
						rs.fail("phases", w+" a failed phase did not make the start fail")
					} else {
						rs.fail("success", w)
					}
				}
			}
			m, u := runTable(c, runFn, build, check)
			runs += m
			if u != "" {
				if realSorter {
					if os.Getenv("IOCVET_DEBUG") != "" {
						fmt.Fprintln(os.Stderr, "REAL-SORTER variant undecided:", u)
					}
					break // the helper itself is decided by the sorter table; only its interplay is lost here
				}
				return rs, runs, u
			}
		}
	}
	return
}

// sliceFieldOf returns the name of the field of struct type T whose type is []elem.
func sliceFieldOf(T *types.Named, elem types.Type) string {
	st, ok := T.Underlying().(*types.Struct)
	if !ok {
		return ""
	}
	for i := 0; i < st.NumFields(); i++ {
		if sl, ok := st.Field(i).Type().(*types.Slice); ok && types.Identical(sl.Elem(), elem) {
			return st.Field(i).Name()
		}
	}
	return ""
}

var globalFuncsMemo sync.Map // *ssa.Package -> map[*ssa.Global][]*ssa.Function

// globalFuncs: the function values the package initializer stores (directly or inside composite literals) into g.
func globalFuncs(g *ssa.Global) []*ssa.Function {
	if g.Pkg == nil {
		return nil
	}
	if m, ok := globalFuncsMemo.Load(g.Pkg); ok {
		return m.(map[*ssa.Global][]*ssa.Function)[g]
	}
	out := map[*ssa.Global][]*ssa.Function{}
	init := g.Pkg.Func("init")
	if init != nil {
		contents := map[ssa.Value]map[*ssa.Function]bool{}
		root := func(v ssa.Value) ssa.Value {
			for i := 0; i < 10; i++ {
				switch x := v.(type) {
				case *ssa.IndexAddr:
					v = x.X
				case *ssa.FieldAddr:
					v = x.X
				case *ssa.Slice:
					v = x.X
				case *ssa.MakeInterface:
					v = x.X
				case *ssa.ChangeType:
					v = x.X
				case *ssa.Convert:
					v = x.X
				case *ssa.UnOp:
					v = x.X
				default:
					return v
				}
			}
			return v
		}
		add := func(dst ssa.Value, fs ...*ssa.Function) bool {
			ch := false
			if contents[dst] == nil {
				contents[dst] = map[*ssa.Function]bool{}
			}
			for _, f := range fs {
				if f != nil && !contents[dst][f] {
					contents[dst][f], ch = true, true
				}
			}
			return ch
		}
		for changed, n := true, 0; changed && n < 8; n++ {
			changed = false
			for _, b := range init.Blocks {
				for _, in := range b.Instrs {
					var dst, val ssa.Value
					switch x := in.(type) {
					case *ssa.Store:
						dst, val = root(x.Addr), x.Val
					case *ssa.MapUpdate:
						dst, val = root(x.Map), x.Value
					default:
						continue
					}
					switch v := val.(type) {
					case *ssa.Function:
						changed = add(dst, v) || changed
					case *ssa.MakeClosure:
						f, _ := v.Fn.(*ssa.Function)
						changed = add(dst, f) || changed
					default:
						switch rv := root(val).(type) {
						case *ssa.Function:
							changed = add(dst, rv) || changed // converted to a named function type / boxed into an interface
						case *ssa.MakeClosure:
							f, _ := rv.Fn.(*ssa.Function)
							changed = add(dst, f) || changed
						}
						for f := range contents[root(val)] {
							changed = add(dst, f) || changed
						}
					}
				}
			}
		}
		for v, fs := range contents {
			if gl, ok := v.(*ssa.Global); ok {
				for f := range fs {
					out[gl] = append(out[gl], f)
				}
				sort.Slice(out[gl], func(i, j int) bool { return out[gl][i].Pos() < out[gl][j].Pos() })
			}
		}
	}
	globalFuncsMemo.Store(g.Pkg, out)
	return out[g]
}

// receiverFor: the receiver to call fn with when the table's object is a T: the object itself, or - when fn is a
// method of a wrapper that embeds or holds the T (a run context made per call) - such a wrapper around it.
func receiverFor(fn *ssa.Function, T *types.Named, obj *absint.Tok) absint.Value {
	owner := ownerOf(fn)
	if owner == nil || T == nil || owner == T {
		return obj
	}
	st := core.StructOf(owner)
	if st == nil {
		return obj
	}
	for i := 0; i < st.NumFields(); i++ {
		if core.NamedOf(derefType(st.Field(i).Type())) == T {
			w := absint.NewTok("wrapper("+obj.ID+")", "wrapper")
			w.Attr["zeroed"] = absint.Bool(true)
			w.Fields[st.Field(i).Name()] = obj
			return w
		}
	}
	return obj
}

// runWiringRules: App.Run applies the caller's options before it hands the registry and the configuration to the
// factory, and what it hands over is what the App holds then: an option that replaces the configuration (or the
// registry, or the factory) reaches the factory the components are created by.  Interpreted on an App whose three
// parts are tokens and three options that replace them; everything outside package app is an opaque event.
func runWiringRules(c *core.Ctx, r *core.Report, rule string) {
	appT := c.Named("app", "App")
	run := c.DeclaredMethod(appT, "Run")
	setCfg := c.IfaceMethod("container", "Factory", "SetConfigure")
	setReg := c.IfaceMethod("container", "Factory", "SetRegistry")
	if appT == nil || run == nil || setCfg == nil || setReg == nil || len(run.Params) != 2 {
		r.Undecided(rule, "role:App.Run", "", "(*App).Run(ops ...SettingOption) / Factory.SetConfigure / SetRegistry not found")
		return
	}
	bad := ""
	runs := 0
	for _, which := range []string{"none", "configure", "registry", "factory", "all"} {
		var events []string
		var app *absint.Tok
		build := func() (absint.Oracle, []absint.Value, []absint.Value) {
			events = nil
			t := newTbl(c)
			app = absint.NewTok("app", "app")
			app.Fields["Configure"], app.Fields["registry"], app.Fields["Factory"] = absint.NewTok("cfg0", "configure"), absint.NewTok("reg0", "registry"), absint.NewTok("fac0", "factory")
			// nothing was wired: no runners, no closers
			t.field = func(ip *absint.Interp, obj *absint.Tok, name string, typ types.Type) absint.Value {
				if _, isSl := typ.Underlying().(*types.Slice); isSl && obj == app {
					return &absint.List{IsNil: true}
				}
				return nil
			}
			// functions of other packages are opaque
			seen := map[*ssa.Function]bool{}
			var walk func(fn *ssa.Function)
			walk = func(fn *ssa.Function) {
				if seen[fn] || fn.Blocks == nil {
					return
				}
				seen[fn] = true
				for _, g := range core.WithAnon(fn) {
					for _, ci := range core.Calls(g) {
						cal := ci.Common().StaticCallee()
						if cal == nil || !c.InScope(cal) {
							continue
						}
						if core.PkgOf(cal) != nil && core.PartOf(core.PkgOf(cal), core.PkgOf(run)) {
							walk(cal)
							continue
						}
						calF := cal
						t.callee[cal] = func(ip *absint.Interp, a []absint.Value) absint.Value {
							return absint.NewTok(core.FnName(calF)+"()", "opaque")
						}
					}
				}
			}
			walk(run)
			t.invoke[setCfg] = func(ip *absint.Interp, a []absint.Value) absint.Value {
				events = append(events, "SetConfigure("+absint.Show(a[0])+","+absint.Show(a[1])+")")
				return nil
			}
			t.invoke[setReg] = func(ip *absint.Interp, a []absint.Value) absint.Value {
				events = append(events, "SetRegistry("+absint.Show(a[0])+","+absint.Show(a[1])+")")
				return nil
			}
			// everything else asked of the parts succeeds and does nothing
			for _, n := range []string{"Initialize", "PrepareComponents", "Refresh", "RegisterSingleton", "AddLoaders", "SetLoaders", "SetBinder"} {
				t.invokeN[n] = func(ip *absint.Interp, a []absint.Value) absint.Value { return absint.Nil{} }
			}
			t.dynamic = func(ip *absint.Interp, fn absint.Value, a []absint.Value) (absint.Value, bool) {
				o, ok := fn.(*absint.Tok)
				if !ok || o.Class != "option" || len(a) != 1 || a[0] != absint.Value(app) {
					return nil, false
				}
				switch o.ID {
				case "opt-configure":
					app.Fields["Configure"] = absint.NewTok("cfg1", "configure")
				case "opt-registry":
					app.Fields["registry"] = absint.NewTok("reg1", "registry")
				case "opt-factory":
					app.Fields["Factory"] = absint.NewTok("fac1", "factory")
				}
				return nil, true
			}
			t.global = func(g *ssa.Global) absint.Value {
				if _, isSl := g.Type().Underlying().(*types.Pointer).Elem().Underlying().(*types.Slice); isSl {
					return &absint.List{IsNil: true}
				}
				return nil
			}
			ops := &absint.List{}
			for _, k := range []string{"configure", "registry", "factory"} {
				if which == k || which == "all" {
					ops.Elems = append(ops.Elems, absint.NewTok("opt-"+k, "option"))
				}
			}
			ops.IsNil = len(ops.Elems) == 0
			return t, []absint.Value{app, ops}, nil
		}
		check := func(ip *absint.Interp, out absint.Outcome) {
			want := func(k, zero, one string) string {
				if which == k || which == "all" {
					return one
				}
				return zero
			}
			fac := want("factory", "fac0", "fac1")
			lastCfg, lastReg := "", ""
			for _, e := range events {
				if strings.HasPrefix(e, "SetConfigure("+fac+",") {
					lastCfg = e
				}
				if strings.HasPrefix(e, "SetRegistry("+fac+",") {
					lastReg = e
				}
			}
			wc := "SetConfigure(" + fac + "," + want("configure", "cfg0", "cfg1") + ")"
			wr := "SetRegistry(" + fac + "," + want("registry", "reg0", "reg1") + ")"
			if out.Panic != nil || lastCfg != wc || lastReg != wr {
				bad = fmt.Sprintf("options replacing %s: the factory is last given %q and %q, want %q and %q (events %v => %s)", which, lastCfg, lastReg, wc, wr, events, showOutcome(out))
			}
		}
		n, u := runTable(c, run, build, check)
		runs += n
		if u != "" {
			bad = "left the model: " + u
		}
	}
	r.Check(bad == "", rule, "run-wiring@"+core.FnName(run), c.FnPos(run), fmt.Sprintf("App.Run hands the factory the registry and the configuration the App holds after the caller's options were applied (%d abstract runs) %s", runs, bad))
}
