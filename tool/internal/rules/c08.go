package rules

import (
	"fmt"
	"go/token"
	"go/types"
	"runtime"
	"sort"
	"strings"
	"sync"

	"golang.org/x/tools/go/ssa"

	"iocvet/internal/absint"
	"iocvet/internal/core"
)

func init() { register("C08", c08) }

// narrowingFn: the function the further-matching processor calls with (property, candidates).
func narrowingFn(c *core.Ctx, ps []*procInfo) (*ssa.Function, *ssa.Call, *procInfo) {
	prop := c.Named("component_definition", "Property")
	meta := c.Named("component_definition", "Meta")
	for _, p := range withRole(ps, "further", true) {
		var sites []ssa.CallInstruction
		for _, f := range p.Body { // the method first, then the helpers it is split into
			sites = append(sites, core.Calls(f)...)
		}
		for _, ci := range sites {
			call, ok := ci.(*ssa.Call)
			if !ok {
				continue
			}
			cal := call.Common().StaticCallee()
			if cal == nil || !c.InScope(cal) || cal.Signature.Results().Len() != 2 || !core.PartOf(core.PkgOf(cal), core.PkgOf(p.Props)) {
				continue
			}
			// (property [, candidates]) -> (candidates, error), as a function or as a method of the processor
			if sl, isSl := cal.Signature.Results().At(0).Type().Underlying().(*types.Slice); !isSl || core.NamedOf(sl.Elem()) != meta {
				continue
			}
			if !types.Identical(cal.Signature.Results().At(1).Type(), core.ErrType) {
				continue
			}
			hasProp := false
			for _, pa := range cal.Params {
				if core.NamedOf(pa.Type()) == prop {
					hasProp = true
				}
			}
			if hasProp {
				return cal, call, p
			}
		}
	}
	return nil, nil, nil
}

// narrowArgs lays the abstract property and candidate list out in the narrowing function's parameter order; the
// candidate list is also the property's Injects (a narrowing that reads it from the property sees the same list).
func narrowArgs(c *core.Ctx, fn *ssa.Function, n *absint.Tok, in *absint.List) []absint.Value {
	prop := c.Named("component_definition", "Property")
	n.Fields["Injects"] = in
	var args []absint.Value
	for i, pa := range fn.Params {
		switch {
		case core.NamedOf(pa.Type()) == prop:
			args = append(args, n)
		default:
			meta := c.Named("component_definition", "Meta")
			if sl, isSl := pa.Type().Underlying().(*types.Slice); isSl && (meta == nil || core.NamedOf(sl.Elem()) == meta) {
				args = append(args, in)
			} else if g := onlyGlobalArg(c, fn, i); g != nil {
				// a parameter every caller fills from one package-level variable (the list of stages): its value
				args = append(args, &absint.Lazy{Eval: func(ip *absint.Interp) absint.Value { return ip.LoadGlobal(g) }})
			} else {
				args = append(args, absint.NewTok("recv:"+pa.Name(), "processor"))
			}
		}
	}
	return args
}

// onlyGlobalArg: every in-scope call of fn passes the current value of one and the same package-level variable for
// parameter i; that variable, else nil.
func onlyGlobalArg(c *core.Ctx, fn *ssa.Function, i int) *ssa.Global {
	var g *ssa.Global
	for _, cs := range c.CallSites(func(com *ssa.CallCommon) bool { return core.IsCallTo(com, fn) }) {
		args := cs.Common().Args
		if i >= len(args) {
			return nil
		}
		ld, ok := core.Norm(args[i]).(*ssa.UnOp)
		if !ok || ld.Op != token.MUL {
			return nil
		}
		x, ok := ld.X.(*ssa.Global)
		if !ok || (g != nil && g != x) {
			return nil
		}
		g = x
	}
	if len(c.FuncValueUses(fn)) != 0 {
		return nil
	}
	return g
}

// narrowCallArgs picks the property and the candidate list out of an intercepted call of the narrowing function.
func narrowCallArgs(c *core.Ctx, fn *ssa.Function, a []absint.Value) (*absint.Tok, absint.Value) {
	prop := c.Named("component_definition", "Property")
	var pr *absint.Tok
	var lst absint.Value
	for i, pa := range fn.Params {
		if i >= len(a) {
			break
		}
		if core.NamedOf(pa.Type()) == prop {
			pr, _ = a[i].(*absint.Tok)
		} else if sl, isSl := pa.Type().Underlying().(*types.Slice); isSl && core.NamedOf(sl.Elem()) == c.Named("component_definition", "Meta") {
			lst = a[i]
		}
	}
	if lst == nil && pr != nil {
		lst = pr.Fields["Injects"]
	}
	return pr, lst
}

type candKind struct {
	primary, named bool
	qual           string // "q" requested, "o" other, "-" none
	self           bool
	isNil          bool
}

func (k candKind) String() string {
	if k.isNil {
		return "nil"
	}
	s := ""
	if k.primary {
		s += "P"
	}
	if k.named {
		s += "N"
	} else {
		s += "U"
	}
	s += k.qual
	if k.self {
		s += "*self"
	}
	return s
}

func candKinds() []candKind {
	var out []candKind
	for _, p := range []bool{true, false} {
		for _, n := range []bool{true, false} {
			for _, q := range []string{"q", "o", "-"} {
				for _, s := range []bool{false, true} {
					out = append(out, candKind{primary: p, named: n, qual: q, self: s})
				}
			}
		}
	}
	out = append(out, candKind{isNil: true})
	return out
}

var narrowRows = map[string]string{
	"qualifier-sound":       "with a qualifier argument every returned candidate declares a requested qualifier",
	"slice-exact":           "slice field: the result is exactly the qualifying candidates, each once",
	"single-unique-primary": "single field: a unique Primary among the qualifying candidates wins",
	"single-unique-unnamed": "single field, no Primary: a unique candidate without a custom name wins",
	"single-member":         "single field: exactly one candidate is returned and it is a qualifying one",
	"never-self":            "the holder itself is never selected",
	"nothing-qualifies":     "nothing qualifying: an error and no candidates",
	"permutation-invariant": "whenever the preference rules determine a unique winner, every ordering of the candidate list yields it",
	"no-panic":              "the narrowing never panics",
	"input-untouched":       "the candidate list handed in is left as it was (it may be shared with other points of the same type)",
}

func narrowTable(c *core.Ctx, fn *ssa.Function, maxLen int) (rows, int, string) {
	type res struct {
		rs   rows
		runs int
		und  string
	}
	key := fmt.Sprintf("narrow-table:%s:%d", fn.String(), maxLen)
	if v, ok := c.Memo.Load(key); ok {
		x := v.(res)
		return x.rs, x.runs, x.und
	}
	rs, runs, und := narrowTableUncached(c, fn, maxLen)
	c.Memo.Store(key, res{rs, runs, und})
	return rs, runs, und
}

func narrowTableUncached(c *core.Ctx, fn *ssa.Function, maxLen int) (rs rows, runs int, undecided string) {
	rs = rows{}
	prop := c.Named("component_definition", "Property")
	meta := c.Named("component_definition", "Meta")
	tagArg := c.Named("component_definition", "TagArg")
	argsM := c.DeclaredMethod(prop, "Args")
	find := c.DeclaredMethod(tagArg, "Find")
	has := c.DeclaredMethod(tagArg, "Has")
	isSelf := c.DeclaredMethod(meta, "IsSelf")
	isTypeImpl := c.Func("util/reflectx", "IsTypeImplement")
	wq := c.Named("definition", "WireQualifier")
	wp := c.Named("definition", "WirePrimary")
	wqM := c.IfaceMethod("definition", "WireQualifier", "Qualifier")
	if argsM == nil || find == nil || has == nil || wq == nil || wp == nil {
		return rs, 0, "Property.Args / TagArg.Find / TagArg.Has / WireQualifier / WirePrimary not found"
	}
	kinds := candKinds()
	var lists [][]int
	var gen func(prefix []int)
	gen = func(prefix []int) {
		lists = append(lists, append([]int(nil), prefix...))
		if len(prefix) < maxLen {
			for k := range kinds {
				gen(append(append([]int(nil), prefix...), k))
			}
		}
	}
	gen(nil)
	type outcomeKey struct {
		multiset string
		kind     int64
		withQ    bool
		req      string
	}
	winners := map[outcomeKey]map[string]bool{}
	// every (field kind, qualifier argument, candidate list) is an independent interpretation: run them on all cores,
	// serialising only the bookkeeping
	var mu sync.Mutex
	var wg sync.WaitGroup
	sem := make(chan struct{}, runtime.NumCPU())
	firstUndecided := ""
	for _, fieldKind := range []int64{23, 22} { // slice, pointer
		// the qualifier argument: absent, a named qualifier, or the bare argument (which requests the empty qualifier -
		// declared by a component whose Qualifier() answers "", not by one that declares none)
		for _, req := range []string{"q", "", "-"} {
			withQ := req != "-"
			for _, lst := range lists {
				wg.Add(1)
				sem <- struct{}{}
				go func() {
					defer wg.Done()
					defer func() { <-sem }()
					var H *absint.Tok
					var cands []*absint.Tok
					var in *absint.List
					build := func() (absint.Oracle, []absint.Value, []absint.Value) {
						t := newTbl(c)
						n := absint.NewTok("prop", "property")
						H = absint.NewTok("H", "holdermeta")
						fld := absint.NewTok("prop.Field", "field")
						base := absint.NewTok("prop.Field.Base", "base")
						hold := absint.NewTok("holder", "holder")
						typ := absint.NewTok("fieldType", "type")
						args := absint.NewTok("args", "tagargs")
						n.Fields["Field"], fld.Fields["Base"], fld.Fields["Holder"] = fld, base, hold
						base.Fields["Type"], hold.Fields["Meta"] = typ, H
						n.Fields["args"] = args
						in = &absint.List{IsNil: len(lst) == 0}
						cands = nil
						for i, ki := range lst {
							k := kinds[ki]
							if k.isNil {
								in.Elems = append(in.Elems, absint.Nil{})
								cands = append(cands, nil)
								continue
							}
							m := absint.NewTok(fmt.Sprintf("M%d:%s", i, k), "cand")
							m.Attr["kind"] = absint.Int(ki)
							raw := absint.NewTok(fmt.Sprintf("M%d.Raw", i), "raw")
							raw.Attr["qual"] = absint.Str(k.qual)
							mb := absint.NewTok(fmt.Sprintf("M%d.Base", i), "base")
							mt := absint.NewTok(fmt.Sprintf("M%d.Type", i), "type")
							mt.Attr["primary"] = absint.Bool(k.primary)
							mb.Fields["Type"] = mt
							m.Fields["Raw"], m.Fields["Base"] = raw, mb
							if k.named {
								// (a custom name may well be the very text a qualifier is requested by: the two are unrelated)
								m.Fields["alias"] = absint.Str("q")
							} else {
								m.Fields["alias"] = absint.Str("")
							}
							in.Elems = append(in.Elems, m)
							cands = append(cands, m)
						}
						t.callee[argsM] = func(ip *absint.Interp, a []absint.Value) absint.Value { return args }
						t.callee[find] = func(ip *absint.Interp, a []absint.Value) absint.Value {
							if k, ok := a[1].(absint.Str); !ok || !strings.EqualFold(string(k), "qualifier") {
								panic(&absint.Undecided{Msg: "TagArg.Find with a key other than the qualifier argument: " + absint.Show(a[1])})
							}
							if withQ {
								return absint.Tuple{&absint.List{Elems: []absint.Value{absint.Str(req)}}, absint.Bool(true)}
							}
							return absint.Tuple{&absint.List{IsNil: true}, absint.Bool(false)}
						}
						t.callee[has] = func(ip *absint.Interp, a []absint.Value) absint.Value {
							if k, ok := a[1].(absint.Str); !ok || !strings.EqualFold(string(k), "qualifier") {
								panic(&absint.Undecided{Msg: "TagArg.Has with a key other than the qualifier argument"})
							}
							wants, _ := a[2].(*absint.List)
							if !withQ {
								return absint.Bool(false)
							}
							if wants == nil || len(wants.Elems) == 0 {
								return absint.Bool(true)
							}
							for _, w := range wants.Elems {
								if w == absint.Value(absint.Str(req)) {
									return absint.Bool(true)
								}
							}
							return absint.Bool(false)
						}
						if isSelf != nil {
							t.callee[isSelf] = func(ip *absint.Interp, a []absint.Value) absint.Value {
								m, ok := a[1].(*absint.Tok)
								if !ok || a[0] != absint.Value(H) {
									panic(&absint.Undecided{Msg: "IsSelf is not asked of the holder's definition about a candidate"})
								}
								return absint.Bool(kinds[int(m.Attr["kind"].(absint.Int))].self)
							}
						}
						if isTypeImpl != nil {
							t.callee[isTypeImpl] = func(ip *absint.Interp, a []absint.Value) absint.Value {
								mt, ok := a[0].(*absint.Tok)
								if !ok || mt.Attr["primary"] == nil {
									panic(&absint.Undecided{Msg: "IsTypeImplement on something that is not a candidate's type"})
								}
								// which interface is asked about: the witness `new(I)`
								witness := types.Type(nil)
								if cell, isCell := a[1].(*absint.Cell); isCell && cell.Elem != nil {
									witness = cell.Elem
								} else if gt := goTypeOf(a[1]); gt != nil {
									if pt, isPtr := gt.Underlying().(*types.Pointer); isPtr {
										witness = pt.Elem()
									}
								}
								if witness != nil && !types.Identical(witness, wp) {
									cell := struct{ Elem types.Type }{witness}
									// any other capability of the candidate's type: both answers are possible
									key := "cap:" + cell.Elem.String()
									if mt.Attr[key] == nil {
										mt.Attr[key] = absint.Bool(ip.Choose(2, mt.ID+" implements "+cell.Elem.String()) == 1)
									}
									return mt.Attr[key]
								}
								return mt.Attr["primary"]
							}
						}
						t.typeTestC = func(ip *absint.Interp, v absint.Value, T types.Type) (bool, bool) {
							raw, ok := v.(*absint.Tok)
							if !ok || raw.Attr["qual"] == nil {
								return false, false
							}
							if types.Identical(T, wq) {
								return raw.Attr["qual"] != absint.Value(absint.Str("-")), true
							}
							if types.IsInterface(T) {
								// any other capability of the candidate: both answers are possible
								key := "cap:" + T.String()
								if raw.Attr[key] == nil {
									raw.Attr[key] = absint.Bool(ip.Choose(2, raw.ID+" implements "+T.String()) == 1)
								}
								return raw.Attr[key] == absint.Value(absint.Bool(true)), true
							}
							return false, false
						}
						t.invoke[wqM] = func(ip *absint.Interp, a []absint.Value) absint.Value {
							// a candidate of kind "q" declares the requested qualifier, whatever that is
							if q := a[0].(*absint.Tok).Attr["qual"]; q == absint.Value(absint.Str("q")) && withQ {
								return absint.Str(req)
							} else {
								return q
							}
						}
						t.invokeN["Kind"] = func(ip *absint.Interp, a []absint.Value) absint.Value { return absint.Int(fieldKind) }
						return t, narrowArgs(c, fn, n, in), nil
					}
					check := func(ip *absint.Interp, out absint.Outcome) {
						var names []string
						for _, ki := range lst {
							names = append(names, kinds[ki].String())
						}
						w := fmt.Sprintf("field=%s qualifierArg=%v(%q) candidates=[%s] => %s", map[int64]string{23: "slice", 22: "single"}[fieldKind], withQ, req, strings.Join(names, " "), showOutcome(out))
						rs.hit("no-panic")
						if out.Panic != nil {
							rs.fail("no-panic", w)
							return
						}
						rs.hit("input-untouched")
						if len(in.Elems) != len(cands) {
							rs.fail("input-untouched", w)
						} else {
							for i, m := range cands {
								if m == nil {
									if _, isNil := in.Elems[i].(absint.Nil); !isNil {
										rs.fail("input-untouched", w+" (the list handed in now reads "+absint.Show(in)+")")
									}
								} else if in.Elems[i] != absint.Value(m) {
									rs.fail("input-untouched", w+" (the list handed in now reads "+absint.Show(in)+")")
								}
							}
						}
						isErr := len(out.Ret) == 2 && isErrTok(out.Ret[1])
						var res []*absint.Tok
						if l, ok := out.Ret[0].(*absint.List); ok {
							for _, e := range l.Elems {
								if t, isT := e.(*absint.Tok); isT {
									res = append(res, t)
								} else {
									rs.fail("no-panic", "nil candidate returned: "+w)
								}
							}
						}
						kindOf := func(t *absint.Tok) candKind { return kinds[int(t.Attr["kind"].(absint.Int))] }
						// qualifying set
						var Q []*absint.Tok
						for _, m := range cands {
							if m == nil {
								continue
							}
							k := kindOf(m)
							if k.self {
								continue
							}
							if withQ && k.qual != "q" {
								continue
							}
							Q = append(Q, m)
						}
						inQ := func(t *absint.Tok) bool {
							for _, q := range Q {
								if q == t {
									return true
								}
							}
							return false
						}
						for _, t := range res {
							rs.hit("never-self")
							if kindOf(t).self {
								rs.fail("never-self", w)
							}
							if withQ {
								rs.hit("qualifier-sound")
								if kindOf(t).qual != "q" {
									rs.fail("qualifier-sound", w)
								}
							}
						}
						if len(Q) == 0 {
							rs.hit("nothing-qualifies")
							if !isErr || len(res) != 0 {
								rs.fail("nothing-qualifies", w)
							}
							return
						}
						if isErr {
							if fieldKind == 23 {
								rs.hit("slice-exact")
								rs.fail("slice-exact", "error although candidates qualify: "+w)
							} else {
								rs.fail("single-member", "error although a candidate qualifies: "+w)
							}
							return
						}
						if fieldKind == 23 {
							rs.hit("slice-exact")
							cnt := map[*absint.Tok]int{}
							for _, t := range res {
								cnt[t]++
							}
							ok := len(res) == len(Q)
							for _, q := range Q {
								if cnt[q] != 1 {
									ok = false
								}
							}
							if !ok {
								rs.fail("slice-exact", w)
							}
							return
						}
						// single
						rs.hit("single-member")
						if len(res) != 1 || !inQ(res[0]) {
							rs.fail("single-member", w)
							return
						}
						var prim, unnamed []*absint.Tok
						for _, q := range Q {
							if kindOf(q).primary {
								prim = append(prim, q)
							}
							if !kindOf(q).named {
								unnamed = append(unnamed, q)
							}
						}
						determined := ""
						switch {
						case len(Q) == 1:
							determined = kindOf(Q[0]).String()
						case len(prim) == 1:
							rs.hit("single-unique-primary")
							if res[0] != prim[0] {
								rs.fail("single-unique-primary", w)
							}
							determined = "P"
						case len(prim) == 0 && len(unnamed) == 1:
							rs.hit("single-unique-unnamed")
							if res[0] != unnamed[0] {
								rs.fail("single-unique-unnamed", w)
							}
							determined = "U"
						}
						if determined != "" {
							sorted := append([]string(nil), names...)
							sort.Strings(sorted)
							key := outcomeKey{strings.Join(sorted, " "), fieldKind, withQ, req}
							if winners[key] == nil {
								winners[key] = map[string]bool{}
							}
							winners[key][kindOf(res[0]).String()] = true
						}
					}
					locked := func(ip *absint.Interp, out absint.Outcome) {
						mu.Lock()
						defer mu.Unlock()
						check(ip, out)
					}
					n2, u := runTable(c, fn, build, locked)
					mu.Lock()
					runs += n2
					if u != "" && firstUndecided == "" {
						firstUndecided = u
					}
					mu.Unlock()
				}()
			}
		}
	}
	wg.Wait()
	if firstUndecided != "" {
		return rs, runs, firstUndecided
	}
	for key, ws := range winners {
		rs.hit("permutation-invariant")
		if len(ws) > 1 {
			var l []string
			for k := range ws {
				l = append(l, k)
			}
			sort.Strings(l)
			rs.fail("permutation-invariant", fmt.Sprintf("candidates {%s} (qualifierArg=%v): winners %v depending on order", key.multiset, key.withQ, l))
		}
	}
	return
}

func c08(c *core.Ctx, r *core.Report) {
	r.Explanation = "C08 qualifier / Primary narrowing per field: (R1, sibling rule) in every built-in PostProcessProperties the loop over the properties is left early only through a non-nil error return, so one field's outcome cannot switch processing off for the fields after it; (R2) on every non-error path through an iteration of the further-matching processor Property.Injects is overwritten with the narrowing result or cleared; (R3) the narrowing function is interpreted abstractly on every candidate list up to the bound over {primary?, custom-named?} x {requested qualifier, other qualifier, none} x {holder itself, other} plus nil entries, for a slice and a single-valued field, with and without a qualifier argument, and compared with the specification rows; (R4) whenever the preference rules determine a winner, all orderings of the list give it. Decides per-field independence and the rank-based choice; which of several genuinely tied candidates arrives is not constrained."
	r.Assumptions = []string{"type tests and IsTypeImplement answer from the candidate's static class", "TagArg.Find/Has behave as decided in C19"}
	ps := builtinProcessors(c)
	r.Count("processors", len(ps))
	if !r.Floor("C08.R1", "built-in property post-processors", len(ps), 9) {
		return
	}
	// ---- R1 loop independence (all siblings, registered or not)
	for _, p := range ps {
		c08LoopIndependence(c, r, p)
	}
	// ---- R2 / R3 / R4
	fn, call, proc := narrowingFn(c, ps)
	if fn == nil {
		r.Undecided("C08.R3", "role:narrowing", "", "the further-matching processor's narrowing function was not found")
		return
	}
	_ = call // the commit of the narrowing result is decided by the further-matching table (rows narrowed-once / optional-cleared)
	frs, fruns, fund := furtherPropsTable(c, proc, fn)
	r.Count("further_matching_table_runs", fruns)
	if fund != "" {
		r.Undecided("C08.R2", "further-matching-table:"+proc.Name(), c.FnPos(proc.Props), "abstract interpretation left the model: "+fund)
	} else {
		smallModelCheck(c, r, "C08.R2", "further-matching-table:"+proc.Name(), proc.Props, 2)
		frs.report(c, r, proc.Props, func(row string) string { return "C08.R2" }, "further-matching-table:"+proc.Name(), furtherRows)
	}
	maxLen := 3 // two candidates inside a qualifier set plus one outside it need three
	if c.Tier == "thorough" {
		maxLen = 4
	}
	rs, runs, und := narrowTable(c, fn, maxLen)
	r.Count("narrowing_table_runs", runs)
	cons := "narrowing-table@" + core.FnName(fn)
	if und != "" {
		r.Undecided("C08.R3", cons, c.FnPos(fn), "abstract interpretation left the model: "+und)
		return
	}
	r.Exhaustive = true
	isSelfTable(c, r, "C08.R3")
	smallModelCheck(c, r, "C08.R3", cons, fn, int64(maxLen))
	rs.report(c, r, fn, func(row string) string {
		if row == "permutation-invariant" {
			return "C08.R4"
		}
		return "C08.R3"
	}, cons, narrowRows)
}

// propertiesLoop: the forward range over the `properties` parameter of a PostProcessProperties method.
func propertiesLoop(p *procInfo) *core.RangeLoop {
	var param *ssa.Parameter
	for _, pa := range p.Props.Params {
		if _, ok := pa.Type().Underlying().(*types.Slice); ok {
			param = pa
		}
	}
	for _, rl := range core.RangeLoops(p.Props) {
		if core.Norm(rl.Slice) == ssa.Value(param) || copyOfSlice(rl.Slice, param) {
			return rl
		}
	}
	return nil
}

// copyOfSlice: v is append(<nil or empty slice>, param...) - a defensive copy holding the same elements in the same order.
func copyOfSlice(v ssa.Value, param *ssa.Parameter) bool {
	call, ok := core.Norm(v).(*ssa.Call)
	if !ok || param == nil {
		return false
	}
	bi, isB := call.Common().Value.(*ssa.Builtin)
	if !isB || bi.Name() != "append" || len(call.Common().Args) != 2 || core.Norm(call.Common().Args[1]) != ssa.Value(param) {
		return false
	}
	switch x := core.Norm(call.Common().Args[0]).(type) {
	case *ssa.Const:
		return x.Value == nil // the nil slice
	case *ssa.MakeSlice:
		if k, isK := core.ConstInt(x.Len); isK && k == 0 {
			return true
		}
	}
	return false
}

// propsIter: where a processor iterates over its properties: the loop in its own method, or the loop of an iterator
// helper that is handed the properties and a visitor literal of the method (the per-property body).
type propsIter struct {
	fn    *ssa.Function
	rl    *core.RangeLoop
	visit *ssa.Function   // nil when the loop body is in fn itself
	mc    ssa.Instruction // where the method makes the visitor
}

func propertiesIteration(c *core.Ctx, p *procInfo) *propsIter {
	if rl := propertiesLoop(p); rl != nil {
		return &propsIter{fn: p.Props, rl: rl}
	}
	var param *ssa.Parameter
	for _, pa := range p.Props.Params {
		if _, ok := pa.Type().Underlying().(*types.Slice); ok {
			param = pa
		}
	}
	if param == nil {
		return nil
	}
	for _, ci := range core.Calls(p.Props) {
		call, ok := ci.(*ssa.Call)
		if !ok {
			continue
		}
		h := call.Common().StaticCallee()
		if h == nil || h.Blocks == nil || !(c.InScope(h) || (h.Origin() != nil && c.InScope(h.Origin()))) {
			continue
		}
		args := call.Common().Args
		if len(args) != len(h.Params) {
			continue
		}
		si := -1
		for i, a := range args {
			if core.Norm(a) == ssa.Value(param) {
				si = i
			}
		}
		if si < 0 {
			continue
		}
		for _, rl := range core.RangeLoops(h) {
			if core.Norm(rl.Slice) != ssa.Value(h.Params[si]) {
				continue
			}
			// the whole per-property loop moved into a collaborator that is handed the properties
			hasClosureArg := false
			for _, a := range args {
				if lit := core.ClosureOf(a); lit != nil && core.TopLevel(lit) == p.Props {
					hasClosureArg = true
				}
			}
			if !hasClosureArg && containsFn(p.Body, h) && len(core.RangeLoops(p.Props)) == 0 {
				return &propsIter{fn: h, rl: rl}
			}
			// the visitor: a function parameter called once in the loop with the element, whose result is not a bool
			for b := range rl.Loop.Blocks {
				for _, in := range b.Instrs {
					dc, ok := in.(*ssa.Call)
					if !ok {
						continue
					}
					fp, isParam := dc.Common().Value.(*ssa.Parameter)
					if !isParam || dc.Common().IsInvoke() || len(dc.Common().Args) == 0 || !rl.ElemOf(dc.Common().Args[0]) {
						continue
					}
					if res := dc.Common().Signature().Results(); res.Len() == 1 {
						if bt, isB := res.At(0).Type().Underlying().(*types.Basic); isB && bt.Kind() == types.Bool {
							continue // the selecting predicate
						}
					}
					for j, hp := range h.Params {
						if hp == fp {
							if lit := core.ClosureOf(args[j]); lit != nil && core.TopLevel(lit) == p.Props {
								var mc ssa.Instruction
								if m, isMC := args[j].(*ssa.MakeClosure); isMC {
									mc = m
								}
								return &propsIter{fn: h, rl: rl, visit: lit, mc: mc}
							}
						}
					}
				}
			}
		}
	}
	return nil
}

func c08LoopIndependence(c *core.Ctx, r *core.Report, p *procInfo) {
	cons := "props-loop:" + p.Name()
	it := propertiesIteration(c, p)
	if it == nil {
		r.Undecided("C08.R1", cons, c.FnPos(p.Props), "no forward range over the properties parameter found")
		return
	}
	rl := it.rl
	bad := ""
	for b := range rl.Loop.Blocks {
		if b == rl.Header {
			continue
		}
		for _, s := range b.Succs {
			if rl.Loop.Blocks[s] {
				continue
			}
			// an exit from inside the body: everything reachable must be an error return
			for x := range core.ReachableFrom(s, nil) {
				if x == rl.Done {
					bad = "break at " + c.Pos(b.Instrs[len(b.Instrs)-1].Pos())
				}
				if ret, ok := x.Instrs[len(x.Instrs)-1].(*ssa.Return); ok && core.ClassifyReturn(ret) != core.RetError {
					bad = "nil-error return at " + c.Pos(ret.Pos())
				}
			}
		}
	}
	if bad != "" && rl.Body != nil && len(rl.Body.Instrs) > 0 {
		// single-exit forms (`err = ...; break scan` ... `return nil, err`): confirm path by path - every path
		// that starts an iteration and leaves the loop other than through its header ends in a non-nil error
		reach := core.ReachableFrom(rl.Body, nil)
		okAll, n := true, 0
		exhausted := core.WalkReturnsWithin(rl.Body, map[*ssa.BasicBlock]bool{rl.Header: true}, func(ret *ssa.Return, nilness int, resolved ssa.Value) bool {
			n++
			if nilness != 1 && core.ClassifyReturn(ret) != core.RetError && !(resolved != nil && !core.IsNilConst(resolved) && core.NonNilAtFrom(resolved, ret, reach)) {
				okAll = false
			}
			return okAll
		})
		if okAll && !exhausted {
			bad = ""
		}
	}
	pos := c.FnPos(p.Props)
	r.Check(bad == "", "C08.R1", cons, pos, "the per-property loop is left early only with a non-nil error: no field's outcome skips the fields after it "+bad)
}

// c08Commit: after the narrowing call every non-error path to the next iteration stores the result (or nil) into Injects.
func c08Commit(c *core.Ctx, r *core.Report, p *procInfo, call *ssa.Call) {
	cons := "commit:" + p.Name()
	rl := propertiesLoop(p)
	if rl == nil {
		return
	}
	res0 := core.ResultValue(call, 0)
	good := map[*ssa.BasicBlock]bool{}
	for _, st := range storesToPropField(c, []*ssa.Function{p.Props}, "Injects") {
		v := core.Norm(st.Val)
		if v == res0 || core.IsNilConst(v) {
			good[st.Block()] = true
		} else {
			r.Fail("C08.R2", cons, c.Pos(st.Pos()), "Injects is assigned something that is not the narrowing result")
		}
	}
	// walk from the call's block successors; reaching the header / a success return without a good store = unnarrowed list survives
	seen := map[*ssa.BasicBlock]bool{}
	bad := ""
	var walk func(b *ssa.BasicBlock)
	walk = func(b *ssa.BasicBlock) {
		if seen[b] || good[b] {
			return
		}
		seen[b] = true
		if b == rl.Header {
			bad = "next iteration reached without committing"
			return
		}
		if ret, ok := b.Instrs[len(b.Instrs)-1].(*ssa.Return); ok {
			if core.ClassifyReturn(ret) != core.RetError {
				bad = "success return at " + c.Pos(ret.Pos()) + " without committing"
			}
			return
		}
		for _, s := range b.Succs {
			walk(s)
		}
	}
	if good[call.Block()] {
		// store in the same block after the call is fine only if it follows the call; keep simple: accept
	} else {
		for _, s := range call.Block().Succs {
			walk(s)
		}
	}
	r.Check(bad == "", "C08.R2", cons, c.Pos(call.Pos()), "on every non-error path the candidate list of the property is replaced by the narrowing result or cleared "+bad)
}

var furtherRows = map[string]string{
	"narrowed-once":     "every component property is narrowed exactly once, on its own candidate list, and ends up holding the narrowing result",
	"foreign-untouched": "configuration properties are neither narrowed nor modified",
	"optional-cleared":  "an optional point for which nothing qualifies ends up with no candidates and the next property is still processed",
	"required-error":    "a required point for which nothing qualifies, or any other narrowing error, makes the processor fail",
}

// furtherPropsTable interprets the further-matching processor's PostProcessProperties on pairs of properties.
func furtherPropsTable(c *core.Ctx, p *procInfo, narrowing *ssa.Function) (rs rows, runs int, undecided string) {
	rs = rows{}
	prop := c.Named("component_definition", "Property")
	isReq := c.DeclaredMethod(prop, "IsRequired")
	str := c.DeclaredMethod(prop, "String")
	type pc struct {
		ptype    string
		ninj     int
		required bool
		outcome  string // ok | err-empty | err-nonempty
		tag      string // every component-typed point is narrowed, whatever tag selected its candidates
	}
	var configs []pc
	for _, pt := range []string{"Component", "Configuration"} {
		for _, n := range []int{0, 1, 2} {
			for _, rq := range []bool{true, false} {
				for _, oc := range []string{"ok", "err-empty", "err-nonempty"} {
					if pt == "Configuration" && (n != 1 || oc != "ok" || !rq) {
						continue
					}
					if pt == "Configuration" {
						configs = append(configs, pc{pt, n, rq, oc, "value"})
						continue
					}
					for _, tag := range []string{"wire", "func", "custom"} {
						if tag != "wire" && (n == 0 || oc == "err-nonempty") {
							continue // the tag matters only for whether the point is narrowed at all
						}
						configs = append(configs, pc{pt, n, rq, oc, tag})
					}
				}
			}
		}
	}
	for _, c1 := range configs {
		for _, c2 := range configs {
			cfg := []pc{c1, c2}
			var props []*absint.Tok
			var orig []*absint.List
			var calls []string
			build := func() (absint.Oracle, []absint.Value, []absint.Value) {
				calls, props, orig = nil, nil, nil
				t := newTbl(c)
				list := &absint.List{}
				sharedType := absint.NewTok("T:field", "type")
				for i, k := range cfg {
					pr := absint.NewTok(fmt.Sprintf("prop%d", i), "property")
					pr.Fields["PropertyType"] = absint.Str(k.ptype)
					pr.Fields["Tag"] = absint.Str(k.tag)
					inj := &absint.List{IsNil: k.ninj == 0}
					for j := 0; j < k.ninj; j++ {
						inj.Elems = append(inj.Elems, absint.NewTok(fmt.Sprintf("cand%d.%d", i, j), "cand"))
					}
					pr.Fields["Injects"] = inj
					// both points are of one kind: the same field type, the same raw tag and no arguments (what a point
					// receives must depend on its own candidates and holder only)
					fld, base := absint.NewTok(fmt.Sprintf("prop%d.Field", i), "field"), absint.NewTok(fmt.Sprintf("prop%d.Field.Base", i), "base")
					pr.Fields["Field"], fld.Fields["Base"], base.Fields["Type"] = fld, base, sharedType
					pr.Fields["TagStr"], pr.Fields["TagVal"] = absint.Str(""), absint.Str("")
					pr.Attr["idx"] = absint.Int(i)
					props = append(props, pr)
					orig = append(orig, inj)
					list.Elems = append(list.Elems, pr)
				}
				t.callee[narrowing] = func(ip *absint.Interp, a []absint.Value) absint.Value {
					pr, lst := narrowCallArgs(c, narrowing, a)
					i := -1
					if pr != nil && pr.Attr["idx"] != nil {
						i = int(pr.Attr["idx"].(absint.Int))
					}
					same := i >= 0 && lst == absint.Value(orig[i])
					calls = append(calls, fmt.Sprintf("%d:%v", i, same))
					if i < 0 {
						return absint.Tuple{absint.Nil{}, t.newErr("narrow")}
					}
					switch cfg[i].outcome {
					case "ok":
						return absint.Tuple{&absint.List{Elems: []absint.Value{absint.NewTok(fmt.Sprintf("narrowed%d", i), "cand")}}, absint.Nil{}}
					case "err-empty":
						return absint.Tuple{&absint.List{IsNil: true}, t.newErr("narrow")}
					}
					return absint.Tuple{&absint.List{Elems: []absint.Value{absint.NewTok("partial", "cand")}}, t.newErr("narrow")}
				}
				if isReq != nil {
					t.callee[isReq] = func(ip *absint.Interp, a []absint.Value) absint.Value {
						pr := a[0].(*absint.Tok)
						return absint.Bool(cfg[int(pr.Attr["idx"].(absint.Int))].required)
					}
				}
				if str != nil {
					t.callee[str] = func(ip *absint.Interp, a []absint.Value) absint.Value { return &absint.Opaque{Why: "text"} }
				}
				if isSelfFn := c.DeclaredMethod(c.Named("component_definition", "Meta"), "IsSelf"); isSelfFn != nil {
					t.callee[isSelfFn] = func(ip *absint.Interp, a []absint.Value) absint.Value { return absint.Bool(false) }
				}
				return t, []absint.Value{absint.NewTok("proc", "processor"), list, absint.NewTok("component", "component"), absint.NewTok("name", "key")}, nil
			}
			check := func(ip *absint.Interp, out absint.Outcome) {
				var inj []string
				for _, pr := range props {
					inj = append(inj, absint.Show(pr.Fields["Injects"]))
				}
				w := fmt.Sprintf("properties=%+v narrowing-calls=%v injects-after=%v => %s", cfg, calls, inj, showOutcome(out))
				if out.Panic != nil {
					rs.fail("narrowed-once", "PANIC "+w)
					return
				}
				isErr := len(out.Ret) == 2 && isErrTok(out.Ret[1])
				var wantCalls []string
				stopped := false
				for i, k := range cfg {
					if stopped {
						break
					}
					if k.ptype != "Component" {
						rs.hit("foreign-untouched")
						if props[i].Fields["Injects"] != absint.Value(orig[i]) {
							rs.fail("foreign-untouched", w)
						}
						continue
					}
					wantCalls = append(wantCalls, fmt.Sprintf("%d:true", i))
					switch {
					case k.outcome == "ok":
						rs.hit("narrowed-once")
						if inj[i] != fmt.Sprintf("[narrowed%d]", i) {
							rs.fail("narrowed-once", w)
						}
					case k.outcome == "err-empty" && !k.required:
						rs.hit("optional-cleared")
						if l, ok := props[i].Fields["Injects"].(*absint.List); !ok || len(l.Elems) != 0 {
							rs.fail("optional-cleared", w)
						}
					default:
						rs.hit("required-error")
						stopped = true
					}
				}
				if strings.Join(calls, " ") != strings.Join(wantCalls, " ") {
					rs.fail("narrowed-once", "narrowing calls differ from "+strings.Join(wantCalls, " ")+": "+w)
				}
				if stopped != isErr {
					if stopped {
						rs.fail("required-error", w)
					} else {
						rs.fail("optional-cleared", "unexpected error: "+w)
					}
				}
			}
			n, u := runTable(c, p.Props, build, check)
			runs += n
			if u != "" {
				return rs, runs, u
			}
		}
	}
	return
}
