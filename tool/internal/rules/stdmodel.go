package rules

import (
	"fmt"
	"sort"
	"strconv"
	"strings"

	"golang.org/x/tools/go/ssa"

	"iocvet/internal/absint"
)

// stdGeneric: models of generic standard-library functions (their instances have no bodies here: only the module's own
// packages are built), by the function's name without its type arguments.  The models are the documented behaviour
// on the model's values; whatever they cannot follow leaves the model.
var stdGeneric = map[string]func(t *tbl, ip *absint.Interp, site ssa.CallInstruction, a []absint.Value) absint.Value{}

func init() {
	listOf := func(v absint.Value, what string) *absint.List {
		switch l := v.(type) {
		case *absint.List:
			return l
		case absint.Nil:
			return &absint.List{IsNil: true}
		}
		panic(&absint.Undecided{Msg: what + " on " + absint.Show(v)})
	}
	truth := func(ip *absint.Interp, f absint.Value, what string, args ...absint.Value) bool {
		b, ok := ip.CallValue(f, args...).(absint.Bool)
		if !ok {
			panic(&absint.Undecided{Msg: what + ": the predicate did not answer with a boolean the model knows"})
		}
		return bool(b)
	}
	less := func(a, b absint.Value) bool {
		switch x := a.(type) {
		case absint.Str:
			if y, ok := b.(absint.Str); ok {
				return x < y
			}
		case absint.Int:
			if y, ok := b.(absint.Int); ok {
				return x < y
			}
		}
		panic(&absint.Undecided{Msg: "ordering of " + absint.Show(a) + " and " + absint.Show(b)})
	}
	insertion := func(l *absint.List, lt func(x, y absint.Value) bool) {
		for i := 1; i < len(l.Elems); i++ {
			for j := i; j > 0 && lt(l.Elems[j], l.Elems[j-1]); j-- {
				l.Elems[j], l.Elems[j-1] = l.Elems[j-1], l.Elems[j]
			}
		}
	}
	stdGeneric["slices.Sort"] = func(t *tbl, ip *absint.Interp, site ssa.CallInstruction, a []absint.Value) absint.Value {
		insertion(listOf(a[0], "slices.Sort"), less)
		return nil
	}
	cmpSort := func(name string) func(t *tbl, ip *absint.Interp, site ssa.CallInstruction, a []absint.Value) absint.Value {
		return func(t *tbl, ip *absint.Interp, site ssa.CallInstruction, a []absint.Value) absint.Value {
			insertion(listOf(a[0], name), func(x, y absint.Value) bool {
				r, ok := ip.CallValue(a[1], x, y).(absint.Int)
				if !ok {
					panic(&absint.Undecided{Msg: name + ": the comparison did not answer with a number the model knows"})
				}
				return r < 0
			})
			return nil
		}
	}
	stdGeneric["slices.SortFunc"] = cmpSort("slices.SortFunc") // (a stable algorithm is one of the orders an unstable one may produce)
	stdGeneric["slices.SortStableFunc"] = cmpSort("slices.SortStableFunc")
	stdGeneric["slices.Contains"] = func(t *tbl, ip *absint.Interp, site ssa.CallInstruction, a []absint.Value) absint.Value {
		for _, e := range listOf(a[0], "slices.Contains").Elems {
			if eq, known := absint.Equal(e, a[1]); !known {
				panic(&absint.Undecided{Msg: "slices.Contains: comparison of " + absint.Show(e) + " and " + absint.Show(a[1])})
			} else if eq {
				return absint.Bool(true)
			}
		}
		return absint.Bool(false)
	}
	stdGeneric["slices.Index"] = func(t *tbl, ip *absint.Interp, site ssa.CallInstruction, a []absint.Value) absint.Value {
		for i, e := range listOf(a[0], "slices.Index").Elems {
			if eq, known := absint.Equal(e, a[1]); !known {
				panic(&absint.Undecided{Msg: "slices.Index: comparison of " + absint.Show(e) + " and " + absint.Show(a[1])})
			} else if eq {
				return absint.Int(i)
			}
		}
		return absint.Int(-1)
	}
	stdGeneric["slices.ContainsFunc"] = func(t *tbl, ip *absint.Interp, site ssa.CallInstruction, a []absint.Value) absint.Value {
		for _, e := range listOf(a[0], "slices.ContainsFunc").Elems {
			if truth(ip, a[1], "slices.ContainsFunc", e) {
				return absint.Bool(true)
			}
		}
		return absint.Bool(false)
	}
	stdGeneric["slices.IndexFunc"] = func(t *tbl, ip *absint.Interp, site ssa.CallInstruction, a []absint.Value) absint.Value {
		for i, e := range listOf(a[0], "slices.IndexFunc").Elems {
			if truth(ip, a[1], "slices.IndexFunc", e) {
				return absint.Int(i)
			}
		}
		return absint.Int(-1)
	}
	stdGeneric["slices.Clone"] = func(t *tbl, ip *absint.Interp, site ssa.CallInstruction, a []absint.Value) absint.Value {
		l := listOf(a[0], "slices.Clone")
		if l.IsNil && len(l.Elems) == 0 {
			return &absint.List{IsNil: true}
		}
		return &absint.List{Elems: append([]absint.Value(nil), l.Elems...)}
	}
	stdGeneric["slices.Reverse"] = func(t *tbl, ip *absint.Interp, site ssa.CallInstruction, a []absint.Value) absint.Value {
		l := listOf(a[0], "slices.Reverse")
		for i, j := 0, len(l.Elems)-1; i < j; i, j = i+1, j-1 {
			l.Elems[i], l.Elems[j] = l.Elems[j], l.Elems[i]
		}
		return nil
	}
	stdGeneric["slices.Grow"] = func(t *tbl, ip *absint.Interp, site ssa.CallInstruction, a []absint.Value) absint.Value { return a[0] }
	stdGeneric["slices.Clip"] = stdGeneric["slices.Grow"]
	stdGeneric["slices.Equal"] = func(t *tbl, ip *absint.Interp, site ssa.CallInstruction, a []absint.Value) absint.Value {
		x, y := listOf(a[0], "slices.Equal"), listOf(a[1], "slices.Equal")
		if len(x.Elems) != len(y.Elems) {
			return absint.Bool(false)
		}
		for i := range x.Elems {
			if eq, known := absint.Equal(x.Elems[i], y.Elems[i]); !known {
				panic(&absint.Undecided{Msg: "slices.Equal on values the model cannot compare"})
			} else if !eq {
				return absint.Bool(false)
			}
		}
		return absint.Bool(true)
	}
	stdGeneric["slices.DeleteFunc"] = func(t *tbl, ip *absint.Interp, site ssa.CallInstruction, a []absint.Value) absint.Value {
		l := listOf(a[0], "slices.DeleteFunc")
		var kept []absint.Value
		for _, e := range l.Elems {
			if !truth(ip, a[1], "slices.DeleteFunc", e) {
				kept = append(kept, e)
			}
		}
		// in place: the kept elements move to the front of the argument's storage, the rest is zeroed
		n := len(l.Elems)
		for i := 0; i < n; i++ {
			if i < len(kept) {
				l.Elems[i] = kept[i]
			} else {
				l.Elems[i] = absint.Nil{}
			}
		}
		return &absint.List{Elems: append([]absint.Value(nil), kept...), View: true, Spare: len(kept) < n, Base: l, IsNil: l.IsNil && n == 0}
	}
	// sync.OnceValue and friends: a function that runs its argument at the first call and answers the same ever after
	once := func(t *tbl, ip *absint.Interp, site ssa.CallInstruction, a []absint.Value) absint.Value {
		o := absint.NewTok(fmt.Sprintf("once@%p", site), "once")
		o.Attr["fn"] = a[0]
		return o
	}
	stdGeneric["sync.OnceValue"], stdGeneric["sync.OnceValues"], stdGeneric["sync.OnceFunc"] = once, once, once
	stdGeneric["reflect.TypeFor"] = func(t *tbl, ip *absint.Interp, site ssa.CallInstruction, a []absint.Value) absint.Value {
		if cal := site.Common().StaticCallee(); cal != nil && len(cal.TypeArgs()) == 1 {
			return goTypeTok(cal.TypeArgs()[0])
		}
		panic(&absint.Undecided{Msg: "reflect.TypeFor without a visible type argument"})
	}
}

// callOnce: the call of a value made by sync.OnceValue / OnceValues / OnceFunc.
func callOnce(ip *absint.Interp, o *absint.Tok) absint.Value {
	if done, ok := o.Attr["done"].(absint.Bool); ok && bool(done) {
		return o.Attr["result"]
	}
	o.Attr["done"] = absint.Bool(true)
	res := ip.CallValue(o.Attr["fn"])
	o.Attr["result"] = res
	return res
}

// stdModels: non-generic standard-library functions every table may meet (beyond the string models).
func stdModels(t *tbl) {
	intOf := func(v absint.Value, what string) int64 {
		i, ok := v.(absint.Int)
		if !ok {
			panic(&absint.Undecided{Msg: what + " of a number the model does not know"})
		}
		return int64(i)
	}
	t.ext["strconv.FormatInt"] = func(ip *absint.Interp, a []absint.Value) absint.Value {
		return absint.Str(strconv.FormatInt(intOf(a[0], "strconv.FormatInt"), int(intOf(a[1], "strconv.FormatInt"))))
	}
	t.ext["strconv.FormatUint"] = func(ip *absint.Interp, a []absint.Value) absint.Value {
		if _, ok := a[0].(absint.Int); !ok {
			return &absint.Opaque{Why: "text"}
		}
		return absint.Str(strconv.FormatUint(uint64(intOf(a[0], "strconv.FormatUint")), int(intOf(a[1], "strconv.FormatUint"))))
	}
	t.ext["strconv.Itoa"] = func(ip *absint.Interp, a []absint.Value) absint.Value {
		return absint.Str(strconv.Itoa(int(intOf(a[0], "strconv.Itoa"))))
	}
	t.ext["strconv.Quote"] = func(ip *absint.Interp, a []absint.Value) absint.Value {
		s, ok := a[0].(absint.Str)
		if !ok {
			return &absint.Opaque{Why: "text"}
		}
		return absint.Str(strconv.Quote(string(s)))
	}
	t.ext["sort.Strings"] = func(ip *absint.Interp, a []absint.Value) absint.Value {
		l, ok := a[0].(*absint.List)
		if !ok {
			return nil
		}
		var ss []string
		for _, e := range l.Elems {
			s, isStr := e.(absint.Str)
			if !isStr {
				panic(&absint.Undecided{Msg: "sort.Strings on texts the model does not know"})
			}
			ss = append(ss, string(s))
		}
		sort.Strings(ss)
		for i, s := range ss {
			l.Elems[i] = absint.Str(s)
		}
		return nil
	}
	// clocks and processor counts: the model knows no time; how many processors there are is explored as one and many
	opaqueTime := func(ip *absint.Interp, a []absint.Value) absint.Value { return &absint.Opaque{Why: "time"} }
	t.ext["time.Now"], t.ext["time.Since"], t.ext["(time.Time).Sub"] = opaqueTime, opaqueTime, opaqueTime
	t.ext["(time.Duration).String"] = func(ip *absint.Interp, a []absint.Value) absint.Value { return &absint.Opaque{Why: "text"} }
	for _, m := range []string{"Nanoseconds", "Microseconds", "Milliseconds", "Seconds"} {
		t.ext["(time.Duration)."+m] = opaqueTime
	}
	t.ext["runtime.GOMAXPROCS"] = func(ip *absint.Interp, a []absint.Value) absint.Value {
		if ip.Choose(2, "number of processors") == 0 {
			return absint.Int(1)
		}
		return absint.Int(64)
	}
	t.ext["runtime.NumCPU"] = t.ext["runtime.GOMAXPROCS"]
	// atomics: a cell per receiver (its address as an object's field, or the object itself)
	cells := map[string]absint.Value{}
	keyOf := func(v absint.Value) string {
		if fr, ok := v.(*absint.FieldRef); ok {
			return fmt.Sprintf("%p.%s", fr.Obj, fr.Name)
		}
		return fmt.Sprintf("%p", v)
	}
	for _, ty := range []string{"Int32", "Int64", "Uint32", "Uint64"} {
		p := "(*sync/atomic." + ty + ")."
		t.ext[p+"Load"] = func(ip *absint.Interp, a []absint.Value) absint.Value {
			if v, ok := cells[keyOf(a[0])]; ok {
				return v
			}
			return absint.Int(0)
		}
		t.ext[p+"Store"] = func(ip *absint.Interp, a []absint.Value) absint.Value { cells[keyOf(a[0])] = a[1]; return nil }
		t.ext[p+"Add"] = func(ip *absint.Interp, a []absint.Value) absint.Value {
			cur, _ := cells[keyOf(a[0])].(absint.Int)
			d, ok := a[1].(absint.Int)
			if !ok {
				cells[keyOf(a[0])] = &absint.Opaque{Why: "counter"}
				return &absint.Opaque{Why: "counter"}
			}
			cells[keyOf(a[0])] = cur + d
			return cur + d
		}
		t.ext[p+"Swap"] = func(ip *absint.Interp, a []absint.Value) absint.Value {
			old, ok := cells[keyOf(a[0])]
			if !ok {
				old = absint.Int(0)
			}
			cells[keyOf(a[0])] = a[1]
			return old
		}
		t.ext[p+"CompareAndSwap"] = func(ip *absint.Interp, a []absint.Value) absint.Value {
			cur, ok := cells[keyOf(a[0])]
			if !ok {
				cur = absint.Int(0)
			}
			if eq, known := absint.Equal(cur, a[1]); known && eq {
				cells[keyOf(a[0])] = a[2]
				return absint.Bool(true)
			} else if !known {
				panic(&absint.Undecided{Msg: "CompareAndSwap on a value the model cannot compare"})
			}
			return absint.Bool(false)
		}
	}
	t.ext["(*sync/atomic.Bool).Load"] = func(ip *absint.Interp, a []absint.Value) absint.Value {
		if v, ok := cells[keyOf(a[0])]; ok {
			return v
		}
		return absint.Bool(false)
	}
	t.ext["(*sync/atomic.Bool).Store"] = func(ip *absint.Interp, a []absint.Value) absint.Value { cells[keyOf(a[0])] = a[1]; return nil }
	t.ext["(*sync/atomic.Bool).Swap"] = func(ip *absint.Interp, a []absint.Value) absint.Value {
		old, ok := cells[keyOf(a[0])]
		if !ok {
			old = absint.Bool(false)
		}
		cells[keyOf(a[0])] = a[1]
		return old
	}
	t.ext["(*sync/atomic.Bool).CompareAndSwap"] = func(ip *absint.Interp, a []absint.Value) absint.Value {
		cur, ok := cells[keyOf(a[0])]
		if !ok {
			cur = absint.Bool(false)
		}
		if cur == a[1] {
			cells[keyOf(a[0])] = a[2]
			return absint.Bool(true)
		}
		return absint.Bool(false)
	}
	t.atomicCells = cells
}

// genericBase: "slices.IndexFunc[[]T T]" -> "slices.IndexFunc"; "(*sync/atomic.Pointer[T]).Load" -> "(*sync/atomic.Pointer).Load".
func genericBase(full string) string {
	i := strings.IndexByte(full, '[')
	if i < 0 {
		return full
	}
	depth := 0
	for j := i; j < len(full); j++ {
		switch full[j] {
		case '[':
			depth++
		case ']':
			depth--
			if depth == 0 {
				return full[:i] + full[j+1:]
			}
		}
	}
	return full[:i]
}
