package rules

import (
	"fmt"
	"go/types"
	"sort"
	"strings"

	"golang.org/x/tools/go/ssa"

	"iocvet/internal/absint"
	"iocvet/internal/core"
)

// constructorYielding: the parameterless package-level function of T's package every return of which hands out a
// freshly made *T (also boxed into an interface); nil unless there is exactly one.
func constructorYielding(c *core.Ctx, T *types.Named) *ssa.Function {
	var found *ssa.Function
	for _, fn := range c.Scope {
		if fn.Parent() != nil || fn.Signature.Recv() != nil || len(fn.Params) != 0 || fn.Signature.Results().Len() != 1 || fn.Pkg == nil || fn.Pkg.Pkg != T.Obj().Pkg() || fn.Blocks == nil {
			continue
		}
		ok, n := true, 0
		for _, b := range fn.Blocks {
			for _, in := range b.Instrs {
				ret, isRet := in.(*ssa.Return)
				if !isRet {
					continue
				}
				n++
				v := ret.Results[0]
				if mi, isMI := v.(*ssa.MakeInterface); isMI {
					v = mi.X
				}
				al, isAl := v.(*ssa.Alloc)
				if !isAl || core.NamedOf(al.Type()) != T {
					ok = false
				}
			}
		}
		if !ok || n == 0 {
			continue
		}
		if found != nil {
			return nil
		}
		found = fn
	}
	return found
}

// containerDump lists what the keyed containers reachable from obj hold - Go maps in fields (three levels deep) and the
// sync.Map models of the table - as "place[key]" -> value.
func (t *tbl) containerDump(obj *absint.Tok) map[string]string {
	out := map[string]string{}
	var walk func(o *absint.Tok, path string, depth int)
	seen := map[*absint.Tok]bool{}
	walk = func(o *absint.Tok, path string, depth int) {
		if o == nil || depth > 3 || seen[o] {
			return
		}
		seen[o] = true
		var names []string
		for k := range o.Fields {
			names = append(names, k)
		}
		sort.Strings(names)
		for _, k := range names {
			switch v := o.Fields[k].(type) {
			case *absint.MapVal:
				for mk, mv := range v.M {
					out[path+"."+k+"["+mk+"]"] = absint.Show(mv)
				}
			case *absint.Tok:
				walk(v, path+"."+k, depth+1)
			case *absint.List:
				// (a list kept beside the container - names in registration order, say - is part of the state)
				for i, e := range v.Elems {
					out[fmt.Sprintf("%s.%s#%d", path, k, i)] = absint.Show(e)
				}
			case absint.Int, absint.Str, absint.Bool:
				out[path+"."+k] = absint.Show(v)
			}
		}
	}
	walk(obj, "", 0)
	i := 0
	var ids []string
	byID := map[string]*syncMapModel{}
	for k, m := range t.fieldMaps {
		byID["field:"+k[strings.LastIndex(k, ".")+1:]] = m
	}
	for _, m := range t.syncMaps {
		i++
		byID[fmt.Sprintf("syncmap#%d", len(m.keys))+fmt.Sprint(i)] = m
	}
	for id := range byID {
		ids = append(ids, id)
	}
	sort.Strings(ids)
	for _, id := range ids {
		m := byID[id]
		place := id
		if strings.HasPrefix(id, "syncmap#") {
			place = "syncmap"
		}
		for k, v := range m.v {
			out[place+"["+k+"]"] = absint.Show(v)
		}
	}
	return out
}

// registerTableByState decides RegisterSingleton's table for a registry of any representation: the registry is made
// by its constructor, brought into the row's state by the routine itself (the first row shows that on an empty
// registry it stores the component under its name and nothing else), and what the containers reachable from the
// registry hold is compared before and after.
func registerTableByState(c *core.Ctx, T *types.Named, reg *ssa.Function, nameFn *ssa.Function) (bad string, runs int) {
	ctor := constructorYielding(c, T)
	if ctor == nil {
		return "no single constructor of " + T.Obj().Name() + " found to make the registry the table runs on", 0
	}
	for _, existing := range []string{"none", "same", "other"} {
		var before, after map[string]string
		var t *tbl
		var regObj *absint.Tok
		panicked := false
		build := func() (absint.Oracle, []absint.Value, []absint.Value) {
			panicked, before, after, regObj = false, nil, nil, nil
			t = newTbl(c)
			comp := absint.NewTok("component", "component")
			other := absint.NewTok("otherComponent", "component")
			t.callee[nameFn] = func(ip *absint.Interp, a []absint.Value) absint.Value {
				if a[0] != absint.Value(comp) && a[0] != absint.Value(other) {
					panic(&absint.Undecided{Msg: "name of something else than the component"})
				}
				return absint.Str("NAME")
			}
			inSetup := true
			t.invokeN["Panicf"] = func(ip *absint.Interp, a []absint.Value) absint.Value {
				if inSetup {
					panic(&absint.Undecided{Msg: "bringing the registry into the row's state was reported as a duplicate"})
				}
				panicked = true
				if ip.Choose(2, "log level lets Panicf panic") == 1 {
					return nil
				}
				panic(&absint.GoPanic{Msg: "Panicf"})
			}
			t.invokeN["Panic"] = t.invokeN["Panicf"]
			t.setup = func(ip *absint.Interp) {
				made, _ := ip.CallFunction(ctor, nil, nil).(*absint.Tok)
				if made == nil {
					panic(&absint.Undecided{Msg: "the constructor did not yield an object"})
				}
				regObj = made
				switch existing {
				case "same":
					ip.CallFunction(reg, []absint.Value{made, comp}, nil)
				case "other":
					ip.CallFunction(reg, []absint.Value{made, other}, nil)
				}
				inSetup = false
				before = t.containerDump(made)
			}
			return t, []absint.Value{&absint.Lazy{Eval: func(ip *absint.Interp) absint.Value { return regObj }}, comp}, nil
		}
		check := func(ip *absint.Interp, out absint.Outcome) {
			after = t.containerDump(regObj)
			var added, changed []string
			for k, v := range after {
				if w, ok := before[k]; !ok {
					added = append(added, k+"="+v)
				} else if w != v {
					changed = append(changed, k)
				}
			}
			for k := range before {
				if _, ok := after[k]; !ok {
					changed = append(changed, k)
				}
			}
			sort.Strings(added)
			// what is added beside the keyed entry may only be the name or the component itself, once (a list of names)
			var keyed, beside []string
			for _, a := range added {
				if strings.Contains(a, "[") {
					keyed = append(keyed, a)
				} else {
					beside = append(beside, a)
				}
			}
			okBeside := len(beside) <= 1
			for _, a := range beside {
				if !strings.HasSuffix(a, `="NAME"`) && !strings.HasSuffix(a, "=component") {
					okBeside = false
				}
			}
			added = keyed
			ok := len(changed) == 0 && okBeside
			if existing != "none" && len(beside) != 0 {
				ok = false
			}
			switch existing {
			case "none":
				ok = ok && !panicked && out.Panic == nil && len(before) == 0 && len(added) == 1 && strings.HasSuffix(added[0], "[NAME]=component") || ok && !panicked && out.Panic == nil && len(added) == 1 && strings.HasSuffix(added[0], `["NAME"]=component`)
			case "same":
				ok = ok && !panicked && out.Panic == nil && len(added) == 0 && len(before) >= 1
			case "other":
				ok = ok && panicked && len(added) == 0 && len(before) >= 1
			}
			if !ok {
				bad = fmt.Sprintf("existing=%s held before=%v added=%v beside=%v changed=%v panicked=%v => %s", existing, before, added, beside, changed, panicked, showOutcome(out))
			}
		}
		k, u := runTable(c, reg, build, check)
		runs += k
		if u != "" {
			bad = "left the model: " + u
		}
	}
	return bad, runs
}

// definitionRegistryByState decides the definition registry's rows for any representation, observing it only through
// its own methods: made by its constructor and filled through RegisterMeta, it must list what was stored - each name
// once, the latest definition stored under it - filter by the options, find by name and answer nil on a miss; and
// GetMetaOrRegister must keep what is there and otherwise store a new definition that answers to the key.
func definitionRegistryByState(c *core.Ctx, T *types.Named) (bad string, runs int) {
	ctor := constructorYielding(c, T)
	meta := c.Named("component_definition", "Meta")
	nameM := c.DeclaredMethod(meta, "Name")
	setName := c.DeclaredMethod(meta, "SetName")
	ro := c.Roles()
	reg, getMetas, byName, gor := c.DeclaredMethod(T, "RegisterMeta"), c.DeclaredMethod(T, "GetMetas"), c.DeclaredMethod(T, "GetMetaByName"), c.DeclaredMethod(T, "GetMetaOrRegister")
	if ctor == nil || nameM == nil || reg == nil || getMetas == nil || byName == nil || gor == nil || ro.NewMeta == nil {
		return "no single constructor of " + T.Obj().Name() + ", or RegisterMeta / GetMetas / GetMetaByName / GetMetaOrRegister / Meta.Name / NewMeta not found", 0
	}
	// (D2's name differs from D1's only in the case of a letter: names are keys as they are written)
	names := map[string]string{"D0": "n0", "D1": "n1", "D2": "N1", "D1b": "n1"}
	for mask := 0; mask < 8; mask++ {
		for nopts := 0; nopts <= 2; nopts++ {
			if nopts == 0 && mask != 0 {
				continue
			}
			var regObj *absint.Tok
			var t *tbl
			var newMetas int
			toks := map[string]*absint.Tok{}
			build := func() (absint.Oracle, []absint.Value, []absint.Value) {
				t = newTbl(c)
				newMetas = 0
				for id := range names {
					toks[id] = absint.NewTok(id, "meta")
				}
				t.typeTest = func(v absint.Value, ty types.Type) (bool, bool) {
					if m, ok := v.(*absint.Tok); ok && m.Class == "meta" {
						if p, isP := ty.(*types.Pointer); isP && core.NamedOf(p.Elem()) == meta {
							return true, true
						}
					}
					return false, false
				}
				t.callee[nameM] = func(ip *absint.Interp, a []absint.Value) absint.Value {
					if m, ok := a[0].(*absint.Tok); ok {
						if n, known := names[m.ID]; known {
							return absint.Str(n)
						}
						if n, isStr := m.Attr["name"].(absint.Str); isStr {
							return n
						}
					}
					panic(&absint.Undecided{Msg: "Name() of an unknown definition"})
				}
				if setName != nil {
					t.callee[setName] = func(ip *absint.Interp, a []absint.Value) absint.Value {
						if m, ok := a[0].(*absint.Tok); ok {
							m.Attr["name"] = a[1]
						}
						return nil
					}
				}
				t.callee[ro.NewMeta] = func(ip *absint.Interp, a []absint.Value) absint.Value {
					newMetas++
					m := absint.NewTok(fmt.Sprintf("new%d", newMetas), "meta")
					m.Attr["name"] = absint.Str("default-name")
					return m
				}
				t.dynamic = func(ip *absint.Interp, fn absint.Value, a []absint.Value) (absint.Value, bool) {
					if o, ok := fn.(*absint.Tok); ok && o.Class == "option" {
						m, _ := a[0].(*absint.Tok)
						idx := -1
						if m != nil && len(m.ID) >= 2 && m.ID[0] == 'D' {
							idx = int(m.ID[1] - '0')
						}
						if idx < 0 || idx > 2 {
							return absint.Bool(true), true
						}
						if o.ID == "opt0" {
							return absint.Bool(mask>>idx&1 == 1), true
						}
						return absint.Bool(idx != 2), true
					}
					return nil, false
				}
				t.setup = func(ip *absint.Interp) {
					made, _ := ip.CallFunction(ctor, nil, nil).(*absint.Tok)
					if made == nil {
						panic(&absint.Undecided{Msg: "the constructor did not yield an object"})
					}
					regObj = made
					// D1 is stored, and stored again by a definition of the same name
					for _, id := range []string{"D0", "D1", "D2", "D1b"} {
						ip.CallFunction(reg, []absint.Value{made, toks[id]}, nil)
					}
				}
				opts := &absint.List{IsNil: nopts == 0}
				for i := 0; i < nopts; i++ {
					opts.Elems = append(opts.Elems, absint.NewTok(fmt.Sprintf("opt%d", i), "option"))
				}
				return t, []absint.Value{&absint.Lazy{Eval: func(ip *absint.Interp) absint.Value { return regObj }}, opts}, nil
			}
			check := func(ip *absint.Interp, out absint.Outcome) {
				var want []string
				for i, id := range []string{"D0", "D1b", "D2"} {
					acc := true
					if nopts >= 1 && mask>>i&1 == 0 {
						acc = false
					}
					if nopts >= 2 && i == 2 {
						acc = false
					}
					if acc {
						want = append(want, id)
					}
				}
				var got []string
				if len(out.Ret) == 1 {
					if l, ok := out.Ret[0].(*absint.List); ok {
						for _, e := range l.Elems {
							got = append(got, absint.Show(e))
						}
					}
				}
				sort.Strings(got)
				sort.Strings(want)
				if out.Panic != nil || strings.Join(got, ",") != strings.Join(want, ",") {
					bad = fmt.Sprintf("after storing D0, D1, D2 and D1b under D1's name: GetMetas with %d option(s), accept-mask %03b => %v, want %v", nopts, mask, got, want)
					return
				}
				// by name, on the same registry
				for _, q := range []struct{ key, want string }{{"n1", "D1b"}, {"N1", "D2"}, {"n0", "D0"}, {"N0", "<nil>"}, {"n0 ", "<nil>"}, {" n0", "<nil>"}, {"missing", "<nil>"}} {
					o2 := ip.Run(byName, []absint.Value{regObj, absint.Str(q.key)}, nil)
					g := "?"
					if o2.Undecided == nil && o2.Panic == nil && len(o2.Ret) == 1 {
						g = absint.Show(o2.Ret[0])
						if _, isNil := o2.Ret[0].(absint.Nil); isNil {
							g = "<nil>"
						}
					}
					if g != q.want {
						bad = fmt.Sprintf("GetMetaByName(%q) => %s, want %s", q.key, g, q.want)
						return
					}
				}
				// get-or-register: keeps what is there; otherwise one new definition, answering to the key, found again
				o3 := ip.Run(gor, []absint.Value{regObj, absint.Str("N1"), absint.NewTok("component", "component")}, nil)
				if o3.Undecided != nil || o3.Panic != nil || len(o3.Ret) != 1 || absint.Show(o3.Ret[0]) != "D2" || newMetas != 0 {
					bad = fmt.Sprintf("GetMetaOrRegister of a stored name => %s (new definitions built: %d), want the stored one and none built", showOutcome(o3), newMetas)
					return
				}
				o4 := ip.Run(gor, []absint.Value{regObj, absint.Str("fresh"), absint.NewTok("component", "component")}, nil)
				nm, _ := first(o4.Ret).(*absint.Tok)
				if o4.Undecided != nil || o4.Panic != nil || nm == nil || newMetas != 1 || nm.Attr["name"] != absint.Value(absint.Str("fresh")) {
					bad = fmt.Sprintf("GetMetaOrRegister of a new name => %s (new definitions built: %d): want one new definition renamed to the key", showOutcome(o4), newMetas)
					return
				}
				o5 := ip.Run(byName, []absint.Value{regObj, absint.Str("fresh")}, nil)
				if o5.Undecided != nil || o5.Panic != nil || len(o5.Ret) != 1 || o5.Ret[0] != absint.Value(nm) {
					bad = fmt.Sprintf("the definition GetMetaOrRegister made is not found under its key: %s", showOutcome(o5))
				}
			}
			k, u := runTable(c, getMetas, build, check)
			runs += k
			if u != "" {
				return "left the model: " + u, runs
			}
			if bad != "" {
				return bad, runs
			}
		}
	}
	return bad, runs
}

func definitionRegistryByStateMemo(c *core.Ctx, T *types.Named) (string, int) {
	key := "defreg-by-state:" + T.String()
	type res struct {
		bad  string
		runs int
	}
	if v, ok := c.Memo.Load(key); ok {
		x := v.(res)
		return x.bad, x.runs
	}
	b, n := definitionRegistryByState(c, T)
	c.Memo.Store(key, res{b, n})
	return b, n
}
