package rules

import (
	"fmt"
	"go/types"
	"sort"
	"strings"

	"golang.org/x/tools/go/ssa"

	"iocvet/internal/absint"
	"iocvet/internal/core"
)

// constructorYielding: the parameterless package-level function of T's package every return of which hands out a
// freshly made *T (also boxed into an interface); nil unless there is exactly one.
func constructorYielding(c *core.Ctx, T *types.Named) *ssa.Function {
	var found *ssa.Function
	for _, fn := range c.Scope {
		if fn.Parent() != nil || fn.Signature.Recv() != nil || len(fn.Params) != 0 || fn.Signature.Results().Len() != 1 || fn.Pkg == nil || fn.Pkg.Pkg != T.Obj().Pkg() || fn.Blocks == nil {
			continue
		}
		ok, n := true, 0
		for _, b := range fn.Blocks {
			for _, in := range b.Instrs {
				ret, isRet := in.(*ssa.Return)
				if !isRet {
					continue
				}
				n++
				v := ret.Results[0]
				if mi, isMI := v.(*ssa.MakeInterface); isMI {
					v = mi.X
				}
				al, isAl := v.(*ssa.Alloc)
				if !isAl || core.NamedOf(al.Type()) != T {
					ok = false
				}
			}
		}
		if !ok || n == 0 {
			continue
		}
		if found != nil {
			return nil
		}
		found = fn
	}
	return found
}

// containerDump lists what the keyed containers reachable from obj hold - Go maps in fields (three levels deep) and the
// sync.Map models of the table - as "place[key]" -> value.
func (t *tbl) containerDump(obj *absint.Tok) map[string]string {
	out := map[string]string{}
	var walk func(o *absint.Tok, path string, depth int)
	seen := map[*absint.Tok]bool{}
	walk = func(o *absint.Tok, path string, depth int) {
		if o == nil || depth > 3 || seen[o] {
			return
		}
		seen[o] = true
		var names []string
		for k := range o.Fields {
			names = append(names, k)
		}
		sort.Strings(names)
		for _, k := range names {
			switch v := o.Fields[k].(type) {
			case *absint.MapVal:
				for mk, mv := range v.M {
					out[path+"."+k+"["+mk+"]"] = absint.Show(mv)
				}
			case *absint.Tok:
				walk(v, path+"."+k, depth+1)
			case *absint.List:
				// (a list kept beside the container - names in registration order, say - is part of the state)
				for i, e := range v.Elems {
					out[fmt.Sprintf("%s.%s#%d", path, k, i)] = absint.Show(e)
				}
			case absint.Int, absint.Str, absint.Bool:
				out[path+"."+k] = absint.Show(v)
			}
		}
	}
	walk(obj, "", 0)
	i := 0
	var ids []string
	byID := map[string]*syncMapModel{}
	for k, m := range t.fieldMaps {
		byID["field:"+k[strings.LastIndex(k, ".")+1:]] = m
	}
	for _, m := range t.syncMaps {
		i++
		byID[fmt.Sprintf("syncmap#%d", len(m.keys))+fmt.Sprint(i)] = m
	}
	for id := range byID {
		ids = append(ids, id)
	}
	sort.Strings(ids)
	for _, id := range ids {
		m := byID[id]
		place := id
		if strings.HasPrefix(id, "syncmap#") {
			place = "syncmap"
		}
		for k, v := range m.v {
			out[place+"["+k+"]"] = absint.Show(v)
		}
	}
	return out
}

// registerTableByState decides RegisterSingleton's table for a registry of any representation: the registry is made
// by its constructor, brought into the row's state by the routine itself (the first row shows that on an empty
// registry it stores the component under its name and nothing else), and what the containers reachable from the
// registry hold is compared before and after.
func registerTableByState(c *core.Ctx, T *types.Named, reg *ssa.Function, nameFn *ssa.Function) (bad string, runs int) {
	ctor := constructorYielding(c, T)
	if ctor == nil {
		return "no single constructor of " + T.Obj().Name() + " found to make the registry the table runs on", 0
	}
	for _, existing := range []string{"none", "same", "other"} {
		var before, after map[string]string
		var t *tbl
		var regObj *absint.Tok
		panicked := false
		build := func() (absint.Oracle, []absint.Value, []absint.Value) {
			panicked, before, after, regObj = false, nil, nil, nil
			t = newTbl(c)
			comp := absint.NewTok("component", "component")
			other := absint.NewTok("otherComponent", "component")
			t.callee[nameFn] = func(ip *absint.Interp, a []absint.Value) absint.Value {
				if a[0] != absint.Value(comp) && a[0] != absint.Value(other) {
					panic(&absint.Undecided{Msg: "name of something else than the component"})
				}
				return absint.Str("NAME")
			}
			inSetup := true
			t.invokeN["Panicf"] = func(ip *absint.Interp, a []absint.Value) absint.Value {
				if inSetup {
					panic(&absint.Undecided{Msg: "bringing the registry into the row's state was reported as a duplicate"})
				}
				panicked = true
				if ip.Choose(2, "log level lets Panicf panic") == 1 {
					return nil
				}
				panic(&absint.GoPanic{Msg: "Panicf"})
			}
			t.invokeN["Panic"] = t.invokeN["Panicf"]
			t.setup = func(ip *absint.Interp) {
				made, _ := ip.CallFunction(ctor, nil, nil).(*absint.Tok)
				if made == nil {
					panic(&absint.Undecided{Msg: "the constructor did not yield an object"})
				}
				regObj = made
				switch existing {
				case "same":
					ip.CallFunction(reg, []absint.Value{made, comp}, nil)
				case "other":
					ip.CallFunction(reg, []absint.Value{made, other}, nil)
				}
				inSetup = false
				before = t.containerDump(made)
			}
			return t, []absint.Value{&absint.Lazy{Eval: func(ip *absint.Interp) absint.Value { return regObj }}, comp}, nil
		}
		check := func(ip *absint.Interp, out absint.Outcome) {
			after = t.containerDump(regObj)
			var added, changed []string
			for k, v := range after {
				if w, ok := before[k]; !ok {
					added = append(added, k+"="+v)
				} else if w != v {
					changed = append(changed, k)
				}
			}
			for k := range before {
				if _, ok := after[k]; !ok {
					changed = append(changed, k)
				}
			}
			sort.Strings(added)
			// what is added beside the keyed entry may only be the name or the component itself, once (a list of names)
			var keyed, beside []string
			for _, a := range added {
				if strings.Contains(a, "[") {
					keyed = append(keyed, a)
				} else {
					beside = append(beside, a)
				}
			}
			okBeside := len(beside) <= 1
			for _, a := range beside {
				if !strings.HasSuffix(a, `="NAME"`) && !strings.HasSuffix(a, "=component") {
					okBeside = false
				}
			}
			added = keyed
			ok := len(changed) == 0 && okBeside
			if existing != "none" && len(beside) != 0 {
				ok = false
			}
			switch existing {
			case "none":
				ok = ok && !panicked && out.Panic == nil && len(before) == 0 && len(added) == 1 && strings.HasSuffix(added[0], "[NAME]=component") || ok && !panicked && out.Panic == nil && len(added) == 1 && strings.HasSuffix(added[0], `["NAME"]=component`)
			case "same":
				ok = ok && !panicked && out.Panic == nil && len(added) == 0 && len(before) >= 1
			case "other":
				ok = ok && panicked && len(added) == 0 && len(before) >= 1
			}
			if !ok {
				bad = fmt.Sprintf("existing=%s held before=%v added=%v beside=%v changed=%v panicked=%v => %s", existing, before, added, beside, changed, panicked, showOutcome(out))
			}
		}
		k, u := runTable(c, reg, build, check)
		runs += k
		if u != "" {
			bad = "left the model: " + u
		}
	}
	return bad, runs
}
