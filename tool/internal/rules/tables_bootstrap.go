package rules

import (
	"fmt"
	"go/types"
	"sort"
	"strings"

	"golang.org/x/tools/go/ssa"

	"iocvet/internal/absint"
	"iocvet/internal/core"
)

var bootstrapRows = map[string]string{
	"chain-order":  "the dispatch list ends up holding one entry per registered post-processor, in the order the ordering helper returned",
	"eager-create": "exactly the post-processors that are not LazyInit are created through the factory, in that order, each once; a LazyInit one is taken as registered",
	"chain-active": "when a post-processor is created, every post-processor ordered before it is already in the dispatch list (it processes the later ones)",
	"managed":      "the entry of a created post-processor is the factory-managed instance when that is a post-processor, the registered object otherwise",
	"phases":       "every factory post-processor has run before the definition scan starts (a scanner may get its settings there, and a factory post-processor that asks the factory for components finds no definitions yet and creates nothing), and the scan is through before any post-processor is sorted or created",
	"error":        "a failing factory post-processor, definition scan or creation ends the bootstrap with a non-nil error and nothing further happens; otherwise the result is nil",
}

// containsGo: fn (or one of its literals) starts a goroutine.
func containsGo(fn *ssa.Function) bool {
	for _, f := range core.WithAnon(fn) {
		for _, b := range f.Blocks {
			for _, in := range b.Instrs {
				if _, ok := in.(*ssa.Go); ok {
					return true
				}
			}
		}
	}
	return false
}

// startsGoroutines: fn starts goroutines itself, or hands one of its function literals to an in-scope helper that
// does (a helper that owns the loop, the goroutines and the join).
func startsGoroutines(c *core.Ctx, fn *ssa.Function) bool {
	if containsGo(fn) {
		return true
	}
	for _, f := range core.WithAnon(fn) {
		for _, ci := range core.Calls(f) {
			cal := ci.Common().StaticCallee()
			if cal == nil || !c.InScope(cal) || !containsGo(cal) {
				continue
			}
			for _, a := range ci.Common().Args {
				if lit := core.ClosureOf(a); lit != nil && lit.Parent() != nil && core.TopLevel(lit) == core.TopLevel(fn) {
					return true
				}
			}
		}
	}
	return false
}

type bootstrapSubject struct {
	fn       *ssa.Function   // the bootstrap routine
	register *ssa.Function   // appends a post-processor to the registration list
	recv     *types.Named    // the delegate type
	dispatch string          // name of the field the dispatch loops range over
	owner    *types.Named    // the type that field belongs to: the delegate, or a state object it is layered on
	state    []*types.Named  // the delegate type and the unexported struct types of its package it keeps its state in
	parallel []*ssa.Function // in-package callees that start goroutines (opaque events here; decided by C20)
}

// heldBy: T is an unexported struct type that exactly one other named struct type of its package keeps in a field (by
// value or by pointer); returns that type.
func heldBy(c *core.Ctx, T *types.Named) *types.Named {
	if T == nil || T.Obj().Exported() || core.StructOf(T) == nil || T.Obj().Pkg() == nil {
		return nil
	}
	var holder *types.Named
	sc := T.Obj().Pkg().Scope()
	for _, name := range sc.Names() {
		tn, ok := sc.Lookup(name).(*types.TypeName)
		if !ok {
			continue
		}
		n, ok := tn.Type().(*types.Named)
		if !ok || n == T {
			continue
		}
		st := core.StructOf(n)
		if st == nil {
			continue
		}
		for i := 0; i < st.NumFields(); i++ {
			ft := st.Field(i).Type()
			if p, isP := ft.Underlying().(*types.Pointer); isP {
				ft = p.Elem()
			}
			if core.NamedOf(ft) == T {
				if holder != nil && holder != n {
					return nil
				}
				holder = n
			}
		}
	}
	return holder
}

func findBootstrap(c *core.Ctx) (*bootstrapSubject, string) {
	ro := c.Roles()
	cpp := c.Named("container", "ComponentPostProcessor")
	if cpp == nil || ro.Sorter == nil {
		return nil, "container.ComponentPostProcessor / the ordering helper not found"
	}
	subs := lowestReaching(c, "container/factory",
		func(com *ssa.CallCommon) bool { return core.IsCallTo(com, ro.Sorter) },
		func(com *ssa.CallCommon) bool { return core.IsInvoke(com, ro.FGetComponentByName) })
	if len(subs) != 1 {
		return nil, fmt.Sprintf("found %d smallest functions of container/factory that sort post-processors and create them through the factory, expected 1", len(subs))
	}
	s := &bootstrapSubject{fn: subs[0]}
	// a bootstrap whose steps are methods of a run-context object (made when the call starts, dropped when it returns):
	// the routine is the method of the long-lived delegate that makes the context and runs it
	// ... or of a state object the delegate keeps a part of its fields in: the routine is the delegate's method
	// that runs it
	s.fn = liftToShape(c, s.fn, func(sig *types.Signature) bool {
		return sig.Recv() != nil && !transientType(c, core.NamedOf(sig.Recv().Type()), 0) && heldBy(c, core.NamedOf(sig.Recv().Type())) == nil
	})
	if s.fn.Signature.Recv() == nil {
		return nil, "the bootstrap routine is not a method"
	}
	s.recv = core.NamedOf(s.fn.Signature.Recv().Type())
	s.state = stateTypes(s.recv)
	inState := func(n *types.Named) bool {
		for _, x := range s.state {
			if x == n {
				return true
			}
		}
		return false
	}
	// helpers of the bootstrap (not registration functions)
	helpers := map[*ssa.Function]bool{}
	reachesCall(s.fn, func(*ssa.CallCommon) bool { return false }, helpers)
	// the parallel definition scan: the functions of the package that start goroutines and dispatch definition
	// registry post-processors (a helper of the bootstrap or a sibling stage of it)
	seenPar := map[*ssa.Function]bool{}
	// ... as a whole: the smallest function that reaches both the list of definition scanners and their calls
	if getScanners := c.IfaceMethod("container", "Factory", "GetDefinitionRegistryPostProcessors"); getScanners != nil && ro.DRPPPostProcess != nil {
		whole := lowestReaching(c, "container/factory",
			func(com *ssa.CallCommon) bool { return core.IsInvoke(com, getScanners) },
			func(com *ssa.CallCommon) bool { return core.IsInvoke(com, ro.DRPPPostProcess) })
		if len(whole) == 1 && whole[0] != s.fn && core.PkgOf(whole[0]) == core.PkgOf(s.fn) {
			parts := map[*ssa.Function]bool{}
			reachesCall(whole[0], func(*ssa.CallCommon) bool { return false }, parts)
			for f := range parts {
				if containsGo(f) || startsGoroutines(c, f) {
					seenPar[whole[0]] = true
				}
			}
			if seenPar[whole[0]] {
				s.parallel = append(s.parallel, whole[0])
			}
		}
	}
	for _, site := range c.CallSites(func(com *ssa.CallCommon) bool { return core.IsInvoke(com, ro.DRPPPostProcess) }) {
		h := core.TopLevel(site.Parent())
		for depth := 0; depth < 3 && h != nil && !startsGoroutines(c, h); depth++ {
			// the goroutine body may be a named function: look at its only caller
			callers := c.Callers(h)
			if len(callers) != 1 {
				break
			}
			h = core.TopLevel(callers[0])
		}
		if len(s.parallel) > 0 && seenPar[s.parallel[0]] {
			reached := map[*ssa.Function]bool{}
			reachesCall(s.parallel[0], func(*ssa.CallCommon) bool { return false }, reached)
			if reached[h] || reached[core.TopLevel(site.Parent())] {
				continue // a part of the scan routine found above
			}
		}
		if h != nil && h != s.fn && core.PkgOf(h) == core.PkgOf(s.fn) && startsGoroutines(c, h) && !seenPar[h] {
			seenPar[h] = true
			s.parallel = append(s.parallel, h)
		}
	}
	// the registration function: another method of the same type that appends to a []ComponentPostProcessor field
	var regs []*ssa.Function
	for _, fn := range c.Scope {
		if helpers[fn] || fn.Signature.Recv() == nil || !inState(core.NamedOf(fn.Signature.Recv().Type())) || fn.Parent() != nil {
			continue
		}
		for _, b := range fn.Blocks {
			for _, in := range b.Instrs {
				st, ok := in.(*ssa.Store)
				if !ok {
					continue
				}
				fa, ok := st.Addr.(*ssa.FieldAddr)
				if !ok {
					continue
				}
				if sl, ok := fa.Type().Underlying().(*types.Pointer).Elem().Underlying().(*types.Slice); ok && types.Identical(sl.Elem(), cpp) {
					if core.IsNilConst(st.Val) {
						continue
					}
					dup := false
					for _, x := range regs {
						dup = dup || x == fn
					}
					if !dup {
						regs = append(regs, fn)
					}
				}
			}
		}
	}
	if len(regs) != 1 {
		return nil, fmt.Sprintf("found %d registration methods appending to a []ComponentPostProcessor field of %s, expected 1", len(regs), s.recv.Obj().Name())
	}
	s.register = regs[0]
	// a registration kept by a state object: the delegate's own method that hands the processor to it
	for i := 0; i < 3 && core.NamedOf(s.register.Signature.Recv().Type()) != s.recv; i++ {
		var ups []*ssa.Function
		for _, cl := range c.Callers(s.register) {
			if t := core.TopLevel(cl); !containsFn(ups, t) {
				ups = append(ups, t)
			}
		}
		if len(ups) != 1 || ups[0].Signature.Recv() == nil || !inState(core.NamedOf(ups[0].Signature.Recv().Type())) || helpers[ups[0]] {
			return nil, fmt.Sprintf("the registration method %s of the delegate's state is not reached from exactly one method of %s", core.FnName(s.register), s.recv.Obj().Name())
		}
		s.register = ups[0]
	}
	// the dispatch field: the []ComponentPostProcessor field read by the function that invokes PostProcessBeforeInitialization
	for _, site := range c.CallSites(func(com *ssa.CallCommon) bool { return core.IsInvoke(com, ro.CPBeforeInit) }) {
		// ... or by its callers, when the dispatching function is handed the list (a walker recursing on the rest)
		level := []*ssa.Function{core.TopLevel(site.Parent())}
		seen := map[*ssa.Function]bool{}
		for depth := 0; depth < 3 && s.dispatch == "" && len(level) > 0; depth++ {
			var next []*ssa.Function
			for _, fn := range level {
				if seen[fn] || fn.Signature.Recv() == nil || !inState(core.NamedOf(fn.Signature.Recv().Type())) {
					continue
				}
				seen[fn] = true
				for _, g := range core.WithAnon(fn) {
					for _, b := range g.Blocks {
						for _, in := range b.Instrs {
							if fa, ok := in.(*ssa.FieldAddr); ok {
								if fr, ok := core.FieldOfAddr(fa); ok && inState(fr.Owner) {
									if sl, ok := fa.Type().Underlying().(*types.Pointer).Elem().Underlying().(*types.Slice); ok && types.Identical(sl.Elem(), cpp) {
										s.dispatch, s.owner = fr.Name, fr.Owner
									}
								}
							}
						}
					}
				}
				for _, cl := range c.Callers(fn) {
					next = append(next, core.TopLevel(cl))
				}
				// ... or by a walker the dispatching function hands its per-processor step to
				for _, g := range core.WithAnon(fn) {
					for _, ci := range core.Calls(g) {
						if cal := ci.Common().StaticCallee(); cal != nil && c.InScope(cal) && cal.Signature.Recv() != nil && !seen[cal] {
							for _, a := range ci.Common().Args {
								if lit := core.ClosureOf(a); lit != nil && core.TopLevel(lit) == fn {
									next = append(next, cal)
								}
							}
						}
					}
				}
			}
			level = next
		}
	}
	if s.dispatch == "" {
		return nil, "the list field the before-initialization dispatch ranges over was not found"
	}
	return s, ""
}

// dispatchFieldName: the name of the delegate's list field that the bootstrap fills in contract order ("" if the
// bootstrap could not be located; C12.R5 reports that).
func dispatchFieldName(c *core.Ctx) string {
	if v, ok := c.Memo.Load("dispatch-field"); ok {
		return v.(string)
	}
	name := ""
	if bs, _ := findBootstrap(c); bs != nil {
		name = bs.dispatch
	}
	c.Memo.Store("dispatch-field", name)
	return name
}

// dispatchList is what a decision table answers for a list-of-interfaces field of the delegate: the table's
// processors for the dispatch list, nothing for any other list (the registration-order list is emptied by the
// bootstrap) - a stage that ranges over the wrong list asks nobody and fails its order row.
func dispatchList(c *core.Ctx, t *tbl, field string, procs *absint.List) absint.Value {
	if d := dispatchFieldName(c); d != "" && field != d {
		if I, ok := derivedDispatchLists(c)[field]; ok && t != nil && t.typeTest != nil {
			// an index kept next to the dispatch list: its entries of that interface, in the same order
			out := &absint.List{IsNil: true}
			for _, p := range procs.Elems {
				is, known := t.typeTest(p, I)
				if !known {
					panic(&absint.Undecided{Msg: "whether " + absint.Show(p) + " is listed in the index " + field})
				}
				if is {
					out.Elems, out.IsNil = append(out.Elems, p), false
				}
			}
			return out
		}
		return &absint.List{IsNil: true}
	}
	return procs
}

// appendedElems: the values of `append(s, v1, v2)` (the elements of the variadic temporary), nil for `append(s, t...)`.
func appendedElems(call *ssa.Call) []ssa.Value {
	if bi, isB := call.Common().Value.(*ssa.Builtin); !isB || bi.Name() != "append" || len(call.Common().Args) != 2 {
		return nil
	}
	sl, ok := call.Common().Args[1].(*ssa.Slice)
	if !ok {
		return nil
	}
	al, ok := sl.X.(*ssa.Alloc)
	if !ok {
		return nil
	}
	var out []ssa.Value
	for _, ref := range *al.Referrers() {
		ia, ok := ref.(*ssa.IndexAddr)
		if !ok {
			continue
		}
		for _, r2 := range *ia.Referrers() {
			if st, ok := r2.(*ssa.Store); ok && st.Addr == ssa.Value(ia) {
				out = append(out, st.Val)
			}
		}
	}
	return out
}

// derivedDispatchLists finds the index lists kept next to the dispatch list: a field []I of the delegate whose every
// store is `F = append(F, v.(I))` under nothing but the success of that type test, in a function where the same v
// is appended to the dispatch list just before - and every append to the dispatch list is accompanied by that test.
// Such a list holds the dispatch list's entries of interface I in the same relative order, whatever the inputs.
func derivedDispatchLists(c *core.Ctx) map[string]types.Type {
	if v, ok := c.Memo.Load("derived-dispatch"); ok {
		return v.(map[string]types.Type)
	}
	out := map[string]types.Type{}
	defer func() { c.Memo.Store("derived-dispatch", out) }()
	bs, _ := findBootstrap(c)
	if bs == nil {
		return out
	}
	st := core.StructOf(bs.owner)
	if st == nil {
		return out
	}
	// the appends to the dispatch list: store -> appended value
	dStores, _ := c.FieldAccesses(bs.owner, bs.dispatch)
	type dApp struct {
		st *ssa.Store
		v  ssa.Value
	}
	var dApps []dApp
	for _, a := range dStores {
		call, ok := a.Store.Val.(*ssa.Call)
		if !ok {
			return out // the dispatch list is also assigned as a whole: no index is recognised
		}
		el := appendedElems(call)
		if _, isLoad := core.IsFieldLoad(core.Norm(call.Common().Args[0]), bs.owner, bs.dispatch); !isLoad || len(el) != 1 {
			return out
		}
		dApps = append(dApps, dApp{a.Store, core.Norm(el[0])})
	}
	for i := 0; i < st.NumFields(); i++ {
		f := st.Field(i)
		sl, ok := f.Type().Underlying().(*types.Slice)
		if !ok || !types.IsInterface(sl.Elem()) || f.Name() == bs.dispatch {
			continue
		}
		stores, others := c.FieldAccesses(bs.owner, f.Name())
		if len(stores) == 0 {
			continue
		}
		good := true
		for _, o := range others {
			// loads only: the address must not escape
			if u, isLoad := o.Instr.(*ssa.UnOp); !isLoad || u.X != ssa.Value(o.Addr) {
				good = false
			}
		}
		matched := map[*ssa.Store]bool{}
		for _, a := range stores {
			call, ok := a.Store.Val.(*ssa.Call)
			if !ok {
				good = false
				break
			}
			el := appendedElems(call)
			if _, isLoad := core.IsFieldLoad(core.Norm(call.Common().Args[0]), bs.owner, f.Name()); !isLoad || len(el) != 1 {
				good = false
				break
			}
			ex, ok := el[0].(*ssa.Extract)
			if !ok || ex.Index != 0 {
				good = false
				break
			}
			ta, ok := ex.Tuple.(*ssa.TypeAssert)
			if !ok || !ta.CommaOk || !types.Identical(ta.AssertedType, sl.Elem()) {
				good = false
				break
			}
			// paired with an append of the same value to the dispatch list that always comes with this test
			var pair *dApp
			for k := range dApps {
				d := &dApps[k]
				if d.st.Parent() == a.Fn && d.v == core.Norm(ta.X) && core.Dominates(d.st, ta) && c.InstrPostDominates(ta, d.st) {
					pair = d
				}
			}
			if pair == nil {
				good = false
				break
			}
			// the store happens exactly when the test succeeded: its control dependences beyond the dispatch append's are the ok edge
			base := map[*ssa.If]bool{}
			for _, cd := range c.ControlDeps(pair.st.Block()) {
				base[cd.If] = true
			}
			nOwn := 0
			for _, cd := range c.ControlDeps(a.Store.Block()) {
				if base[cd.If] {
					continue
				}
				okx, isEx := cd.If.Cond.(*ssa.Extract)
				if !isEx || okx.Tuple != ssa.Value(ta) || okx.Index != 1 || !cd.Branch {
					good = false
				}
				nOwn++
			}
			if nOwn != 1 || core.InnermostLoop(a.Fn, a.Store.Block()) != core.InnermostLoop(a.Fn, pair.st.Block()) {
				good = false
			}
			matched[pair.st] = true
		}
		if good && len(matched) == len(dApps) {
			out[f.Name()] = sl.Elem()
		}
	}
	return out
}

// bootstrapTable registers n post-processors (every LazyInit / eager combination) through the registration method and
// then interprets the bootstrap routine with its helpers.
func bootstrapTable(c *core.Ctx, s *bootstrapSubject, maxLen int) (rs rows, runs int, undecided string) {
	ro := c.Roles()
	rs = rows{}
	lazyT := c.Named("definition", "LazyInit")
	cppT := c.Named("container", "ComponentPostProcessor")
	nameFn := c.Func("util/framework_helper", "GetComponentName")
	for n := 0; n <= maxLen; n++ {
		for mask := 0; mask < 1<<n; mask++ {
			var trace []string
			var created []string
			var chainAt []string
			var stopped, wantErr bool
			var after []string
			var dlg *absint.Tok
			notCPP := map[string]bool{}
			isLazy := func(i int) bool { return mask&(1<<(i-1)) != 0 }
			build := func() (absint.Oracle, []absint.Value, []absint.Value) {
				trace, created, chainAt, stopped, wantErr, after = nil, nil, nil, false, false, nil
				notCPP = map[string]bool{}
				t := newTbl(c)
				dlg = absint.NewTok("delegate", "delegate")
				zeroState(dlg, s.recv, 0)
				factory := absint.NewTok("factory", "factory")
				t.typeTest = func(v absint.Value, T types.Type) (bool, bool) {
					tok, ok := v.(*absint.Tok)
					if !ok {
						return false, false
					}
					if lazyT != nil && types.Identical(T, lazyT) {
						return tok.Attr["lazy"] == absint.Bool(true), true
					}
					if cppT != nil && types.Identical(T, cppT) {
						return !notCPP[tok.ID], true
					}
					if types.IsInterface(T) {
						return false, true // no other capability
					}
					return false, false
				}
				ev := func(e string, canFail bool, ip *absint.Interp) bool {
					if stopped {
						after = append(after, e)
					}
					trace = append(trace, e)
					if canFail && ip.Choose(2, e+" outcome") == 1 {
						stopped, wantErr = true, true
						trace = append(trace, "!")
						return false
					}
					return true
				}
				t.invoke[ro.CFPPPostProcess] = func(ip *absint.Interp, a []absint.Value) absint.Value {
					if !ev("factory-pp("+absint.Show(a[0])+")", true, ip) {
						return t.newErr("factory-pp")
					}
					return absint.Nil{}
				}
				for _, p := range s.parallel {
					t.callee[p] = func(ip *absint.Interp, a []absint.Value) absint.Value {
						if !ev("scan", true, ip) {
							return t.newErr("scan")
						}
						return absint.Nil{}
					}
				}
				var sorts []string
				srt := reversingSorter(&sorts)
				t.callee[ro.Sorter] = func(ip *absint.Interp, a []absint.Value) absint.Value {
					out := srt(ip, a).(*absint.List)
					// the sorted tokens keep the capabilities of the registered ones
					in := a[0].(*absint.List)
					for i, e := range out.Elems {
						src := in.Elems[len(in.Elems)-1-i].(*absint.Tok)
						e.(*absint.Tok).Attr["lazy"] = src.Attr["lazy"]
					}
					trace = append(trace, "sort")
					return out
				}
				if nameFn != nil {
					t.callee[nameFn] = func(ip *absint.Interp, a []absint.Value) absint.Value { return absint.Str("name:" + absint.Show(a[0])) }
				}
				t.invoke[ro.FGetComponentByName] = func(ip *absint.Interp, a []absint.Value) absint.Value {
					nm := absint.Show(a[1])
					created = append(created, nm)
					chainAt = append(chainAt, absint.Show(stateGet(dlg, s.dispatch)))
					if !ev("create("+nm+")", true, ip) {
						return absint.Tuple{absint.Nil{}, t.newErr("create")}
					}
					inst := absint.NewTok("managed("+strings.Trim(nm, `"`)+")", "instance")
					if ip.Choose(2, "managed instance is a post-processor") == 1 {
						notCPP[inst.ID] = true
					}
					return absint.Tuple{inst, absint.Nil{}}
				}
				// registration
				ip0 := absint.New(t)
				ip0.IsLog = core.IsLogCall
				ip0.InScope = c.InScope
				// the delegate as its constructor makes it (helper objects it owns included)
				if ctor := constructorOf(c, s.recv); ctor != nil {
					if out := ip0.Run(ctor, nil, nil); out.Undecided == nil && out.Panic == nil && len(out.Ret) == 1 {
						if made, ok := out.Ret[0].(*absint.Tok); ok {
							for k, v := range made.Fields {
								dlg.Fields[k] = v
							}
						}
					}
				}
				// every processor of the table has the same Go type (they differ in name, laziness and capabilities)
				if idFn := c.Func("util/reflectx", "Id"); idFn != nil {
					t.callee[idFn] = func(ip *absint.Interp, a []absint.Value) absint.Value {
						if tok, ok := a[0].(*absint.Tok); ok {
							return absint.Str("type-of:" + tok.Class)
						}
						return &absint.Opaque{Why: "text"}
					}
				}
				for i := 1; i <= n; i++ {
					p := absint.NewTok(fmt.Sprintf("P%d", i), "processor")
					p.Attr["lazy"] = absint.Bool(isLazy(i))
					args := []absint.Value{dlg, p}
					for k := 2; k < len(s.register.Params); k++ {
						args = append(args, absint.Str(fmt.Sprintf("name%d", i)))
					}
					if out := ip0.Run(s.register, args, nil); out.Undecided != nil {
						panic(&absint.Undecided{Msg: "registration: " + out.Undecided.Msg})
					}
				}
				args := []absint.Value{dlg}
				for _, p := range s.fn.Params[1:] {
					switch {
					case types.IsInterface(p.Type()):
						args = append(args, factory)
					default:
						if _, isSl := p.Type().Underlying().(*types.Slice); isSl {
							args = append(args, &absint.List{Elems: []absint.Value{absint.NewTok("F1", "factory-processor"), absint.NewTok("F2", "factory-processor")}}) // two: a failure of the first must not be forgotten over the second
						} else {
							args = append(args, absint.NewTok("arg:"+p.Name(), "arg"))
						}
					}
				}
				return t, args, nil
			}
			check := func(ip *absint.Interp, out absint.Outcome) {
				cfg := ""
				for i := 1; i <= n; i++ {
					if isLazy(i) {
						cfg += fmt.Sprintf("P%d:lazy ", i)
					} else {
						cfg += fmt.Sprintf("P%d:eager ", i)
					}
				}
				final := absint.Show(stateGet(dlg, s.dispatch))
				w := fmt.Sprintf("registered [%s] trace=%v chain-at-creation=%v final dispatch list=%s => %s", strings.TrimSpace(cfg), trace, chainAt, final, showOutcome(out))
				if out.Panic != nil {
					rs.fail("error", "PANIC "+w)
					return
				}
				isErr := len(out.Ret) == 1 && isErrTok(out.Ret[0])
				rs.hit("error")
				if isErr != wantErr || len(after) != 0 {
					rs.fail("error", w)
				}
				rs.hit("phases")
				phase := 0 // 0 factory post-processors, 1 scan, 2 sorting and creation
				for _, e := range trace {
					switch {
					case strings.HasPrefix(e, "factory-pp("):
						if phase > 0 {
							rs.fail("phases", w)
						}
					case e == "scan":
						if phase > 1 {
							rs.fail("phases", w)
						}
						phase = 1
					case e == "sort" || strings.HasPrefix(e, "create("):
						phase = 2
					}
				}
				// expected creations, in sorted (= reversed) order
				var wantCreate []string
				for i := n; i >= 1; i-- {
					if !isLazy(i) {
						wantCreate = append(wantCreate, fmt.Sprintf("%q", fmt.Sprintf("name:sorted:P%d", i)))
					}
				}
				rs.hit("eager-create")
				okCreate := len(created) <= len(wantCreate) && (wantErr || len(created) == len(wantCreate))
				for i := 0; okCreate && i < len(created); i++ {
					okCreate = created[i] == wantCreate[i]
				}
				if !okCreate {
					rs.fail("eager-create", w+fmt.Sprintf(" expected creations %v", wantCreate))
					return
				}
				if wantErr {
					return
				}
				// final chain
				l, _ := stateGet(dlg, s.dispatch).(*absint.List)
				rs.hit("chain-order")
				okLen := l != nil && len(l.Elems) == n
				var entries []string
				if l != nil {
					for _, e := range l.Elems {
						entries = append(entries, absint.Show(e))
					}
				}
				okOrder := okLen
				for i := 0; okOrder && i < n; i++ {
					k := n - i
					okOrder = entries[i] == fmt.Sprintf("sorted:P%d", k) || entries[i] == fmt.Sprintf("managed(name:sorted:P%d)", k)
				}
				if !okOrder {
					rs.fail("chain-order", w)
					return
				}
				rs.hit("managed")
				for i := 0; i < n; i++ {
					k := n - i
					m := fmt.Sprintf("managed(name:sorted:P%d)", k)
					want := fmt.Sprintf("sorted:P%d", k)
					if !isLazy(k) && !notCPP[m] {
						want = m
					}
					if entries[i] != want {
						rs.fail("managed", w)
					}
				}
				// chain at creation time: the entries of everything ordered before
				rs.hit("chain-active")
				ci := 0
				for i := 0; i < n; i++ {
					k := n - i
					if isLazy(k) {
						continue
					}
					want := "[" + strings.Join(entries[:i], " ") + "]"
					got := chainAt[ci]
					if i == 0 && (got == "[]nil" || got == "<nil>" || got == "nil") {
						got = "[]"
					}
					if got != want {
						rs.fail("chain-active", w+fmt.Sprintf(" (creation #%d saw %s, expected %s)", ci+1, chainAt[ci], want))
					}
					ci++
				}
			}
			m, u := runTable(c, s.fn, build, check)
			runs += m
			if u != "" {
				return rs, runs, u
			}
		}
	}
	return
}

// constructorOf: the parameterless in-scope function of T's package that returns a *T it has just made.
func constructorOf(c *core.Ctx, T *types.Named) *ssa.Function {
	var found *ssa.Function
	for _, fn := range c.Scope {
		if fn.Parent() != nil || fn.Signature.Recv() != nil || len(fn.Params) != 0 || fn.Signature.Results().Len() != 1 || fn.Pkg == nil || fn.Pkg.Pkg != T.Obj().Pkg() {
			continue
		}
		if core.NamedOf(fn.Signature.Results().At(0).Type()) != T {
			continue
		}
		if found != nil {
			return nil // more than one: the table keeps the zero-valued object
		}
		found = fn
	}
	return found
}

// stateTypes: T and the unexported struct types of T's package that T holds (by value or by pointer, two levels): the
// objects a type keeps its state in when that state has been moved out of the type itself.
func stateTypes(T *types.Named) []*types.Named {
	out := []*types.Named{T}
	var add func(n *types.Named, depth int)
	add = func(n *types.Named, depth int) {
		st := core.StructOf(n)
		if st == nil || depth >= 2 {
			return
		}
		for i := 0; i < st.NumFields(); i++ {
			ft := st.Field(i).Type()
			if p, ok := ft.Underlying().(*types.Pointer); ok {
				ft = p.Elem()
			}
			fn := core.NamedOf(ft)
			if fn == nil || fn.Obj().Pkg() != T.Obj().Pkg() || fn.Obj().Exported() || core.StructOf(fn) == nil {
				continue
			}
			dup := false
			for _, x := range out {
				dup = dup || x == fn
			}
			if !dup {
				out = append(out, fn)
				add(fn, depth+1)
			}
		}
	}
	add(T, 0)
	return out
}

// zeroState gives the object the zero values of its slice, basic and map fields, and does the same for the state
// objects it holds by value.
func zeroState(obj *absint.Tok, T *types.Named, depth int) {
	st := core.StructOf(T)
	if st == nil {
		return
	}
	z := absint.New(nil)
	for i := 0; i < st.NumFields(); i++ {
		f := st.Field(i)
		switch f.Type().Underlying().(type) {
		case *types.Slice, *types.Basic, *types.Map:
			obj.Fields[f.Name()] = z.ZeroOf(f.Type())
		case *types.Struct:
			if fn := core.NamedOf(f.Type()); fn != nil && fn.Obj().Pkg() == T.Obj().Pkg() && !fn.Obj().Exported() && depth < 2 {
				sub := absint.NewTok(obj.ID+"."+f.Name(), "field")
				zeroState(sub, fn, depth+1)
				obj.Fields[f.Name()] = sub
			}
		}
	}
}

// stateGet: the field of that name of the object, or of a state object it holds (two levels).
func stateGet(obj *absint.Tok, name string) absint.Value {
	var get func(o *absint.Tok, depth int) (absint.Value, bool)
	get = func(o *absint.Tok, depth int) (absint.Value, bool) {
		if v, ok := o.Fields[name]; ok {
			return v, true
		}
		if depth >= 2 {
			return nil, false
		}
		var keys []string
		for k := range o.Fields {
			keys = append(keys, k)
		}
		sort.Strings(keys)
		for _, k := range keys {
			if sub, ok := o.Fields[k].(*absint.Tok); ok && sub != o && (sub.Class == "field" || strings.HasPrefix(sub.ID, "alloc")) {
				if v, ok := get(sub, depth+1); ok {
					return v, true
				}
			}
		}
		return nil, false
	}
	v, _ := get(obj, 0)
	return v
}

// partOfState: obj is self, or a state object self holds (looked up on demand or made by self's constructor).
func partOfState(obj, self *absint.Tok) bool {
	if obj == self {
		return true
	}
	if obj.Class == "field" && strings.HasPrefix(obj.ID, self.ID+".") {
		return true
	}
	for _, v := range self.Fields {
		if sub, ok := v.(*absint.Tok); ok && sub != self {
			if sub == obj {
				return true
			}
			for _, w := range sub.Fields {
				if w == absint.Value(obj) {
					return true
				}
			}
		}
	}
	return false
}

// transientType: an unexported struct type that nothing long-lived holds - no package-level variable has it, and
// every struct with a field of it is transient itself: a run context.
func transientType(c *core.Ctx, T *types.Named, depth int) bool {
	if T == nil || T.Obj().Exported() || core.StructOf(T) == nil || depth > 3 {
		return false
	}
	key := "transient:" + T.String()
	if v, ok := c.Memo.Load(key); ok {
		return v.(bool)
	}
	res := true
	// T and the types defined from it (`type X T`: an X is a T under another method set)
	same := func(n *types.Named) bool {
		if n == nil {
			return false
		}
		if n.Origin() == T.Origin() {
			return true
		}
		return n.Obj().Pkg() == T.Obj().Pkg() && n.TypeArgs().Len() == 0 && T.TypeArgs().Len() == 0 && types.Identical(n.Underlying(), T.Underlying())
	}
	holds := func(t types.Type) bool {
		if p, ok := t.Underlying().(*types.Pointer); ok {
			t = p.Elem()
		}
		switch u := t.(type) {
		case *types.Named:
			return same(u)
		}
		switch u := t.Underlying().(type) {
		case *types.Slice:
			return same(core.NamedOf(u.Elem()))
		case *types.Map:
			return same(core.NamedOf(u.Elem()))
		}
		return false
	}
	for _, p := range c.Pkgs {
		if p.Types == nil || p.Types != T.Obj().Pkg() {
			continue
		}
		sc := p.Types.Scope()
		for _, name := range sc.Names() {
			switch o := sc.Lookup(name).(type) {
			case *types.Var:
				if holds(o.Type()) {
					res = false
				}
			case *types.TypeName:
				n, ok := o.Type().(*types.Named)
				if !ok || n == T {
					continue
				}
				if same(n) && n.Obj().Exported() {
					res = false // the exported face of the same object
				}
				st := core.StructOf(n)
				if st == nil {
					continue
				}
				for i := 0; i < st.NumFields(); i++ {
					if holds(st.Field(i).Type()) && !transientType(c, n, depth+1) {
						res = false
					}
				}
			}
		}
	}
	c.Memo.Store(key, res)
	return res
}

// registeredState runs the delegate's own registration method on a fresh delegate for each of the table's processors
// (with the table's oracle answering what each processor is) and returns that delegate: the state registration leaves
// behind in fields the tables do not set up themselves - a policy object chosen by what has been registered.  nil if
// the bootstrap is not located or registration leaves the model.
func registeredState(c *core.Ctx, t *tbl, procs *absint.List) *absint.Tok {
	bs, _ := findBootstrap(c)
	if bs == nil {
		return nil
	}
	dlg := absint.NewTok("registered-delegate", "delegate")
	zeroState(dlg, bs.recv, 0)
	ip := absint.New(t)
	ip.IsLog, ip.InScope = core.IsLogCall, c.InScope
	ok := true
	// a capability the table says nothing about is one its processors do not have
	oldTT, oldTTC := t.typeTest, t.typeTestC
	isProc := func(v absint.Value) bool {
		for _, p := range procs.Elems {
			if p == v {
				return true
			}
		}
		return false
	}
	if oldTTC != nil {
		t.typeTestC = func(ip2 *absint.Interp, v absint.Value, T types.Type) (bool, bool) {
			if is, known := oldTTC(ip2, v, T); known || !types.IsInterface(T) || !isProc(v) {
				return is, known
			}
			return false, true
		}
	} else {
		t.typeTest = func(v absint.Value, T types.Type) (bool, bool) {
			if oldTT != nil {
				if is, known := oldTT(v, T); known {
					return is, known
				}
			}
			if types.IsInterface(T) && isProc(v) {
				return false, true
			}
			return false, false
		}
	}
	defer func() { t.typeTest, t.typeTestC = oldTT, oldTTC }()
	func() {
		defer func() {
			if r := recover(); r != nil {
				if _, isU := r.(*absint.Undecided); isU {
					ok = false
					return
				}
				panic(r)
			}
		}()
		if ctor := constructorOf(c, bs.recv); ctor != nil {
			if out := ip.Run(ctor, nil, nil); out.Undecided == nil && out.Panic == nil && len(out.Ret) == 1 {
				if made, isTok := out.Ret[0].(*absint.Tok); isTok {
					for k, v := range made.Fields {
						dlg.Fields[k] = v
					}
				}
			}
		}
		for i, p := range procs.Elems {
			args := []absint.Value{dlg, p}
			for k := 2; k < len(bs.register.Params); k++ {
				args = append(args, absint.Str(fmt.Sprintf("name%d", i)))
			}
			if out := ip.Run(bs.register, args, nil); out.Undecided != nil || out.Panic != nil {
				ok = false
				return
			}
		}
	}()
	if !ok {
		return nil
	}
	return dlg
}

// policyField: the value of a field of an internal interface type (a policy object) of the delegate, as registration
// of the table's processors leaves it; nil when it is not such a field or registration cannot be followed.
func policyField(c *core.Ctx, t *tbl, procs *absint.List, name string, typ types.Type, cache **absint.Tok, tried *bool) absint.Value {
	if _, isIface := typ.Underlying().(*types.Interface); !isIface {
		return nil
	}
	n := core.NamedOf(typ)
	if n == nil || n.Obj().Exported() || n.Obj().Pkg() == nil || !core.InScopePath(n.Obj().Pkg().Path()) {
		return nil
	}
	if !*tried {
		*tried = true
		*cache = registeredState(c, t, procs)
	}
	if *cache == nil {
		return nil
	}
	if v := stateGet(*cache, name); v != nil {
		return v
	}
	return absint.Nil{} // registration left the field unset
}
