package rules

import (
	"go/token"
	"go/types"
	"strconv"
	"sync"

	"golang.org/x/tools/go/ssa"

	"iocvet/internal/core"
)

func init() { register("C14", c14) }

// wgOf returns the allocation a *sync.WaitGroup operand denotes (through closure free variables).
func wgOf(v ssa.Value) ssa.Value {
	v = core.Norm(v)
	// a field of a parameter object (go pass.process(...) with pass.done = &wg): what was stored into that field
	var obj ssa.Value
	field := -1
	switch x := v.(type) {
	case *ssa.Field:
		obj, field = x.X, x.Field
	case *ssa.UnOp:
		if fa, ok := x.X.(*ssa.FieldAddr); ok && x.Op == token.MUL {
			obj, field = fa.X, fa.Field
		}
	}
	if field >= 0 {
		if al := structOrigin(obj, 0); al != nil {
			var stored ssa.Value
			n := 0
			for _, rf := range *al.Referrers() {
				if fa, ok := rf.(*ssa.FieldAddr); ok && fa.Field == field {
					for _, r2 := range *fa.Referrers() {
						if st, ok := r2.(*ssa.Store); ok && st.Addr == ssa.Value(fa) {
							stored = st.Val
							n++
						}
					}
				}
			}
			if n == 1 {
				return wgOf(stored)
			}
		}
	}
	if p, ok := v.(*ssa.Parameter); ok {
		// the goroutine body is a named function: the WaitGroup is what the go statement passes for this parameter
		body := p.Parent()
		idx := -1
		for i, x := range body.Params {
			if x == p {
				idx = i
			}
		}
		for _, g := range goStatementsOf(body) {
			if idx >= 0 && idx < len(g.Call.Args) {
				return wgOf(g.Call.Args[idx])
			}
		}
		// a helper with one call site (the launcher of the goroutine): what that site passes
		if sites := staticCallsOf(body); len(sites) == 1 && idx >= 0 && idx < len(sites[0].Call.Args) && len(goStatementsOf(body)) == 0 {
			return wgOf(sites[0].Call.Args[idx])
		}
	}
	if fv, ok := v.(*ssa.FreeVar); ok {
		fn := fv.Parent()
		par := fn.Parent()
		idx := -1
		for i, x := range fn.FreeVars {
			if x == fv {
				idx = i
			}
		}
		if par != nil && idx >= 0 {
			for _, b := range par.Blocks {
				for _, in := range b.Instrs {
					if mc, ok := in.(*ssa.MakeClosure); ok && mc.Fn == ssa.Value(fn) && idx < len(mc.Bindings) {
						return wgOf(mc.Bindings[idx])
					}
				}
			}
		}
	}
	return v
}

// structOrigin: the local struct variable a struct value (or the address of a spilled copy of it) was copied from,
// looking through loads, whole-struct copies into spill slots, parameters of goroutine bodies and captured variables.
func structOrigin(v ssa.Value, depth int) *ssa.Alloc {
	if v == nil || depth > 6 {
		return nil
	}
	switch x := v.(type) {
	case *ssa.Alloc:
		// a spill slot filled once with a whole value: follow the value; otherwise this is the variable itself
		var whole []ssa.Value
		fieldStores := false
		for _, rf := range *x.Referrers() {
			switch y := rf.(type) {
			case *ssa.Store:
				if y.Addr == ssa.Value(x) {
					whole = append(whole, y.Val)
				}
			case *ssa.FieldAddr:
				for _, r2 := range *y.Referrers() {
					if st, ok := r2.(*ssa.Store); ok && st.Addr == ssa.Value(y) {
						fieldStores = true
					}
				}
			}
		}
		if len(whole) == 1 && !fieldStores {
			if o := structOrigin(whole[0], depth+1); o != nil {
				return o
			}
		}
		return x
	case *ssa.UnOp:
		if x.Op == token.MUL {
			return structOrigin(x.X, depth+1)
		}
	case *ssa.Parameter:
		body := x.Parent()
		for i, p := range body.Params {
			if p != x {
				continue
			}
			for _, g := range goStatementsOf(body) {
				args := g.Call.Args
				if i < len(args) {
					return structOrigin(args[i], depth+1)
				}
			}
		}
	case *ssa.FreeVar:
		fn := x.Parent()
		for i, fv := range fn.FreeVars {
			if fv != x || fn.Parent() == nil {
				continue
			}
			for _, b := range fn.Parent().Blocks {
				for _, in := range b.Instrs {
					if mc, ok := in.(*ssa.MakeClosure); ok && mc.Fn == ssa.Value(fn) && i < len(mc.Bindings) {
						return structOrigin(mc.Bindings[i], depth+1)
					}
				}
			}
		}
	}
	return nil
}

// Fanout is a recognised `for ... { go func(x){...}(elem) }` construct.
type fanout struct {
	Go      *ssa.Go
	Body    *ssa.Function
	Loop    *core.RangeLoop
	MapLoop bool
	Parent  *ssa.Function
}

// checkWaitGroupFanout decides R1-R3 of the WaitGroup protocol for one go statement (shared by C14 and C20).
// work = predicate for the payload call inside the goroutine body.
func checkWaitGroupFanout(c *core.Ctx, r *core.Report, rule string, g *ssa.Go, cons string) (body *ssa.Function, ok bool) {
	parent := g.Parent()
	pos := c.Pos(g.Pos())
	body = goBodyOf(g)
	if body == nil || body.Blocks == nil {
		r.Undecided(rule+".R1", cons, pos, "goroutine body is not a function literal or in-scope function")
		return nil, false
	}
	if tbl := joinTableOf(c, g); tbl != "" {
		// the routine the go statement belongs to was interpreted as a whole, goroutines included, under the
		// scheduler: how many goroutines start, what they wait for and that the routine returns only when they are
		// through is decided there, whatever the join is made of.  What a schedule cannot show is decided here: a
		// variable the starting loop keeps writing while the goroutines read it.
		r.Hold(rule+".R1", cons+":add", pos, "the join of this go statement is decided by the "+tbl+" on two schedules (the starter running ahead of its goroutines, each goroutine running as soon as it is started): the counter never goes negative, nobody waits for ever, nothing happens after the return")
		capturedLoopVariable(c, r, rule, g, cons)
		return body, true
	}
	// Done: deferred at entry (or post-dominating everything) on a WaitGroup
	var done ssa.CallInstruction
	for _, ci := range core.Calls(body) {
		if core.IsExtCall(ci.Common(), "(*sync.WaitGroup).Done") {
			if done != nil {
				r.Fail(rule+".R2", cons+":done", c.Pos(ci.Pos()), "Done is called at more than one site in the goroutine body")
				return body, false
			}
			done = ci
		}
	}
	if done == nil {
		// the other join: every goroutine sends one token on a channel when it is finished, the parent receives one
		// token per goroutine it started
		if tj := tokenJoinOf(c, g, body); tj != nil {
			return checkTokenJoin(c, r, rule, g, cons, body, tj)
		}
		r.Fail(rule+".R2", cons+":done", pos, "goroutine body never calls WaitGroup.Done: the parent cannot wait for it (or the idiom is not a WaitGroup fan-out)")
		return body, false
	}
	if _, isDefer := done.(*ssa.Defer); isDefer {
		r.Check(done.Block() == body.Blocks[0], rule+".R2", cons+":done", c.Pos(done.Pos()), "Done is deferred in the entry block of the goroutine body, so it runs on every exit including panics")
		// deferred calls run last-in-first-out: anything deferred before Done runs after the parent may have been released
		for _, in := range done.Block().Instrs {
			if in == ssa.Instruction(done) {
				break
			}
			if d, isD := in.(*ssa.Defer); isD {
				r.Fail(rule+".R2", cons+":done-is-last", c.Pos(d.Pos()), "a call deferred before Done runs after Done: the parent's Wait can return while this goroutine is still working")
			}
		}
	} else {
		// plain call: must post-dominate every payload call; checked by caller through DoneAfter
		pdAll := true
		for _, ci := range core.Calls(body) {
			if ci == done || core.IsLogCall(ci.Common()) {
				continue
			}
			if !c.InstrPostDominates(done, ci) || core.Dominates(done, ci) {
				pdAll = false
			}
		}
		r.Check(pdAll && !core.InLoop(done.Block()), rule+".R2", cons+":done", c.Pos(done.Pos()), "Done (not deferred) post-dominates every other call of the goroutine body")
	}
	// Add before the loop / per iteration
	var adds []ssa.CallInstruction
	var waits []ssa.CallInstruction
	for _, ci := range core.Calls(parent) {
		if core.IsExtCall(ci.Common(), "(*sync.WaitGroup).Add") && sameWG(ci.Common().Args[0], done.Common().Args[0]) {
			adds = append(adds, ci)
		}
		if core.IsExtCall(ci.Common(), "(*sync.WaitGroup).Wait") && sameWG(ci.Common().Args[0], done.Common().Args[0]) {
			waits = append(waits, ci)
		}
	}
	var at ssa.Instruction = g
	var grp *groupHelper
	if ghs := groupHelperOf(c, g); len(ghs) == 1 {
		// a WaitGroup behind a helper type: the helper's call stands for Add(1) + go, the function handed over is
		// the payload; Wait is the helper type's method that waits on the same field, called on the same object
		grp = ghs[0]
		at, parent = grp.site, grp.site.Parent()
		adds, waits = nil, nil
		for _, ci := range core.Calls(parent) {
			cal := ci.Common().StaticCallee()
			if cal == nil || cal.Signature.Recv() == nil || len(ci.Common().Args) == 0 || !core.Equiv(ci.Common().Args[0], grp.site.Call.Args[0]) {
				continue
			}
			for _, c2 := range core.Calls(cal) {
				if core.IsExtCall(c2.Common(), "(*sync.WaitGroup).Wait") {
					if f, ok := wgFieldOf(c2.Common().Args[0]); ok && f == grp.field {
						waits = append(waits, ci)
					}
				}
			}
		}
		body = grp.payload
	} else if len(ghs) > 1 {
		r.Undecided(rule+".R1", cons+":add", pos, "the WaitGroup helper is used at several sites: each would have to be decided on its own")
		return body, false
	}
	if grp == nil && core.InnermostLoop(parent, g.Block()) == nil {
		if site := launcherSite(c, g); site != nil {
			// the loop calls a helper that starts the goroutine: the call stands for the go statement
			at, parent = site, site.Parent()
			adds, waits = nil, nil
			for _, ci := range core.Calls(parent) {
				if core.IsExtCall(ci.Common(), "(*sync.WaitGroup).Add") && sameWG(ci.Common().Args[0], done.Common().Args[0]) {
					adds = append(adds, ci)
				}
				if core.IsExtCall(ci.Common(), "(*sync.WaitGroup).Wait") && sameWG(ci.Common().Args[0], done.Common().Args[0]) {
					waits = append(waits, ci)
				}
			}
		}
	}
	loop := core.InnermostLoop(parent, at.Block())
	if loop == nil {
		if closeTableDecides(c, g) {
			r.Hold(rule+".R1", cons+":add", pos, "the go statement is reached through a visitor, not a loop of its own function: how often it runs, what the counter is raised by and that Wait follows are decided by the close table on 0..3 closers")
			return body, true
		}
		r.Undecided(rule+".R1", cons+":add", pos, "go statement is not inside a loop")
		return body, false
	}
	// a variable that the loop keeps writing must reach the goroutine as an argument, not by capture
	// (go.mod declares a Go version with shared loop variables; SSA shows a per-iteration variable as allocated inside the loop)
	capt, isMC := g.Call.Value.(*ssa.MakeClosure)
	if grp != nil {
		capt, isMC = grp.mc, grp.mc != nil
	}
	if mc := capt; isMC {
		for _, b := range mc.Bindings {
			al, isAl := b.(*ssa.Alloc)
			if !isAl || loop.Blocks[al.Block()] {
				continue
			}
			for _, rf := range *al.Referrers() {
				if st, isSt := rf.(*ssa.Store); isSt && loop.Blocks[st.Block()] {
					r.Fail(rule+".R2", cons+":captured:"+al.Comment, c.Pos(st.Pos()), "the goroutine captures a variable that the spawning loop writes on every iteration: it reads it while the loop changes it")
					break
				}
			}
		}
	}
	rl := core.RangeLoopOf(parent, at.Block())
	okAdd := false
	detail := ""
	for _, a := range adds {
		if !core.Dominates(a, at) {
			continue
		}
		n := a.Common().Args[1]
		if k, isK := core.ConstInt(n); isK && k == 1 && loop.Blocks[a.Block()] {
			// Add(1) per iteration, same innermost loop, before the go
			if core.InnermostLoop(parent, a.Block()) == loop {
				okAdd, detail = true, "Add(1) in the same iteration before the go statement"
			}
			continue
		}
		if loop.Blocks[a.Block()] {
			continue
		}
		// Add(len(S)) with S the ranged collection
		if ln, isCall := core.Norm(n).(*ssa.Call); isCall {
			if bi, isB := ln.Common().Value.(*ssa.Builtin); isB && bi.Name() == "len" {
				if rl != nil && core.Equiv(ln.Common().Args[0], rl.Slice) {
					okAdd, detail = true, "Add(len(S)) before a forward range over the same S"
				} else if ml := mapRangeOf(at.Block()); ml != nil && core.Equiv(ln.Common().Args[0], ml.X) {
					okAdd, detail = true, "Add(len(M)) before a range over the same map M"
				}
			}
		}
	}
	if grp != nil {
		okAdd, detail = true, "Add(1) inside the group helper, before its go statement, once per call"
	}
	r.Check(okAdd, rule+".R1", cons+":add", pos, "the WaitGroup counter is raised by exactly the number of goroutines started: "+detail)
	// exactly one go per iteration on every path through the body: the go block post-dominates the loop body entry
	bodyEntry := loopBodyEntry(loop)
	oneGo := bodyEntry != nil && (at.Block() == bodyEntry || c.PostDom(parent).PostDominates(at.Block(), bodyEntry)) && core.InnermostLoop(parent, at.Block()) == loop
	nGo := 0
	for b := range loop.Blocks {
		for _, in := range b.Instrs {
			if gg, isGo := in.(*ssa.Go); isGo && wgSameBody(gg, body) {
				nGo++
			}
			if in == at && at != ssa.Instruction(g) {
				nGo++ // the launcher call
			}
		}
	}
	// no exit from the loop other than the header's
	exits := 0
	for b := range loop.Blocks {
		for _, s := range b.Succs {
			if !loop.Blocks[s] && b != loop.Header {
				exits++
			}
		}
	}
	r.Check(oneGo && nGo == 1 && exits == 0, rule+".R1", cons+":one-go-per-iteration", pos, "every iteration starts exactly one goroutine and the loop has no early exit")
	// Wait post-dominates the loop
	okWait := false
	for _, w := range waits {
		if _, isCall := w.(*ssa.Call); !isCall {
			continue
		}
		if c.PostDom(parent).PostDominates(w.Block(), loop.Header) && !loop.Blocks[w.Block()] {
			okWait = true
		}
	}
	r.Check(okWait, rule+".R3", cons+":wait", pos, "Wait on the same WaitGroup post-dominates the fan-out loop on every path to the function's exit")
	return body, okAdd && okWait
}

// joinTableOf: the semantic table that went through the go statement and holds in every row ("" if none).
func joinTableOf(c *core.Ctx, g *ssa.Go) string {
	if closeTableDecides(c, g) {
		return "close table"
	}
	if scanTableDecides(c, g) {
		return "scan table"
	}
	return ""
}

// tableWentThrough: the scan table's or a close table's runs started a goroutine at this go statement.
func tableWentThrough(c *core.Ctx, g *ssa.Go) bool {
	if bs, _ := findBootstrap(c); bs != nil && len(bs.parallel) == 1 {
		if res := defScanTableMemo(c, bs.parallel[0], 2); res.und == "" && res.gos[g.Pos()] {
			return true
		}
	}
	if ro := c.Roles(); ro.CloserClose != nil {
		for _, site := range c.CallSites(func(com *ssa.CallCommon) bool { return core.IsInvoke(com, ro.CloserClose) }) {
			if fn := closingRoutineFrom(c, core.TopLevel(site.Parent())); fn != nil {
				if res := closeTable(c, fn); res.und == "" && res.gos[g.Pos()] {
					return true
				}
			}
		}
	}
	return false
}

// capturedLoopVariable: a variable that a loop around the go statement keeps writing must reach the goroutine as an
// argument, not by capture.
func capturedLoopVariable(c *core.Ctx, r *core.Report, rule string, g *ssa.Go, cons string) {
	var mcs []*ssa.MakeClosure
	if mc, ok := g.Call.Value.(*ssa.MakeClosure); ok {
		mcs = append(mcs, mc)
	}
	for _, a := range g.Call.Args {
		if mc, ok := core.Norm(a).(*ssa.MakeClosure); ok {
			mcs = append(mcs, mc)
		}
	}
	parent := g.Parent()
	for loop := core.InnermostLoop(parent, g.Block()); loop != nil; loop = nil {
		for _, mc := range mcs {
			for _, b := range mc.Bindings {
				al, isAl := b.(*ssa.Alloc)
				if !isAl || loop.Blocks[al.Block()] {
					continue
				}
				for _, rf := range *al.Referrers() {
					if st, isSt := rf.(*ssa.Store); isSt && loop.Blocks[st.Block()] {
						r.Fail(rule+".R2", cons+":captured:"+al.Comment, c.Pos(st.Pos()), "the goroutine captures a variable that the spawning loop writes on every iteration: it reads it while the loop changes it")
						break
					}
				}
			}
		}
	}
}

func wgSameBody(g *ssa.Go, body *ssa.Function) bool { return goBodyOf(g) == body }

// loopBodyEntry: the successor of the header that lies inside the loop.
func loopBodyEntry(l *core.Loop) *ssa.BasicBlock {
	for _, s := range l.Header.Succs {
		if l.Blocks[s] {
			return s
		}
	}
	return nil
}

// mapRangeOf finds the ssa.Range whose Next drives the loop containing b.
func mapRangeOf(b *ssa.BasicBlock) *ssa.Range {
	fn := b.Parent()
	l := core.InnermostLoop(fn, b)
	if l == nil {
		return nil
	}
	for _, in := range l.Header.Instrs {
		if nx, ok := in.(*ssa.Next); ok {
			if rg, ok := nx.Iter.(*ssa.Range); ok {
				return rg
			}
		}
	}
	return nil
}

func c14(c *core.Ctx, r *core.Report) {
	ro := c.Roles()
	r.Explanation = "C14 Close: the WaitGroup fan-out protocol is decided on all paths of App.Close's closer loop: (R1) Add(len(S)) before a forward range over the same S, exactly one go per iteration, no early loop exit; (R2) the goroutine body calls Close exactly once on the element it received as a parameter (go.mod says go 1.20: loop variables are shared), Done deferred at entry; (R3) Wait post-dominates the loop; (R4) no panic/exit-class call or early exit depends on a Close error; (R5) the closer collection is wired by type; (R6) the fan-out is conditional on nothing but the closer list being non-empty; (R9) nothing in scope calls the closing routine itself unless it is idempotent by a closed flag. A plain sequential loop is the other accepted idiom. Decides wait-for-all, exactly-once and isolation structurally; not what a closer does."
	r.Assumptions = []string{"sync.WaitGroup semantics", "closers do not panic (a panic in a goroutine terminates the process)"}
	sites := notForwarders(c, c.CallSites(func(com *ssa.CallCommon) bool { return core.IsInvoke(com, ro.CloserClose) }), c.Iface("definition", "CloserComponent"), "Close")
	r.Count("close_invoke_sites", len(sites))
	if !r.Exactly("C14.R2", "invoke sites of CloserComponent.Close", len(sites), 1) {
		return
	}
	site := sites[0]
	fn := site.Parent()
	// exactly once per App.Close call means exactly once for the owner only if nobody else calls App.Close: the
	// library never closes on the owner's behalf (unless Close itself is made idempotent by a closed flag)
	closeFn := core.TopLevel(fn)
	onRunContext := func(f *ssa.Function) bool {
		// a method of an object made per call (nobody but the routine that makes it can call it)
		return f.Signature.Recv() != nil && transientType(c, core.NamedOf(f.Signature.Recv().Type()), 0)
	}
	for i := 0; i < 4 && closeFn.Object() != nil && (!closeFn.Object().Exported() || onRunContext(closeFn)) && len(c.FuncValueUses(closeFn)) == 0; i++ {
		// the loop body / the goroutine body moved into a helper: the closing routine is its one caller
		var up *ssa.Function
		same := true
		for _, cl := range c.Callers(closeFn) {
			t := core.TopLevel(cl)
			if up != nil && up != t {
				same = false
			}
			up = t
		}
		if up == nil || !same || up == closeFn {
			break
		}
		closeFn = up
	}
	if callers := c.CallSites(func(com *ssa.CallCommon) bool { return core.IsCallTo(com, closeFn) }); len(callers) > 0 || len(c.FuncValueUses(closeFn)) > 0 {
		idem := false
		if len(closeFn.Blocks) > 0 {
			if iff, ok := closeFn.Blocks[0].Instrs[len(closeFn.Blocks[0].Instrs)-1].(*ssa.If); ok {
				if ld, ok := core.Norm(iff.Cond).(*ssa.UnOp); ok {
					if fa, ok := ld.X.(*ssa.FieldAddr); ok {
						if fr, ok := core.FieldOfAddr(fa); ok {
							stores, _ := c.FieldAccesses(fr.Owner, fr.Name)
							for _, st := range stores {
								if k, isK := st.Store.Val.(*ssa.Const); isK && k.Value != nil && k.Value.String() == "true" && core.TopLevel(st.Fn) == closeFn {
									idem = true
								}
							}
						}
					}
				}
			}
		}
		pos := c.FnPos(closeFn)
		if len(callers) > 0 {
			pos = c.Pos(callers[0].Pos())
		}
		r.Check(idem, "C14.R9", "who-may-close:"+core.FnName(closeFn), pos, "the container itself calls the closing routine although it does not remember having closed: an owner that closes its App afterwards runs every closer a second time")
	} else {
		r.Hold("C14.R9", "who-may-close:"+core.FnName(closeFn), c.FnPos(closeFn), "no in-scope function calls the closing routine: every closer runs once per Close call of the owner")
	}
	call, isCall := site.(*ssa.Call)
	if !isCall {
		r.Fail("C14.R2", "Close@"+core.FnName(fn), c.Pos(site.Pos()), "Close is invoked by go/defer directly, without a way to wait for it")
		return
	}
	gos := fanGosOf(c, fn)
	if len(gos) == 0 {
		// the Close call sits in a helper the goroutine body calls: the go statements are those the close table of
		// the closing routine goes through
		if cfn := closingRoutineFrom(c, core.TopLevel(fn)); cfn != nil {
			if res := closeTable(c, cfn); res.und == "" && len(res.gos) > 0 {
				for _, g := range goStatementsIn(c, cfn) {
					if res.gos[g.Pos()] {
						gos = append(gos, g)
					}
				}
			}
		}
	}
	if len(gos) == 0 {
		// sequential idiom
		cons := "sequential@" + core.FnName(fn)
		rl := core.RangeLoopOf(fn, site.Block())
		if rl == nil || !rl.ElemOf(core.Norm(call.Common().Value)) {
			r.Fail("C14.R2", cons, c.Pos(site.Pos()), "Close is not invoked on the current element of a forward range")
			return
		}
		exits := 0
		for b := range rl.Loop.Blocks {
			for _, s := range b.Succs {
				if !rl.Loop.Blocks[s] && b != rl.Header {
					exits++
				}
			}
			for _, in := range b.Instrs {
				if _, isPanic := in.(*ssa.Panic); isPanic {
					exits++
				}
			}
		}
		r.Check(exits == 0 && c.PostDom(fn).PostDominates(site.Block(), rl.Body), "C14.R4", cons, c.Pos(site.Pos()), "sequential closer loop has no early exit and invokes Close on every iteration")
		c14Field(c, r, rl.Slice)
		return
	}
	// fan-out idiom: fn is the goroutine body (a literal or a named function)
	parent := gos[0].Parent()
	cons := "fanout@" + core.FnName(parent)
	if !r.Exactly("C14.R1", "go statements starting the closer body", len(gos), 1) {
		return
	}
	g := gos[0]
	checkWaitGroupFanout(c, r, "C14", g, cons)
	// the same questions, asked of the closing routine as a whole by interpretation (when the model can follow it)
	tableMode := false
	if cfn := closingRoutineOf(c, g); cfn != nil {
		if res := closeTable(c, cfn); res.und == "" {
			r.Count("close_table_runs", res.runs)
			res.rs.report(c, r, cfn, func(row string) string {
				switch row {
				case "each-once":
					return "C14.R2"
				case "counted":
					return "C14.R1"
				case "awaited":
					return "C14.R3"
				case "no-panic":
					return "C14.R4"
				}
				return ""
			}, "close-table@"+core.FnName(cfn), closeRows)
			tableMode = closeTableDecides(c, g)
		}
	}
	// R2: Close on the parameter, exactly once
	recv := core.Norm(call.Common().Value)
	_, isParam := recv.(*ssa.Parameter)
	// ... or on a captured per-iteration copy (`m := m` inside the loop body), which is as private as a parameter
	var perIter ssa.Value
	if ld, isLoad := call.Common().Value.(*ssa.UnOp); isLoad && !isParam {
		if fv, isFV := ld.X.(*ssa.FreeVar); isFV {
			if ghs := groupHelperOf(c, g); len(ghs) == 1 && ghs[0].mc != nil {
				for i, x := range fn.FreeVars {
					if x == fv && i < len(ghs[0].mc.Bindings) {
						if al, isAl := ghs[0].mc.Bindings[i].(*ssa.Alloc); isAl {
							if lp := core.InnermostLoop(al.Parent(), al.Block()); lp != nil && lp == core.InnermostLoop(al.Parent(), ghs[0].site.Block()) {
								if st := core.SingleStore(al); st != nil {
									perIter = core.Norm(st)
								}
							}
						}
					}
				}
			}
		}
	}
	// (under the table the goroutines run on the schedule on which the starting loop is through before any of them
	// begins: a variable shared between iterations would show as one closer closed several times, others never)
	r.Check(isParam || perIter != nil || tableMode, "C14.R2", cons+":close-on-parameter", c.Pos(site.Pos()), "Close is invoked on the goroutine's own parameter or on a per-iteration copy of the element (a captured range variable would be shared between iterations under go 1.20 semantics)")
	r.Check(!core.InLoop(site.Block()) && c.PostDom(fn).PostDominates(site.Block(), fn.Blocks[0]), "C14.R2", cons+":close-once", c.Pos(site.Pos()), "Close is invoked exactly once on every path through the goroutine body")
	// the argument passed is the current element
	rl := core.RangeLoopOf(parent, g.Block())
	var atBlock = g.Block()
	elemArg := func(idx int) ssa.Value {
		if idx >= 0 && idx < len(g.Call.Args) {
			return core.Norm(g.Call.Args[idx])
		}
		return nil
	}
	if ghs := groupHelperOf(c, g); rl == nil && len(ghs) == 1 {
		parent, atBlock = ghs[0].site.Parent(), ghs[0].site.Block()
		rl = core.RangeLoopOf(parent, atBlock)
		elemArg = func(int) ssa.Value { return perIter }
	} else if rl == nil {
		if site := launcherSite(c, g); site != nil {
			// the loop calls a helper that starts the goroutine with its own parameter: follow it to the call
			parent, atBlock = site.Parent(), site.Block()
			rl = core.RangeLoopOf(parent, atBlock)
			launcher := g.Parent()
			inner := elemArg
			elemArg = func(idx int) ssa.Value {
				p, ok := inner(idx).(*ssa.Parameter)
				if !ok {
					return nil
				}
				for i, q := range launcher.Params {
					if q == p && i < len(site.Call.Args) {
						return core.Norm(site.Call.Args[i])
					}
				}
				return nil
			}
		}
	}
	// the loop ranges over something a helper was handed (not the wired field itself): where the elements come from is
	// what the close table saw the closing routine read
	viaTable := false
	if rl != nil && tableMode {
		// (a parameter, a copy of the field: anything but a plain load of a field)
		isFieldLoad := false
		if u, ok := core.Norm(rl.Slice).(*ssa.UnOp); ok && u.Op == token.MUL {
			_, isFieldLoad = u.X.(*ssa.FieldAddr)
		}
		viaTable = !isFieldLoad
	}
	if rl != nil && (isParam || perIter != nil) && !viaTable {
		idx := -1
		for i, p := range fn.Params {
			if ssa.Value(p) == recv {
				idx = i
			}
		}
		okArg := (elemArg(idx) != nil && rl.ElemOf(elemArg(idx))) || tableMode // (table: every wired closer is closed exactly once)
		r.Check(okArg, "C14.R2", cons+":element-passed", c.Pos(g.Pos()), "the goroutine receives the current element of the ranged closer slice")
		c14Field(c, r, rl.Slice)
	} else if (rl == nil || viaTable) && tableMode {
		// the elements reach the goroutine through a visitor: which closers are closed is the close table's row
		cfn := closingRoutineOf(c, g)
		res := closeTable(c, cfn)
		r.Hold("C14.R1", cons+":range", c.Pos(g.Pos()), "the closers reach the goroutine through a visitor; every wired closer is closed exactly once (close table)")
		if cc := c.Named("definition", "CloserComponent"); cc != nil && res.field != "" {
			wireByTypeField(c, r, "C14.R5", cc)
			if owner := ownerOf(cfn); owner != nil {
				stores, _ := c.FieldAccesses(owner, res.field)
				r.Check(len(stores) == 0, "C14.R5", "closers-field-untouched:"+owner.Obj().Name()+"."+res.field, c.FnPos(cfn), "the closer collection is read straight from the wired field and no in-scope code overwrites that field")
			}
		}
	} else if rl == nil {
		r.Fail("C14.R1", cons+":range", c.Pos(g.Pos()), "closer fan-out is not a forward range over the closer slice")
	}
	// R6: nothing but "there are no closers" lets Close skip the fan-out
	if rl != nil {
		extra := ""
		for _, cd := range c.ControlDeps(atBlock) {
			if cd.If.Block() == rl.Header {
				continue
			}
			if b, ok := cd.If.Cond.(*ssa.BinOp); ok {
				if ln, isCall := b.X.(*ssa.Call); isCall {
					if bi, isB := ln.Common().Value.(*ssa.Builtin); isB && bi.Name() == "len" && core.Equiv(ln.Common().Args[0], rl.Slice) {
						if k, isK := core.ConstInt(b.Y); isK && k == 0 {
							continue
						}
					}
				}
			}
			extra = "extra condition at " + c.Pos(cd.If.Cond.Pos())
		}
		r.Check(extra == "", "C14.R6", cons+":unconditional", c.Pos(g.Pos()), "the fan-out over the closers is conditional on nothing but the closer list being non-empty: Close always reaches every registered closer "+extra)
	}
	// R4: nothing in the body escalates a Close error
	bad := ""
	for _, b := range fn.Blocks {
		for _, in := range b.Instrs {
			switch x := in.(type) {
			case *ssa.Panic:
				bad = "panic at " + c.Pos(x.Pos())
			case ssa.CallInstruction:
				com := x.Common()
				name := ""
				if com.IsInvoke() {
					name = com.Method.Name()
				} else if cal := core.Callee(com); cal != nil {
					name = cal.Name()
				}
				if core.IsLogCall(com) && (len(name) >= 5 && (name[:5] == "Panic" || name[:5] == "Fatal")) {
					bad = name + " at " + c.Pos(x.Pos())
				}
				if cal := core.Callee(com); cal != nil && cal.String() == "os.Exit" {
					bad = "os.Exit at " + c.Pos(x.Pos())
				}
			}
		}
	}
	r.Check(bad == "", "C14.R4", cons+":isolation", c.FnPos(fn), "no panic/fatal/exit-class call in the goroutine body: a failing closer cannot take the others down "+bad)
}

// c14Field: the ranged closer slice is a load of the by-type wired collection field.
func c14Field(c *core.Ctx, r *core.Report, slice ssa.Value) {
	cc := c.Named("definition", "CloserComponent")
	if cc == nil {
		r.Undecided("C14.R5", "role:CloserComponent", "", "definition.CloserComponent not found")
		return
	}
	wireByTypeField(c, r, "C14.R5", cc)
	u, ok := core.Norm(slice).(*ssa.UnOp)
	okLoad := false
	if ok && u.Op == token.MUL {
		if fa, isFA := u.X.(*ssa.FieldAddr); isFA {
			if fr, ok2 := core.FieldOfAddr(fa); ok2 {
				if transientType(c, fr.Owner, 0) {
					// the list travels in an object made per call: where it comes from is what the close table saw
					// the closing routine read
					appT := c.Named("app", "App")
					for _, g := range goStatementsIn(c, fa.Parent()) {
						if cfn := closingRoutineOf(c, g); cfn != nil && appT != nil {
							if res := closeTable(c, cfn); res.und == "" && res.field != "" && closeTableDecides(c, g) {
								stores, _ := c.FieldAccesses(appT, res.field)
								r.Check(len(stores) == 0, "C14.R5", "closers-field-untouched:"+appT.Obj().Name()+"."+res.field, c.Pos(u.Pos()), "the closer collection is read straight from the wired field and no in-scope code overwrites that field")
								return
							}
						}
					}
				}
				stores, _ := c.FieldAccesses(fr.Owner, fr.Name)
				okLoad = len(stores) == 0
				r.Check(okLoad, "C14.R5", "closers-field-untouched:"+fr.Owner.Obj().Name()+"."+fr.Name, c.Pos(u.Pos()), "the closer collection is read straight from the wired field and no in-scope code overwrites that field")
				return
			}
		}
	}
	r.Fail("C14.R5", "closers-field", c.Pos(slice.Pos()), "the ranged closer slice is not a load of the wired collection field")
}

// goBodyOf: the function a go statement runs (a literal or a named function / method).
func goBodyOf(g *ssa.Go) *ssa.Function {
	if b := core.ClosureOf(g.Call.Value); b != nil {
		return b
	}
	return g.Call.StaticCallee()
}

func init() {
	core.OnRelease(func() {
		core.ClearMap(&goIndex)
		core.ClearMap(&callIndex)
		core.ClearMap(&fanJoined)
		core.ClearMap(&globalFuncsMemo)
	})
}

var goIndex sync.Map // *ssa.Program -> []*ssa.Go

var callIndex sync.Map // *ssa.Program -> map[*ssa.Function][]*ssa.Call (plain static calls in scope)

// staticCallsOf lists the plain (not go / defer) static calls of fn anywhere in the program's in-scope packages.
func staticCallsOf(fn *ssa.Function) []*ssa.Call {
	prog := fn.Prog
	var idx map[*ssa.Function][]*ssa.Call
	if v, ok := callIndex.Load(prog); ok {
		idx = v.(map[*ssa.Function][]*ssa.Call)
	} else {
		idx = map[*ssa.Function][]*ssa.Call{}
		var visit func(f *ssa.Function)
		visit = func(f *ssa.Function) {
			for _, b := range f.Blocks {
				for _, in := range b.Instrs {
					if call, ok := in.(*ssa.Call); ok {
						if cal := call.Common().StaticCallee(); cal != nil {
							if o := cal.Origin(); o != nil {
								cal = o
							}
							idx[cal] = append(idx[cal], call)
						}
					}
				}
			}
			for _, a := range f.AnonFuncs {
				visit(a)
			}
		}
		for _, p := range prog.AllPackages() {
			if !core.InScopePath(p.Pkg.Path()) {
				continue
			}
			for _, m := range p.Members {
				switch x := m.(type) {
				case *ssa.Function:
					visit(x)
				case *ssa.Type:
					if n, isN := x.Type().(*types.Named); isN {
						for i := 0; i < n.NumMethods(); i++ {
							if f := prog.FuncValue(n.Method(i)); f != nil {
								visit(f)
							}
						}
					}
				}
			}
		}
		callIndex.Store(prog, idx)
	}
	return idx[fn]
}

// groupHelper describes a WaitGroup wrapped in a helper type: `func (g *T) Go(fn func()) { g.wg.Add(1); go func() {
// defer g.wg.Done(); fn() }() }`.  A call of the helper stands for Add(1) + go statement, the function handed to it
// is the goroutine's payload.
type groupHelper struct {
	helper  *ssa.Function
	site    *ssa.Call     // the call of the helper in the spawning function
	payload *ssa.Function // the function literal handed over
	mc      *ssa.MakeClosure
	field   core.FieldRef // the WaitGroup field of the helper's receiver
}

func wgFieldOf(v ssa.Value) (core.FieldRef, bool) {
	v = core.Norm(v)
	if fa, ok := v.(*ssa.FieldAddr); ok {
		return core.FieldOfAddr(fa)
	}
	return core.FieldRef{}, false
}

// groupHelperOf recognises g as the go statement of a group helper and returns its use sites.
func groupHelperOf(c *core.Ctx, g *ssa.Go) []*groupHelper {
	h := g.Parent()
	wrapper := goBodyOf(g)
	if h == nil || wrapper == nil || wrapper.Parent() != h || h.Signature.Recv() == nil || core.InnermostLoop(h, g.Block()) != nil {
		return nil
	}
	// exactly one func-typed parameter, called exactly once by the wrapper
	pi := -1
	for i, p := range h.Params {
		if sig, ok := p.Type().Underlying().(*types.Signature); ok && sig.Params().Len() == 0 && sig.Results().Len() == 0 {
			if pi >= 0 {
				return nil
			}
			pi = i
		}
	}
	if pi < 0 {
		return nil
	}
	nDyn, nGo := 0, 0
	var doneField, addField core.FieldRef
	for _, ci := range core.Calls(wrapper) {
		com := ci.Common()
		if _, isB := com.Value.(*ssa.Builtin); isB {
			continue
		}
		switch {
		case core.IsExtCall(com, "(*sync.WaitGroup).Done"):
			doneField, _ = wgFieldOf(com.Args[0])
		case com.StaticCallee() == nil && !com.IsInvoke():
			nDyn++
		case core.IsLogCall(com):
		default:
			return nil
		}
	}
	var add ssa.CallInstruction
	for _, ci := range core.Calls(h) {
		if _, isGo := ci.(*ssa.Go); isGo {
			nGo++
		}
		if core.IsExtCall(ci.Common(), "(*sync.WaitGroup).Add") {
			if k, ok := core.ConstInt(ci.Common().Args[1]); ok && k == 1 {
				add = ci
				addField, _ = wgFieldOf(ci.Common().Args[0])
			}
		}
	}
	if nDyn != 1 || nGo != 1 || add == nil || !core.Dominates(add, g) || doneField.Owner == nil || doneField != addField {
		return nil
	}
	if h.Object() == nil || len(c.FuncValueUses(h)) != 0 {
		return nil
	}
	var out []*groupHelper
	for _, site := range staticCallsOf(h) {
		args := site.Call.Args
		if pi >= len(args) {
			return nil
		}
		payload := core.ClosureOf(args[pi])
		if payload == nil || payload.Blocks == nil {
			return nil
		}
		gh := &groupHelper{helper: h, site: site, payload: payload, field: addField}
		v := args[pi]
		for i := 0; i < 4 && v != nil; i++ {
			switch x := v.(type) {
			case *ssa.MakeClosure:
				gh.mc = x
				v = nil
			case *ssa.ChangeType:
				v = x.X
			case *ssa.MakeInterface:
				v = x.X
			default:
				v = nil
			}
		}
		out = append(out, gh)
	}
	return out
}

// fanGosOf: the go statements that run fn - directly, or as the payload handed to a group helper.
func fanGosOf(c *core.Ctx, fn *ssa.Function) []*ssa.Go {
	out := goStatementsOf(fn)
	if len(out) > 0 {
		return out
	}
	goStatementsOf(fn) // make sure the index exists
	if v, ok := goIndex.Load(fn.Prog); ok {
		for _, g := range v.([]*ssa.Go) {
			for _, gh := range groupHelperOf(c, g) {
				if gh.payload == fn {
					out = append(out, g)
				}
			}
			for _, ps := range helperPayloads(c, g) {
				if ps.payload == fn {
					out = append(out, g)
				}
			}
		}
	}
	// (a group helper is also a helper that runs a function it was handed: once is enough)
	var uniq []*ssa.Go
	seen := map[*ssa.Go]bool{}
	for _, g := range out {
		if !seen[g] {
			seen[g] = true
			uniq = append(uniq, g)
		}
	}
	return uniq
}

// payloadSite: a helper that owns a fan-out (loop, goroutines and join) runs a function it was handed inside each
// goroutine; at a call site of the helper that function - the payload - is a literal of the caller.
type payloadSite struct {
	site    *ssa.Call
	payload *ssa.Function
	mc      *ssa.MakeClosure    // where the caller makes the payload (nil for a named function)
	call    ssa.CallInstruction // the call of the handed-over function inside the goroutine body
}

// helperPayloads: the go statement g sits in a function H (never used as a value) whose goroutine body calls one of
// H's function-typed parameters; returns, for every static call site of H, the function handed over there.
func helperPayloads(c *core.Ctx, g *ssa.Go) []payloadSite {
	h := g.Parent()
	wrapper := goBodyOf(g)
	if h == nil || wrapper == nil || h.Parent() != nil || len(c.FuncValueUses(h)) != 0 {
		return nil
	}
	var out []payloadSite
	for pi, p := range h.Params {
		if _, isSig := p.Type().Underlying().(*types.Signature); !isSig {
			continue
		}
		// the wrapper calls p: captured (a free variable bound to p) or passed as an argument of the go call
		var dyn ssa.CallInstruction
		for _, ci := range core.Calls(wrapper) {
			com := ci.Common()
			if com.IsInvoke() || com.StaticCallee() != nil {
				continue
			}
			v := com.Value
			if ld, ok := v.(*ssa.UnOp); ok && ld.Op == token.MUL {
				v = ld.X
			}
			switch x := v.(type) {
			case *ssa.FreeVar:
				if mc, ok := g.Call.Value.(*ssa.MakeClosure); ok {
					for i, fv := range wrapper.FreeVars {
						if fv != x || i >= len(mc.Bindings) {
							continue
						}
						bnd := mc.Bindings[i]
						if al, isAl := bnd.(*ssa.Alloc); isAl {
							// a captured parameter lives in a cell that is written once, with the parameter
							if st := core.SingleStore(al); st != nil {
								bnd = st
							}
						}
						if core.Norm(bnd) == ssa.Value(p) {
							dyn = ci
						}
					}
				}
			case *ssa.Parameter:
				for i, q := range wrapper.Params {
					if q == x && i < len(g.Call.Args) && core.Norm(g.Call.Args[i]) == ssa.Value(p) {
						dyn = ci
					}
				}
			}
		}
		if dyn == nil {
			continue
		}
		for _, site := range staticCallsOf(h) {
			if pi >= len(site.Call.Args) {
				return nil
			}
			fn := core.ClosureOf(site.Call.Args[pi])
			if fn == nil || fn.Blocks == nil {
				return nil
			}
			ps := payloadSite{site: site, payload: fn, call: dyn}
			v := site.Call.Args[pi]
			for i := 0; i < 4 && v != nil; i++ {
				switch x := v.(type) {
				case *ssa.MakeClosure:
					ps.mc = x
					v = nil
				case *ssa.ChangeType:
					v = x.X
				default:
					v = nil
				}
			}
			out = append(out, ps)
		}
	}
	return out
}

// launcherSite: the go statement g is the one thing an unexported helper does on every call (it is not in a loop
// there and post-dominates the helper's entry), and the helper has exactly one plain call site: that call site stands
// for the go statement (the loop body was moved into a helper that starts the goroutine).
func launcherSite(c *core.Ctx, g *ssa.Go) *ssa.Call {
	h := g.Parent()
	if h == nil || h.Parent() != nil || h.Object() == nil || h.Object().Exported() || len(c.FuncValueUses(h)) != 0 {
		return nil
	}
	if core.InnermostLoop(h, g.Block()) != nil || !(g.Block() == h.Blocks[0] || c.PostDom(h).PostDominates(g.Block(), h.Blocks[0])) {
		return nil
	}
	n := 0
	for _, in := range core.Calls(h) {
		if _, isGo := in.(*ssa.Go); isGo {
			n++
		}
	}
	sites := staticCallsOf(h)
	if n != 1 || len(sites) != 1 {
		return nil
	}
	return sites[0]
}

// goStatementsOf lists the go statements (anywhere in the program's packages) that run body.
func goStatementsOf(body *ssa.Function) []*ssa.Go {
	prog := body.Prog
	var all []*ssa.Go
	if v, ok := goIndex.Load(prog); ok {
		all = v.([]*ssa.Go)
	} else {
		for _, p := range prog.AllPackages() {
			if !core.InScopePath(p.Pkg.Path()) {
				continue
			}
			var visit func(f *ssa.Function)
			visit = func(f *ssa.Function) {
				for _, b := range f.Blocks {
					for _, in := range b.Instrs {
						if g, isGo := in.(*ssa.Go); isGo {
							all = append(all, g)
						}
					}
				}
				for _, a := range f.AnonFuncs {
					visit(a)
				}
			}
			for _, m := range p.Members {
				switch x := m.(type) {
				case *ssa.Function:
					visit(x)
				case *ssa.Type:
					if n, isN := x.Type().(*types.Named); isN {
						for i := 0; i < n.NumMethods(); i++ {
							if f := prog.FuncValue(n.Method(i)); f != nil {
								visit(f)
							}
						}
					}
				}
			}
		}
		goIndex.Store(prog, all)
	}
	var out []*ssa.Go
	for _, g := range all {
		if goBodyOf(g) == body {
			out = append(out, g)
		}
	}
	return out
}

// ---- joining by tokens on a channel ------------------------------------------------------------------------

type tokenJoin struct {
	ch       *ssa.MakeChan
	send     *ssa.Send
	deferred bool      // the send sits in a function deferred at the entry of the goroutine body
	recv     *ssa.UnOp // the parent's receive
}

// fanJoined: for a fan-out joined by tokens, the first instruction after the receiving loop (what WaitGroup.Wait's
// return is for the other idiom): everything the goroutines did happens before it.
var fanJoined sync.Map // *ssa.Go -> ssa.Instruction

// chanSource follows a channel value up through loads of single-assignment variables and the captures of function
// literals to the make(chan) it comes from (nil if it cannot be followed).
func chanSource(v ssa.Value, fn *ssa.Function, depth int) *ssa.MakeChan {
	for i := 0; i < 12 && v != nil && depth < 4; i++ {
		switch x := v.(type) {
		case *ssa.MakeChan:
			return x
		case *ssa.ChangeType:
			v = x.X
		case *ssa.UnOp:
			if x.Op != token.MUL {
				return nil
			}
			v = x.X
		case *ssa.Alloc:
			st := core.SingleStore(x)
			if st == nil {
				return nil
			}
			v = st
		case *ssa.FreeVar:
			parent := fn.Parent()
			if parent == nil {
				return nil
			}
			idx := -1
			for k, fv := range fn.FreeVars {
				if fv == x {
					idx = k
				}
			}
			var bound ssa.Value
			for _, b := range parent.Blocks {
				for _, in := range b.Instrs {
					if mc, ok := in.(*ssa.MakeClosure); ok && mc.Fn == ssa.Value(fn) && idx >= 0 && idx < len(mc.Bindings) {
						bound = mc.Bindings[idx]
					}
				}
			}
			if bound == nil {
				return nil
			}
			return chanSource(bound, parent, depth+1)
		default:
			return nil
		}
	}
	return nil
}

// tokenJoinOf recognises the sending side: the goroutine body (with the function it defers at its entry) sends exactly
// once, on a channel made by the spawning function.
func tokenJoinOf(c *core.Ctx, g *ssa.Go, body *ssa.Function) *tokenJoin {
	parent := g.Parent()
	var sends []*ssa.Send
	var inDeferred []bool
	scan := func(fn *ssa.Function, deferred bool) {
		for _, b := range fn.Blocks {
			for _, in := range b.Instrs {
				if sd, ok := in.(*ssa.Send); ok {
					sends = append(sends, sd)
					inDeferred = append(inDeferred, deferred)
				}
			}
		}
	}
	scan(body, false)
	for _, in := range body.Blocks[0].Instrs {
		if d, ok := in.(*ssa.Defer); ok {
			if lit := core.ClosureOf(d.Call.Value); lit != nil && lit.Parent() == body {
				// the deferred function does nothing but send
				clean := true
				for _, ci := range core.Calls(lit) {
					if !core.IsLogCall(ci.Common()) {
						clean = false
					}
				}
				if clean {
					scan(lit, true)
				}
			}
		}
	}
	if len(sends) != 1 {
		return nil
	}
	ch := chanSource(sends[0].Chan, sends[0].Parent(), 0)
	if ch == nil || ch.Parent() != parent {
		return nil
	}
	tj := &tokenJoin{ch: ch, send: sends[0], deferred: inDeferred[0]}
	n := 0
	for _, b := range parent.Blocks {
		for _, in := range b.Instrs {
			if u, ok := in.(*ssa.UnOp); ok && u.Op == token.ARROW && chanSource(u.X, parent, 0) == ch {
				tj.recv = u
				n++
			}
			if sd, ok := in.(*ssa.Send); ok && chanSource(sd.Chan, parent, 0) == ch {
				return nil // the parent sends tokens itself
			}
		}
	}
	if n != 1 {
		return nil
	}
	return tj
}

// checkTokenJoin decides the token protocol: (R2) the token is sent when the goroutine is finished, on every exit;
// (R1) one goroutine per iteration, and the number of tokens the parent receives is the number of goroutines it
// started; (R3) the receiving loop lies on every path from the fan-out loop to the function's exit.
func checkTokenJoin(c *core.Ctx, r *core.Report, rule string, g *ssa.Go, cons string, body *ssa.Function, tj *tokenJoin) (*ssa.Function, bool) {
	parent := g.Parent()
	pos := c.Pos(g.Pos())
	if tj.deferred {
		first := true
		for _, in := range body.Blocks[0].Instrs {
			if _, isD := in.(*ssa.Defer); isD {
				if lit := core.ClosureOf(in.(*ssa.Defer).Call.Value); lit != tj.send.Parent() && first {
					r.Fail(rule+".R2", cons+":done-is-last", c.Pos(in.Pos()), "a call deferred before the token is sent runs after it: the parent can go on while this goroutine is still working")
				}
				if core.ClosureOf(in.(*ssa.Defer).Call.Value) == tj.send.Parent() {
					first = false
				}
			}
		}
		r.Hold(rule+".R2", cons+":done", c.Pos(tj.send.Pos()), "the token is sent by a function deferred in the entry block of the goroutine body, so it is sent on every exit including panics")
	} else {
		pdAll := true
		for _, ci := range core.Calls(body) {
			if core.IsLogCall(ci.Common()) {
				continue
			}
			if !c.InstrPostDominates(tj.send, ci) || core.Dominates(tj.send, ci) {
				pdAll = false
			}
		}
		r.Check(pdAll && !core.InLoop(tj.send.Block()), rule+".R2", cons+":done", c.Pos(tj.send.Pos()), "the token is sent after every other call of the goroutine body, once")
	}
	l1 := core.InnermostLoop(parent, g.Block())
	if l1 == nil {
		r.Undecided(rule+".R1", cons+":add", pos, "go statement is not inside a loop")
		return body, false
	}
	if mc, isMC := g.Call.Value.(*ssa.MakeClosure); isMC {
		for _, b := range mc.Bindings {
			al, isAl := b.(*ssa.Alloc)
			if !isAl || l1.Blocks[al.Block()] {
				continue
			}
			for _, rf := range *al.Referrers() {
				if st, isSt := rf.(*ssa.Store); isSt && l1.Blocks[st.Block()] {
					r.Fail(rule+".R2", cons+":captured:"+al.Comment, c.Pos(st.Pos()), "the goroutine captures a variable that the spawning loop writes on every iteration: it reads it while the loop changes it")
					break
				}
			}
		}
	}
	oncePer := func(l *core.Loop, in ssa.Instruction) bool {
		be := loopBodyEntry(l)
		if be == nil || core.InnermostLoop(parent, in.Block()) != l {
			return false
		}
		if !(in.Block() == be || c.PostDom(parent).PostDominates(in.Block(), be)) {
			return false
		}
		for b := range l.Blocks {
			for _, s := range b.Succs {
				if !l.Blocks[s] && b != l.Header {
					return false // an early exit
				}
			}
		}
		return true
	}
	nGo := 0
	for b := range l1.Blocks {
		for _, in := range b.Instrs {
			if gg, isGo := in.(*ssa.Go); isGo && wgSameBody(gg, body) {
				nGo++
			}
		}
	}
	r.Check(oncePer(l1, g) && nGo == 1, rule+".R1", cons+":one-go-per-iteration", pos, "every iteration starts exactly one goroutine and the loop has no early exit")
	// the receiving loop
	l2 := core.InnermostLoop(parent, tj.recv.Block())
	okCount, detail := false, ""
	if l2 != nil && l2 != l1 && !l1.Blocks[l2.Header] && oncePer(l2, tj.recv) {
		// (a) a counter raised once per goroutine and lowered once per token
		for _, in := range l2.Header.Instrs {
			phi2, ok := in.(*ssa.Phi)
			if !ok {
				continue
			}
			var vin ssa.Value
			dec := false
			for k, e := range phi2.Edges {
				if l2.Blocks[l2.Header.Preds[k]] {
					if bo, isBO := e.(*ssa.BinOp); isBO && bo.Op == token.SUB && bo.X == ssa.Value(phi2) {
						if kk, isK := core.ConstInt(bo.Y); isK && kk == 1 && oncePer(l2, bo) {
							dec = true
						}
					}
				} else {
					vin = e
				}
			}
			iff, isIf := l2.Header.Instrs[len(l2.Header.Instrs)-1].(*ssa.If)
			if !dec || vin == nil || !isIf {
				continue
			}
			cmp, isCmp := iff.Cond.(*ssa.BinOp)
			if !isCmp || cmp.X != ssa.Value(phi2) || !l2.Blocks[l2.Header.Succs[0]] {
				continue
			}
			if kk, isK := core.ConstInt(cmp.Y); !isK || kk != 0 || (cmp.Op != token.GTR && cmp.Op != token.NEQ) {
				continue
			}
			phi1, isPhi := vin.(*ssa.Phi)
			if !isPhi || phi1.Block() != l1.Header {
				continue
			}
			zero, inc := false, false
			for k, e := range phi1.Edges {
				if l1.Blocks[l1.Header.Preds[k]] {
					if bo, isBO := e.(*ssa.BinOp); isBO && bo.Op == token.ADD && bo.X == ssa.Value(phi1) {
						if kk, isK := core.ConstInt(bo.Y); isK && kk == 1 && oncePer(l1, bo) {
							inc = true
						}
					}
				} else if kk, isK := core.ConstInt(e); isK && kk == 0 {
					zero = true
				}
			}
			if zero && inc {
				okCount, detail = true, "a counter starts at 0, is raised once per goroutine started and lowered once per token received until it is 0"
			}
		}
		// (b) one token per element of the collection the fan-out ranged over
		if !okCount {
			rl1, rl2 := core.RangeLoopOf(parent, g.Block()), core.RangeLoopOf(parent, tj.recv.Block())
			if rl1 != nil && rl2 != nil && rl1.Loop == l1 && rl2.Loop == l2 && core.Equiv(rl1.Slice, rl2.Slice) {
				okCount, detail = true, "one token is received per element of the collection the fan-out ranged over"
			}
		}
	}
	r.Check(okCount, rule+".R1", cons+":add", pos, "the parent receives exactly as many tokens as it started goroutines: "+detail)
	okWait := l2 != nil && okCount && c.PostDom(parent).PostDominates(l2.Header, l1.Header)
	r.Check(okWait, rule+".R3", cons+":wait", pos, "the receiving loop lies on every path from the fan-out loop to the function's exit")
	if okWait {
		for _, s := range l2.Header.Succs {
			if !l2.Blocks[s] && len(s.Instrs) > 0 {
				fanJoined.Store(g, s.Instrs[0])
			}
		}
	}
	return body, okCount && okWait
}

// wgCanon: the WaitGroup a value denotes, as a root value and a path of field selections from it - looking through
// loads, and through the receiver / parameters of a goroutine body or single-site launcher to what the go statement
// passes.  `&r.scan.wg` in the parent and `&r.scan.wg` in a method started with `go r.visit(...)` are the same.
func wgCanon(v ssa.Value) (ssa.Value, string) {
	path := ""
	v = wgOf(v)
	for i := 0; i < 12; i++ {
		switch x := v.(type) {
		case *ssa.FieldAddr:
			path = "." + strconv.Itoa(x.Field) + path
			v = core.Norm(x.X)
			continue
		case *ssa.Field:
			path = "." + strconv.Itoa(x.Field) + path
			v = core.Norm(x.X)
			continue
		case *ssa.UnOp:
			if x.Op == token.MUL {
				if fa, ok := x.X.(*ssa.FieldAddr); ok {
					v = fa
					continue
				}
			}
		case *ssa.Parameter:
			body := x.Parent()
			idx := -1
			for k, p := range body.Params {
				if p == x {
					idx = k
				}
			}
			var passed ssa.Value
			if gs := goStatementsOf(body); len(gs) == 1 && idx >= 0 && idx < len(gs[0].Call.Args) {
				passed = gs[0].Call.Args[idx]
			} else if sites := staticCallsOf(body); len(gs) == 0 && len(sites) == 1 && idx >= 0 && idx < len(sites[0].Call.Args) {
				passed = sites[0].Call.Args[idx]
			}
			if passed != nil && passed != v {
				v = core.Norm(passed)
				continue
			}
		}
		break
	}
	return v, path
}

// sameWG: the two values denote the same WaitGroup.
func sameWG(a, b ssa.Value) bool {
	if wgOf(a) == wgOf(b) {
		return true
	}
	ra, pa := wgCanon(a)
	rb, pb := wgCanon(b)
	return pa == pb && pa != "" && (ra == rb || core.Equiv(ra, rb))
}

// goStatementsIn: the go statements of fn and its literals.
func goStatementsIn(c *core.Ctx, fn *ssa.Function) []*ssa.Go {
	var out []*ssa.Go
	for _, f := range core.WithAnon(core.TopLevel(fn)) {
		for _, b := range f.Blocks {
			for _, in := range b.Instrs {
				if g, ok := in.(*ssa.Go); ok {
					out = append(out, g)
				}
			}
		}
	}
	return out
}
