package rules

import (
	"fmt"
	"go/types"

	"golang.org/x/tools/go/ssa"

	"iocvet/internal/core"
)

// storedValuesRules (C19.R9): the value lists a tag's arguments are parsed into are what every later reader sees; a
// reader that sorts, overwrites or copies into a list it got out of a TagArg changes the arguments of the point for
// everybody after it.  Flow analysis: sources are the elements read out of a TagArg map (lookup, range value); they
// flow through phis, re-slicing, returns, arguments of in-scope calls and arguments handed to callbacks; sinks are
// the in-place mutators (sort.*, element stores, copy destinations).
func storedValuesRules(c *core.Ctx, r *core.Report, rule string) {
	tagArg := c.Named("component_definition", "TagArg")
	if tagArg == nil {
		r.Undecided(rule, "role:TagArg", "", "component_definition.TagArg not found")
		return
	}
	isTagArgMap := func(t types.Type) bool {
		if core.NamedOf(t) == tagArg {
			return true
		}
		// the same map under another name (a generic multi-valued map the arguments are viewed as)
		if _, isMap := t.Underlying().(*types.Map); isMap && types.Identical(t.Underlying(), tagArg.Underlying()) {
			return true
		}
		if pt, ok := t.Underlying().(*types.Pointer); ok {
			return core.NamedOf(pt.Elem()) == tagArg
		}
		return false
	}
	tainted := map[ssa.Value]bool{}
	retTaint := map[*ssa.Function]map[int]bool{} // function -> result indexes that carry stored lists
	mark := func(v ssa.Value, changed *bool) {
		if v != nil && !tainted[v] {
			tainted[v] = true
			*changed = true
		}
	}
	sources := 0
	// callback parameter positions: g calls its func-typed parameter p with a tainted argument at position j
	type cbKey struct {
		g    *ssa.Function
		p, j int
	}
	cbTaint := map[cbKey]bool{}
	for changed, rounds := true, 0; changed && rounds < 12; rounds++ {
		changed = false
		for _, fn := range c.Scope {
			for _, b := range fn.Blocks {
				for _, in := range b.Instrs {
					switch x := in.(type) {
					case *ssa.Lookup:
						if isTagArgMap(x.X.Type()) {
							if !tainted[x] {
								sources++
							}
							mark(x, &changed)
						}
					case *ssa.Extract:
						switch tup := x.Tuple.(type) {
						case *ssa.Lookup:
							if tainted[tup] && x.Index == 0 {
								mark(x, &changed)
							}
						case *ssa.Next:
							if rg, ok := tup.Iter.(*ssa.Range); ok && isTagArgMap(rg.X.Type()) && x.Index == 2 {
								if !tainted[x] {
									sources++
								}
								mark(x, &changed)
							}
						case *ssa.Call:
							if cal := core.Callee(tup.Common()); cal != nil && retTaint[cal][x.Index] {
								mark(x, &changed)
							}
						}
					case *ssa.Phi:
						for _, e := range x.Edges {
							if tainted[e] {
								mark(x, &changed)
							}
						}
					case *ssa.Slice:
						if tainted[x.X] {
							mark(x, &changed)
						}
					case *ssa.ChangeType:
						if tainted[x.X] {
							mark(x, &changed)
						}
					case *ssa.Return:
						for i, res := range x.Results {
							if tainted[res] {
								if retTaint[fn] == nil {
									retTaint[fn] = map[int]bool{}
								}
								if !retTaint[fn][i] {
									retTaint[fn][i] = true
									changed = true
								}
							}
						}
					case *ssa.Call:
						com := x.Common()
						if cal := core.Callee(com); cal != nil {
							if retTaint[cal][0] && cal.Signature.Results().Len() == 1 {
								mark(x, &changed)
							}
							if c.InScope(cal) && cal.Blocks != nil {
								off := 0
								if com.IsInvoke() {
									off = 1
								}
								for i, a := range com.Args {
									if tainted[a] && i+off < len(cal.Params) {
										mark(cal.Params[i+off], &changed)
									}
									// a callback handed to cal: if cal calls that parameter with stored lists, the
									// callback's parameters receive them
									if lit := resolveWrapper(core.ClosureOf(a)); lit != nil && lit.Blocks != nil {
										for k := range lit.Params {
											if cbTaint[cbKey{cal, i + off, k}] {
												kk := k
												if lit.Signature.Recv() != nil {
													kk = k // bound method: Params[0] is the receiver, callback args start at 1
												}
												mark(lit.Params[kk], &changed)
											}
										}
									}
								}
							}
						} else if p, ok := com.Value.(*ssa.Parameter); ok && !com.IsInvoke() {
							// fn calls its own func-typed parameter
							pi := -1
							for i, q := range fn.Params {
								if q == p {
									pi = i
								}
							}
							for j, a := range com.Args {
								if tainted[a] && pi >= 0 && !cbTaint[cbKey{fn, pi, j}] {
									cbTaint[cbKey{fn, pi, j}] = true
									changed = true
								}
							}
						}
					}
				}
			}
		}
	}
	r.Count("stored_value_sources", sources)
	if !r.Floor(rule, "reads of stored argument lists", sources, 1) {
		return
	}
	n := 0
	for _, fn := range c.Scope {
		for _, b := range fn.Blocks {
			for _, in := range b.Instrs {
				bad := ""
				switch x := in.(type) {
				case *ssa.Call:
					com := x.Common()
					if cal := core.Callee(com); cal != nil {
						switch cal.String() {
						case "sort.Strings", "sort.Slice", "sort.SliceStable", "sort.Sort", "sort.Stable", "slices.Sort", "slices.SortFunc", "slices.SortStableFunc", "slices.Reverse", core.Mod + "/util/sort2.Slice":
							if len(com.Args) > 0 && tainted[stripIface(com.Args[0])] {
								bad = "sorted in place by " + cal.Name()
							}
						}
					}
					if bi, ok := com.Value.(*ssa.Builtin); ok && bi.Name() == "copy" && tainted[com.Args[0]] {
						bad = "overwritten by copy"
					}
				case *ssa.Store:
					if ia, ok := x.Addr.(*ssa.IndexAddr); ok && tainted[ia.X] {
						bad = "an element is overwritten"
					}
				}
				if bad != "" {
					n++
					r.Fail(rule, fmt.Sprintf("stored-values@%s", core.FnName(fn)), c.Pos(in.Pos()), "a value list read out of a TagArg is modified in place ("+bad+"): the arguments of the injection point change for every later reader")
				}
			}
		}
	}
	if n == 0 {
		r.Hold(rule, "stored-values", "", fmt.Sprintf("none of the %d reads of stored argument lists flows into an in-place mutator (sort, element store, copy destination), through returns, in-scope calls and callbacks", sources))
	}
}

func stripIface(v ssa.Value) ssa.Value {
	if mi, ok := v.(*ssa.MakeInterface); ok {
		return mi.X
	}
	return v
}
