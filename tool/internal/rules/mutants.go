package rules

import (
	"encoding/json"
	"fmt"
	"os"
	"os/exec"
	"path/filepath"
	"runtime/debug"
	"sort"
	"strings"
	"sync"

	"iocvet/internal/core"
)

// Mutant is one compiling, test-passing edit of /repo that breaks a property (catalogue entry).
type Mutant struct {
	ID       string   `json:"id"`
	Property string   `json:"property"`
	File     string   `json:"file"`
	Find     string   `json:"find"`
	Replace  string   `json:"replace"`
	Edits    []Edit   `json:"edits,omitempty"` // additional edits (multi-site mutants)
	Expect   []string `json:"expect"`          // rule-id prefixes, at least one must be reported
	Control  bool     `json:"control,omitempty"`
	Benign   bool     `json:"benign,omitempty"` // behaviour-preserving variant: must stay silent
	Note     string   `json:"note,omitempty"`
	Patch    string   `json:"patch,omitempty"` // path (relative to /verif) of a unified diff to apply instead of find/replace
}

type Edit struct {
	File    string `json:"file"`
	Find    string `json:"find"`
	Replace string `json:"replace"`
}

type MutantResult struct {
	ID       string   `json:"id"`
	Property string   `json:"property"`
	Status   string   `json:"status"` // detected | missed | skipped | silent-ok | false-alarm | error
	Rules    []string `json:"rules,omitempty"`
	Detail   string   `json:"detail,omitempty"`
}

// RunProperty loads repo and evaluates one property's rules.
func RunProperty(repo, tier, prop string, seed int64) (*core.Report, error) {
	return RunPropertyVariant(repo, "", tier, prop, seed)
}

// RunPropertyVariant evaluates a property on the repository with the changed files of a scratch copy overlaid.
func RunPropertyVariant(repo, variant, tier, prop string, seed int64) (*core.Report, error) {
	fn := Lookup(prop)
	if fn == nil {
		return nil, fmt.Errorf("unknown property %s", prop)
	}
	rep := core.NewReport(prop, tier, seed)
	ctx, err := core.LoadVariant(repo, variant, tier)
	if err != nil {
		return nil, err
	}
	defer ctx.Release()
	func() {
		defer func() {
			if r := recover(); r != nil {
				rep.Undecided(prop+".PANIC", "checker", "", fmt.Sprintf("checker panicked: %v\n%s", r, debug.Stack()))
			}
		}()
		fn(ctx, rep)
	}()
	return rep, nil
}

// RunOn evaluates one property's rules on an already loaded program.
func RunOn(ctx *core.Ctx, prop string) *core.Report {
	rep := core.NewReport(prop, ctx.Tier, 0)
	fn := Lookup(prop)
	func() {
		defer func() {
			if r := recover(); r != nil {
				rep.Undecided(prop+".PANIC", "checker", "", fmt.Sprintf("checker panicked: %v\n%s", r, debug.Stack()))
			}
		}()
		fn(ctx, rep)
	}()
	return rep
}

func LoadMutants(verif string) ([]Mutant, error) {
	files, _ := filepath.Glob(filepath.Join(verif, "mutants", "c[0-9][0-9].json"))
	sort.Strings(files)
	var out []Mutant
	for _, f := range files {
		b, err := os.ReadFile(f)
		if err != nil {
			return nil, err
		}
		var ms []Mutant
		if err := json.Unmarshal(b, &ms); err != nil {
			return nil, fmt.Errorf("%s: %v", f, err)
		}
		out = append(out, ms...)
	}
	return out, nil
}

func copyRepo(repo, dst string) error {
	cmd := exec.Command("rsync", "-a", "--exclude", ".git", repo+"/", dst+"/")
	if out, err := cmd.CombinedOutput(); err != nil {
		return fmt.Errorf("rsync: %v: %s", err, out)
	}
	return nil
}

func applyEdit(dir string, e Edit) (bool, error) {
	p := filepath.Join(dir, e.File)
	b, err := os.ReadFile(p)
	if err != nil {
		return false, err
	}
	s := string(b)
	if !strings.Contains(s, e.Find) {
		return false, nil
	}
	s = strings.Replace(s, e.Find, e.Replace, 1)
	return true, os.WriteFile(p, []byte(s), 0o644)
}

// RunMutant analyses one variant in a scratch copy (removed afterwards).
func RunMutant(repo, verif string, m Mutant, tier string, known map[string]bool) MutantResult {
	res := MutantResult{ID: m.ID, Property: m.Property}
	dir, err := os.MkdirTemp("", "iocvet-mut-")
	if err != nil {
		res.Status, res.Detail = "error", err.Error()
		return res
	}
	defer os.RemoveAll(dir)
	if err := copyRepo(repo, dir); err != nil {
		res.Status, res.Detail = "error", err.Error()
		return res
	}
	if m.Patch != "" {
		cmd := exec.Command("patch", "-p1", "-s", "-i", filepath.Join(verif, m.Patch))
		cmd.Dir = dir
		if out, err := cmd.CombinedOutput(); err != nil {
			res.Status, res.Detail = "skipped", "patch does not apply: "+strings.TrimSpace(string(out))
			return res
		}
	} else {
		edits := append([]Edit{{m.File, m.Find, m.Replace}}, m.Edits...)
		for _, e := range edits {
			ok, err := applyEdit(dir, e)
			if err != nil {
				res.Status, res.Detail = "error", err.Error()
				return res
			}
			if !ok {
				res.Status, res.Detail = "skipped", "find text no longer occurs in "+e.File
				return res
			}
		}
	}
	rep, err := RunPropertyVariant(repo, dir, tier, m.Property, 0)
	if err != nil {
		res.Status, res.Detail = "error", "variant does not load: "+err.Error()
		return res
	}
	seen := map[string]bool{}
	for _, o := range rep.Obls {
		if o.Verdict == core.Held || known[o.Key()] {
			continue
		}
		if !seen[o.Rule] {
			seen[o.Rule] = true
			res.Rules = append(res.Rules, o.Rule)
		}
	}
	sort.Strings(res.Rules)
	if m.Benign {
		if len(res.Rules) == 0 {
			res.Status = "silent-ok"
		} else {
			res.Status = "false-alarm"
		}
		return res
	}
	for _, want := range m.Expect {
		for _, got := range res.Rules {
			if strings.HasPrefix(got, want) {
				res.Status = "detected"
				return res
			}
		}
	}
	if len(m.Expect) == 0 && len(res.Rules) > 0 {
		res.Status = "detected"
		return res
	}
	res.Status = "missed"
	return res
}

// RunCatalogue runs the mutants of one property (or all) in parallel.
func RunCatalogue(repo, verif, which, tier string, onlyControl bool) ([]MutantResult, error) {
	ms, err := LoadMutants(verif)
	if err != nil {
		return nil, err
	}
	findings, err := core.LoadFindings(filepath.Join(verif, "known_findings.json"))
	if err != nil {
		return nil, err
	}
	known := map[string]bool{}
	for _, f := range findings {
		if f.Status == "known" {
			known[f.Key] = true
		}
	}
	var sel []Mutant
	for _, m := range ms {
		if which != "all" && m.Property != which {
			continue
		}
		if onlyControl && !m.Control {
			continue
		}
		sel = append(sel, m)
	}
	// violations already present on the unmodified tree do not count as detections
	props := map[string]bool{}
	for _, m := range sel {
		props[m.Property] = true
	}
	for p := range props {
		base, err := RunProperty(repo, "quick", p, 0)
		if err != nil {
			return nil, err
		}
		for _, o := range base.Obls {
			if o.Verdict != core.Held {
				known[o.Key()] = true
			}
		}
	}
	out := make([]MutantResult, len(sel))
	sem := make(chan struct{}, 8)
	var wg sync.WaitGroup
	for i := range sel {
		wg.Add(1)
		go func(i int) {
			defer wg.Done()
			sem <- struct{}{}
			defer func() { <-sem }()
			out[i] = RunMutant(repo, verif, sel[i], "quick", known)
		}(i)
	}
	wg.Wait()
	return out, nil
}

// RunMutants is the CLI entry: prints one line per variant; exit 1 if any is missed or falsely alarmed.
func RunMutants(repo, verif, which, tier string) int {
	res, err := RunCatalogue(repo, verif, which, tier, false)
	if err != nil {
		fmt.Fprintln(os.Stderr, err)
		return 2
	}
	bad := 0
	for _, r := range res {
		fmt.Printf("%-12s %-5s %-32s %s %s\n", r.Status, r.Property, r.ID, strings.Join(r.Rules, ","), r.Detail)
		if r.Status == "missed" || r.Status == "false-alarm" || r.Status == "error" {
			bad++
		}
	}
	fmt.Printf("%d variants, %d not as expected\n", len(res), bad)
	if bad > 0 {
		return 1
	}
	return 0
}

// Selftest attaches catalogue results to a report (thorough: all variants of the property; quick: controls only).
// A control that is not detected means the checker has rotted: the run aborts without a verdict.
func Selftest(repo, verif string, rep *core.Report, tier string) (ok bool) {
	res, err := RunCatalogue(repo, verif, rep.Property, tier, tier != "thorough")
	if err != nil {
		fmt.Fprintln(os.Stderr, "selftest:", err)
		return false
	}
	counts := map[string]int{}
	var list []MutantResult
	ok = true
	for _, r := range res {
		counts[r.Status]++
		list = append(list, r)
		if r.Status == "missed" || r.Status == "false-alarm" || r.Status == "error" {
			ok = false
			fmt.Fprintf(os.Stderr, "selftest: variant %s of %s: %s %s (rules reported: %s)\n", r.ID, r.Property, r.Status, r.Detail, strings.Join(r.Rules, ","))
		}
	}
	rep.Extra["selftest"] = map[string]any{"variants": len(res), "by_status": counts, "results": list,
		"what": "compiling edits of /repo known to break (or, marked benign, to preserve) the property, analysed statically in scratch copies; they test the checker, never the verdict on /repo"}
	return ok
}
