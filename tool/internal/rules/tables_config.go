package rules

import (
	"fmt"
	"go/types"
	"os"
	"strings"

	"golang.org/x/tools/go/ssa"

	"iocvet/internal/absint"
	"iocvet/internal/core"
)

var loadRows = map[string]string{
	"order":     "loaders are asked in the order the ordering helper returned for the loader field, each exactly once",
	"bind":      "every non-empty loader output is handed to Binder.SetConfig right after it was loaded, exactly as returned; empty outputs are skipped and do not end the loop",
	"error":     "a loader or binder error ends the loading at once with a non-nil error; otherwise the result is nil",
	"no-source": "without loaders nothing is loaded or bound and the result is nil",
}

// loadTable interprets the Configure implementation's Initialize method - with whatever helpers it is split into - on
// loader lists of length 0..maxLen.  The ordering helper is an oracle returning the reversed list (so that ranging
// over the unsorted field shows); every LoadConfig yields non-empty bytes, empty bytes or an error; every SetConfig
// succeeds or fails.
func loadTable(c *core.Ctx, initFn *ssa.Function, field string, maxLen int) (rs rows, runs int, undecided string) {
	ro := c.Roles()
	rs = rows{}
	var add *ssa.Function
	if recv := initFn.Signature.Recv(); recv != nil {
		if T := core.NamedOf(recv.Type()); T != nil {
			add = c.DeclaredMethod(T, "AddLoaders")
			if add != nil && len(add.Params) != 2 {
				add = nil
			}
		}
	}
	type variant struct {
		n        int
		twoPhase bool // Initialize with the first loader, add the rest, Initialize again: the second run is what counts
		viaSet   bool // the loaders are given by SetLoaders (replace) instead of AddLoaders
		// realSorter: the ordering helper itself is interpreted (on a priority-ordered loader followed by loaders outside
		// the contract), and the configure is initialised twice with all loaders: what the helper and the start routine
		// do to each other's slices shows in the second run
		realSorter bool
	}
	var setL *ssa.Function
	if recv := initFn.Signature.Recv(); recv != nil && add != nil {
		if T := core.NamedOf(recv.Type()); T != nil {
			if m := c.DeclaredMethod(T, "SetLoaders"); m != nil && len(m.Params) == 2 {
				setL = m
			}
		}
	}
	var variants []variant
	for n := 0; n <= maxLen; n++ {
		variants = append(variants, variant{n, false, false, false})
	}
	if add != nil {
		for n := 2; n <= maxLen; n++ {
			variants = append(variants, variant{n, true, false, false})
		}
	}
	if setL != nil {
		for n := 2; n <= maxLen; n++ {
			variants = append(variants, variant{n, false, true, false})
		}
	}
	if add != nil {
		variants = append(variants, variant{3, false, false, true})
	}
	for _, vr := range variants {
		n, twoPhase, viaSet := vr.n, vr.twoPhase, vr.viaSet
		realSorter := vr.realSorter
		var trace []string
		var want []string
		var wantErr bool
		var stopped bool
		quiet := false // first phase: every loader and the binder succeed
		build := func() (absint.Oracle, []absint.Value, []absint.Value) {
			trace, want, wantErr, stopped, quiet = nil, nil, false, false, false
			t := newTbl(c)
			cfg := absint.NewTok("configure", "configure")
			binder := absint.NewTok("binder", "binder")
			ls := &absint.List{}
			for i := 1; i <= n; i++ {
				ls.Elems = append(ls.Elems, absint.NewTok(fmt.Sprintf("L%d", i), "loader"))
			}
			if field != "" && add == nil {
				cfg.Fields[field] = ls
			}
			cfg.Attr["zeroed"] = absint.Bool(true) // a fresh Configure: what AddLoaders did not fill is empty
			t.field = func(ip *absint.Interp, obj *absint.Tok, name string, typ types.Type) absint.Value {
				if obj == cfg && types.IsInterface(typ) {
					return binder
				}
				return nil
			}
			// the table's loaders are the users': none of them is of a type declared by the library
			t.typeTest = func(v absint.Value, T types.Type) (bool, bool) {
				if tok, ok := v.(*absint.Tok); ok && tok.Class == "loader" && !types.IsInterface(T) {
					return false, true
				}
				if tok, ok := v.(*absint.Tok); ok && tok.Class == "loader" && realSorter {
					if lt := c.Named("configure", "Loader"); lt != nil && types.Identical(T, lt) {
						return true, true
					}
					ordN, priN := c.Named("definition", "Ordered"), c.Named("definition", "Priority")
					if (ordN != nil && types.Identical(T, ordN)) || (priN != nil && types.Identical(T, priN)) {
						return tok.Attr["order"] != nil, true
					}
					return false, true
				}
				return false, false
			}
			if realSorter {
				ls.Elems[0].(*absint.Tok).Attr["order"] = absint.Int(-3)
				t.invokeN["Order"] = func(ip *absint.Interp, a []absint.Value) absint.Value {
					if tok, ok := a[0].(*absint.Tok); ok && tok.Attr["order"] != nil {
						return tok.Attr["order"]
					}
					panic(&absint.Undecided{Msg: "Order() of a loader outside the contract"})
				}
			}
			if ro.Sorter != nil && !realSorter {
				t.callee[ro.Sorter] = func(ip *absint.Interp, a []absint.Value) absint.Value {
					in, ok := a[0].(*absint.List)
					if !ok {
						panic(&absint.Undecided{Msg: "ordering helper applied to an unmodelled value"})
					}
					out := &absint.List{}
					for i := len(in.Elems) - 1; i >= 0; i-- {
						e, isTok := in.Elems[i].(*absint.Tok)
						if !isTok {
							panic(&absint.Undecided{Msg: "ordering helper applied to an unmodelled element"})
						}
						s := absint.NewTok("sorted:"+strings.TrimPrefix(e.ID, "sorted:"), "loader")
						out.Elems = append(out.Elems, s)
					}
					trace = append(trace, "sort("+absint.Show(in)+")")
					return out
				}
			}
			t.invoke[ro.LoaderLoad] = func(ip *absint.Interp, a []absint.Value) absint.Value {
				id := absint.Show(a[0])
				trace = append(trace, "load("+id+")")
				if stopped {
					want = append(want, "<nothing after the failure>")
				}
				want = append(want, "load("+id+")")
				if quiet {
					return absint.Tuple{&absint.List{Elems: []absint.Value{absint.NewTok("bytes("+id+")", "bytes")}}, absint.Nil{}}
				}
				switch ip.Choose(3, "loader outcome") {
				case 0:
					b := &absint.List{Elems: []absint.Value{absint.NewTok("bytes("+id+")", "bytes")}}
					want = append(want, "set("+absint.Show(b)+")")
					return absint.Tuple{b, absint.Nil{}}
				case 1:
					return absint.Tuple{&absint.List{}, absint.Nil{}}
				}
				wantErr, stopped = true, true
				return absint.Tuple{&absint.List{IsNil: true}, t.newErr("load")}
			}
			t.invoke[ro.BinderSetConfig] = func(ip *absint.Interp, a []absint.Value) absint.Value {
				trace = append(trace, "set("+absint.Show(a[1])+")")
				if quiet {
					return absint.Nil{}
				}
				if ip.Choose(2, "binder outcome") == 1 {
					wantErr, stopped = true, true
					return t.newErr("bind")
				}
				return absint.Nil{}
			}
			// the registration runs in the interpreter of the run itself, so that its choices are enumerated as well
			t.setup = func(ip0 *absint.Interp) {
				if viaSet {
					if out := ip0.Run(setL, []absint.Value{cfg, &absint.List{Elems: append([]absint.Value(nil), ls.Elems...)}}, nil); out.Undecided != nil {
						panic(&absint.Undecided{Msg: "SetLoaders: " + out.Undecided.Msg})
					} else if out.Panic != nil {
						panic(&absint.Undecided{Msg: "SetLoaders panics: " + out.Panic.Msg})
					}
				} else if add != nil {
					// the loaders are registered the way users register them: one AddLoaders call with the first, one
					// with the rest (so the list the start routine loads from is whatever AddLoaders fills, wherever it lives)
					for k, part := range [][]absint.Value{ls.Elems[:min(1, len(ls.Elems))], ls.Elems[min(1, len(ls.Elems)):]} {
						if len(part) == 0 {
							continue
						}
						if out := ip0.Run(add, []absint.Value{cfg, &absint.List{Elems: append([]absint.Value(nil), part...)}}, nil); out.Undecided != nil {
							panic(&absint.Undecided{Msg: "AddLoaders: " + out.Undecided.Msg})
						} else if out.Panic != nil {
							panic(&absint.Undecided{Msg: "AddLoaders panics: " + out.Panic.Msg})
						}
						if k == 1 && realSorter {
							// a first start with all loaders, everything succeeding
							quiet = true
							if out := ip0.Run(initFn, []absint.Value{cfg}, nil); out.Undecided != nil {
								panic(&absint.Undecided{Msg: "first Initialize: " + out.Undecided.Msg})
							} else if out.Panic != nil {
								panic(&absint.Undecided{Msg: "first Initialize panics: " + out.Panic.Msg})
							}
							quiet = false
							trace, want = nil, nil
						}
						if k == 0 && twoPhase {
							// a first start with the first loader alone, everything succeeding
							quiet = true
							if out := ip0.Run(initFn, []absint.Value{cfg}, nil); out.Undecided != nil {
								panic(&absint.Undecided{Msg: "first Initialize: " + out.Undecided.Msg})
							} else if out.Panic != nil {
								panic(&absint.Undecided{Msg: "first Initialize panics: " + out.Panic.Msg})
							}
							quiet = false
							trace, want = nil, nil
						}
					}
				}
			}
			return t, []absint.Value{cfg}, nil
		}
		check := func(ip *absint.Interp, out absint.Outcome) {
			w := fmt.Sprintf("%d loader(s) (re-initialised after adding all but the first: %v; given by SetLoaders: %v; second start with the ordering helper itself: %v): trace=%v => %s", n, twoPhase, viaSet, realSorter, trace, showOutcome(out))
			if out.Panic != nil {
				rs.fail("error", "PANIC "+w)
				return
			}
			isErr := len(out.Ret) == 1 && isErrTok(out.Ret[0])
			var got []string
			sorted := ""
			for _, e := range trace {
				if strings.HasPrefix(e, "sort(") {
					sorted = e
					continue
				}
				got = append(got, e)
			}
			if n == 0 {
				rs.hit("no-source")
				if len(got) != 0 || isErr {
					rs.fail("no-source", w)
				}
				return
			}
			// order: the loads are exactly sorted:Ln .. sorted:L1 as far as the run got
			rs.hit("order")
			k := 0
			okOrder := sorted != "" || realSorter
			for _, e := range got {
				if !strings.HasPrefix(e, "load(") {
					continue
				}
				if !realSorter && e != fmt.Sprintf("load(sorted:L%d)", n-k) {
					okOrder = false
				}
				if realSorter && e != fmt.Sprintf("load(L%d)", k+1) {
					okOrder = false // (the priority-ordered loader first, the others in registration order)
				}
				k++
			}
			if !okOrder {
				rs.fail("order", w)
			}
			rs.hit("bind")
			if strings.Join(got, " ") != strings.Join(want, " ") || (okOrder && !wantErr && k != n) {
				rs.fail("bind", w+fmt.Sprintf(" expected %v", want))
			}
			rs.hit("error")
			if isErr != wantErr {
				rs.fail("error", w)
			}
		}
		m, u := runTable(c, initFn, build, check)
		runs += m
		if u != "" {
			if realSorter {
				if os.Getenv("IOCVET_DEBUG") != "" {
					fmt.Fprintln(os.Stderr, "REAL-SORTER variant undecided:", u)
				}
				continue // the helper itself is decided by the sorter table; only its interplay is lost here
			}
			return rs, runs, u
		}
	}
	return
}
