package rules

import (
	"fmt"
	"go/types"
	"sort"
	"strings"

	"golang.org/x/tools/go/ssa"

	"iocvet/internal/absint"
	"iocvet/internal/core"
)

var prepareRows = map[string]string{
	"recorded":   "after a successful preparation the component map holds exactly the enumerated singletons, each under its name",
	"classified": "every singleton is handed on in every role it plays: a component post-processor to the delegate's registration, a definition-registry post-processor to the factory's list, a factory post-processor to the invocation that ends the preparation - each exactly once",
	"order-free": "the enumeration order of the singleton registry does not change what is recorded or handed on (as sets)",
	"error":      "a singleton that cannot be fetched, or a failing factory post-processor stage, ends the preparation with a non-nil error; otherwise the result is nil",
}

// prepareTable interprets a Factory implementation's PrepareComponents - with whatever helpers, run-context objects
// and visitors it is split into - on three registered singletons, in every enumeration order, with every assignment
// of the three processor roles to the first two of them and every fetch outcome.
func prepareTable(c *core.Ctx, prep *ssa.Function) (rs rows, runs int, undecided string) {
	rs = rows{}
	srGet := c.IfaceMethod("container", "SingletonRegistry", "GetSingleton")
	srNames := c.IfaceMethod("container", "SingletonRegistry", "GetSingletonNames")
	cpp := c.Named("container", "ComponentPostProcessor")
	drpp := c.Named("container", "DefinitionRegistryPostProcessor")
	cfpp := c.Named("container", "ComponentFactoryPostProcessor")
	if srGet == nil || srNames == nil || cpp == nil || drpp == nil || cfpp == nil {
		return rs, 0, "SingletonRegistry.GetSingleton / GetSingletonNames / the processor contracts not found"
	}
	owner := ownerOf(prep)
	names := []string{"s1", "s2", "s3"}
	type outcome struct{ recorded, events string }
	canon := map[string]outcome{} // configuration (roles) -> what the first enumeration order gave
	for _, perm := range permutations(3) {
		for roles := 0; roles < 1<<6; roles++ { // three role bits for s1, three for s2; s3 plays none
			has := func(i int, role int) bool { return i < 2 && roles&(1<<(i*3+role)) != 0 }
			var events []string
			var wantErr, fetchedAll bool
			var factory *absint.Tok
			build := func() (absint.Oracle, []absint.Value, []absint.Value) {
				events, wantErr, fetchedAll = nil, false, false
				t := newTbl(c)
				factory = absint.NewTok("factory", "factory")
				factory.Attr["zeroed"] = absint.Bool(true)
				reg := absint.NewTok("collaborator", "registry")
				t.field = func(ip *absint.Interp, obj *absint.Tok, name string, typ types.Type) absint.Value {
					if obj != factory {
						return nil
					}
					if types.IsInterface(typ) {
						if n := core.NamedOf(typ); n != nil && !n.Obj().Exported() && n.Obj().Pkg() != nil && core.InScopePath(n.Obj().Pkg().Path()) && !ifaceHasMethod(typ, srNames.Name()) && !ifaceHasMethod(typ, srGet.Name()) {
							return absint.NewTok("delegate:"+name, "delegate") // the delegate behind a narrowed view of the package's own
						}
						return reg
					}
					if p, ok := typ.Underlying().(*types.Pointer); ok {
						if n := core.NamedOf(p.Elem()); n != nil && n != owner {
							if _, isStruct := n.Underlying().(*types.Struct); isStruct {
								return absint.NewTok("delegate:"+name, "delegate")
							}
						}
					}
					return nil
				}
				t.typeTestC = func(ip *absint.Interp, v absint.Value, T types.Type) (bool, bool) {
					tok, ok := v.(*absint.Tok)
					if !ok || tok.Class != "singleton" {
						return false, false
					}
					i := int(tok.Attr["index"].(absint.Int))
					switch {
					case types.Identical(T, cpp):
						return has(i, 0), true
					case types.Identical(T, drpp):
						return has(i, 1), true
					case types.Identical(T, cfpp):
						return has(i, 2), true
					}
					if types.IsInterface(T) {
						// any other capability of the singleton: both answers are possible
						key := "cap:" + T.String()
						if tok.Attr[key] == nil {
							tok.Attr[key] = absint.Bool(ip.Choose(2, tok.ID+" implements "+T.String()) == 1)
						}
						return tok.Attr[key] == absint.Bool(true), true
					}
					return false, false
				}
				fetched := 0
				t.invoke[srNames] = func(ip *absint.Interp, a []absint.Value) absint.Value {
					out := &absint.List{}
					for _, i := range perm {
						out.Elems = append(out.Elems, absint.Str(names[i]))
					}
					return out
				}
				t.invoke[srGet] = func(ip *absint.Interp, a []absint.Value) absint.Value {
					nm, ok := a[1].(absint.Str)
					if !ok {
						panic(&absint.Undecided{Msg: "GetSingleton of a name the registry did not enumerate"})
					}
					if ip.Choose(2, "fetch outcome") == 1 {
						wantErr = true
						return absint.Tuple{absint.Nil{}, t.newErr("fetch")}
					}
					fetched++
					fetchedAll = fetched == len(names)
					s := absint.NewTok("obj:"+string(nm), "singleton")
					s.Attr["index"] = absint.Int(int64(strings.Index("s1s2s3", string(nm)) / 2))
					return absint.Tuple{s, absint.Nil{}}
				}
				// whatever the factory hands to its delegate is an event; the stage that ends the preparation may fail
				t.dynamic = nil
				return &prepareOracle{tbl: t, events: &events, wantErr: &wantErr}, []absint.Value{factory}, nil
			}
			var cfg []string
			for i := 0; i < 2; i++ {
				var r []string
				for k, n := range []string{"post-processor", "registry-post-processor", "factory-post-processor"} {
					if has(i, k) {
						r = append(r, n)
					}
				}
				cfg = append(cfg, names[i]+":["+strings.Join(r, ",")+"]")
			}
			check := func(ip *absint.Interp, out absint.Outcome) {
				var order []string
				for _, i := range perm {
					order = append(order, names[i])
				}
				w := fmt.Sprintf("registry enumerates %v, roles %v; handed on: %v => %s", order, cfg, events, showOutcome(out))
				if out.Panic != nil {
					rs.fail("error", "PANIC "+w)
					return
				}
				isErr := len(out.Ret) == 1 && isErrTok(out.Ret[0])
				rs.hit("error")
				if isErr != wantErr {
					rs.fail("error", w)
				}
				if isErr || wantErr || !fetchedAll {
					return
				}
				// the component map: the one map field of the factory that holds the fetched objects
				recorded := map[string]string{}
				for _, v := range factory.Fields {
					if m, ok := v.(*absint.MapVal); ok {
						for k, e := range m.M {
							if tok, isTok := e.(*absint.Tok); isTok && tok.Class == "singleton" {
								recorded[k] = tok.ID
							}
						}
					}
				}
				var recs []string
				for k, v := range recorded {
					recs = append(recs, k+"="+v)
				}
				sort.Strings(recs)
				rs.hit("recorded")
				okRec := len(recorded) == len(names)
				for _, n := range names {
					okRec = okRec && recorded[n] == "obj:"+n
				}
				if !okRec {
					rs.fail("recorded", w+fmt.Sprintf(" component map=%v", recs))
				}
				// roles: how often each object was handed on, per kind of hand-over
				count := func(kind, obj string) int {
					n := 0
					for _, e := range events {
						if strings.HasPrefix(e, kind+":") {
							n += strings.Count(e, obj+";")
						}
					}
					return n
				}
				listed := func(T *types.Named, obj string) int {
					n := 0
					for fname, v := range factory.Fields {
						l, ok := v.(*absint.List)
						if !ok {
							continue
						}
						if st := core.StructOf(owner); st != nil {
							for i := 0; i < st.NumFields(); i++ {
								if st.Field(i).Name() == fname {
									if sl, isSl := st.Field(i).Type().Underlying().(*types.Slice); isSl && types.Identical(sl.Elem(), T) {
										for _, e := range l.Elems {
											if tok, isTok := e.(*absint.Tok); isTok && tok.ID == obj {
												n++
											}
										}
									}
								}
							}
						}
					}
					return n
				}
				rs.hit("classified")
				for i, nme := range names {
					obj := "obj:" + nme
					wantCPP, wantDRPP, wantCFPP := 0, 0, 0
					if has(i, 0) {
						wantCPP = 1
					}
					if has(i, 1) {
						wantDRPP = 1
					}
					if has(i, 2) {
						wantCFPP = 1
					}
					if got := count("post-processor", obj); got != wantCPP {
						rs.fail("classified", w+fmt.Sprintf(": %s registered with the delegate %d time(s), expected %d", obj, got, wantCPP))
					}
					if got := listed(drpp, obj) + count("registry-post-processor", obj); got != wantDRPP {
						rs.fail("classified", w+fmt.Sprintf(": %s kept as definition-registry post-processor %d time(s), expected %d", obj, got, wantDRPP))
					}
					if got := count("factory-post-processor", obj); got != wantCFPP {
						rs.fail("classified", w+fmt.Sprintf(": %s handed to the factory post-processor stage %d time(s), expected %d", obj, got, wantCFPP))
					}
				}
				// the same, as sets, in every enumeration order
				evs := append([]string(nil), events...)
				for i, e := range evs {
					parts := strings.Split(strings.TrimSuffix(e[strings.Index(e, ":")+1:], ";"), ";")
					sort.Strings(parts)
					evs[i] = e[:strings.Index(e, ":")+1] + strings.Join(parts, ";")
				}
				sort.Strings(evs)
				now := outcome{recorded: strings.Join(recs, " "), events: strings.Join(evs, " | ")}
				key := strings.Join(cfg, " ")
				rs.hit("order-free")
				if prev, seen := canon[key]; seen && prev != now {
					rs.fail("order-free", w+fmt.Sprintf(": another enumeration order gave map {%s} and hand-overs {%s}", prev.recorded, prev.events))
				} else if !seen {
					canon[key] = now
				}
			}
			n, u := runTable(c, prep, build, check)
			runs += n
			if u != "" {
				return rs, runs, u
			}
		}
	}
	return
}

// prepareOracle: the table's oracle plus the hand-overs to the delegate - any call whose receiver is the delegate the
// factory holds is an event naming the objects handed over, by the contract the parameter is declared with.
type prepareOracle struct {
	*tbl
	events  *[]string
	wantErr *bool
}

func (o *prepareOracle) Call(ip *absint.Interp, site ssa.CallInstruction, args []absint.Value) (absint.Value, bool) {
	com := site.Common()
	cal := com.StaticCallee()
	if (cal != nil || com.IsInvoke()) && len(args) > 0 {
		if d, ok := args[0].(*absint.Tok); ok && d.Class == "delegate" {
			sig := com.Signature()
			for i := 1; i < len(args) && i-1 < sig.Params().Len(); i++ {
				pt := sig.Params().At(i - 1).Type()
				kind := ""
				et := pt
				if sl, isSl := pt.Underlying().(*types.Slice); isSl {
					et = sl.Elem()
				}
				if n := core.NamedOf(et); n != nil {
					switch n.Obj().Name() {
					case "ComponentPostProcessor":
						kind = "post-processor"
					case "DefinitionRegistryPostProcessor":
						kind = "registry-post-processor"
					case "ComponentFactoryPostProcessor":
						kind = "factory-post-processor"
					}
				}
				if kind == "" {
					continue
				}
				e := kind + ":"
				switch v := args[i].(type) {
				case *absint.Tok:
					e += v.ID + ";"
				case *absint.List:
					for _, x := range v.Elems {
						e += absint.Show(x) + ";"
					}
				}
				*o.events = append(*o.events, e)
			}
			res := sig.Results()
			var outs absint.Tuple
			for i := 0; i < res.Len(); i++ {
				if isErrorType(res.At(i).Type()) {
					if ip.Choose(2, "delegate stage outcome") == 1 {
						*o.wantErr = true
						outs = append(outs, o.tbl.newErr("delegate"))
					} else {
						outs = append(outs, absint.Nil{})
					}
				} else {
					outs = append(outs, ip.ZeroOf(res.At(i).Type()))
				}
			}
			switch len(outs) {
			case 0:
				return nil, true
			case 1:
				return outs[0], true
			}
			return outs, true
		}
	}
	return o.tbl.Call(ip, site, args)
}

// prepareRules files the preparation table under rule ids given by ruleOf.
func prepareRules(c *core.Ctx, r *core.Report, ruleOf func(row string) string) {
	fi := c.Iface("container", "Factory")
	any := ""
	for _, row := range []string{"recorded", "classified", "order-free", "error"} {
		if any == "" {
			any = ruleOf(row)
		}
	}
	if fi == nil || any == "" {
		return
	}
	n := 0
	for _, T := range c.Implementors(fi) {
		prep := c.DeclaredMethod(T, "PrepareComponents")
		if prep == nil {
			continue
		}
		n++
		key := "prepare-table:" + core.FnName(prep)
		type res struct {
			rs   rows
			runs int
			und  string
		}
		var x res
		if v, ok := c.Memo.Load(key); ok {
			x = v.(res)
		} else {
			x.rs, x.runs, x.und = prepareTable(c, prep)
			c.Memo.Store(key, x)
		}
		cons := "prepare-table@" + core.FnName(prep)
		if x.und != "" {
			r.Undecided(any, cons, c.FnPos(prep), "abstract interpretation left the model: "+x.und)
			continue
		}
		r.Count("prepare_table_runs", x.runs)
		x.rs.report(c, r, prep, ruleOf, cons, prepareRows)
	}
	r.Floor(any, "Factory implementations whose PrepareComponents is decided by the preparation table", n, 1)
}

// ifaceHasMethod: the interface type declares (or embeds) a method of that name.
func ifaceHasMethod(t types.Type, name string) bool {
	it, ok := t.Underlying().(*types.Interface)
	if !ok {
		return false
	}
	for i := 0; i < it.NumMethods(); i++ {
		if it.Method(i).Name() == name {
			return true
		}
	}
	return false
}
