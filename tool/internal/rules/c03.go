package rules

import (
	"fmt"
	"go/types"
	"strings"

	"golang.org/x/tools/go/ssa"

	"iocvet/internal/absint"
	"iocvet/internal/core"
)

func init() { register("C03", c03) }

func listLen(c *core.Ctx) int {
	if c.Tier == "thorough" {
		return 3
	}
	return 2
}

func c03(c *core.Ctx, r *core.Report) {
	r.Explanation = "C03 no stale version: three decision tables computed by abstract interpretation of the SSA bodies (symbolic tokens, every collaborator answered by an oracle that enumerates its possible outcomes; nothing executed): (a) the tail of the creator (EarlyExposer) on every combination of {exposure, population ok/err, initialization same/wrapped/err, proxy ok/err, early lookup nil/raw/proxy/err, dependents of the early reference and of the raw definition in creation / finished}: early reuse when nothing wrapped, error when a finished holder keeps a different version, proxy-or-early and never the raw definition when wrapped; (b) Property.Inject on every candidate list up to the bound: every injected version gets the holder recorded (dependOn); (c) the early-reference factory on every processor list up to the bound: SmartInstantiationAware processors chained once each, proxy iff substituted. Plus R8: Meta.Dependent is written only by dependOn and read in full by GetDependents; the processor-presence flag is only ever set. Decides that a mixed-version state cannot be returned silently by the container's own code; does not decide substitutions the container cannot see."
	r.Assumptions = []string{"post-processors substitute only through the hooks the container offers", "registry behaves as decided in C04", "list bounds: dependents <= 2, candidates/processors <= 2 (quick) / 3 (thorough)"}
	l := findLifecycle(c, r, "C03.R0")
	if l == nil {
		return
	}
	// (a) EarlyExposer table
	rs, runs, und := exposerTable(c, l)
	r.Count("exposer_table_runs", runs)
	cons := "exposer-table@" + core.FnName(l.exposer)
	if und != "" {
		r.Undecided("C03.R2", cons, c.FnPos(l.exposer), "abstract interpretation left the model: "+und)
	} else {
		rs.report(c, r, l.exposer, func(row string) string {
			switch row {
			case "wrapped-never-raw":
				return "C03.R2"
			case "early-reuse":
				return "C03.R3"
			case "stale-detected", "in-creation-holders-ok":
				return "C03.R4"
			case "lookup-after-init":
				return "C03.R5"
			case "failure-propagates", "plain":
				return "C03.R2"
			case "expose-iff-condition":
				// (the premise of the rows above: a holder that asks for a singleton in creation is answered through
				// the early-reference factory, which is there for every such singleton)
				return "C03.R2"
			}
			return ""
		}, cons, exposerRows)
	}
	smallModelCheck(c, r, "C03.R2", cons, l.exposer, 2)
	// (the table asks the registry whether the name is in creation only if the routine does: a condition put in
	// front of that question is decided on the condition's own structure)
	exposureStructure(c, r, l, "C03.R2", "C03.R2")
	// (b) Inject table: holder bookkeeping
	irs, iruns, iund := injectTable(c, listLen(c))
	r.Count("inject_table_runs", iruns)
	icons := "inject-table@(*component_definition.Property).Inject"
	if iund != "" {
		r.Undecided("C03.R1", icons, "", "abstract interpretation left the model: "+iund)
	} else {
		irs.report(c, r, c.Roles().PropertyInject, func(row string) string {
			if row == "single" || row == "slice" {
				return "C03.R1"
			}
			return ""
		}, icons, injectRows)
	}
	smallModelCheck(c, r, "C03.R1", icons, c.Roles().PropertyInject, int64(listLen(c)))
	// (c) early factory table
	ers, eruns, eund := earlyFactoryTable(c, l, listLen(c))
	r.Count("early_factory_table_runs", eruns)
	econs := "early-factory-table@" + core.FnName(l.exposer) + "$literal"
	if eund != "" {
		r.Undecided("C03.R6", econs, c.FnPos(l.exposer), "abstract interpretation left the model: "+eund)
	} else {
		ers.report(c, r, l.exposer, func(row string) string { return "C03.R6" }, econs, earlyFactoryRows)
	}
	for _, ci := range addFactorySites(c, l) {
		if lit := core.ClosureOf(ci.Common().Args[1]); lit != nil {
			smallModelCheck(c, r, "C03.R6", econs, lit, int64(listLen(c)))
		}
	}
	r.Exhaustive = und == "" && iund == "" && eund == ""

	// R7: the registry hands out one early reference per creation and keeps it visible to lookups that do not allow
	// creating one (the creator's version check relies on it)
	for _, T := range implementorsBehindFacades(c, "container", "SingletonComponentRegistry") {
		sub := core.NewReport("C04", c.Tier, 0)
		c04Explore(c, sub, T)
		for _, o := range sub.Obls {
			if o.Rule == "C04.A1" || o.Rule == "C04.A3" || o.Verdict == core.Undecided {
				o2 := *o
				o2.Rule = "C03.R7"
				o2.Construct = o.Rule + ":" + o.Construct
				r.Obls = append(r.Obls, &o2)
			}
		}
	}
	// R6b: presence flags of the delegate are only ever set to true, and only where a processor is registered
	c03Flags(c, r)

	// R8: Meta.Dependent
	c03Dependents(c, r)
}

// c03Flags: bool fields loaded as guards in the functions that dispatch to processors have no store other than
// the constant true, and every such store sits in a function that also appends to a processor list.
func c03Flags(c *core.Ctx, r *core.Report) {
	ro := c.Roles()
	seen := map[core.FieldRef]bool{}
	for _, fn := range c.Invokers(ro.SmartEarlyRef) {
		for _, b := range fn.Blocks {
			for _, in := range b.Instrs {
				fa, ok := in.(*ssa.FieldAddr)
				if !ok {
					continue
				}
				fr, ok := core.FieldOfAddr(fa)
				if !ok || seen[fr] || !isBoolType(fa) {
					continue
				}
				seen[fr] = true
				stores, _ := c.FieldAccesses(fr.Owner, fr.Name)
				cons := "flag:" + fr.Owner.Obj().Name() + "." + fr.Name
				if len(stores) == 0 {
					r.Fail("C03.R6", cons, c.Pos(fa.Pos()), "the guard flag is never set: early references would never be post-processed")
					continue
				}
				ok2 := true
				for _, st := range stores {
					k, isK := st.Store.Val.(*ssa.Const)
					if !isK || k.Value == nil || k.Value.String() != "true" {
						ok2 = false
					}
				}
				// registering a processor that can hand out early references sets it (whatever helpers the
				// registration is split into): interpret the registration method on such a processor
				if why := flagSetByRegistration(c, fr.Name); why != "" {
					r.Fail("C03.R6", cons+":registration", c.Pos(stores[0].Instr.Pos()), "registering a SmartInstantiationAware processor sets the presence flag: "+why)
					continue
				}
				r.Check(ok2, "C03.R6", cons, c.Pos(stores[0].Instr.Pos()), fmt.Sprintf("the presence flag is only ever set to true (%d store(s)), and registering a SmartInstantiationAware processor sets it (interpreted)", len(stores)))
			}
		}
	}
}

// flagSetByRegistration interprets the delegate's registration method on a processor that implements
// SmartInstantiationAwareComponentPostProcessor (and everything that interface embeds) and reports why the bool field
// `flag` of the delegate is not true afterwards ("" if it is).
func flagSetByRegistration(c *core.Ctx, flag string) string {
	bs, why := findBootstrap(c)
	if bs == nil {
		return why
	}
	smart := c.Named("container", "SmartInstantiationAwareBeanPostProcessor")
	if smart == nil {
		if m := c.Roles().SmartEarlyRef; m != nil {
			if recv := m.Type().(*types.Signature).Recv(); recv != nil {
				smart = core.NamedOf(recv.Type())
			}
		}
	}
	if smart == nil {
		return "the SmartInstantiationAware interface was not found"
	}
	t := newTbl(c)
	dlg := absint.NewTok("delegate", "delegate")
	zeroState(dlg, bs.recv, 0)
	p := absint.NewTok("P", "processor")
	t.typeTest = func(v absint.Value, T types.Type) (bool, bool) {
		if v != absint.Value(p) {
			return false, false
		}
		if it, ok := T.Underlying().(*types.Interface); ok {
			return types.Implements(smart, it), true
		}
		return false, true
	}
	ip := absint.New(t)
	ip.IsLog, ip.InScope = core.IsLogCall, c.InScope
	// the delegate as its constructor makes it (helper objects it owns included)
	if ctor := constructorOf(c, bs.recv); ctor != nil {
		if out := ip.Run(ctor, nil, nil); out.Undecided == nil && out.Panic == nil && len(out.Ret) == 1 {
			if made, ok := out.Ret[0].(*absint.Tok); ok {
				for k, v := range made.Fields {
					dlg.Fields[k] = v
				}
			}
		}
	}
	if idFn := c.Func("util/reflectx", "Id"); idFn != nil {
		t.callee[idFn] = func(ip *absint.Interp, a []absint.Value) absint.Value { return absint.Str("type-of:P") }
	}
	args := []absint.Value{dlg, p}
	for k := 2; k < len(bs.register.Params); k++ {
		args = append(args, absint.Str("name"))
	}
	out := ip.Run(bs.register, args, nil)
	switch {
	case out.Undecided != nil:
		return "abstract interpretation left the model: " + out.Undecided.Msg
	case out.Panic != nil:
		return "registration panics: " + out.Panic.Msg
	case stateGet(dlg, flag) != absint.Value(absint.Bool(true)):
		return fmt.Sprintf("after %s(P) the field %s is %s", core.FnName(bs.register), flag, absint.Show(stateGet(dlg, flag)))
	}
	return ""
}

func isBoolType(fa *ssa.FieldAddr) bool {
	st := core.StructOf(fa.X.Type())
	if st == nil {
		return false
	}
	return st.Field(fa.Field).Type().String() == "bool"
}

func c03Dependents(c *core.Ctx, r *core.Report) {
	meta := c.Named("component_definition", "Meta")
	if meta == nil {
		r.Undecided("C03.R8", "role:Meta", "", "component_definition.Meta not found")
		return
	}
	getDeps := c.DeclaredMethod(meta, "GetDependents")
	stores, others := c.FieldAccesses(meta, "Dependent")
	if !r.Floor("C03.R8", "writers of Meta.Dependent", len(stores), 1) {
		return
	}
	// the recorder: located by what it does, whatever it is called
	dependOn := dependentsRecorder(c)
	for _, st := range stores {
		cons := "Dependent-writer@" + core.FnName(st.Fn)
		if dependOn != nil && st.Fn == dependOn {
			// append(load same field, dependent param)
			call, ok := st.Store.Val.(*ssa.Call)
			okApp := false
			if ok {
				if bi, isB := call.Common().Value.(*ssa.Builtin); isB && bi.Name() == "append" {
					if _, isLoad := core.IsFieldLoad(core.Norm(call.Common().Args[0]), meta, "Dependent"); isLoad {
						for _, o := range core.Origins(call.Common().Args[1], nil) {
							if p, isP := o.(*ssa.Parameter); isP && p.Parent() == dependOn && p != core.Norm(st.Addr.X) {
								okApp = true
							}
						}
					}
				}
			}
			r.Check(okApp, "C03.R8", cons, c.Pos(st.Instr.Pos()), "the recorder appends the holder it was given to the version's dependents")
			continue
		}
		// composite-literal initialisation of a fresh Meta is fine (copying the list into a proxy shell)
		if _, isAlloc := core.Norm(st.Addr.X).(*ssa.Alloc); isAlloc {
			continue
		}
		// ... also when the shell comes from a constructor (every return of which hands out what it has just made)
		if freshlyMade(c, st.Addr.X, 0) {
			continue
		}
		r.Fail("C03.R8", cons, c.Pos(st.Instr.Pos()), "Meta.Dependent is written outside dependOn: the stale-version check could miss a holder")
	}
	// by interpretation, whatever the recorder and the reader are split into: a holder is recorded at its first sight
	// and only then, and the reader lists every recorded holder
	tableDecided := false
	if dependOn != nil && getDeps != nil {
		if got, und := dependentsTable(c, dependOn, getDeps); und == "" {
			tableDecided = true
			want := `"name:h1" "name:h2" "name:h3"`
			r.Check(got == want, "C03.R8", "dependOn-conditions", c.FnPos(dependOn), "recording h1, h1, h2, h3, h2 and reading the dependents back gives each holder once, in first-sight order (got ["+got+"])")
			r.Check(got == want, "C03.R8", "GetDependents-reads-all", c.FnPos(getDeps), "GetDependents lists every recorded holder (got ["+got+"])")
		}
	}
	if tableDecided {
		return
	}
	// dependOn reaches every first sight: the append is conditional only on a failed LoadOrStore ("loaded" false)
	if dependOn != nil {
		for _, st := range stores {
			if st.Fn != dependOn {
				continue
			}
			deps := c.ControlDeps(st.Instr.Block())
			okFirst := len(deps) == 0
			if len(deps) == 1 {
				// the "not seen before" edge of a LoadOrStore-style test
				cond, neg := deps[0].If.Cond, false
				if u, isU := cond.(*ssa.UnOp); isU && u.Op.String() == "!" {
					cond, neg = u.X, true
				}
				if ex, isEx := cond.(*ssa.Extract); isEx && ex.Index == 1 {
					if call, isCall := ex.Tuple.(*ssa.Call); isCall && core.Callee(call.Common()) != nil && core.Callee(call.Common()).Name() == "LoadOrStore" {
						okFirst = deps[0].Branch == neg // loaded == false
					}
				}
			}
			r.Check(okFirst, "C03.R8", "dependOn-conditions", c.Pos(st.Instr.Pos()), "recording a holder is conditional on at most the first-sight test (LoadOrStore reported not loaded)")
		}
	}
	readAll := false
	for _, o := range others {
		if o.Fn == getDeps {
			readAll = true
		}
	}
	if getDeps != nil {
		rl := core.RangeLoops(getDeps)
		full := false
		for _, l := range rl {
			if _, ok := core.IsFieldLoad(core.Norm(l.Slice), meta, "Dependent"); ok {
				// no early exit
				exits := 0
				for b := range l.Loop.Blocks {
					for _, s := range b.Succs {
						if !l.Loop.Blocks[s] && b != l.Header {
							exits++
						}
					}
				}
				ifs := 0
				for b := range l.Loop.Blocks {
					if b != l.Header && len(b.Succs) == 2 {
						ifs++
					}
				}
				full = exits == 0 && ifs == 0
			}
		}
		r.Check(readAll && full, "C03.R8", "GetDependents-reads-all", c.FnPos(getDeps), "GetDependents ranges over the whole dependents list without an early exit")
	} else {
		r.Undecided("C03.R8", "role:GetDependents", "", "Meta.GetDependents not found")
	}
}

// implementsIface: every value of interface `sub` passes a type test for T (T is `sub` or one of its embedded interfaces).
func implementsIface(sub *types.Named, T types.Type) bool {
	ti, ok := T.Underlying().(*types.Interface)
	if !ok {
		return false
	}
	return types.Implements(sub, ti)
}

// dependentsTable interprets the recorder on the holders h1, h1, h2, h3, h2 for one definition and then the reader;
// the answer is the reader's result as text.
func dependentsTable(c *core.Ctx, dependOn, getDeps *ssa.Function) (string, string) {
	meta := c.Named("component_definition", "Meta")
	idM, nameM := c.DeclaredMethod(meta, "ID"), c.DeclaredMethod(meta, "Name")
	if idM == nil || nameM == nil {
		return "", "Meta.ID / Meta.Name not found"
	}
	t := newTbl(c)
	label := func(prefix string) func(ip *absint.Interp, a []absint.Value) absint.Value {
		return func(ip *absint.Interp, a []absint.Value) absint.Value {
			if tok, ok := a[0].(*absint.Tok); ok {
				return absint.Str(prefix + tok.ID)
			}
			panic(&absint.Undecided{Msg: "ID / Name of something that is not a definition of the table"})
		}
	}
	t.callee[idM], t.callee[nameM] = label("id:"), label("name:")
	ip := absint.New(t)
	ip.IsLog, ip.InScope = core.IsLogCall, c.InScope
	m := absint.NewTok("meta", "meta")
	m.Fields["Dependent"] = &absint.List{IsNil: true}
	hs := map[string]*absint.Tok{"h1": absint.NewTok("h1", "meta"), "h2": absint.NewTok("h2", "meta"), "h3": absint.NewTok("h3", "meta")}
	for _, h := range []string{"h1", "h1", "h2", "h3", "h2"} {
		args := layoutArgsOrdered(dependOn, meta, m, hs[h])
		if args == nil {
			return "", "the recorder does not take two definitions"
		}
		if o := ip.Run(dependOn, args, nil); o.Undecided != nil {
			return "", o.Undecided.Msg
		} else if o.Panic != nil {
			return "PANIC " + o.Panic.Msg, ""
		}
	}
	o := ip.Run(getDeps, []absint.Value{m}, nil)
	if o.Undecided != nil {
		return "", o.Undecided.Msg
	}
	if o.Panic != nil || len(o.Ret) != 1 {
		return "PANIC/shape " + showOutcome(o), ""
	}
	l, ok := o.Ret[0].(*absint.List)
	if !ok {
		return absint.Show(o.Ret[0]), ""
	}
	var parts []string
	for _, e := range l.Elems {
		parts = append(parts, absint.Show(e))
	}
	return strings.Join(parts, " "), ""
}

// layoutArgsOrdered: the two definitions along fn's parameters of type *T, in order (receiver first); nil if fn does not
// take exactly two.
func layoutArgsOrdered(fn *ssa.Function, T *types.Named, first, second absint.Value) []absint.Value {
	var args []absint.Value
	n := 0
	for _, p := range fn.Params {
		if core.NamedOf(p.Type()) == T {
			n++
			if n == 1 {
				args = append(args, first)
			} else {
				args = append(args, second)
			}
		} else {
			args = append(args, absint.NewTok("arg:"+p.Name(), "arg"))
		}
	}
	if n != 2 {
		return nil
	}
	return args
}

// freshlyMade: v is an allocation of the function it is in, or the result of an in-scope function every return of
// which hands out such a value.
func freshlyMade(c *core.Ctx, v ssa.Value, depth int) bool {
	if depth > 3 {
		return false
	}
	switch x := core.Norm(v).(type) {
	case *ssa.Alloc:
		return true
	case *ssa.Call:
		cal := x.Common().StaticCallee()
		if cal == nil || !c.InScope(cal) || cal.Blocks == nil || cal.Signature.Results().Len() != 1 {
			return false
		}
		n := 0
		for _, b := range cal.Blocks {
			for _, in := range b.Instrs {
				if ret, ok := in.(*ssa.Return); ok {
					n++
					if !freshlyMade(c, ret.Results[0], depth+1) {
						return false
					}
				}
			}
		}
		return n > 0
	}
	return false
}
