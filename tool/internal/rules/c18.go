package rules

import (
	"fmt"
	"go/types"

	"golang.org/x/tools/go/ssa"

	"iocvet/internal/absint"
	"iocvet/internal/core"
)

func init() { register("C18", c18) }

// elemFieldLoad: v is a load of field `name` of the current element of range loop rl (or of any *Property when rl==nil).
func propFieldLoad(c *core.Ctx, v ssa.Value, name string) bool {
	_, ok := core.IsFieldLoad(core.Norm(v), c.Named("component_definition", "Property"), name)
	return ok
}

// storesToPropField lists stores to Property.<name> inside fns.
func storesToPropField(c *core.Ctx, fns []*ssa.Function, name string) []*ssa.Store {
	prop := c.Named("component_definition", "Property")
	var out []*ssa.Store
	for _, f := range fns {
		for _, b := range f.Blocks {
			for _, in := range b.Instrs {
				if st, ok := in.(*ssa.Store); ok {
					if fa, ok := st.Addr.(*ssa.FieldAddr); ok {
						if fr, ok := core.FieldOfAddr(fa); ok && fr.Owner == prop && fr.Name == name {
							out = append(out, st)
						}
					}
				}
			}
		}
	}
	return out
}

// checkReplaceStage decides, for a placeholder/expression stage, that it reads `readField`, handles the helper's
// error and commits the substituted text to TagVal (shared by C16.R4 and C18.R2).
func checkReplaceStage(c *core.Ctx, r *core.Report, rule string, p *procInfo, readField string) (closure *ssa.Function) {
	elReplace := c.IfaceMethod("util/el", "Helper", "ReplaceAllContent")
	elMatch := c.IfaceMethod("util/el", "Helper", "MatchString")
	cons := p.Name()
	var rep *ssa.Call
	for _, ci := range core.Calls(p.Props) {
		if core.IsInvoke(ci.Common(), elReplace) {
			if cl, ok := ci.(*ssa.Call); ok {
				rep = cl
			}
		}
	}
	if rep == nil {
		// the substitution lives in a helper of the method: reading, error handling and commit are decided by the
		// text-stage table alone (rows substitute / skip / error, reported under the same rule); only locate the callback
		for _, f := range p.Body {
			for _, ci := range core.Calls(f) {
				if core.IsInvoke(ci.Common(), elReplace) {
					return core.ClosureOf(ci.Common().Args[1])
				}
			}
		}
		r.Undecided(rule, cons+":replace", c.FnPos(p.Props), "no ReplaceAllContent call found")
		return nil
	}
	r.Check(propFieldLoad(c, rep.Common().Args[0], readField), rule, cons+":reads-"+readField, c.Pos(rep.Pos()),
		"the stage substitutes in Property."+readField)
	for _, ci := range core.Calls(p.Props) {
		if core.IsInvoke(ci.Common(), elMatch) {
			r.Check(propFieldLoad(c, ci.Common().Args[0], readField), rule, cons+":matches-"+readField, c.Pos(ci.Pos()),
				"the stage's applicability test looks at the same text it substitutes in (Property."+readField+")")
		}
	}
	u := core.ClassifyErr(rep)
	r.Check(u.Class == core.ErrTested || u.Class == core.ErrReturned, rule, cons+":error", c.Pos(rep.Pos()),
		"an error from the substitution callback becomes a non-nil return ("+string(u.Class)+" "+u.Detail+")")
	// commit
	res0 := core.ResultValue(rep, 0)
	committed := false
	for _, st := range storesToPropField(c, []*ssa.Function{p.Props}, "TagVal") {
		if core.Norm(st.Val) == res0 && core.OnNilErrEdge(rep, st) {
			committed = true
		} else {
			r.Fail(rule, cons+":commit", c.Pos(st.Pos()), "TagVal is assigned something other than the substituted text")
		}
	}
	r.Check(committed, rule, cons+":commit", c.Pos(rep.Pos()), "the substituted text is committed to Property.TagVal (what later stages read) on the success edge")
	return core.ClosureOf(rep.Common().Args[1])
}

func c18(c *core.Ctx, r *core.Report) {
	r.Explanation = "C18 stage order: (R1) for the built-in processors registered by App, located by role (what their PostProcessProperties calls), the (contract class, constant Order()) keys satisfy placeholder < expression < {value, prefix} < validate and dependency-aware < further-matching under the C12 contract; (R2) the expression stage reads the substituted TagVal, its callback is Compile -> Run -> FormatAny with every error propagated and the result committed to TagVal; (R3) validation is gated by the validate argument and the configuration property type, validates the bound field value (Struct for struct kinds, Var(value, join(args, \",\")) otherwise), turns every validator error into a non-nil return and has no other error return. Decides stage order exactly; expr / validator semantics are trusted."
	r.Assumptions = []string{"expr and validator libraries are correct", "ordering contract holds (C12)"}
	ps := builtinProcessors(c)
	r.Count("processors", len(ps))
	if !r.Floor("C18.R1", "built-in property post-processors", len(ps), 8) {
		return
	}
	role := func(name string) []*procInfo {
		got := withRole(ps, name, true)
		r.Floor("C18.R1", "registered processor with role "+name, len(got), 1)
		for _, p := range got {
			if p.Class != "U" && !p.OrderConst {
				r.Undecided("C18.R1", "order-const:"+p.Name(), c.Pos(p.T.Obj().Pos()), "Order() does not return a single integer constant")
			}
		}
		return got
	}
	quote, expr, value, prefix, validate, dep, further := role("quote"), role("expr"), role("value"), role("prefix"), role("validate"), role("dep"), role("further")
	before := func(a, b []*procInfo, what string) {
		for _, x := range a {
			for _, y := range b {
				cons := x.Name() + "<" + y.Name()
				r.Check(lessKey(x.key(), y.key()), "C18.R1", cons, c.Pos(x.T.Obj().Pos()),
					fmt.Sprintf("%s: (%s,%d) strictly precedes (%s,%d) under the ordering contract", what, x.Class, x.Order, y.Class, y.Order))
			}
		}
	}
	before(quote, expr, "placeholders are substituted before expressions run")
	before(expr, value, "expressions run before the value is bound")
	before(expr, prefix, "expressions run before prefix binding")
	before(quote, value, "placeholders are substituted before the value is bound")
	before(quote, prefix, "placeholders are substituted before prefix binding")
	before(value, validate, "validation runs after value binding")
	before(prefix, validate, "validation runs after prefix binding")
	before(dep, further, "candidates are collected before they are narrowed")

	// ---- R2 expression stage
	for _, p := range expr {
		cl := checkReplaceStage(c, r, "C18.R2", p, "TagVal")
		if cl == nil {
			r.Undecided("C18.R2", p.Name()+":callback", c.FnPos(p.Props), "expression callback is not a function literal")
			continue
		}
		cons := p.Name() + ":callback-table"
		rs, n, und := exprCallbackTable(c, p, cl)
		r.Count("expression_callback_table_runs", n)
		if und != "" {
			r.Undecided("C18.R2", cons, c.FnPos(cl), "abstract interpretation left the model: "+und)
			continue
		}
		rs.report(c, r, resolveWrapper(cl), func(string) string { return "C18.R2" }, cons, exprCallbackRows)
	}

	// ---- R4: the text the expression stage works on has every placeholder resolved, nested ones included
	replaceAllTable(c, r, "C18.R4")
	// ---- R3 validation
	for _, p := range validate {
		c18Validate(c, r, p)
	}
}

var exprCallbackRows = map[string]string{
	"chain":  "the callback compiles exactly its argument (the text with placeholders already substituted), runs exactly the compiled program and formats exactly the run's output - each step once and only after the previous one succeeded",
	"error":  "a failing compile / run / format makes the callback fail and nothing runs after it",
	"result": "on success the callback yields the formatted output and a nil error",
}

// exprCallbackTable interprets the expression stage's substitution callback (a literal or a method value, the
// expression engine possibly behind an internal seam) with the three library steps as oracles.
func exprCallbackTable(c *core.Ctx, p *procInfo, cb *ssa.Function) (rs rows, runs int, undecided string) {
	rs = rows{}
	var events []string
	var failAt string
	build := func() (absint.Oracle, []absint.Value, []absint.Value) {
		events, failAt = nil, ""
		t := newTbl(c)
		step := func(name string, arg func(a []absint.Value) absint.Value, okVal func(in absint.Value) absint.Value, zero absint.Value) func(ip *absint.Interp, a []absint.Value) absint.Value {
			return func(ip *absint.Interp, a []absint.Value) absint.Value {
				in := arg(a)
				events = append(events, name+"("+absint.Show(in)+")")
				if failAt == "" && ip.Choose(2, name+" outcome") == 1 {
					failAt = name
					return absint.Tuple{zero, t.newErr(name)}
				}
				return absint.Tuple{okVal(in), absint.Nil{}}
			}
		}
		first := func(a []absint.Value) absint.Value { return a[0] }
		t.ext["github.com/expr-lang/expr.Compile"] = step("compile", first, func(in absint.Value) absint.Value { return absint.NewTok("program("+absint.Show(in)+")", "program") }, absint.Nil{})
		t.ext["github.com/expr-lang/expr.Run"] = step("run", first, func(in absint.Value) absint.Value { return absint.NewTok("output("+absint.Show(in)+")", "output") }, absint.Nil{})
		t.ext["github.com/go-kid/strconv2.FormatAny"] = step("format", first, func(in absint.Value) absint.Value { return absint.NewTok("text("+absint.Show(in)+")", "text") }, absint.Str(""))
		proc := absint.NewTok("proc", "processor")
		_, recv, bind := callbackFrame(cb, func(ty types.Type) absint.Value {
			et := ty
			if pt, ok := et.Underlying().(*types.Pointer); ok {
				et = pt.Elem()
			}
			if core.NamedOf(et) == p.T {
				return proc
			}
			return nil
		})
		return t, append(recv, absint.Str("1+1")), bind
	}
	check := func(ip *absint.Interp, out absint.Outcome) {
		w := fmt.Sprintf("events=%v failing step=%q => %s", events, failAt, showOutcome(out))
		if out.Panic != nil {
			rs.fail("error", "PANIC "+w)
			return
		}
		want := []string{`compile("1+1")`, `run(program("1+1"))`, `format(output(program("1+1")))`}
		switch failAt {
		case "compile":
			want = want[:1]
		case "run":
			want = want[:2]
		}
		rs.hit("chain")
		if fmt.Sprint(events) != fmt.Sprint(want) {
			rs.fail("chain", w+fmt.Sprintf(" expected %v", want))
		}
		isErr := len(out.Ret) == 2 && isErrTok(out.Ret[1])
		if failAt != "" {
			rs.hit("error")
			if !isErr {
				rs.fail("error", w)
			}
			return
		}
		rs.hit("result")
		if isErr || len(out.Ret) != 2 || absint.Show(out.Ret[0]) != `text(output(program("1+1")))` {
			rs.fail("result", w)
		}
	}
	runs, undecided = runTable(c, resolveWrapper(cb), build, check)
	return
}

func c18Validate(c *core.Ctx, r *core.Report, p *procInfo) {
	cons := p.Name()
	rs, runs, und := validateTable(c, p)
	r.Count("validate_table_runs", runs)
	if und != "" {
		r.Undecided("C18.R3", cons+":validate-table", c.FnPos(p.Props), "abstract interpretation left the model: "+und)
		return
	}
	smallModelCheck(c, r, "C18.R3", cons+":validate-table", p.Props, 2)
	rs.report(c, r, p.Props, func(string) string { return "C18.R3" }, cons+":validate-table", validateRows)
}

// baseFieldLoad: load of an embedded Base/Field field (prop.Field.Base.Value chain).
func baseFieldLoad(c *core.Ctx, v ssa.Value, name string) bool {
	_, ok := core.IsFieldLoad(core.Norm(v), c.Named("component_definition", "Base"), name)
	return ok
}
