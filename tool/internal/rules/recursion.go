package rules

import (
	"go/token"
	"go/types"
	"sort"
	"strings"

	"golang.org/x/tools/go/ssa"

	"iocvet/internal/core"
)

// recursionRules: every recursion in the packages start-up runs through (a cycle of static calls, function values made
// and called, and internal seams) is one whose depth is bounded by something finite that the analysis can name: it
// passes through the cache accessor (a name enters creation once: C02.R3/R4), or it descends a structure - every
// recursive call hands on a value obtained from the corresponding parameter by taking a part of it (an element, a
// field, the rest of a slice, the inner type / value of a reflect object, a fresh holder built around such a part).
// Any other recursion is reported: its depth (and with it the running time of start-up) depends on the input in a way
// that is not decided here.
func recursionRules(c *core.Ctx, r *core.Report, rule string) {
	ro := c.Roles()
	pkgs := []string{"container/factory", "container/support", "component_definition", "container/processors", "container", "app", "configure"}
	inPkgs := func(fn *ssa.Function) bool {
		p := core.PkgOf(fn)
		if p == nil {
			return false
		}
		for _, rel := range pkgs {
			if p.Pkg.Path() == core.Mod+"/"+rel {
				return true
			}
		}
		return false
	}
	// call edges
	edges := map[*ssa.Function][]*ssa.Function{}
	var nodes []*ssa.Function
	for _, fn := range c.Scope {
		if !inPkgs(fn) || fn.Blocks == nil {
			continue
		}
		nodes = append(nodes, fn)
		add := func(g *ssa.Function) {
			g = resolveWrapper(g)
			if g != nil && g.Blocks != nil && inPkgs(g) {
				edges[fn] = append(edges[fn], g)
			}
		}
		for _, b := range fn.Blocks {
			for _, in := range b.Instrs {
				if ci, ok := in.(ssa.CallInstruction); ok {
					com := ci.Common()
					if cal := com.StaticCallee(); cal != nil {
						if o := cal.Origin(); o != nil && o.Blocks != nil {
							cal = o
						}
						add(cal)
					} else if g := core.Seam(com); g != nil {
						add(g)
					} else {
						for _, g := range seamByProvenance(c, com) {
							add(g)
						}
						// a function variable (`var walk func(..)` assigned a literal that calls walk): the literals
						// stored into the cell the call loads from
						for _, g := range closuresInCell(com.Value, fn) {
							add(g)
						}
					}
				}
				// function values made here may be called by whoever receives them
				var ops []*ssa.Value
				for _, op := range in.Operands(ops) {
					if *op == nil {
						continue
					}
					switch v := (*op).(type) {
					case *ssa.Function:
						if ci, isCall := in.(ssa.CallInstruction); isCall && ci.Common().Value == ssa.Value(v) {
							continue
						}
						add(v)
					case *ssa.MakeClosure:
						if g, ok := v.Fn.(*ssa.Function); ok {
							add(g)
						}
					}
				}
				if mc, ok := in.(*ssa.MakeClosure); ok {
					if g, ok := mc.Fn.(*ssa.Function); ok {
						add(g)
					}
				}
			}
		}
	}
	// Tarjan
	index, low := map[*ssa.Function]int{}, map[*ssa.Function]int{}
	onStack := map[*ssa.Function]bool{}
	var stack []*ssa.Function
	var sccs [][]*ssa.Function
	n := 0
	var strong func(v *ssa.Function)
	strong = func(v *ssa.Function) {
		n++
		index[v], low[v] = n, n
		stack = append(stack, v)
		onStack[v] = true
		for _, w := range edges[v] {
			if index[w] == 0 {
				strong(w)
				if low[w] < low[v] {
					low[v] = low[w]
				}
			} else if onStack[w] && index[w] < low[v] {
				low[v] = index[w]
			}
		}
		if low[v] == index[v] {
			var comp []*ssa.Function
			for {
				w := stack[len(stack)-1]
				stack = stack[:len(stack)-1]
				onStack[w] = false
				comp = append(comp, w)
				if w == v {
					break
				}
			}
			self := false
			for _, w := range edges[v] {
				self = self || w == v
			}
			if len(comp) > 1 || self {
				sccs = append(sccs, comp)
			}
		}
	}
	sort.Slice(nodes, func(i, j int) bool { return nodes[i].String() < nodes[j].String() })
	for _, v := range nodes {
		if index[v] == 0 {
			strong(v)
		}
	}
	accessors := map[*ssa.Function]bool{}
	for _, a := range ro.CacheAccessors() {
		accessors[a] = true
	}
	count := 0
	for _, comp := range sccs {
		sort.Slice(comp, func(i, j int) bool { return comp[i].String() < comp[j].String() })
		var names []string
		in := map[*ssa.Function]bool{}
		for _, f := range comp {
			names = append(names, core.FnName(f))
			in[f] = true
		}
		count++
		cons := "recursion:" + names[0]
		if len(names) > 1 {
			cons += "+" + strings.Join(names[1:], "+")
		}
		if len(cons) > 180 {
			cons = cons[:180] + "..."
		}
		viaAccessor := false
		for _, f := range comp {
			viaAccessor = viaAccessor || accessors[f]
		}
		if viaAccessor {
			r.Hold(rule, cons, c.FnPos(comp[0]), "the recursion passes through the cache accessor: a name enters creation at most once per start (C02.R3, C02.R4)")
			continue
		}
		why := descendsStructure(c, comp, in)
		r.Check(why == "", rule, cons, c.FnPos(comp[0]), "every recursive call hands on a part of what the function was given (the depth is bounded by the finite structure it descends) "+why)
	}
	r.Count("recursions_in_startup_packages", count)
}

// descendsStructure: every cycle of calls among the members of the recursion contains a call in which some argument is
// a proper part of a parameter (or captured variable) of the calling function: the calls that hand on nothing of that
// kind do not form a cycle by themselves.  "" when that holds.
func descendsStructure(c *core.Ctx, comp []*ssa.Function, in map[*ssa.Function]bool) string {
	flat := map[*ssa.Function][]*ssa.Function{} // calls that do not descend, and literals made (they may be called back)
	where := map[[2]*ssa.Function]string{}
	for _, f := range comp {
		for _, b := range f.Blocks {
			for _, ins := range b.Instrs {
				if mc, ok := ins.(*ssa.MakeClosure); ok {
					if g, ok := mc.Fn.(*ssa.Function); ok && in[g] {
						flat[f] = append(flat[f], g)
					}
				}
				ci, ok := ins.(ssa.CallInstruction)
				if !ok {
					continue
				}
				com := ci.Common()
				var targets []*ssa.Function
				if cal := com.StaticCallee(); cal != nil {
					if o := cal.Origin(); o != nil && o.Blocks != nil {
						cal = o
					}
					targets = append(targets, cal)
				} else if g := core.Seam(com); g != nil {
					targets = append(targets, g)
				} else {
					targets = append(targets, seamByProvenance(c, com)...)
					targets = append(targets, closuresInCell(com.Value, f)...)
				}
				okArg := false
				for _, a := range com.Args {
					if partOfParam(a, f, 0) {
						okArg = true
					}
				}
				for _, g := range targets {
					g = resolveWrapper(g)
					if in[g] && !okArg {
						flat[f] = append(flat[f], g)
						where[[2]*ssa.Function{f, g}] = f.Prog.Fset.Position(ci.Pos()).String()
					}
				}
				// a member handed over as a function value (a method value, a named function) may be called back
				for _, a := range com.Args {
					if fv, isFn := a.(*ssa.Function); isFn && in[resolveWrapper(fv)] {
						flat[f] = append(flat[f], resolveWrapper(fv))
					}
				}
			}
		}
	}
	// a cycle among the flat edges?
	state := map[*ssa.Function]int{}
	var bad string
	var visit func(f *ssa.Function) bool
	visit = func(f *ssa.Function) bool {
		state[f] = 1
		for _, g := range flat[f] {
			if state[g] == 1 {
				bad = where[[2]*ssa.Function{f, g}]
				return true
			}
			if state[g] == 0 && visit(g) {
				if bad == "" {
					bad = where[[2]*ssa.Function{f, g}]
				}
				return true
			}
		}
		state[f] = 2
		return false
	}
	for _, f := range comp {
		if state[f] == 0 && visit(f) {
			return "(a cycle of calls that hand on nothing that is a part of a parameter, e.g. the call at " + bad + ")"
		}
	}
	return ""
}

// partOfParam: v is obtained from a parameter (or captured variable) of fn by at least one step that takes a part:
// slicing off a prefix, indexing, selecting a field, Elem()/Field(i)/Index(i) of a reflect object, or constructing a
// fresh object around such a part.
func partOfParam(v ssa.Value, fn *ssa.Function, depth int) bool {
	var walk func(v ssa.Value, took bool, d int) bool
	walk = func(v ssa.Value, took bool, d int) bool {
		if d > 24 || v == nil {
			return false
		}
		switch x := v.(type) {
		case *ssa.Parameter, *ssa.FreeVar:
			return took
		case *ssa.Slice:
			if x.Low != nil {
				if k, ok := core.ConstInt(x.Low); !ok || k > 0 {
					return walk(x.X, true, d+1)
				}
			}
			return walk(x.X, took, d+1)
		case *ssa.UnOp:
			return walk(x.X, took, d+1)
		case *ssa.IndexAddr:
			return walk(x.X, true, d+1)
		case *ssa.Index:
			return walk(x.X, true, d+1)
		case *ssa.FieldAddr:
			return walk(x.X, true, d+1)
		case *ssa.Field:
			return walk(x.X, true, d+1)
		case *ssa.Extract:
			return walk(x.Tuple, took, d+1)
		case *ssa.MakeInterface:
			return walk(x.X, took, d+1)
		case *ssa.ChangeType:
			return walk(x.X, took, d+1)
		case *ssa.Phi:
			for _, e := range x.Edges {
				if walk(e, took, d+1) {
					return true
				}
			}
			return false
		case *ssa.Alloc:
			// a fresh object: what is stored into its fields
			for _, rf := range *x.Referrers() {
				if fa, ok := rf.(*ssa.FieldAddr); ok {
					for _, r2 := range *fa.Referrers() {
						if st, ok := r2.(*ssa.Store); ok && st.Addr == ssa.Value(fa) && walk(st.Val, took, d+1) {
							return true
						}
					}
				}
				if st, ok := rf.(*ssa.Store); ok && st.Addr == ssa.Value(x) && walk(st.Val, took, d+1) {
					return true
				}
			}
			return false
		case *ssa.Call:
			com := x.Common()
			name := ""
			if com.IsInvoke() {
				name = com.Method.Name()
			} else if cal := com.StaticCallee(); cal != nil {
				name = cal.Name()
			}
			part := false
			switch name {
			case "Elem", "Field", "Index", "FieldByName", "Key", "MapIndex":
				part = true
			}
			// a constructor or accessor: built from / reads its arguments
			args := com.Args
			if com.IsInvoke() {
				args = append([]ssa.Value{com.Value}, args...)
			}
			for _, a := range args {
				if walk(a, took || part, d+1) {
					return true
				}
			}
			return false
		}
		return false
	}
	return walk(v, false, 0)
}

// closuresInCell: v loads a local function variable (possibly captured): the literals assigned to that variable.
func closuresInCell(v ssa.Value, fn *ssa.Function) []*ssa.Function {
	ld, ok := v.(*ssa.UnOp)
	if !ok {
		return nil
	}
	var cell *ssa.Alloc
	switch x := ld.X.(type) {
	case *ssa.Alloc:
		cell = x
	case *ssa.FreeVar:
		// the variable of the enclosing function this literal captured
		par := fn.Parent()
		idx := -1
		for i, fv := range fn.FreeVars {
			if fv == x {
				idx = i
			}
		}
		for d := 0; par != nil && idx >= 0 && d < 3 && cell == nil; d++ {
			for _, b := range par.Blocks {
				for _, in := range b.Instrs {
					if mc, isMC := in.(*ssa.MakeClosure); isMC && mc.Fn == ssa.Value(fn) && idx < len(mc.Bindings) {
						switch bnd := mc.Bindings[idx].(type) {
						case *ssa.Alloc:
							cell = bnd
						case *ssa.FreeVar:
							// captured from further out
							fn2 := par
							idx = -1
							for i, fv := range fn2.FreeVars {
								if fv == bnd {
									idx = i
								}
							}
							fn = fn2
						}
					}
				}
			}
			if cell == nil {
				par = par.Parent()
			}
		}
	}
	if cell == nil {
		return nil
	}
	var out []*ssa.Function
	for _, rf := range *cell.Referrers() {
		if st, isSt := rf.(*ssa.Store); isSt && st.Addr == ssa.Value(cell) {
			if mc, isMC := st.Val.(*ssa.MakeClosure); isMC {
				if g, ok := mc.Fn.(*ssa.Function); ok {
					out = append(out, g)
				}
			}
			if g, ok := st.Val.(*ssa.Function); ok {
				out = append(out, g)
			}
		}
	}
	return out
}

// seamByProvenance: the implementations an invoke through an unexported interface can reach.  When the interface value
// is read from a field, and everything the module ever stores into that field is a value of a concrete type boxed on
// the spot (directly, or handed in through the parameters of unexported constructors), only those types' methods are
// reached; otherwise every implementation is.
func seamByProvenance(c *core.Ctx, com *ssa.CallCommon) []*ssa.Function {
	all := core.SeamAll(com)
	if len(all) < 2 || !com.IsInvoke() {
		return all
	}
	ld, ok := core.Norm(com.Value).(*ssa.UnOp)
	if !ok || ld.Op != token.MUL {
		return all
	}
	fa, ok := ld.X.(*ssa.FieldAddr)
	if !ok {
		return all
	}
	fr, ok := core.FieldOfAddr(fa)
	if !ok {
		return all
	}
	stores, _ := c.FieldAccesses(fr.Owner, fr.Name)
	if len(stores) == 0 {
		return all
	}
	typesSeen := map[string]bool{}
	for _, st := range stores {
		for _, o := range originsThroughParams(c, st.Store.Val, 0) {
			if core.IsNilConst(o) {
				continue
			}
			ty := o.Type()
			if mi, isMI := o.(*ssa.MakeInterface); isMI {
				ty = mi.X.Type()
			}
			if types.IsInterface(ty) {
				return all // an interface value of unknown content
			}
			n := core.NamedOf(ty)
			if n == nil {
				return all
			}
			typesSeen[n.String()] = true
		}
	}
	var out []*ssa.Function
	for _, g := range all {
		if g.Signature.Recv() != nil {
			if n := core.NamedOf(g.Signature.Recv().Type()); n != nil && typesSeen[n.String()] {
				out = append(out, g)
			}
		}
	}
	if len(out) == 0 {
		return all
	}
	return out
}
