package rules

import (
	"fmt"
	"strconv"
	"strings"

	"iocvet/internal/absint"
)

// stringModels installs concrete models of the text functions the tag grammar uses.  The standard library ones are the
// standard library itself; the bracket-aware splitter github.com/go-kid/strings2 (v0.0.1, a pinned external module) is
// modelled by a transcription of its algorithm.
func stringModels(t *tbl) {
	str := func(v absint.Value) string {
		s, ok := v.(absint.Str)
		if !ok {
			panic(&absint.Undecided{Msg: "string function on a non-literal: " + absint.Show(v)})
		}
		return string(s)
	}
	list := func(xs []string) absint.Value {
		l := &absint.List{IsNil: xs == nil}
		for _, x := range xs {
			l.Elems = append(l.Elems, absint.Str(x))
		}
		return l
	}
	s1 := func(f func(string) string) func(*absint.Interp, []absint.Value) absint.Value {
		return func(ip *absint.Interp, a []absint.Value) absint.Value { return absint.Str(f(str(a[0]))) }
	}
	// strings.Builder, literally: the text written so far per builder object (opaque once something non-literal went in)
	type bstate struct {
		text   string
		opaque bool
	}
	builders := map[absint.Value]*bstate{}
	bof := func(v absint.Value) *bstate {
		b := builders[v]
		if b == nil {
			b = &bstate{}
			builders[v] = b
		}
		return b
	}
	t.ext["(*strings.Builder).WriteString"] = func(ip *absint.Interp, a []absint.Value) absint.Value {
		b := bof(a[0])
		if x, ok := a[1].(absint.Str); ok && !b.opaque {
			b.text += string(x)
			return absint.Tuple{absint.Int(len(x)), absint.Nil{}}
		}
		b.opaque = true
		return absint.Tuple{&absint.Opaque{Why: "n"}, absint.Nil{}}
	}
	t.ext["(*strings.Builder).WriteByte"] = func(ip *absint.Interp, a []absint.Value) absint.Value {
		b := bof(a[0])
		if x, ok := a[1].(absint.Int); ok && !b.opaque {
			b.text += string([]byte{byte(x)})
		} else {
			b.opaque = true
		}
		return absint.Nil{}
	}
	t.ext["(*strings.Builder).WriteRune"] = func(ip *absint.Interp, a []absint.Value) absint.Value {
		b := bof(a[0])
		if x, ok := a[1].(absint.Int); ok && !b.opaque {
			b.text += string(rune(x))
		} else {
			b.opaque = true
		}
		return absint.Tuple{&absint.Opaque{Why: "n"}, absint.Nil{}}
	}
	t.ext["(*strings.Builder).String"] = func(ip *absint.Interp, a []absint.Value) absint.Value {
		if b := bof(a[0]); !b.opaque {
			return absint.Str(b.text)
		}
		return &absint.Opaque{Why: "text"}
	}
	t.ext["(*strings.Builder).Len"] = func(ip *absint.Interp, a []absint.Value) absint.Value {
		if b := bof(a[0]); !b.opaque {
			return absint.Int(len(b.text))
		}
		return &absint.Opaque{Why: "length"}
	}
	t.ext["(*strings.Builder).Grow"] = func(ip *absint.Interp, a []absint.Value) absint.Value { return nil }
	t.ext["(*strings.Builder).Reset"] = func(ip *absint.Interp, a []absint.Value) absint.Value {
		*bof(a[0]) = bstate{}
		return nil
	}
	t.ext["strings.ToUpper"] = s1(strings.ToUpper)
	t.ext["strings.ToLower"] = s1(strings.ToLower)
	t.ext["strings.TrimSpace"] = s1(strings.TrimSpace)
	t.ext["strings.Title"] = s1(strings.Title)
	t.ext["strings.Index"] = func(ip *absint.Interp, a []absint.Value) absint.Value {
		return absint.Int(strings.Index(str(a[0]), str(a[1])))
	}
	t.ext["strings.LastIndex"] = func(ip *absint.Interp, a []absint.Value) absint.Value {
		return absint.Int(strings.LastIndex(str(a[0]), str(a[1])))
	}
	t.ext["strings.IndexByte"] = func(ip *absint.Interp, a []absint.Value) absint.Value {
		b, _ := a[1].(absint.Int)
		return absint.Int(strings.IndexByte(str(a[0]), byte(b)))
	}
	t.ext["strings.Contains"] = func(ip *absint.Interp, a []absint.Value) absint.Value {
		return absint.Bool(strings.Contains(str(a[0]), str(a[1])))
	}
	t.ext["strings.HasPrefix"] = func(ip *absint.Interp, a []absint.Value) absint.Value {
		return absint.Bool(strings.HasPrefix(str(a[0]), str(a[1])))
	}
	t.ext["strings.HasSuffix"] = func(ip *absint.Interp, a []absint.Value) absint.Value {
		return absint.Bool(strings.HasSuffix(str(a[0]), str(a[1])))
	}
	t.ext["strings.EqualFold"] = func(ip *absint.Interp, a []absint.Value) absint.Value {
		return absint.Bool(strings.EqualFold(str(a[0]), str(a[1])))
	}
	t.ext["strings.TrimPrefix"] = func(ip *absint.Interp, a []absint.Value) absint.Value {
		return absint.Str(strings.TrimPrefix(str(a[0]), str(a[1])))
	}
	t.ext["strings.TrimSuffix"] = func(ip *absint.Interp, a []absint.Value) absint.Value {
		return absint.Str(strings.TrimSuffix(str(a[0]), str(a[1])))
	}
	t.ext["strings.Trim"] = func(ip *absint.Interp, a []absint.Value) absint.Value {
		return absint.Str(strings.Trim(str(a[0]), str(a[1])))
	}
	t.ext["strings.Split"] = func(ip *absint.Interp, a []absint.Value) absint.Value {
		return list(strings.Split(str(a[0]), str(a[1])))
	}
	t.ext["strings.SplitN"] = func(ip *absint.Interp, a []absint.Value) absint.Value {
		n, _ := a[2].(absint.Int)
		return list(strings.SplitN(str(a[0]), str(a[1]), int(n)))
	}
	t.ext["strings.Fields"] = func(ip *absint.Interp, a []absint.Value) absint.Value { return list(strings.Fields(str(a[0]))) }
	t.ext["strings.Cut"] = func(ip *absint.Interp, a []absint.Value) absint.Value {
		b, af, f := strings.Cut(str(a[0]), str(a[1]))
		return absint.Tuple{absint.Str(b), absint.Str(af), absint.Bool(f)}
	}
	t.ext["strings.CutPrefix"] = func(ip *absint.Interp, a []absint.Value) absint.Value {
		af, f := strings.CutPrefix(str(a[0]), str(a[1]))
		return absint.Tuple{absint.Str(af), absint.Bool(f)}
	}
	t.ext["strings.CutSuffix"] = func(ip *absint.Interp, a []absint.Value) absint.Value {
		b, f := strings.CutSuffix(str(a[0]), str(a[1]))
		return absint.Tuple{absint.Str(b), absint.Bool(f)}
	}
	t.ext["strings.Count"] = func(ip *absint.Interp, a []absint.Value) absint.Value {
		return absint.Int(int64(strings.Count(str(a[0]), str(a[1]))))
	}
	t.ext["strings.Replace"] = func(ip *absint.Interp, a []absint.Value) absint.Value {
		n, _ := a[3].(absint.Int)
		return absint.Str(strings.Replace(str(a[0]), str(a[1]), str(a[2]), int(n)))
	}
	t.ext["strings.ReplaceAll"] = func(ip *absint.Interp, a []absint.Value) absint.Value {
		src, old, new := str(a[0]), str(a[1]), str(a[2])
		if n := strings.Count(src, old); len(src)+n*(len(new)-len(old)) > 1<<20 {
			panic(&absint.Undecided{Msg: "a text that keeps growing (beyond a megabyte): substitution does not come to an end"})
		}
		return absint.Str(strings.ReplaceAll(src, old, new))
	}
	t.ext["strings.Join"] = func(ip *absint.Interp, a []absint.Value) absint.Value {
		l, ok := a[0].(*absint.List)
		if !ok {
			panic(&absint.Undecided{Msg: "strings.Join on a non-list"})
		}
		var parts []string
		for _, e := range l.Elems {
			parts = append(parts, str(e))
		}
		return absint.Str(strings.Join(parts, str(a[1])))
	}
	t.ext["fmt.Sprintf"] = func(ip *absint.Interp, a []absint.Value) absint.Value {
		f, ok := a[0].(absint.Str)
		l, ok2 := a[1].(*absint.List)
		if !ok || (!ok2 && a[1] != nil) {
			return &absint.Opaque{Why: "text"}
		}
		var args []any
		if l != nil {
			for _, e := range l.Elems {
				switch x := e.(type) {
				case absint.Str:
					args = append(args, string(x))
				case absint.Int:
					args = append(args, int64(x))
				case absint.Bool:
					args = append(args, bool(x))
				default:
					return &absint.Opaque{Why: "text"}
				}
			}
		}
		return absint.Str(fmt.Sprintf(string(f), args...))
	}
	t.ext["strconv.ParseBool"] = func(ip *absint.Interp, a []absint.Value) absint.Value {
		b, err := strconv.ParseBool(str(a[0]))
		if err != nil {
			return absint.Tuple{absint.Bool(false), t.newErr("ParseBool")}
		}
		return absint.Tuple{absint.Bool(b), absint.Nil{}}
	}
	t.ext["strconv.Atoi"] = func(ip *absint.Interp, a []absint.Value) absint.Value {
		n, err := strconv.Atoi(str(a[0]))
		if err != nil {
			return absint.Tuple{absint.Int(0), t.newErr("Atoi")}
		}
		return absint.Tuple{absint.Int(n), absint.Nil{}}
	}
	t.ext["strconv.FormatBool"] = func(ip *absint.Interp, a []absint.Value) absint.Value {
		b, ok := a[0].(absint.Bool)
		if !ok {
			panic(&absint.Undecided{Msg: "FormatBool of a non-literal"})
		}
		if b {
			return absint.Str("true")
		}
		return absint.Str("false")
	}
	t.ext["strconv.Itoa"] = func(ip *absint.Interp, a []absint.Value) absint.Value {
		n, _ := a[0].(absint.Int)
		return absint.Str(strconv.Itoa(int(n)))
	}
	// ---- github.com/go-kid/strings2 v0.0.1
	blocksOf := func(v absint.Value) bool {
		// the only setting in use: DefaultSplitBlock (a package-level function value); any non-empty option list is taken as it
		l, ok := v.(*absint.List)
		return ok && len(l.Elems) > 0
	}
	t.ext["github.com/go-kid/strings2.Split"] = func(ip *absint.Interp, a []absint.Value) absint.Value {
		var left, right []string
		if len(a) > 2 && blocksOf(a[2]) {
			left, right = s2Left, s2Right
		}
		return list(s2Split(str(a[0]), str(a[1]), -1, left, right))
	}
	t.ext["github.com/go-kid/strings2.SplitN"] = func(ip *absint.Interp, a []absint.Value) absint.Value {
		n, _ := a[2].(absint.Int)
		var left, right []string
		if len(a) > 3 && blocksOf(a[3]) {
			left, right = s2Left, s2Right
		}
		return list(s2Split(str(a[0]), str(a[1]), int(n), left, right))
	}
	t.ext["github.com/go-kid/strings2.IndexSkipBlocks"] = func(ip *absint.Interp, a []absint.Value) absint.Value {
		return absint.Int(s2Index(str(a[0]), str(a[1]), s2Left, s2Right))
	}
}

var s2Left, s2Right = []string{"{", "[", "("}, []string{"}", "]", ")"}

// s2Index transcribes strings2.Index.
func s2Index(s, sep string, left, right []string) int {
	has := func(set []string, b byte) bool {
		for _, x := range set {
			if string(b) == x {
				return true
			}
		}
		return false
	}
	idx := strings.Index(s, sep)
	if idx == -1 {
		return idx
	}
	in := 0
	for i := 0; i < len(s); i++ {
		a := s[i]
		if has(left, a) {
			in++
			continue
		}
		if has(right, a) {
			in--
			if in == 0 {
				idx = strings.Index(s[i+1:], sep)
				if idx == -1 {
					return idx
				}
				idx = idx + i + 1
			}
			continue
		}
		if in == 0 && idx <= i {
			if idx != i {
				idx = strings.Index(s[i:], sep) + i
			} else {
				break
			}
		}
	}
	return idx
}

// s2Split transcribes strings2.SplitWithConfig (After=false).
func s2Split(s, sep string, n int, left, right []string) []string {
	if n == 0 {
		return nil
	}
	if sep == "" {
		panic(&absint.Undecided{Msg: "strings2.Split with an empty separator is not modelled"})
	}
	if n < 0 {
		n = strings.Count(s, sep) + 1
	}
	if n > len(s)+1 {
		n = len(s) + 1
	}
	a := make([]string, n)
	n--
	i := 0
	for i < n {
		m := s2Index(s, sep, left, right)
		if m < 0 {
			break
		}
		a[i] = s[:m]
		s = s[m+len(sep):]
		i++
	}
	a[i] = s
	return a[:i+1]
}
